//go:build cgo && !no_cgo

package main

import (
	"fmt"
	"math/rand/v2"

	"github.com/onflow/crypto"
	"github.com/onflow/crypto/hash"
)

// recording DKG processor for a deterministic in-process run
type proc struct {
	id   int
	net  *network
	logs *[]string
}
type msg struct {
	from, to int // to = -1: broadcast
	data     []byte
}
type network struct{ queue []msg }

func (p *proc) PrivateSend(dest int, data []byte) {
	p.net.queue = append(p.net.queue, msg{p.id, dest, append([]byte{}, data...)})
}
func (p *proc) Broadcast(data []byte) {
	p.net.queue = append(p.net.queue, msg{p.id, -1, append([]byte{}, data...)})
}
func (p *proc) Disqualify(i int, _ string)      { *p.logs = append(*p.logs, fmt.Sprintf("%d disq %d", p.id, i)) }
func (p *proc) FlagMisbehavior(i int, _ string) { *p.logs = append(*p.logs, fmt.Sprintf("%d flag %d", p.id, i)) }

func blsTranscript(r *rand.Rand, n int) {
	for i := 0; i < n; i++ {
		seed := rb(r, 32+r.IntN(32))
		sk, err := crypto.GeneratePrivateKey(crypto.BLSBLS12381, seed)
		if err != nil {
			panic(err)
		}
		emit("bls_keygen", seed, sk.Encode())
		emit("bls_pk", seed, sk.PublicKey().Encode())
		m := rb(r, r.IntN(100))
		tag := fmt.Sprintf("tag%d", r.IntN(5))
		hs := crypto.NewExpandMsgXOFKMAC128(tag)
		s, _ := sk.Sign(m, hs)
		emit("bls_sign", append(append([]byte{}, seed...), m...), s)
		ok, _ := sk.PublicKey().Verify(s, m, hs)
		bad := append([]byte{}, s...)
		bad[5] ^= 4
		ok2, _ := sk.PublicKey().Verify(bad, m, hs)
		emits("bls_verify", s, fmt.Sprint(ok, ok2))
		pop, _ := crypto.BLSGeneratePOP(sk)
		okp, _ := crypto.BLSVerifyPOP(sk.PublicKey(), pop)
		emit("bls_pop", seed, pop)
		emits("bls_pop_verify", pop, fmt.Sprint(okp))
		// aggregation over a few keys
		var sks []crypto.PrivateKey
		var pks []crypto.PublicKey
		var sigs []crypto.Signature
		var msgs [][]byte
		var hss []hash.Hasher
		for j := 0; j < 2+r.IntN(3); j++ {
			k, _ := crypto.GeneratePrivateKey(crypto.BLSBLS12381, rb(r, 32))
			sg, _ := k.Sign(m, hs)
			sks, pks, sigs = append(sks, k), append(pks, k.PublicKey()), append(sigs, sg)
			msgs, hss = append(msgs, m), append(hss, hs)
		}
		ask, _ := crypto.AggregateBLSPrivateKeys(sks)
		apk, _ := crypto.AggregateBLSPublicKeys(pks)
		asg, _ := crypto.AggregateBLSSignatures(sigs)
		emit("bls_agg_sk", seed, ask.Encode())
		emit("bls_agg_pk", seed, apk.Encode())
		emit("bls_agg_sig", seed, asg)
		v1, _ := crypto.VerifyBLSSignatureOneMessage(pks, asg, m, hs)
		v2, _ := crypto.VerifyBLSSignatureManyMessages(pks, asg, msgs, hss)
		bv, _ := crypto.BatchVerifyBLSSignaturesOneMessage(pks, sigs, m, hs)
		emits("bls_agg_verify", asg, fmt.Sprint(v1, v2, bv))
		// SPoCK
		p1, _ := crypto.SPOCKProve(sks[0], m, hs)
		p2, _ := crypto.SPOCKProve(sks[1], m, hs)
		sv, _ := crypto.SPOCKVerify(pks[0], p1, pks[1], p2)
		emits("bls_spock", p1, fmt.Sprint(sv))
		// threshold
		tn := 3 + r.IntN(4)
		tt := 1 + r.IntN(tn-1)
		tsk, tpk, gpk, err := crypto.BLSThresholdKeyGen(tn, tt, seed)
		if err != nil {
			panic(err)
		}
		var sh []crypto.Signature
		var idx []int
		for j := 0; j <= tt; j++ {
			sj, _ := tsk[j].Sign(m, hs)
			sh, idx = append(sh, sj), append(idx, j)
		}
		rec, _ := crypto.BLSReconstructThresholdSignature(tn, tt, sh, idx)
		emit("bls_threshold_group_pk", seed, gpk.Encode())
		emit("bls_threshold_share_pk", seed, tpk[tn-1].Encode())
		emit("bls_threshold_reconstruct", seed, rec)
	}
	// one seeded Joint-Feldman run, synchronous delivery
	const dn, dt = 3, 1
	var logs []string
	net := &network{}
	var inst []crypto.DKGState
	for i := 0; i < dn; i++ {
		d, err := crypto.NewJointFeldman(dn, dt, i, &proc{i, net, &logs})
		if err != nil {
			panic(err)
		}
		inst = append(inst, d)
	}
	deliver := func() {
		for len(net.queue) > 0 {
			q := net.queue
			net.queue = nil
			for _, mm := range q {
				emit(fmt.Sprintf("dkg_msg_%d_%d", mm.from, mm.to), nil, mm.data)
				for j := 0; j < dn; j++ {
					if j == mm.from {
						continue
					}
					if mm.to == -1 {
						_ = inst[j].HandleBroadcastMsg(mm.from, mm.data)
					} else if mm.to == j {
						_ = inst[j].HandlePrivateMsg(mm.from, mm.data)
					}
				}
			}
		}
	}
	for i := 0; i < dn; i++ {
		if err := inst[i].Start(rb(r, 32)); err != nil {
			panic(err)
		}
	}
	deliver()
	for i := 0; i < dn; i++ {
		_ = inst[i].NextTimeout()
	}
	deliver()
	for i := 0; i < dn; i++ {
		_ = inst[i].NextTimeout()
	}
	deliver()
	for i := 0; i < dn; i++ {
		x, Y, ys, err := inst[i].End()
		if err != nil {
			emits(fmt.Sprintf("dkg_end_%d", i), nil, "error")
			continue
		}
		emit(fmt.Sprintf("dkg_end_share_%d", i), nil, x.Encode())
		emit(fmt.Sprintf("dkg_end_group_%d", i), nil, Y.Encode())
		emit(fmt.Sprintf("dkg_end_pk0_%d", i), nil, ys[0].Encode())
	}
	emits("dkg_logs", nil, fmt.Sprint(logs))
}
