(* Reference codecs written from the ZCash BLS12-381 serialization format
   (draft-irtf-cfrg-pairing-friendly-curves, appendix C) and from the scalar
   encoding the package documents (32-byte big-endian, 1 <= k < r), with literal
   sizes -- independent of coq/Generated/Consts.v and of the model of the C code.
   [e2_*_zcash] uses the order the format prescribes: x = c1 || c0 (imaginary part
   first).  [e2_*_flow] is the same format with c0 || c1, the order /repo uses
   (known finding g2-fp2-order).  Executed over BigZ. *)
From Coq Require Import ZArith NArith List Bool.
From Bignums Require Import BigZ.
From V Require Import Lib.Num Prim.Bls12.
Import ListNotations.
Open Scope Z_scope.

Definition be2z (b : list N) : Z := fold_left (fun acc x => acc * 256 + Z.of_N x) b 0.
Fixpoint z2be_rev (k : nat) (v : Z) : list N :=
  match k with O => [] | S k' => Z.to_N (v mod 256) :: z2be_rev k' (v / 256) end.
Definition z2be (k : nat) (v : Z) : list N := rev (z2be_rev k v).

Notation Fb := (BigZ.of_Z).
Notation Zb := (BigZ.to_Z).

(* scalars: exactly the 32-byte big-endian strings with 1 <= value < r *)
Definition sk_accepts (b : list N) : bool :=
  Nat.eqb (length b) 32 && (1 <=? be2z b) && (be2z b <? rZ).

Inductive pt1 := Inf1 | Aff1 (x y : Z).
Inductive pt2 := Inf2 | Aff2 (x0 x1 y0 y1 : Z).

Definition flags (b : list N) : (bool * bool * bool) :=
  match b with
  | h :: _ => (N.testbit h 7, N.testbit h 6, N.testbit h 5)
  | [] => (false, false, false)
  end.
Definition strip (b : list N) : list N :=
  match b with h :: t => N.land h 0x1F :: t | [] => [] end.

Definition g1_decode (b : list N) : option pt1 :=
  if negb (Nat.eqb (length b) 48) then None else
  let '(c, i, s) := flags b in
  if negb c then None else
  if i then (if negb s && forallb (N.eqb 0) (strip b) then Some Inf1 else None) else
  let x := be2z (strip b) in
  if negb (x <? pZ) then None else
  let xb := Fb x in
  match fsqrt BNum pB (fadd BNum pB (fmul BNum pB (fmul BNum pB xb xb) xb) (Fb 4)) with
  | None => None
  | Some y => let y' := if Bool.eqb (fsign BNum y) s then y else fneg BNum pB y in
              Some (Aff1 x (Zb y'))
  end.

Definition g1_encode (P : pt1) : list N :=
  match P with
  | Inf1 => 0xC0%N :: repeat 0%N 47
  | Aff1 x y =>
      match z2be 48 x with
      | h :: t => N.lor (N.lor h 0x80%N) (if (pZ - 1) / 2 <? y then 0x20%N else 0%N) :: t
      | [] => []
      end
  end.

(* G2 with a parameter: [im_first = true] is the ZCash order c1 || c0 *)
Definition g2_decode (im_first : bool) (b : list N) : option pt2 :=
  if negb (Nat.eqb (length b) 96) then None else
  let '(c, i, s) := flags b in
  if negb c then None else
  if i then (if negb s && forallb (N.eqb 0) (strip b) then Some Inf2 else None) else
  let hi := be2z (firstn 48 (strip b)) in
  let lo := be2z (skipn 48 b) in
  let x0 := if im_first then lo else hi in
  let x1 := if im_first then hi else lo in
  if negb ((x0 <? pZ) && (x1 <? pZ)) then None else
  let x := (Fb x0, Fb x1) in
  match f2sqrt BNum pB (f2add BNum pB (f2mul BNum pB (f2mul BNum pB x x) x) (Fb 4, Fb 4)) with
  | None => None
  | Some y => let y' := if Bool.eqb (f2sign BNum y) s then y else f2neg BNum pB y in
              Some (Aff2 x0 x1 (Zb (fst y')) (Zb (snd y')))
  end.

Definition g2_encode (im_first : bool) (P : pt2) : list N :=
  match P with
  | Inf2 => 0xC0%N :: repeat 0%N 95
  | Aff2 x0 x1 y0 y1 =>
      let sgn := if y1 =? 0 then (pZ - 1) / 2 <? y0 else (pZ - 1) / 2 <? y1 in
      match (if im_first then z2be 48 x1 ++ z2be 48 x0 else z2be 48 x0 ++ z2be 48 x1) with
      | h :: t => N.lor (N.lor h 0x80%N) (if sgn then 0x20%N else 0%N) :: t
      | [] => []
      end
  end.

Definition pt2_in_G2 (P : pt2) : bool :=
  match P with
  | Inf2 => true
  | Aff2 x0 x1 y0 y1 =>
      e2_in_G2 BNum pB (of_affine (Fp2Ops BNum pB) (Fb x0, Fb x1) (Fb y0, Fb y1))
  end.
Definition pt1_in_G1 (P : pt1) : bool :=
  match P with
  | Inf1 => true
  | Aff1 x y => e1_in_G1 BNum pB (of_affine (FpOps BNum pB) (Fb x) (Fb y))
  end.

(* public keys: canonical compressed encodings of G2 elements, identity included *)
Definition pk_decode (im_first : bool) (b : list N) : option pt2 :=
  match g2_decode im_first b with
  | Some P => if pt2_in_G2 P then Some P else None
  | None => None
  end.

(* the standard generator of G2 (draft-irtf-cfrg-pairing-friendly-curves 4.2.1) *)
Definition g2_generator : pt2 :=
  Aff2 0x024aa2b2f08f0a91260805272dc51051c6e47ad4fa403b02b4510b647ae3d1770bac0326a805bbefd48056c8c121bdb8
       0x13e02b6052719f607dacd3a088274f65596bd0d09920b61ab5da61bbdc7f5049334cf11213945d57e5ac7d055d042b7e
       0x0ce5d527727d6e118cc9cdc6da2e351aadfd9baa8cbdd3a76d429a695160d12c923ac9cc3baca289e193548608b82801
       0x0606c4a02ea734cc32acd2b02bc28b99cb3e287e85a763af267492ab572e99ab3f370d275cec1da1aaa9075ff05f79be.
