(* Declarative view of one Feldman-VSS-Qual instance at an honest participant p that is not
   the dealer d: the inputs it processed between Start and End, abstracted to a set of
   phase-tagged FACTS that do not depend on how the messages of different senders were
   interleaved, and the disqualification predicate Phi over those facts.

   Written from the protocol description (Gennaro et al. / the comments of
   dkg_feldmanvssq.go), not from the handlers:
     - the dealer's FIRST verification vector of phase 0 and its validity,
     - the dealer's FIRST private message of phase 0,
     - the set of complainers seen before the complaints timeout (the own complaint included),
     - the FIRST answer per complainer (one sender's broadcasts are FIFO),
     - malformed broadcasts of the dealer, ForceDisqualify.
   Phases: 0 before the shares timeout, 1 before the complaints timeout, 2 after it. *)
From Coq Require Import ZArith List Bool Arith.
From V Require Import Model.DkgVss.
Import ListNotations.
Open Scope Z_scope.

(* the inputs of a running instance *)
Inductive item :=
| IB (o : nat) (m : msg)      (* HandleBroadcastMsg(o, m) *)
| IP (o : nat) (m : msg)      (* HandlePrivateMsg(o, m) *)
| ITimeout                    (* NextTimeout() *)
| IForce (j : nat).           (* ForceDisqualify(j) *)

Definition call_of (x : item) : call :=
  match x with
  | IB o m => CBroadcast (Z.of_nat o) m
  | IP o m => CPrivate (Z.of_nat o) m
  | ITimeout => CNextTimeout
  | IForce j => CForce (Z.of_nat j)
  end.

Definition is_timeout (x : item) : bool := match x with ITimeout => true | _ => false end.

(* number of elapsed timeouts (a third NextTimeout is refused) *)
Definition ph (L : list item) : nat := Nat.min 2 (length (filter is_timeout L)).

(* every input with the phase in which it was processed *)
Fixpoint annot_from (k : nat) (L : list item) : list (nat * item) :=
  match L with
  | [] => []
  | x :: L' => (Nat.min 2 k, x) :: annot_from (if is_timeout x then S k else k) L'
  end.
Definition annot (L : list item) : list (nat * item) := annot_from 0 L.

Definition readable (z : Z) : bool := (0 <? z) && (z <? r).

Section Facts.
Variable cf : cfg.
Variable d : nat.

Let n := c_n cf.
Let t := c_t cf.
Let p := c_my cf.

Definition alist := list (nat * item).

(* ---- what the dealer broadcast (a function of the dealer's phase-tagged broadcast
        sequence only) ---- *)
Fixpoint vecF (A : alist) : option vbody :=
  match A with
  | [] => None
  | (k, IB o (MVec vb)) :: A' => if Nat.eqb o d && Nat.eqb k 0 then Some vb else vecF A'
  | _ :: A' => vecF A'
  end.

Definition vecOk (A : alist) : option (list Z) :=
  match vecF A with Some (VOk l) => Some (fixpoly t l) | _ => None end.

Definition badVec (A : alist) : bool :=
  match vecF A with Some VBadLen | Some (VBad _) => true | _ => false end.

(* a well-formed answer of the dealer for complainer c *)
Definition answer_for (c : nat) (o : nat) (m : msg) : option Z :=
  match m with
  | MAnswer (AVal b z) =>
      if Nat.eqb o d && negb (Z.of_nat n <=? b) && Nat.eqb (Z.to_nat b) c then Some z else None
  | _ => None
  end.

Fixpoint ansF (A : alist) (c : nat) : option Z :=
  match A with
  | [] => None
  | (k, IB o m) :: A' => match answer_for c o m with Some z => Some z | None => ansF A' c end
  | _ :: A' => ansF A' c
  end.

Fixpoint ansEarly (A : alist) (c : nat) : bool :=
  match A with
  | [] => false
  | (k, IB o m) :: A' =>
      (match answer_for c o m with Some _ => Nat.ltb k 2 | None => false end) || ansEarly A' c
  | _ :: A' => ansEarly A' c
  end.

(* a broadcast of the dealer that disqualifies it by itself in phase k *)
Definition fatal_msg (k : nat) (m : msg) : bool :=
  match m with
  | MEmpty | MShare _ | MOther _ => true
  | MComplaint CBadLen => Nat.ltb k 2
  | MComplaint (CIdx b) => Nat.ltb k 2 && (Z.of_nat n <=? b)
  | MAnswer ABadLen => true
  | MAnswer (AVal b _) => Z.of_nat n <=? b
  | MVec _ => false
  end.

Fixpoint fatal (A : alist) : bool :=
  match A with
  | [] => false
  | (k, IB o m) :: A' => (Nat.eqb o d && fatal_msg k m) || fatal A'
  | _ :: A' => fatal A'
  end.

(* the first answer for some complainer carries an unreadable share (0 or >= r) *)
Definition badFirst (A : alist) : bool :=
  existsb (fun c => match ansF A c with Some z => negb (readable z) | None => false end) (seq 0 n).

(* ---- the other participants' complaints ---- *)
Definition complaint_of (c : nat) (k : nat) (o : nat) (m : msg) : bool :=
  match m with
  | MComplaint (CIdx b) =>
      Nat.eqb o c && negb (Nat.eqb c d) && negb (Nat.eqb c p) && Nat.ltb c n &&
      negb (Z.of_nat n <=? b) && Nat.eqb (Z.to_nat b) d && Nat.ltb k 2
  | _ => false
  end.

Fixpoint compF (A : alist) (c : nat) : bool :=
  match A with
  | [] => false
  | (k, IB o m) :: A' => complaint_of c k o m || compF A' c
  | _ :: A' => compF A' c
  end.

(* ---- local inputs ---- *)
Fixpoint shF (A : alist) : option msg :=
  match A with
  | [] => None
  | (k, IP o m) :: A' => if Nat.eqb o d && Nat.eqb k 0 then Some m else shF A'
  | _ :: A' => shF A'
  end.

Fixpoint forced (A : alist) : bool :=
  match A with
  | [] => false
  | (_, IForce j) :: A' => Nat.eqb j d || forced A'
  | _ :: A' => forced A'
  end.

(* number of elapsed timeouts *)
Definition nph (A : alist) : nat :=
  Nat.min 2 (length (filter (fun kx => is_timeout (snd kx)) A)).

(* the own complaint: the private message of the dealer was malformed, or did not match the
   valid vector, or did not come before the shares timeout (and the vector was valid) *)
Definition ownc (A : alist) : bool :=
  match shF A with
  | Some (MShare (SVal z)) =>
      if readable z then
        match vecOk A with
        | Some a => negb (z =? peval a (Z.of_nat p + 1))
        | None => false
        end
      else true
  | Some _ => true
  | None => Nat.leb 1 (nph A) && (match vecOk A with Some _ => true | None => false end)
  end.

Definition complained (A : alist) (c : nat) : bool :=
  if Nat.eqb c p then ownc A else compF A c.

(* ---- the verdict ---- *)
Definition noVec (A : alist) : bool :=
  Nat.leb 1 (nph A) && (match vecF A with None => true | Some _ => false end).

Definition keyF (A : alist) (c : nat) : bool := complained A c || ansEarly A c.

Definition nkeys (A : alist) : nat := length (filter (keyF A) (seq 0 n)).

Definition tooMany (A : alist) : bool := Nat.leb 2 (nph A) && Nat.ltb t (nkeys A).

Definition wrongAns (A : alist) : bool :=
  match vecOk A with
  | None => false
  | Some a =>
      existsb (fun c => complained A c &&
                        match ansF A c with
                        | Some z => readable z && negb (z =? peval a (Z.of_nat c + 1))
                        | None => false
                        end) (seq 0 n)
  end.

Definition Phi (A : alist) : bool :=
  forced A || fatal A || badFirst A || badVec A || noVec A || tooMany A || wrongAns A.

(* at End: additionally a complaint that was never answered *)
Definition unansweredF (A : alist) : bool :=
  existsb (fun c => complained A c && match ansF A c with None => true | Some _ => false end) (seq 0 n).

Definition PhiEnd (A : alist) : bool := Phi A || unansweredF A.

End Facts.
