(* Reference specification of hash-to-curve for BLS12-381 G1, written from RFC 9380:
     section 5.2   hash_to_field for m = 1, L = 64: u_i = OS2IP(64 bytes) mod p
     section 6.6.2 simplified SWU for AB != 0 (the straight-line description, affine, with inv0)
     section 6.6.3 / Appendix E.2: the 11-isogeny E1' -> E1 as rational maps
     section 3     hash_to_curve: Q0 = map(u0), Q1 = map(u1), R = Q0 + Q1, P = clear_cofactor(R)
     section 8.8.1 E1': y^2 = x^3 + A' x + B', Z = 11, h_eff = 0xd201000000010001
   Independent of the Model and of the sources: affine arithmetic with field inversions, checked
   square roots of Prim/Bls12.v, no precomputed -A', Z*A', sqrt(-Z^3); the numeric constants
   (A', B', k_(i,j)) are literals of this file (Properties/C01.v checks them against the known
   answers of RFC 9380 Appendix J.9.1 and against the tables regenerated from the C source).
   Executable over Lib/Num.v. *)
From Coq Require Import ZArith NArith List Bool.
From V Require Import Lib.Num Prim.Bls12 Spec.ZcashCodec.
Import ListNotations.
Open Scope Z_scope.

Definition h_eff_G1 : Z := 0xd201000000010001.   (* RFC 9380 section 8.8.1 *)
Definition sswu_Z_G1 : Z := 11.                   (* RFC 9380 section 8.8.1 *)
(* E1': y^2 = x^3 + A' x + B'  (RFC 9380 section 8.8.1) *)
Definition rfc_Aprime : Z := 0x144698a3b8e9433d693a02c96d4982b0ea985383ee66a8d8e8981aefd881ac98936f8da0e0f97f5cf428082d584c1d.
Definition rfc_Bprime : Z := 0x12e2908d11688030018b12e8753eee3b2016c1f0f24f4070a0b9c14fcef35ef55a23215a316ceaa5d1cc48e98e172be0.
(* RFC 9380 Appendix E.2: k_(1,i), k_(2,i), k_(3,i), k_(4,i), index i first *)
Definition rfc_k1 : list Z := [
  0x11a05f2b1e833340b809101dd99815856b303e88a2d7005ff2627b56cdb4e2c85610c2d5f2e62d6eaeac1662734649b7;
  0x17294ed3e943ab2f0588bab22147a81c7c17e75b2f6a8417f565e33c70d1e86b4838f2a6f318c356e834eef1b3cb83bb;
  0xd54005db97678ec1d1048c5d10a9a1bce032473295983e56878e501ec68e25c958c3e3d2a09729fe0179f9dac9edcb0;
  0x1778e7166fcc6db74e0609d307e55412d7f5e4656a8dbf25f1b33289f1b330835336e25ce3107193c5b388641d9b6861;
  0xe99726a3199f4436642b4b3e4118e5499db995a1257fb3f086eeb65982fac18985a286f301e77c451154ce9ac8895d9;
  0x1630c3250d7313ff01d1201bf7a74ab5db3cb17dd952799b9ed3ab9097e68f90a0870d2dcae73d19cd13c1c66f652983;
  0xd6ed6553fe44d296a3726c38ae652bfb11586264f0f8ce19008e218f9c86b2a8da25128c1052ecaddd7f225a139ed84;
  0x17b81e7701abdbe2e8743884d1117e53356de5ab275b4db1a682c62ef0f2753339b7c8f8c8f475af9ccb5618e3f0c88e;
  0x80d3cf1f9a78fc47b90b33563be990dc43b756ce79f5574a2c596c928c5d1de4fa295f296b74e956d71986a8497e317;
  0x169b1f8e1bcfa7c42e0c37515d138f22dd2ecb803a0c5c99676314baf4bb1b7fa3190b2edc0327797f241067be390c9e;
  0x10321da079ce07e272d8ec09d2565b0dfa7dccdde6787f96d50af36003b14866f69b771f8c285decca67df3f1605fb7b;
  0x6e08c248e260e70bd1e962381edee3d31d79d7e22c837bc23c0bf1bc24c6b68c24b1b80b64d391fa9c8ba2e8ba2d229].
Definition rfc_k2 : list Z := [
  0x8ca8d548cff19ae18b2e62f4bd3fa6f01d5ef4ba35b48ba9c9588617fc8ac62b558d681be343df8993cf9fa40d21b1c;
  0x12561a5deb559c4348b4711298e536367041e8ca0cf0800c0126c2588c48bf5713daa8846cb026e9e5c8276ec82b3bff;
  0xb2962fe57a3225e8137e629bff2991f6f89416f5a718cd1fca64e00b11aceacd6a3d0967c94fedcfcc239ba5cb83e19;
  0x3425581a58ae2fec83aafef7c40eb545b08243f16b1655154cca8abc28d6fd04976d5243eecf5c4130de8938dc62cd8;
  0x13a8e162022914a80a6f1d5f43e7a07dffdfc759a12062bb8d6b44e833b306da9bd29ba81f35781d539d395b3532a21e;
  0xe7355f8e4e667b955390f7f0506c6e9395735e9ce9cad4d0a43bcef24b8982f7400d24bc4228f11c02df9a29f6304a5;
  0x772caacf16936190f3e0c63e0596721570f5799af53a1894e2e073062aede9cea73b3538f0de06cec2574496ee84a3a;
  0x14a7ac2a9d64a8b230b3f5b074cf01996e7f63c21bca68a81996e1cdf9822c580fa5b9489d11e2d311f7d99bbdcc5a5e;
  0xa10ecf6ada54f825e920b3dafc7a3cce07f8d1d7161366b74100da67f39883503826692abba43704776ec3a79a1d641;
  0x95fc13ab9e92ad4476d6e3eb3a56680f682b4ee96f7d03776df533978f31c1593174e4b4b7865002d6384d168ecdd0a].
Definition rfc_k3 : list Z := [
  0x90d97c81ba24ee0259d1f094980dcfa11ad138e48a869522b52af6c956543d3cd0c7aee9b3ba3c2be9845719707bb33;
  0x134996a104ee5811d51036d776fb46831223e96c254f383d0f906343eb67ad34d6c56711962fa8bfe097e75a2e41c696;
  0xcc786baa966e66f4a384c86a3b49942552e2d658a31ce2c344be4b91400da7d26d521628b00523b8dfe240c72de1f6;
  0x1f86376e8981c217898751ad8746757d42aa7b90eeb791c09e4a3ec03251cf9de405aba9ec61deca6355c77b0e5f4cb;
  0x8cc03fdefe0ff135caf4fe2a21529c4195536fbe3ce50b879833fd221351adc2ee7f8dc099040a841b6daecf2e8fedb;
  0x16603fca40634b6a2211e11db8f0a6a074a7d0d4afadb7bd76505c3d3ad5544e203f6326c95a807299b23ab13633a5f0;
  0x4ab0b9bcfac1bbcb2c977d027796b3ce75bb8ca2be184cb5231413c4d634f3747a87ac2460f415ec961f8855fe9d6f2;
  0x987c8d5333ab86fde9926bd2ca6c674170a05bfe3bdd81ffd038da6c26c842642f64550fedfe935a15e4ca31870fb29;
  0x9fc4018bd96684be88c9e221e4da1bb8f3abd16679dc26c1e8b6e6a1f20cabe69d65201c78607a360370e577bdba587;
  0xe1bba7a1186bdb5223abde7ada14a23c42a0ca7915af6fe06985e7ed1e4d43b9b3f7055dd4eba6f2bafaaebca731c30;
  0x19713e47937cd1be0dfd0b8f1d43fb93cd2fcbcb6caf493fd1183e416389e61031bf3a5cce3fbafce813711ad011c132;
  0x18b46a908f36f6deb918c143fed2edcc523559b8aaf0c2462e6bfe7f911f643249d9cdf41b44d606ce07c8a4d0074d8e;
  0xb182cac101b9399d155096004f53f447aa7b12a3426b08ec02710e807b4633f06c851c1919211f20d4c04f00b971ef8;
  0x245a394ad1eca9b72fc00ae7be315dc757b3b080d4c158013e6632d3c40659cc6cf90ad1c232a6442d9d3f5db980133;
  0x5c129645e44cf1102a159f748c4a3fc5e673d81d7e86568d9ab0f5d396a7ce46ba1049b6579afb7866b1e715475224b;
  0x15e6be4e990f03ce4ea50b3b42df2eb5cb181d8f84965a3957add4fa95af01b2b665027efec01c7704b456be69c8b604].
Definition rfc_k4 : list Z := [
  0x16112c4c3a9c98b252181140fad0eae9601a6de578980be6eec3232b5be72e7a07f3688ef60c206d01479253b03663c1;
  0x1962d75c2381201e1a0cbd6c43c348b885c84ff731c4d59ca4a10356f453e01f78a4260763529e3532f6102c2e49a03d;
  0x58df3306640da276faaae7d6e8eb15778c4855551ae7f310c35a5dd279cd2eca6757cd636f96f891e2538b53dbf67f2;
  0x16b7d288798e5395f20d23bf89edb4d1d115c5dbddbcd30e123da489e726af41727364f2c28297ada8d26d98445f5416;
  0xbe0e079545f43e4b00cc912f8228ddcc6d19c9f0f69bbb0542eda0fc9dec916a20b15dc0fd2ededda39142311a5001d;
  0x8d9e5297186db2d9fb266eaac783182b70152c65550d881c5ecd87b6f0f5a6449f38db9dfa9cce202c6477faaf9b7ac;
  0x166007c08a99db2fc3ba8734ace9824b5eecfdfa8d0cf8ef5dd365bc400a0051d5fa9c01a58b1fb93d1a1399126a775c;
  0x16a3ef08be3ea7ea03bcddfabba6ff6ee5a4375efa1f4fd7feb34fd206357132b920f5b00801dee460ee415a15812ed9;
  0x1866c8ed336c61231a1be54fd1d74cc4f9fb0ce4c6af5920abc5750c4bf39b4852cfe2f7bb9248836b233d9d55535d4a;
  0x167a55cda70a6e1cea820597d94a84903216f763e13d87bb5308592e7ea7d4fbc7385ea3d529b35e346ef48bb8913f55;
  0x4d2f259eea405bd48f010a01ad2911d9c6dd039bb61a6290e591b36e636a5c871a5c29f4f83060400f8b49cba8f6aa8;
  0xaccbb67481d033ff5852c1e48c50c477f94ff8aefce42d28c0f9a88cea7913516f968986f7ebbea9684b529e2561092;
  0xad6b9514c767fe3c3613144b45f1496543346d98adf02267d5ceef9a00d9b8693000763e3b90ac11e99b138573345cc;
  0x2660400eb2e4f3b628bdd0d53cd76f2bf565b94e72927c1cb748df27942480e420517bd8714cc80d1fadc1326ed06f7;
  0xe0fa1d816ddc03e6b24255e0d7819c171c40f65e273b853324efcd6356caa205ca2f570f13497804415473a1d634b8f].

Section Spec.
Context {T : Type} (M : num T) (p : T).
Local Notation zero := (n_of_Z M 0).
Local Notation one := (n_of_Z M 1).
Local Notation add := (fadd M p).
Local Notation sub := (fsub M p).
Local Notation mul := (fmul M p).
Local Notation neg := (fneg M p).
Local Notation inv := (finv M p).      (* x^(p-2): inv0 of the RFC, 0 -> 0 *)
Local Notation eqb := (feqb M).

Definition spec_sgn0 (a : T) : bool := n_eqb M (n_mod M a (n_of_Z M 2)) one.

Section Curve.
Variables (A B : T).
Definition g (x : T) : T := add (add (mul (mul x x) x) (mul A x)) B.

(* RFC 9380 section 6.6.2, steps 1-9 *)
Definition spec_sswu (Z u : T) : T * T :=
  let zu2 := mul Z (mul u u) in
  let tv1 := inv (add (mul zu2 zu2) zu2) in
  let x1 := if eqb tv1 zero then mul B (inv (mul Z A))
            else mul (mul (neg B) (inv A)) (add one tv1) in
  let gx1 := g x1 in
  let x2 := mul zu2 x1 in
  let gx2 := g x2 in
  let xy := match fsqrt M p gx1 with
            | Some y => (x1, y)
            | None => match fsqrt M p gx2 with
                      | Some y => (x2, y)
                      | None => (x2, zero)   (* cannot happen: gx1 or gx2 is a square *)
                      end
            end in
  let y := snd xy in
  (fst xy, if xorb (spec_sgn0 u) (spec_sgn0 y) then neg y else y).

(* affine group law of y^2 = x^3 + A x + B; None is the point at infinity *)
Definition aff_add (P Q : option (T * T)) : option (T * T) :=
  match P, Q with
  | None, _ => Q
  | _, None => P
  | Some (x1, y1), Some (x2, y2) =>
      if eqb x1 x2 then
        if eqb y1 y2 then
          if eqb y1 zero then None else
          let l := mul (add (mul (n_of_Z M 3) (mul x1 x1)) A) (inv (add y1 y1)) in
          let x3 := sub (sub (mul l l) x1) x1 in
          Some (x3, sub (mul l (sub x1 x3)) y1)
        else None
      else
        let l := mul (sub y2 y1) (inv (sub x2 x1)) in
        let x3 := sub (sub (mul l l) x1) x2 in
        Some (x3, sub (mul l (sub x1 x3)) y1)
  end.
End Curve.

(* k_0 + k_1 x + ... *)
Definition poly_eval (ks : list T) (x : T) : T :=
  fold_right (fun k acc => add k (mul acc x)) zero ks.

(* RFC 9380 Appendix E.2; x_den and y_den are monic *)
Definition spec_iso_map (xn xd yn yd : list T) (P : option (T * T)) : option (T * T) :=
  match P with
  | None => None
  | Some (x, y) =>
      let dx := poly_eval (xd ++ [one]) x in
      let dy := poly_eval (yd ++ [one]) x in
      if eqb dx zero then None else if eqb dy zero then None else
      Some (mul (poly_eval xn x) (inv dx), mul y (mul (poly_eval yn x) (inv dy)))
  end.

Definition spec_map_to_G1 (u0 u1 : Z) : option (T * T) :=
  let A := n_of_Z M rfc_Aprime in
  let B := n_of_Z M rfc_Bprime in
  let Z := n_of_Z M sswu_Z_G1 in
  let f z := n_mod M (n_of_Z M z) p in
  let Q0 := spec_sswu A B Z (f u0) in
  let Q1 := spec_sswu A B Z (f u1) in
  let R := aff_add A (Some Q0) (Some Q1) in
  let tb := map (n_of_Z M) in
  match spec_iso_map (tb rfc_k1) (tb rfc_k2) (tb rfc_k3) (tb rfc_k4) R with
  | None => None
  | Some (x, y) => to_affine (FpOps M p) (jmul (FpOps M p) h_eff_G1 (of_affine (FpOps M p) x y))
  end.
End Spec.

From Bignums Require Import BigZ.
(* hash_to_field (L = 64, count = 2) followed by the map, on the XOF output *)
Definition spec_hash_bytes_to_G1 (hash : list N) : option pt1 :=
  if negb (Nat.eqb (List.length hash) 128) then None else
  match spec_map_to_G1 BNum pB (be2z (firstn 64 hash)) (be2z (skipn 64 hash)) with
  | None => Some Inf1
  | Some (x, y) => Some (Aff1 (BigZ.to_Z x) (BigZ.to_Z y))
  end.
