(* The documented API state machine of the three DKG protocols (dkg.go interface comments,
   NewFeldmanVSS / NewFeldmanVSSQual / NewJointFeldman and the per-method "The function
   returns" lists), written independently of the handlers.

   Documented contract:  "An instance is run by a single participant and is usable for only
   one protocol run.  In order to run the protocol again, a new instance needs to be
   created."  What Start does after End is therefore NOT specified.  The automaton below is
   total and, for a Start in a not-running state, keeps the number of elapsed timeouts: this
   is what the code does (the timeouts are never reset), it is irrelevant for single-use call
   sequences and made explicit by C10_reuse_keeps_timeouts.

   A Start that fails (seed too short) is documented to return an invalid-input error; such
   a refused call leaves the instance as it was (not running). *)
From Coq Require Import ZArith List Bool Arith.
From V Require Import Model.DkgVss.
Import ListNotations.
Open Scope Z_scope.

Inductive proto := PVss | PQual | PJoint.

(* result classes of the API *)
Inductive rclass :=
| KOk
| KInvalidInput
| KStateErr
| KBool (b : bool)
| KEnd.              (* End completed: keys or dkg-failure *)

Definition class_of (res : result) : option rclass :=
  match res with
  | ROk => Some KOk
  | RInvalidInput => Some KInvalidInput
  | RStateErr => Some KStateErr
  | RBool b => Some (KBool b)
  | RKeys _ _ _ => Some KEnd
  | RFailure => Some KEnd
  | RPanic => None
  | RUndef => None
  end.

(* Init = (false,0); Running phase k = (true,k); Ended = (false,k) after an End *)
Record astate := mkA { a_run : bool; a_to : nat }.
Definition a_init : astate := mkA false 0.

Section Aut.
Variable p : proto.
Variable cf : cfg.
Variable dealer : bool.    (* does Start generate shares (always for Joint-Feldman) *)

(* generateShares fails: seed shorter than KeyGenSeedMinLen, or (probability 1/r) the
   dealer's own share is zero *)
Definition seed_fails (sd : seed) : bool :=
  match sd with
  | SeedShort => true
  | SeedOk a => peval (fixpoly (c_t cf) a) (Z.of_nat (c_my cf) + 1) =? 0
  end.

Definition has_timeouts : bool := match p with PVss => false | _ => true end.

Definition aut_step (A : astate) (c : call) : astate * rclass :=
  match c with
  | CStart sd =>
      if a_run A then (A, KStateErr)
      else if dealer && seed_fails sd then (A, KInvalidInput)
      else (mkA true (a_to A), KOk)
  | CNextTimeout =>
      if negb has_timeouts then (A, KOk)
      else if negb (a_run A) then (A, KStateErr)
      else if (2 <=? a_to A)%nat then (A, KStateErr)
      else (mkA true (S (a_to A)), KOk)
  | CEnd =>
      if negb (a_run A) then (A, KStateErr)
      else if has_timeouts && (a_to A <? 2)%nat then (A, KStateErr)
      else (mkA false (a_to A), KEnd)
  | CRunning => (A, KBool (a_run A))
  | CBroadcast o _ | CPrivate o _ | CForce o =>
      if negb (a_run A) then (A, KStateErr)
      else if negb (in_range cf o) then (A, KInvalidInput)
      else (A, KOk)
  end.

Fixpoint aut_trace (A : astate) (cs : list call) : list rclass :=
  match cs with
  | [] => []
  | c :: cs' => let '(A', k) := aut_step A c in k :: aut_trace A' cs'
  end.

End Aut.

