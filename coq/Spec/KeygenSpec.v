(* Reference key derivations of property C12, written from the documents, not from the
   Go/C code:
   - BLS: draft-irtf-cfrg-bls-signature-05 section 2.3 KeyGen over HKDF-SHA256
       salt = "BLS-SIG-KEYGEN-SALT-"; SK = 0
       while SK == 0: salt = H(salt); PRK = HKDF-Extract(salt, IKM || I2OSP(0,1));
                      OKM = HKDF-Expand(PRK, key_info || I2OSP(L,2), L); SK = OS2IP(OKM) mod r
     with L = ceil((3 * ceil(log2 r)) / 16) = 48 and key_info empty.
   - ECDSA (documented derivation of the library): OKM = HKDF-SHA256(seed, salt = "", info = "", 48 bytes),
     d = (OS2IP(OKM) mod (n-1)) + 1.
   - seeds must have 32..256 bytes. *)
From Coq Require Import ZArith NArith List Bool.
From V Require Import Lib.BytesZ Prim.Sha256 Spec.HkdfSpec.
Import ListNotations.
Open Scope Z_scope.

(* order of the BLS12-381 groups (draft-irtf-cfrg-pairing-friendly-curves, 4.2.1) *)
Definition spec_r : Z := 0x73eda753299d7d483339d80809a1d80553bda402fffe5bfeffffffff00000001.

(* "BLS-SIG-KEYGEN-SALT-" *)
Definition spec_salt0 : list N :=
  [66;76;83;45;83;73;71;45;75;69;89;71;69;78;45;83;65;76;84;45]%N.

Definition spec_L : nat := 48.

Fixpoint bls_spec_loop (fuel : nat) (ikm salt : list N) : option Z :=
  match fuel with
  | O => None
  | S f =>
      let salt := sha256 salt in
      let prk := hkdf_extract salt (ikm ++ [0%N]) in
      match hkdf_expand prk [0%N; 48%N] spec_L with
      | None => None
      | Some okm =>
          let sk := os2ip okm mod spec_r in
          if sk =? 0 then bls_spec_loop f ikm salt else Some sk
      end
  end.

Definition seed_len_spec (l : nat) : bool := Nat.leb 32 l && Nat.leb l 256.

(* None = rejected (or fuel exhausted: probability 2^-255 per round) *)
Definition bls_keygen_spec (fuel : nat) (ikm : list N) : option Z :=
  if seed_len_spec (length ikm) then bls_spec_loop fuel ikm spec_salt0 else None.

Definition ecdsa_keygen_spec (n : Z) (seed : list N) : option Z :=
  if seed_len_spec (length seed) then
    match hkdf seed [] [] 48 with
    | Some okm => Some (os2ip okm mod (n - 1) + 1)
    | None => None
    end
  else None.
