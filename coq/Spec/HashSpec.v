(* Reference specifications for property C13, written from the standards:
   - the sponge construction and the byte-aligned padding of FIPS 202
     (section 4 SPONGE, section 5.1 pad10*1, section 6 SHA-3/SHAKE suffixes,
     appendix B.2 table 6: byte form of suffix + first padding bit),
   - legacy Keccak-256 (the original Keccak submission: no suffix, pad byte 0x01),
   - left_encode, right_encode, encode_string, bytepad, cSHAKE128 and KMAC128 of
     NIST SP 800-185 (sections 2.3, 3, 4),
   - SHA-256 / SHA-384 of FIPS 180-4 are in Prim/Sha2.v.
   Everything is executable; bytes are N < 256.  The sponge is written over an
   arbitrary permutation [f] on lane lists (Section variable) so that the theorems
   about the Go buffer logic do not depend on Keccak-f. *)
From Coq Require Import NArith List Arith.
From V Require Import Prim.Keccak Prim.Sha2.
Import ListNotations.
Local Open Scope N_scope.

(* xor of words into the first lanes of a state; remaining lanes unchanged *)
Fixpoint xor_lanes (st ws : list N) : list N :=
  match st, ws with
  | x :: st', w :: ws' => N.lxor x w :: xor_lanes st' ws'
  | _, [] => st
  | [], _ => []
  end.

(* S := S xor (P_i || 0^c) for a block of rate bytes (rate a multiple of 8) *)
Definition xor_block (st block : list N) : list N := xor_lanes st (chunks8 block).

(* FIPS 202 B.2: the bytes appended to a message of m bytes for rate r bytes;
   [ds] is the suffix bits followed by the first padding bit, LSB first
   (0x06 SHA-3, 0x1F SHAKE, 0x04 cSHAKE, 0x01 plain Keccak). q = r - (m mod r). *)
Definition pad101 (r : nat) (ds : N) (m : nat) : list N :=
  let q := (r - Nat.modulo m r)%nat in
  if Nat.eqb q 1 then [N.lxor ds 128] else ds :: repeat 0 (q - 2) ++ [128].

Section Sponge.
  Variable f : list N -> list N.
  Variable rate : nat.

  (* absorbing: for each r-byte block P_i: S := f(S xor P_i) *)
  Fixpoint absorb_f (fuel : nat) (st P : list N) : list N :=
    match fuel with
    | O => st
    | S k => match P with
             | [] => st
             | _ => absorb_f k (f (xor_block st (firstn rate P))) (skipn rate P)
             end
    end.
  Definition absorb (st P : list N) : list N := absorb_f (length P) st P.

  (* squeezing: Z := Trunc_r(S); while |Z| < d: S := f(S); Z := Z || Trunc_r(S) *)
  Fixpoint squeeze_f (fuel : nat) (st : list N) (n : nat) : list N :=
    match fuel with
    | O => []
    | S k => let z := firstn rate (state_bytes st) in
             if Nat.leb n rate then firstn n z else z ++ squeeze_f k (f st) (n - rate)
    end.
  Definition squeeze (st : list N) (n : nat) : list N := squeeze_f (S n) st n.

  Definition sponge_hash (ds : N) (outlen : nat) (msg : list N) : list N :=
    squeeze (absorb zero_state (msg ++ pad101 rate ds (length msg))) outlen.
End Sponge.

(* ---- FIPS 202 instances ---- *)
Definition SHA3_256 (msg : list N) : list N := sponge_hash keccakf 136 6 32 msg.
Definition SHA3_384 (msg : list N) : list N := sponge_hash keccakf 104 6 48 msg.
Definition Keccak_256 (msg : list N) : list N := sponge_hash keccakf 136 1 32 msg.
Definition SHAKE128 (msg : list N) (outlen : nat) : list N := sponge_hash keccakf 168 31 outlen msg.

(* ---- SP 800-185 section 2.3 ---- *)

(* "n is the smallest positive integer for which 2^(8n) > x" *)
Definition nbytes (x : N) : nat := S (N.to_nat (N.log2 x / 8)).
(* x_1 .. x_n : base-256 encoding of x, most significant first *)
Fixpoint be_n (n : nat) (x : N) : list N :=
  match n with
  | O => []
  | S k => be_n k (x / 256) ++ [x mod 256]
  end.
Definition left_encode (x : N) : list N := N.of_nat (nbytes x) :: be_n (nbytes x) x.
Definition right_encode (x : N) : list N := be_n (nbytes x) x ++ [N.of_nat (nbytes x)].
(* encode_string(S) = left_encode(len(S) in bits) || S *)
Definition encode_string (s : list N) : list N := left_encode (8 * N.of_nat (length s)) ++ s.
(* bytepad(X, w): z = left_encode(w) || X, then zero bytes while len(z) mod w <> 0 *)
Definition bytepad (x : list N) (w : nat) : list N :=
  let z := left_encode (N.of_nat w) ++ x in
  z ++ repeat 0 (Nat.modulo (w - Nat.modulo (length z) w) w).

(* ---- SP 800-185 section 3: cSHAKE128(X, L, N, S), L = 8*outlen bits ---- *)
Definition cSHAKE128 (X : list N) (outlen : nat) (Nm S : list N) : list N :=
  match Nm, S with
  | [], [] => SHAKE128 X outlen
  | _, _ => sponge_hash keccakf 168 4 outlen (bytepad (encode_string Nm ++ encode_string S) 168 ++ X)
  end.

(* ---- SP 800-185 section 4: KMAC128(K, X, L, S), L = 8*outlen bits ---- *)
Definition kmac_name : list N := [75; 77; 65; 67].  (* "KMAC" *)
Definition kmac_newX (K X : list N) (outlen : nat) : list N :=
  bytepad (encode_string K) 168 ++ X ++ right_encode (8 * N.of_nat outlen).
Definition KMAC128 (K X : list N) (outlen : nat) (S : list N) : list N :=
  cSHAKE128 (kmac_newX K X outlen) outlen kmac_name S.

(* ---- official test vectors ---- *)
Example kat_sha3_256_empty :
  SHA3_256 [] =
  [0xa7;0xff;0xc6;0xf8;0xbf;0x1e;0xd7;0x66;0x51;0xc1;0x47;0x56;0xa0;0x61;0xd6;0x62;
   0xf5;0x80;0xff;0x4d;0xe4;0x3b;0x49;0xfa;0x82;0xd8;0x0a;0x4b;0x80;0xf8;0x43;0x4a].
Proof. vm_compute. reflexivity. Qed.

Example kat_sha3_256_abc :
  SHA3_256 [97; 98; 99] =
  [0x3a;0x98;0x5d;0xa7;0x4f;0xe2;0x25;0xb2;0x04;0x5c;0x17;0x2d;0x6b;0xd3;0x90;0xbd;
   0x85;0x5f;0x08;0x6e;0x3e;0x9d;0x52;0x5b;0x46;0xbf;0xe2;0x45;0x11;0x43;0x15;0x32].
Proof. vm_compute. reflexivity. Qed.

Example kat_sha3_384_abc :
  SHA3_384 [97; 98; 99] =
  [0xec;0x01;0x49;0x82;0x88;0x51;0x6f;0xc9;0x26;0x45;0x9f;0x58;0xe2;0xc6;0xad;0x8d;
   0xf9;0xb4;0x73;0xcb;0x0f;0xc0;0x8c;0x25;0x96;0xda;0x7c;0xf0;0xe4;0x9b;0xe4;0xb2;
   0x98;0xd8;0x8c;0xea;0x92;0x7a;0xc7;0xf5;0x39;0xf1;0xed;0xf2;0x28;0x37;0x6d;0x25].
Proof. vm_compute. reflexivity. Qed.

Example kat_keccak_256_empty :
  Keccak_256 [] =
  [0xc5;0xd2;0x46;0x01;0x86;0xf7;0x23;0x3c;0x92;0x7e;0x7d;0xb2;0xdc;0xc7;0x03;0xc0;
   0xe5;0x00;0xb6;0x53;0xca;0x82;0x27;0x3b;0x7b;0xfa;0xd8;0x04;0x5d;0x85;0xa4;0x70].
Proof. vm_compute. reflexivity. Qed.

(* NIST KMAC_samples.pdf, sample #1: K = 40..5F, X = 00 01 02 03, L = 256, S = "" *)
Example kat_kmac128_sample1 :
  KMAC128 (map N.of_nat (seq 64 32)) [0; 1; 2; 3] 32 [] =
  [0xE5;0x78;0x0B;0x0D;0x3E;0xA6;0xF7;0xD3;0xA4;0x29;0xC5;0x70;0x6A;0xA4;0x3A;0x00;
   0xFA;0xDB;0xD7;0xD4;0x96;0x28;0x83;0x9E;0x31;0x87;0x24;0x3F;0x45;0x6E;0xE1;0x4E].
Proof. vm_compute. reflexivity. Qed.

(* sample #2: same K and X, S = "My Tagged Application" *)
Example kat_kmac128_sample2 :
  KMAC128 (map N.of_nat (seq 64 32)) [0; 1; 2; 3] 32
    [77;121;32;84;97;103;103;101;100;32;65;112;112;108;105;99;97;116;105;111;110] =
  [0x3B;0x1F;0xBA;0x96;0x3C;0xD8;0xB0;0xB5;0x9E;0x8C;0x1A;0x6D;0x71;0x88;0x8B;0x71;
   0x43;0x65;0x1A;0xF8;0xBA;0x0A;0x70;0x70;0xC0;0x97;0x9E;0x28;0x11;0x32;0x4A;0xA5].
Proof. vm_compute. reflexivity. Qed.

(* SP 800-185 section 2.3.1 examples: left_encode(0) = 01 00, right_encode(0) = 00 01 *)
Example kat_left_encode_0 : left_encode 0 = [1; 0]. Proof. reflexivity. Qed.
Example kat_right_encode_0 : right_encode 0 = [0; 1]. Proof. reflexivity. Qed.
Example kat_left_encode_168 : left_encode 168 = [1; 168]. Proof. reflexivity. Qed.
Example kat_right_encode_256 : right_encode 256 = [1; 0; 2]. Proof. reflexivity. Qed.
