(* ECDSA (FIPS 186-4 section 6.4, SEC 1 v2 section 4.1.3/4.1.4) over an ABSTRACT group:
   carrier G with addition, negation, zero, a scalar action of Z, a base point B, the
   group order n, the map xr : G -> Z "x-coordinate reduced mod n" (0 at infinity)
   and an inversion function mod n.  The group-interface laws are section hypotheses;
   after the section they are explicit hypotheses of the theorems that use them. *)
From Coq Require Import ZArith Bool Lia Zdiv Morphisms Setoid.
Open Scope Z_scope.

Section Ecdsa.
  Variable G : Type.
  Variable n : Z.
  Variable gadd : G -> G -> G.
  Variable gneg : G -> G.
  Variable gzero : G.
  Variable smul : Z -> G -> G.
  Variable B : G.
  Variable xr : G -> Z.
  Variable inv : Z -> Z.

  Definition in_range (x : Z) : Prop := 1 <= x < n.
  Definition in_rangeb (x : Z) : bool := (1 <=? x) && (x <? n).

  Definition u1 (e s : Z) : Z := (e * inv s) mod n.
  Definition u2 (r s : Z) : Z := (r * inv s) mod n.
  Definition verify_point (Q : G) (e r s : Z) : G := gadd (smul (u1 e s) B) (smul (u2 r s) Q).

  (* the verification equation *)
  Definition ecdsa_eq (Q : G) (e r s : Z) : Prop :=
    in_range r /\ in_range s /\ r = xr (verify_point Q e r s).

  (* nested ifs: the point computation is only evaluated for in-range (r, s) *)
  Definition ecdsa_verify (Q : G) (e r s : Z) : bool :=
    if in_rangeb r then
      if in_rangeb s then r =? xr (verify_point Q e r s) else false
    else false.

  (* the signing equation with nonce k (r = 0 or s = 0 are retried by every signer) *)
  Definition sign_eq (d k e r s : Z) : Prop :=
    in_range k /\ r = xr (smul k B) /\ s = (inv k * (e + r * d)) mod n /\ in_range r /\ in_range s.

  Definition sign_with (d k e : Z) : option (Z * Z) :=
    let r := xr (smul k B) in
    let s := (inv k * (e + r * d)) mod n in
    if in_rangeb k then if in_rangeb r && in_rangeb s then Some (r, s) else None else None.

  Lemma in_rangeb_iff x : in_rangeb x = true <-> in_range x.
  Proof using. clear gadd gneg gzero smul B xr inv. unfold in_rangeb, in_range. rewrite andb_true_iff, Z.leb_le, Z.ltb_lt. tauto. Qed.

  Lemma ecdsa_verify_iff Q e r s : ecdsa_verify Q e r s = true <-> ecdsa_eq Q e r s.
  Proof using.
    clear gneg gzero.
    unfold ecdsa_verify, ecdsa_eq. rewrite <- !in_rangeb_iff.
    destruct (in_rangeb r), (in_rangeb s); rewrite ?Z.eqb_eq; intuition congruence.
  Qed.

  Lemma sign_with_eq d k e r s : sign_with d k e = Some (r, s) <-> sign_eq d k e r s.
  Proof using.
    clear gadd gneg gzero.
    unfold sign_with, sign_eq. split.
    - destruct (in_rangeb k) eqn:Ek; [|discriminate].
      destruct (in_rangeb _ && _) eqn:E; [|discriminate].
      intro H. inversion H; subst. clear H.
      rewrite !andb_true_iff, !in_rangeb_iff in E. apply in_rangeb_iff in Ek. tauto.
    - intros (Hk & Hr & Hs & Hr' & Hs'). subst r. subst s.
      apply in_rangeb_iff in Hk, Hr', Hs'. rewrite Hk, Hr', Hs'. reflexivity.
  Qed.

  (* ---------------- laws of the interface ---------------- *)
  Hypothesis n_pos : 1 < n.
  Hypothesis inv_ok : forall a, a mod n <> 0 -> (a * inv a) mod n = 1.
  Hypothesis smul_add : forall a b P, smul (a + b) P = gadd (smul a P) (smul b P).
  Hypothesis smul_mul : forall a b P, smul a (smul b P) = smul (a * b) P.
  Hypothesis smul_mod : forall a P, smul (a mod n) P = smul a P.

  Local Notation "a == b" := (eqm n a b) (at level 70).
  #[local] Instance eqm_n_equiv : Equivalence (eqm n) := eqm_setoid n.
  #[local] Instance eqm_n_add : Proper (eqm n ==> eqm n ==> eqm n) Z.add := Zplus_eqm n.
  #[local] Instance eqm_n_mul : Proper (eqm n ==> eqm n ==> eqm n) Z.mul := Zmult_eqm n.
  #[local] Instance eqm_n_opp : Proper (eqm n ==> eqm n) Z.opp := Zopp_eqm n.

  Lemma eqm_modn a : a mod n == a.
  Proof. apply Zmod_eqm. Qed.

  Lemma smul_eqm a b P : a == b -> smul a P = smul b P.
  Proof. intro H. rewrite <- (smul_mod a), <- (smul_mod b). unfold eqm in H. rewrite H. reflexivity. Qed.

  Lemma range_nonzero x : in_range x -> x mod n <> 0.
  Proof. unfold in_range. intro H. rewrite Z.mod_small by lia. lia. Qed.

  Lemma inv_eqm a : a mod n <> 0 -> a * inv a == 1.
  Proof. intro H. unfold eqm. rewrite (inv_ok a H). symmetry. apply Z.mod_small. lia. Qed.

  (* any signature produced by the signing equation verifies under Q = d*B *)
  Theorem sign_then_verify d k e r s :
    sign_eq d k e r s -> ecdsa_eq (smul d B) e r s.
  Proof.
    intros (Hk & Hr & Hs & Hr' & Hs'). unfold ecdsa_eq. split; [exact Hr'|]. split; [exact Hs'|].
    unfold verify_point. rewrite smul_mul, <- smul_add.
    rewrite Hr at 1. f_equal. apply smul_eqm.
    unfold u1, u2. rewrite !eqm_modn.
    pose proof (inv_eqm s (range_nonzero s Hs')) as Hw.
    pose proof (inv_eqm k (range_nonzero k Hk)) as Hik.
    assert (Hks : k * s == e + r * d).
    { rewrite Hs at 1. rewrite eqm_modn.
      replace (k * (inv k * (e + r * d))) with ((k * inv k) * (e + r * d)) by ring.
      rewrite Hik. replace (1 * (e + r * d)) with (e + r * d) by ring. reflexivity. }
    replace (e * inv s + r * inv s * d) with ((e + r * d) * inv s) by ring.
    rewrite <- Hks. replace (k * s * inv s) with (k * (s * inv s)) by ring.
    rewrite Hw. replace (k * 1) with k by ring. reflexivity.
  Qed.

  (* ---------------- the (r, n-s) twin ---------------- *)
  Hypothesis gadd_assoc : forall P Q R, gadd P (gadd Q R) = gadd (gadd P Q) R.
  Hypothesis gadd_comm : forall P Q, gadd P Q = gadd Q P.
  Hypothesis gadd_zero : forall P, gadd P gzero = P.
  Hypothesis gadd_neg : forall P, gadd P (gneg P) = gzero.
  Hypothesis xr_neg : forall P, xr (gneg P) = xr P.

  Lemma gadd_cancel P Q R : gadd P Q = gadd P R -> Q = R.
  Proof.
    intro H. apply (f_equal (gadd (gneg P))) in H.
    rewrite !gadd_assoc, (gadd_comm (gneg P) P), gadd_neg in H.
    rewrite !(gadd_comm gzero), !gadd_zero in H. exact H.
  Qed.

  Lemma gneg_unique P Q : gadd P Q = gzero -> Q = gneg P.
  Proof. intro H. apply (gadd_cancel P). rewrite H, gadd_neg. reflexivity. Qed.

  Lemma smul_zero P : smul 0 P = gzero.
  Proof.
    apply (gadd_cancel (smul 0 P)). rewrite <- smul_add, gadd_zero. reflexivity.
  Qed.

  Lemma smul_opp a P : smul (- a) P = gneg (smul a P).
  Proof.
    apply gneg_unique. rewrite <- smul_add. replace (a + - a) with 0 by ring. apply smul_zero.
  Qed.

  Lemma gneg_add P Q : gneg (gadd P Q) = gadd (gneg P) (gneg Q).
  Proof.
    symmetry. apply gneg_unique.
    rewrite gadd_assoc, <- (gadd_assoc P Q (gneg P)), (gadd_comm Q (gneg P)), gadd_assoc, gadd_neg.
    rewrite (gadd_comm gzero), gadd_zero. apply gadd_neg.
  Qed.

  Lemma inv_twin s : in_range s -> inv (n - s) == - inv s.
  Proof.
    intro Hs.
    assert (Hs2 : in_range (n - s)) by (unfold in_range in *; lia).
    pose proof (inv_eqm s (range_nonzero s Hs)) as H1.
    pose proof (inv_eqm _ (range_nonzero _ Hs2)) as H2.
    assert (H3 : (n - s) == - s).
    { unfold eqm. replace (n - s) with (- s + 1 * n) by ring. apply Z.mod_add. lia. }
    assert (H2' : - s * inv (n - s) == 1).
    { rewrite <- H2. apply eqm_n_mul; [symmetry; exact H3|reflexivity]. }
    clear H2. rename H2' into H2.
    transitivity (inv (n - s) * (s * inv s)).
    { rewrite H1. replace (inv (n - s) * 1) with (inv (n - s)) by ring. reflexivity. }
    replace (inv (n - s) * (s * inv s)) with (- (- s * inv (n - s)) * inv s) by ring.
    rewrite H2. replace (- (1) * inv s) with (- inv s) by ring. reflexivity.
  Qed.

  Lemma verify_point_twin Q e r s :
    in_range s -> verify_point Q e r (n - s) = gneg (verify_point Q e r s).
  Proof.
    intro Hs. unfold verify_point. rewrite gneg_add, <- !smul_opp. f_equal; apply smul_eqm.
    - unfold u1. rewrite !eqm_modn. rewrite (inv_twin s Hs).
      replace (e * - inv s) with (- (e * inv s)) by ring. reflexivity.
    - unfold u2. rewrite !eqm_modn. rewrite (inv_twin s Hs).
      replace (r * - inv s) with (- (r * inv s)) by ring. reflexivity.
  Qed.

  Theorem twin_verifies Q e r s : ecdsa_eq Q e r s <-> ecdsa_eq Q e r (n - s).
  Proof.
    unfold ecdsa_eq. split.
    - intros (Hr & Hs & He). split; [exact Hr|]. split; [unfold in_range in *; lia|].
      rewrite (verify_point_twin Q e r s Hs), xr_neg. exact He.
    - intros (Hr & Hs & He).
      assert (Hs' : in_range s) by (unfold in_range in *; lia).
      split; [exact Hr|]. split; [exact Hs'|].
      rewrite (verify_point_twin Q e r s Hs'), xr_neg in He. exact He.
  Qed.
End Ecdsa.
