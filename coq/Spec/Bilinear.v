(* The algebra of a pairing-friendly pair of curves, as far as the BLS protocols use it.

   Scalars F: a commutative ring with decidable equality and no zero divisors
   (Z_r for the prime group order r).  A point of E1 is (a, t): a = discrete log of
   its component in the prime-order subgroup G1 w.r.t. a fixed generator, t = its
   component outside G1 (an element of an arbitrary commutative monoid T1 with a
   scalar action; t = t0 iff the point is in G1).  Same for E2/G2.  Every group
   satisfying "E = G x H with G cyclic of prime order" has this shape, so statements
   proved here hold for BLS12-381 provided its curve arithmetic and pairing are
   correct (assumed, see DESIGN section 5).

   The pairing is only specified on G1 x G2 (e (a,t0) (b,t0) = a*b, target group
   written additively as discrete logs): outside the subgroups the implemented
   optimal-ate pairing is NOT bilinear, so nothing is assumed there ([junk]). *)
From Coq Require Import Bool List Ring Setoid.
Import ListNotations.

Class bilinear := {
  F : Type;
  f0 : F; f1 : F; fadd : F -> F -> F; fmul : F -> F -> F; fsub : F -> F -> F; fopp : F -> F;
  feqb : F -> F -> bool;
  Fring : ring_theory f0 f1 fadd fmul fsub fopp (@eq F);
  feqb_spec : forall a b, reflect (a = b) (feqb a b);
  F_integral : forall a b, fmul a b = f0 -> a = f0 \/ b = f0;
  T1 : Type;
  t1_0 : T1; t1_add : T1 -> T1 -> T1; t1_smul : F -> T1 -> T1; t1_eqb : T1 -> T1 -> bool;
  t1_eqb_spec : forall a b, reflect (a = b) (t1_eqb a b);
  t1_add_0_l : forall a, t1_add t1_0 a = a;
  t1_add_comm : forall a b, t1_add a b = t1_add b a;
  t1_add_assoc : forall a b c, t1_add a (t1_add b c) = t1_add (t1_add a b) c;
  t1_smul_0 : forall k, t1_smul k t1_0 = t1_0;
  T2 : Type;
  t2_0 : T2; t2_add : T2 -> T2 -> T2; t2_smul : F -> T2 -> T2; t2_eqb : T2 -> T2 -> bool;
  t2_eqb_spec : forall a b, reflect (a = b) (t2_eqb a b);
  t2_add_0_l : forall a, t2_add t2_0 a = a;
  t2_add_comm : forall a b, t2_add a b = t2_add b a;
  t2_add_assoc : forall a b c, t2_add a (t2_add b c) = t2_add (t2_add a b) c;
  t2_smul_0 : forall k, t2_smul k t2_0 = t2_0;
  (* value of the implemented pairing outside G1 x G2: arbitrary *)
  junk : (F * T1) -> (F * T2) -> F;
}.

(* points: (discrete log in the prime-order subgroup, component outside it) *)
Notation E1 := (prod F T1).
Notation E2 := (prod F T2).

Section Bilinear.
Context {B : bilinear}.
Add Ring FRing : Fring.


Definition O1 : E1 := (f0, t1_0).
Definition O2 : E2 := (f0, t2_0).
Definition g1 : E1 := (f1, t1_0).
Definition g2 : E2 := (f1, t2_0).
Definition add1 (P Q : E1) : E1 := (fadd (fst P) (fst Q), t1_add (snd P) (snd Q)).
Definition add2 (P Q : E2) : E2 := (fadd (fst P) (fst Q), t2_add (snd P) (snd Q)).
Definition smul1 (k : F) (P : E1) : E1 := (fmul k (fst P), t1_smul k (snd P)).
Definition smul2 (k : F) (P : E2) : E2 := (fmul k (fst P), t2_smul k (snd P)).
Definition neg_g2 : E2 := (fopp f1, t2_0).
Definition inG1 (P : E1) : bool := t1_eqb (snd P) t1_0.
Definition inG2 (P : E2) : bool := t2_eqb (snd P) t2_0.
Definition is_O1 (P : E1) : bool := feqb (fst P) f0 && t1_eqb (snd P) t1_0.
Definition is_O2 (P : E2) : bool := feqb (fst P) f0 && t2_eqb (snd P) t2_0.
Definition eq1 (P Q : E1) : bool := feqb (fst P) (fst Q) && t1_eqb (snd P) (snd Q).
Definition eq2 (P Q : E2) : bool := feqb (fst P) (fst Q) && t2_eqb (snd P) (snd Q).
Definition sum1 (l : list E1) : E1 := fold_right add1 O1 l.
Definition sum2 (l : list E2) : E2 := fold_right add2 O2 l.
Definition fsum (l : list F) : F := fold_right fadd f0 l.

(* the pairing: specified on G1 x G2 only *)
Definition pairing (P : E1) (Q : E2) : F :=
  if inG1 P && inG2 Q then fmul (fst P) (fst Q) else junk P Q.

(* Fp12_multi_pairing (bls12381_utils.c:1088-1143): the product over the couples,
   couples with an infinity operand are skipped; result "is one" iff the sum of logs is 0 *)
Definition pair_term (c : E1 * E2) : F :=
  if is_O1 (fst c) || is_O2 (snd c) then f0 else pairing (fst c) (snd c).
Definition multi_pairing_is_one (l : list (E1 * E2)) : bool :=
  feqb (fsum (map pair_term l)) f0.

(* ---- basic facts ---- *)
Lemma feqb_refl a : feqb a a = true.
Proof. destruct (feqb_spec a a); congruence. Qed.
Lemma feqb_eq a b : feqb a b = true <-> a = b.
Proof. destruct (feqb_spec a b); split; congruence. Qed.
Lemma t1_eqb_eq a b : t1_eqb a b = true <-> a = b.
Proof. destruct (t1_eqb_spec a b); split; congruence. Qed.
Lemma t2_eqb_eq a b : t2_eqb a b = true <-> a = b.
Proof. destruct (t2_eqb_spec a b); split; congruence. Qed.

Lemma inG1_iff P : inG1 P = true <-> exists a, P = (a, t1_0).
Proof.
  unfold inG1. rewrite t1_eqb_eq. destruct P as [a t]; cbn. split.
  - intros ->. eauto.
  - intros [b E]. congruence.
Qed.
Lemma inG2_iff P : inG2 P = true <-> exists a, P = (a, t2_0).
Proof.
  unfold inG2. rewrite t2_eqb_eq. destruct P as [a t]; cbn. split.
  - intros ->. eauto.
  - intros [b E]. congruence.
Qed.

Lemma pair_term_G a b : pair_term ((a, t1_0), (b, t2_0)) = fmul a b.
Proof.
  unfold pair_term, pairing, is_O1, is_O2, inG1, inG2. cbn [fst snd].
  rewrite (proj2 (t1_eqb_eq t1_0 t1_0) eq_refl), (proj2 (t2_eqb_eq t2_0 t2_0) eq_refl).
  rewrite !andb_true_r. cbn [andb].
  destruct (feqb_spec a f0) as [->|Ha]; cbn [orb]; [ring|].
  destruct (feqb_spec b f0) as [->|Hb]; cbn [orb]; [ring|reflexivity].
Qed.

Lemma pair_term_GG (P : E1) (Q : E2) :
  snd P = t1_0 -> snd Q = t2_0 -> pair_term (P, Q) = fmul (fst P) (fst Q).
Proof.
  destruct P as [a t], Q as [b u]. cbn [fst snd]. intros -> ->. apply pair_term_G.
Qed.

(* the two-pairing product on subgroup elements *)
Lemma multi_pairing_2 (s1 s2 q1 q2 : F) :
  multi_pairing_is_one [((s1, t1_0), (q1, t2_0)); ((s2, t1_0), (q2, t2_0))]
  = feqb (fadd (fmul s1 q1) (fmul s2 q2)) f0.
Proof.
  unfold multi_pairing_is_one.
  assert (E : map pair_term [((s1, t1_0), (q1, t2_0)); ((s2, t1_0), (q2, t2_0))] = [fmul s1 q1; fmul s2 q2]).
  { cbn [map]. f_equal; [apply pair_term_G|]. f_equal. apply pair_term_G. }
  rewrite E. cbn [fsum fold_right]. f_equal. ring.
Qed.

Lemma smul1_G k a : smul1 k (a, t1_0) = (fmul k a, t1_0).
Proof. unfold smul1. cbn. now rewrite t1_smul_0. Qed.
Lemma smul2_G k a : smul2 k (a, t2_0) = (fmul k a, t2_0).
Proof. unfold smul2. cbn. now rewrite t2_smul_0. Qed.
Lemma add1_G a b : add1 (a, t1_0) (b, t1_0) = (fadd a b, t1_0).
Proof. unfold add1. cbn. now rewrite t1_add_0_l. Qed.
Lemma add2_G a b : add2 (a, t2_0) (b, t2_0) = (fadd a b, t2_0).
Proof. unfold add2. cbn. now rewrite t2_add_0_l. Qed.

Lemma add1_comm P Q : add1 P Q = add1 Q P.
Proof. unfold add1. f_equal; [ring|apply t1_add_comm]. Qed.
Lemma add1_assoc P Q R : add1 P (add1 Q R) = add1 (add1 P Q) R.
Proof. unfold add1. cbn. f_equal; [ring|apply t1_add_assoc]. Qed.
Lemma add1_O_l P : add1 O1 P = P.
Proof. unfold add1, O1. cbn. destruct P. cbn. f_equal; [ring|apply t1_add_0_l]. Qed.
Lemma add2_comm P Q : add2 P Q = add2 Q P.
Proof. unfold add2. f_equal; [ring|apply t2_add_comm]. Qed.
Lemma add2_assoc P Q R : add2 P (add2 Q R) = add2 (add2 P Q) R.
Proof. unfold add2. cbn. f_equal; [ring|apply t2_add_assoc]. Qed.
Lemma add2_O_l P : add2 O2 P = P.
Proof. unfold add2, O2. cbn. destruct P. cbn. f_equal; [ring|apply t2_add_0_l]. Qed.

(* keys *)
Definition pk_of (sk : F) : E2 := smul2 sk g2.
Lemma pk_of_G sk : pk_of sk = (sk, t2_0).
Proof. unfold pk_of, g2. rewrite smul2_G. f_equal. ring. Qed.
End Bilinear.
