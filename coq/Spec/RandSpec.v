(* Reference specification for the sampling helpers of random/rand.go, written from
   the property text (C15), not from the code: exactly uniform sampling of [0,n)
   by rejection on the bit length of n-1, the Fisher-Yates shuffles as pure
   functions of their choice vectors, and the validity predicates. *)
From Coq Require Import ZArith NArith List Bool.
Import ListNotations.
Open Scope N_scope.

(* number of bits / bytes of max = n-1 (0 for max = 0) *)
Definition bits (max : N) : N := N.size max.
Definition nbytes (max : N) : nat := N.to_nat ((N.size max + 7) / 8).

Fixpoint le_num (b : list N) : N :=
  match b with [] => 0 | x :: r => x + 256 * le_num r end.
Fixpoint le_bytes (k : nat) (v : N) : list N :=
  match k with O => [] | S k' => v mod 256 :: le_bytes k' (v / 256) end.

(* one attempt on the chunk number c (k bytes, little endian): keep the low b bits *)
Definition attempt (b : N) (c : N) : N := c mod 2 ^ b.

Inductive sres := SOk (v : N) (rest : list N) | STape | SFuel.

(* rejection sampling on a byte tape: the first k-byte chunk whose low b bits are < n *)
Fixpoint spec_sample (fuel : nat) (n b : N) (k : nat) (t : list N) : sres :=
  match fuel with
  | O => SFuel
  | S f =>
    if Nat.ltb (length t) k then STape
    else
      let v := attempt b (le_num (firstn k t)) in
      if v <? n then SOk v (skipn k t) else spec_sample f n b k (skipn k t)
  end.

Definition spec_uintn (fuel : nat) (n : N) (t : list N) : sres :=
  spec_sample fuel n (bits (n - 1)) (nbytes (n - 1)) t.

(* the same on a sequence of chunk numbers: value and number of chunks consumed *)
Fixpoint first_accept (n b : N) (cs : list N) : option (N * nat) :=
  match cs with
  | [] => None
  | c :: r =>
    if attempt b c <? n then Some (attempt b c, 1%nat)
    else match first_accept n b r with Some (v, i) => Some (v, S i) | None => None end
  end.

Definition tape_of (k : nat) (cs : list N) : list N := concat (map (le_bytes k) cs).

(* ---- Fisher-Yates as pure functions of the choices ---- *)

(* inside-out variant, one step: P has length i, choice j <= i, new element i *)
Definition io_step (P : list Z) (j : nat) : list Z :=
  let i := length P in
  if Nat.eqb j i then P ++ [Z.of_nat i]
  else firstn j P ++ Z.of_nat i :: skipn (S j) P ++ [nth j P 0%Z].

(* choices j_0, j_1, ... (j_i <= i) processed from the left *)
Fixpoint io_perm_from (P : list Z) (js : list nat) : list Z :=
  match js with
  | [] => P
  | j :: r => io_perm_from (io_step P j) r
  end.
Definition io_perm (js : list nat) : list Z := io_perm_from [] js.

(* choice vector validity: j_i <= i, starting at index i0 *)
Fixpoint io_valid (i0 : nat) (js : list nat) : Prop :=
  match js with [] => True | j :: r => (j <= i0)%nat /\ io_valid (S i0) r end.

(* forward variant by swaps: positions (i, i + j_i), j_i < n - i *)
Fixpoint swaps_of (i0 : nat) (js : list nat) : list (nat * nat) :=
  match js with [] => [] | j :: r => (i0, (i0 + j)%nat) :: swaps_of (S i0) r end.

Fixpoint fy_valid (n i0 : nat) (js : list nat) : Prop :=
  match js with [] => True | j :: r => (i0 + j < n)%nat /\ fy_valid n (S i0) r end.

(* validity predicates used by the oracle of the correspondence run *)
Fixpoint count_occ_Z (l : list Z) (x : Z) : nat :=
  match l with [] => O | y :: r => ((if Z.eqb x y then 1 else 0) + count_occ_Z r x)%nat end.

Definition in_rangeb (n : Z) (l : list Z) : bool := forallb (fun x => (0 <=? x)%Z && (x <? n)%Z) l.
Fixpoint nodupb (l : list Z) : bool :=
  match l with [] => true | x :: r => negb (existsb (Z.eqb x) r) && nodupb r end.
Definition is_perm_of_range (n : Z) (l : list Z) : bool :=
  Nat.eqb (length l) (Z.to_nat n) && in_rangeb n l && nodupb l.
