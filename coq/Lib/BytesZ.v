(* Big-endian byte strings <-> integers (OS2IP / I2OSP of RFC 8017 section 4), as used
   by Go's big.Int.SetBytes / FillBytes.  Bytes are N; [bytes_ok] says all are < 256.
   Used by the C11 / C12 models and proofs. *)
From Coq Require Import ZArith NArith List Lia.
Import ListNotations.
Open Scope Z_scope.

Definition os2ip (b : list N) : Z := fold_left (fun acc x => acc * 256 + Z.of_N x) b 0.

Fixpoint le_bytesZ (k : nat) (z : Z) : list N :=
  match k with O => [] | S k' => Z.to_N (z mod 256) :: le_bytesZ k' (z / 256) end.

(* k-byte big-endian encoding of z mod 256^k *)
Definition i2osp (k : nat) (z : Z) : list N := rev (le_bytesZ k z).

Definition bytes_ok (b : list N) : Prop := Forall (fun x => (x < 256)%N) b.

Lemma fold_os2ip b a :
  fold_left (fun acc x => acc * 256 + Z.of_N x) b a = a * 256 ^ Z.of_nat (length b) + os2ip b.
Proof.
  unfold os2ip. revert a. induction b as [|x b IH]; intro a.
  - cbn. lia.
  - cbn [fold_left length]. rewrite IH. rewrite (IH (0 * 256 + Z.of_N x)).
    rewrite Nat2Z.inj_succ, Z.pow_succ_r by lia. ring.
Qed.

Lemma os2ip_nil : os2ip [] = 0.
Proof. reflexivity. Qed.

Lemma os2ip_app a b : os2ip (a ++ b) = os2ip a * 256 ^ Z.of_nat (length b) + os2ip b.
Proof. unfold os2ip at 1. rewrite fold_left_app. apply fold_os2ip. Qed.

Lemma os2ip_snoc a x : os2ip (a ++ [x]) = os2ip a * 256 + Z.of_N x.
Proof.
  rewrite os2ip_app. change (length [x]) with 1%nat.
  change (os2ip [x]) with (0 * 256 + Z.of_N x). change (256 ^ Z.of_nat 1) with 256. lia.
Qed.

Lemma os2ip_cons x b : os2ip (x :: b) = Z.of_N x * 256 ^ Z.of_nat (length b) + os2ip b.
Proof.
  change (x :: b) with ([x] ++ b). rewrite os2ip_app.
  change (os2ip [x]) with (0 * 256 + Z.of_N x). lia.
Qed.

Lemma os2ip_nonneg b : 0 <= os2ip b.
Proof.
  induction b as [|x b IH] using rev_ind; [cbn; lia|].
  rewrite os2ip_snoc. lia.
Qed.

Lemma os2ip_bound b : bytes_ok b -> 0 <= os2ip b < 256 ^ Z.of_nat (length b).
Proof.
  induction b as [|x b IH] using rev_ind; intro H.
  - cbn. lia.
  - apply Forall_app in H as [H1 H2]. inversion H2; subst.
    rewrite os2ip_snoc, app_length. cbn [length].
    replace (Z.of_nat (length b + 1)) with (Z.succ (Z.of_nat (length b))) by lia.
    rewrite Z.pow_succ_r by lia. specialize (IH H1). lia.
Qed.

Lemma os2ip_zeros k : os2ip (repeat 0%N k) = 0.
Proof.
  induction k as [|k IH]; [reflexivity|].
  cbn [repeat]. rewrite os2ip_cons, IH. cbn. lia.
Qed.

Lemma le_bytesZ_length k z : length (le_bytesZ k z) = k.
Proof. revert z; induction k; intro z; cbn; auto. Qed.

Lemma i2osp_length k z : length (i2osp k z) = k.
Proof. unfold i2osp. rewrite rev_length. apply le_bytesZ_length. Qed.

Lemma i2osp_succ k z : i2osp (S k) z = i2osp k (z / 256) ++ [Z.to_N (z mod 256)].
Proof. unfold i2osp. reflexivity. Qed.

Lemma i2osp_bytes_ok k z : bytes_ok (i2osp k z).
Proof.
  revert z; induction k as [|k IH]; intro z.
  - constructor.
  - rewrite i2osp_succ. apply Forall_app. split; [apply IH|].
    constructor; [|constructor].
    assert (0 <= z mod 256 < 256) by (apply Z.mod_pos_bound; lia). lia.
Qed.

Lemma os2ip_i2osp k z : os2ip (i2osp k z) = z mod 256 ^ Z.of_nat k.
Proof.
  revert z; induction k as [|k IH]; intro z.
  - cbn. rewrite Z.mod_1_r. reflexivity.
  - rewrite i2osp_succ, os2ip_snoc, IH.
    rewrite Nat2Z.inj_succ, Z.pow_succ_r by lia.
    assert (0 <= z mod 256 < 256) by (apply Z.mod_pos_bound; lia).
    rewrite Z2N.id by lia.
    rewrite Z.rem_mul_r by (try apply Z.pow_pos_nonneg; lia). lia.
Qed.

Lemma os2ip_i2osp_small k z : 0 <= z < 256 ^ Z.of_nat k -> os2ip (i2osp k z) = z.
Proof. intro H. rewrite os2ip_i2osp. apply Z.mod_small. exact H. Qed.

Lemma i2osp_os2ip b : bytes_ok b -> i2osp (length b) (os2ip b) = b.
Proof.
  induction b as [|x b IH] using rev_ind; intro H.
  - reflexivity.
  - apply Forall_app in H as [H1 H2]. inversion H2; subst.
    rewrite app_length. cbn [length]. rewrite Nat.add_1_r.
    rewrite i2osp_succ, os2ip_snoc.
    replace ((os2ip b * 256 + Z.of_N x) / 256) with (os2ip b).
    2:{ Z.div_mod_to_equations. lia. }
    replace ((os2ip b * 256 + Z.of_N x) mod 256) with (Z.of_N x).
    2:{ Z.div_mod_to_equations. lia. }
    rewrite IH by exact H1. rewrite N2Z.id. reflexivity.
Qed.

Lemma i2osp_inj_len b k : bytes_ok b -> length b = k -> i2osp k (os2ip b) = b.
Proof. intros H <-. apply i2osp_os2ip. exact H. Qed.

Lemma bytes_ok_app a b : bytes_ok (a ++ b) <-> bytes_ok a /\ bytes_ok b.
Proof. apply Forall_app. Qed.

Lemma bytes_ok_firstn n b : bytes_ok b -> bytes_ok (firstn n b).
Proof.
  intro H. rewrite <- (firstn_skipn n b) in H. apply bytes_ok_app in H. tauto.
Qed.

Lemma bytes_ok_skipn n b : bytes_ok b -> bytes_ok (skipn n b).
Proof.
  intro H. rewrite <- (firstn_skipn n b) in H. apply bytes_ok_app in H. tauto.
Qed.
