(* Numeric operations abstracted so that the arithmetic-heavy parts of the models
   are written once, proved over Z and executed over Bignums.BigZ (200x faster
   under vm_compute).  [num_ok] states that the carrier is a faithful copy of Z;
   the generic refinement lemmas in the Proofs files only use [num_ok]. *)
From Coq Require Import ZArith List Bool.
From Bignums Require Import BigZ.
Import ListNotations.

Record num (T : Type) := mkNum {
  n_of_Z : Z -> T;
  n_to_Z : T -> Z;
  n_add : T -> T -> T;
  n_sub : T -> T -> T;
  n_mul : T -> T -> T;
  n_mod : T -> T -> T;
  n_div : T -> T -> T;
  n_eqb : T -> T -> bool;
  n_ltb : T -> T -> bool;
}.
Arguments n_of_Z {T}. Arguments n_to_Z {T}. Arguments n_add {T}. Arguments n_sub {T}.
Arguments n_mul {T}. Arguments n_mod {T}. Arguments n_div {T}. Arguments n_eqb {T}. Arguments n_ltb {T}.

Definition ZNum : num Z :=
  mkNum Z (fun z => z) (fun z => z) Z.add Z.sub Z.mul Z.modulo Z.div Z.eqb Z.ltb.

Definition BNum : num bigZ :=
  mkNum bigZ BigZ.of_Z BigZ.to_Z BigZ.add BigZ.sub BigZ.mul BigZ.modulo BigZ.div BigZ.eqb BigZ.ltb.

Record num_ok {T} (M : num T) : Prop := {
  ok_of_Z : forall z, n_to_Z M (n_of_Z M z) = z;
  ok_add : forall a b, n_to_Z M (n_add M a b) = (n_to_Z M a + n_to_Z M b)%Z;
  ok_sub : forall a b, n_to_Z M (n_sub M a b) = (n_to_Z M a - n_to_Z M b)%Z;
  ok_mul : forall a b, n_to_Z M (n_mul M a b) = (n_to_Z M a * n_to_Z M b)%Z;
  ok_mod : forall a b, n_to_Z M (n_mod M a b) = (n_to_Z M a mod n_to_Z M b)%Z;
  ok_div : forall a b, n_to_Z M (n_div M a b) = (n_to_Z M a / n_to_Z M b)%Z;
  ok_eqb : forall a b, n_eqb M a b = (n_to_Z M a =? n_to_Z M b)%Z;
  ok_ltb : forall a b, n_ltb M a b = (n_to_Z M a <? n_to_Z M b)%Z;
}.

Lemma ZNum_ok : num_ok ZNum.
Proof. constructor; intros; reflexivity. Qed.

Lemma BNum_ok : num_ok BNum.
Proof.
  constructor; intros; cbn.
  - apply BigZ.spec_of_Z.
  - apply BigZ.spec_add.
  - apply BigZ.spec_sub.
  - apply BigZ.spec_mul.
  - apply BigZ.spec_modulo.
  - apply BigZ.spec_div.
  - apply BigZ.spec_eqb.
  - apply BigZ.spec_ltb.
Qed.
