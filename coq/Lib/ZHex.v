(* Big-endian hex string -> Z (the DKG cases files carry 255-bit scalars as hex strings:
   string literals parse much faster than long numerals). *)
From Coq Require Import ZArith NArith List String.
From V Require Import Lib.Hex.
Open Scope Z_scope.

Definition zh (s : string) : Z :=
  fold_left (fun acc b => acc * 256 + Z.of_N b) (hex s) 0.
