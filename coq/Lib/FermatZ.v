(* Fermat's little theorem and Euclid's lemma over Z, bridged from MathComp.
   The only ssreflect-style file of the development.  Primality is MathComp's
   boolean [prime (Z.to_nat p)]; it is always an explicit hypothesis. *)
From mathcomp Require Import ssreflect ssrfun ssrbool eqtype ssrnat div prime binomial.
From Coq Require Import Arith PeanoNat.

Lemma expnE' a n : expn a n = Nat.pow a n.
Proof. elim: n => [|n IH] //=; by rewrite expnS IH. Qed.

Lemma modnE' a p : 0 < p -> modn a p = Nat.modulo a p.
Proof.
  move=> Hp.
  have E := divn_eq a p.
  have L : modn a p < p by rewrite ltn_mod.
  move/ltP: L => L.
  apply (Nat.mod_unique a p (divn a p)); first exact L.
  rewrite {1}E /muln /addn /= /muln_rec /addn_rec. ring.
Qed.

Lemma fermat_nat (p a : nat) : prime p -> Nat.modulo (Nat.pow a p) p = Nat.modulo a p.
Proof.
  move=> Hpr. have Hp : 0 < p by apply: prime_gt0.
  rewrite -expnE' -!modnE' //. exact: (fermat_little a Hpr).
Qed.

Lemma euclid_nat (p a b : nat) : prime p -> Nat.modulo (a * b) p = 0 ->
  Nat.modulo a p = 0 \/ Nat.modulo b p = 0.
Proof.
  move=> Hpr H. have Hp : 0 < p by apply: prime_gt0.
  have D : (p %| a * b)%N.
  { rewrite /dvdn modnE' //. apply/eqP. exact H. }
  rewrite (Euclid_dvdM _ _ Hpr) in D. case/orP: D => D.
  - left. move: D. rewrite /dvdn modnE' //. by move/eqP.
  - right. move: D. rewrite /dvdn modnE' //. by move/eqP.
Qed.

Lemma prime_gt1_nat (p : nat) : prime p -> 1 < p.
Proof. exact: prime_gt1. Qed.

From Coq Require Import ZArith Lia.
Open Scope Z_scope.

Definition primeZ (p : Z) : Prop := is_true (prime (Z.to_nat p)).

Lemma primeZ_gt1 p : primeZ p -> 1 < p.
Proof.
  move=> H. have := prime_gt1_nat _ H. move/ltP. lia.
Qed.

Theorem fermat_Z (p a : Z) : primeZ p -> 0 <= a -> (a ^ p) mod p = a mod p.
Proof.
  move=> Hpr Ha.
  have Hp' := primeZ_gt1 _ Hpr.
  have H := fermat_nat (Z.to_nat p) (Z.to_nat a) Hpr.
  apply (f_equal Z.of_nat) in H.
  rewrite !Nat2Z.inj_mod in H; try lia.
  rewrite Nat2Z.inj_pow in H. rewrite !Z2Nat.id in H; lia.
Qed.

Theorem euclid_Z (p a b : Z) : primeZ p -> 0 <= a -> 0 <= b ->
  (a * b) mod p = 0 -> a mod p = 0 \/ b mod p = 0.
Proof.
  move=> Hpr Ha Hb H.
  have Hp' := primeZ_gt1 _ Hpr.
  have E := euclid_nat (Z.to_nat p) (Z.to_nat a) (Z.to_nat b) Hpr.
  have H' : Nat.modulo (Z.to_nat a * Z.to_nat b) (Z.to_nat p) = 0%nat.
  { apply Nat2Z.inj. rewrite Nat2Z.inj_mod Nat2Z.inj_mul !Z2Nat.id; lia. }
  case: (E H') => Q; [left|right]; apply (f_equal Z.of_nat) in Q;
    rewrite Nat2Z.inj_mod !Z2Nat.id in Q; lia.
Qed.
