(* Bridge from the standard library's [Znumtheory.prime] (divisor-based, over Z) to the
   MathComp boolean [prime (Z.to_nat p)] used by [V.Lib.FermatZ.primeZ].  No computation
   on unary naturals: the proof goes through [primeP] and divisibility only. *)
From mathcomp Require Import ssreflect ssrfun ssrbool eqtype ssrnat div prime.
From Coq Require Import Arith PeanoNat.
From V Require Import Lib.FermatZ.

Lemma prime_nat_intro (n : nat) :
  1 < n -> (forall d k : nat, n = Nat.mul k d -> d = 1 \/ d = n) -> prime n.
Proof.
  move=> H1 H. apply/primeP; split=> // d /dvdnP [k E].
  case: (H d k E) => ->; by rewrite eqxx ?orbT.
Qed.

From Coq Require Import ZArith Znumtheory Lia.
Open Scope Z_scope.

Theorem primeZ_of_Zprime (p : Z) : Znumtheory.prime p -> primeZ p.
Proof.
  move=> Hp. have H1 : 1 < p by case: Hp.
  apply: prime_nat_intro.
  - apply/ltP. lia.
  - move=> d k E.
    have D : (Z.of_nat d | p).
    { exists (Z.of_nat k). rewrite -Nat2Z.inj_mul -E Z2Nat.id; lia. }
    case: (prime_divisors p Hp _ D) => [Q|[Q|[Q|Q]]]; lia.
Qed.

(* the converse, for completeness (not used by the certificates) *)
Theorem Zprime_of_primeZ (p : Z) : primeZ p -> Znumtheory.prime p.
Proof.
  move=> Hp. have H1 := primeZ_gt1 _ Hp.
  apply prime_alt. split=> // n Hn [k E].
  have Hk : 0 < k by nia.
  move/primeP: Hp => [_ /(_ (Z.to_nat n))].
  have D : (Z.to_nat n %| Z.to_nat p)%N.
  { apply/dvdnP. exists (Z.to_nat k). rewrite E Z2Nat.inj_mul; try lia. reflexivity. }
  move/(_ D). case/orP => /eqP Q; lia.
Qed.
