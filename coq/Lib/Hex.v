(* Hex strings <-> byte lists (bytes are N < 256).  Used by the correspondence
   cases files: the Go harness writes observed bytes as hex string literals. *)
From Coq Require Import NArith List String Ascii Bool.
Import ListNotations.
Open Scope N_scope.
Open Scope bool_scope.

Definition hexval (c : ascii) : N :=
  let n := N_of_ascii c in
  if (48 <=? n) && (n <=? 57) then n - 48
  else if (97 <=? n) && (n <=? 102) then n - 87
  else if (65 <=? n) && (n <=? 70) then n - 55
  else 0.

Fixpoint hex (s : string) : list N :=
  match s with
  | String a (String b r) => (16 * hexval a + hexval b) :: hex r
  | _ => []
  end.

Definition hexdigit (n : N) : ascii :=
  ascii_of_N (if n <? 10 then 48 + n else 87 + n).

Fixpoint tohex (l : list N) : string :=
  match l with
  | [] => EmptyString
  | b :: r => String (hexdigit (b / 16)) (String (hexdigit (b mod 16)) (tohex r))
  end.

Fixpoint bytes_eqb (a b : list N) : bool :=
  match a, b with
  | [], [] => true
  | x :: a', y :: b' => (x =? y) && bytes_eqb a' b'
  | _, _ => false
  end.

Lemma bytes_eqb_eq a b : bytes_eqb a b = true <-> a = b.
Proof.
  revert b; induction a as [|x a IH]; intros [|y b]; cbn; split; intro H;
    try reflexivity; try discriminate.
  - apply andb_prop in H as [H1 H2]. apply N.eqb_eq in H1. apply IH in H2. congruence.
  - inversion H; subst. rewrite N.eqb_refl. cbn. apply IH. reflexivity.
Qed.
