(* List lemmas missing from the 8.16 standard library. *)
From Coq Require Import List Arith Lia.
Import ListNotations.

Lemma nth_firstn_lt {A} (l : list A) n j d : j < n -> nth j (firstn n l) d = nth j l d.
Proof.
  revert n j; induction l as [|x l IH]; intros [|n] [|j] H; cbn; auto; try lia.
  apply IH. lia.
Qed.

Lemma nth_skipn_add {A} (l : list A) n j d : nth j (skipn n l) d = nth (n + j) l d.
Proof.
  revert l; induction n as [|n IH]; intros [|x l]; cbn; auto. destruct j; reflexivity.
Qed.

Lemma skipn_skipn_add {A} (l : list A) n m : skipn n (skipn m l) = skipn (m + n) l.
Proof.
  revert l; induction m as [|m IH]; intros [|x l]; cbn; auto. apply skipn_nil.
Qed.

Lemma firstn_app_exact {A} (l1 l2 : list A) n : length l1 = n -> firstn n (l1 ++ l2) = l1.
Proof.
  intro H. subst n. rewrite firstn_app, firstn_all, Nat.sub_diag. cbn. apply app_nil_r.
Qed.

Lemma skipn_app_exact {A} (l1 l2 : list A) n : length l1 = n -> skipn n (l1 ++ l2) = l2.
Proof.
  intro H. subst n. rewrite skipn_app, skipn_all, Nat.sub_diag. reflexivity.
Qed.
