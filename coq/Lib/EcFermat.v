(* Fermat's little theorem over Z, from MathComp's [fermat_little], and two consequences:
   inverses mod a prime by exponentiation and square roots mod a prime p = 3 (mod 4).
   Primality appears only as the explicit hypothesis [prime (Z.to_nat p)] (MathComp's
   boolean predicate); nothing is assumed.  Used by the C11 proofs. *)
Set Warnings "-notation-overridden".
From mathcomp Require Import ssreflect ssrfun ssrbool eqtype ssrnat div prime binomial.

(* a^(p-1) = 1 mod p for p not dividing a *)
Lemma fermat_pred_mc (p a : nat) : prime p -> ~~ (p %| a) -> a ^ p.-1 = 1 %[mod p].
Proof.
  move=> Hpr Ha.
  have Hp : 0 < p by apply: prime_gt0.
  have Hp1 : 1 < p by apply: prime_gt1.
  have Ha0 : 0 < a by case: a Ha => //; rewrite dvdn0.
  have Hx : 0 < a ^ p.-1 by rewrite expn_gt0 Ha0.
  have H := fermat_little a Hpr.
  have Ea : a ^ p = a * a ^ p.-1 by rewrite -expnS prednK.
  move/eqP: H. rewrite Ea eqn_mod_dvd; last by rewrite leq_pmulr.
  have -> : a * a ^ p.-1 - a = a * (a ^ p.-1 - 1) by rewrite mulnBr muln1.
  rewrite Gauss_dvdr; last by rewrite prime_coprime.
  rewrite -eqn_mod_dvd //. by move/eqP.
Qed.

From Coq Require Import Arith PeanoNat.

Lemma expnE' a n : expn a n = Nat.pow a n.
Proof. elim: n => [|n IH] //=; by rewrite expnS IH. Qed.

Lemma modnE' a p : 0 < p -> modn a p = Nat.modulo a p.
Proof.
  move=> Hp.
  have E := divn_eq a p.
  have L : modn a p < p by rewrite ltn_mod.
  move/ltP: L => L.
  apply (Nat.mod_unique a p (divn a p)); first exact L.
  rewrite {1}E /muln /addn /= /muln_rec /addn_rec. ring.
Qed.

Lemma fermat_nat (p a : nat) : prime p -> Nat.modulo (Nat.pow a p) p = Nat.modulo a p.
Proof.
  move=> Hpr. have Hp : 0 < p by apply: prime_gt0.
  rewrite -expnE' -!modnE' //. exact: (fermat_little a Hpr).
Qed.

Lemma fermat_pred_nat (p a : nat) :
  prime p -> Nat.modulo a p <> 0 -> Nat.modulo (Nat.pow a (Nat.pred p)) p = 1.
Proof.
  move=> Hpr Ha.
  have Hp : 0 < p by apply: prime_gt0.
  have Hp1 : 1 < p by apply: prime_gt1.
  have Hd : ~~ (p %| a).
  { apply/negP => /eqP D. apply: Ha. by rewrite -modnE'. }
  have H := fermat_pred_mc p a Hpr Hd.
  rewrite -expnE' -modnE' // -[Nat.pred p]/(p.-1) H modn_small //.
Qed.

From Coq Require Import ZArith Zpow_facts Lia.
Open Scope Z_scope.

Theorem fermat_Z (p a : Z) : is_true (prime (Z.to_nat p)) -> 0 <= a -> (a ^ p) mod p = a mod p.
Proof.
  move=> Hpr Ha.
  have Hp : (0 < Z.to_nat p)%coq_nat by apply/ltP; apply: prime_gt0.
  have Hp' : 0 < p by lia.
  have H := fermat_nat (Z.to_nat p) (Z.to_nat a) Hpr.
  apply (f_equal Z.of_nat) in H.
  rewrite !Nat2Z.inj_mod in H; try lia.
  rewrite Nat2Z.inj_pow in H. rewrite !Z2Nat.id in H; lia.
Qed.

Lemma prime_gt1_Z (p : Z) : is_true (prime (Z.to_nat p)) -> 1 < p.
Proof.
  move=> Hpr. have H : (1 < Z.to_nat p)%coq_nat by apply/ltP; apply: prime_gt1. lia.
Qed.

Theorem fermat_pred_Z (p a : Z) :
  is_true (prime (Z.to_nat p)) -> 0 <= a -> a mod p <> 0 -> (a ^ (p - 1)) mod p = 1.
Proof.
  move=> Hpr Ha Hnz.
  have Hp1 := prime_gt1_Z p Hpr.
  have Hn : Nat.modulo (Z.to_nat a) (Z.to_nat p) <> 0%nat.
  { move=> E. apply: Hnz. apply (f_equal Z.of_nat) in E.
    rewrite Nat2Z.inj_mod in E. rewrite !Z2Nat.id in E; lia. }
  have H := fermat_pred_nat (Z.to_nat p) (Z.to_nat a) Hpr Hn.
  apply (f_equal Z.of_nat) in H.
  rewrite Nat2Z.inj_mod Nat2Z.inj_pow in H.
  rewrite Nat2Z.inj_pred in H; last lia.
  rewrite !Z2Nat.id in H; lia.
Qed.

(* inverse by exponentiation: a * a^(p-2) = 1 mod p, for any integer a not divisible by p *)
Theorem fermat_inv_Z (p a : Z) :
  is_true (prime (Z.to_nat p)) -> a mod p <> 0 -> (a * ((a ^ (p - 2)) mod p)) mod p = 1.
Proof.
  move=> Hpr Hnz.
  have Hp1 := prime_gt1_Z p Hpr.
  have Hb : 0 <= a mod p < p by apply Z.mod_pos_bound; lia.
  rewrite Zmult_mod_idemp_r.
  rewrite -(Zmult_mod_idemp_l a) -(Zmult_mod_idemp_r (a ^ (p - 2))).
  rewrite (Zpower_mod a (p - 2) p); last lia.
  rewrite Zmult_mod_idemp_r.
  have -> : a mod p * (a mod p) ^ (p - 2) = (a mod p) ^ (p - 1).
  { have -> : p - 1 = Z.succ (p - 2) by lia. rewrite Z.pow_succ_r; lia. }
  apply: fermat_pred_Z => //; first lia.
  by rewrite Zmod_mod.
Qed.

(* square roots for p = 3 mod 4: if c is a square then c^((p+1)/4) is a root *)
Theorem sqrt_3mod4_Z (p c z : Z) :
  is_true (prime (Z.to_nat p)) -> p mod 4 = 3 -> 0 <= z ->
  c mod p = (z * z) mod p ->
  let y := (c ^ ((p + 1) / 4)) mod p in (y * y) mod p = c mod p.
Proof.
  move=> Hpr H34 Hz Hc y.
  have Hp1 := prime_gt1_Z p Hpr.
  set e := (p + 1) / 4.
  have He : 4 * e = p + 1.
  { rewrite /e. have := Z.div_mod (p + 1) 4 ltac:(lia).
    have -> : (p + 1) mod 4 = 0 by rewrite -Zplus_mod_idemp_l H34. lia. }
  have He0 : 0 <= e by lia.
  rewrite /y -Zmult_mod -Z.pow_add_r //.
  rewrite (Zpower_mod c (e + e) p); last lia.
  rewrite Hc -(Zpower_mod (z * z) (e + e) p); last lia.
  have -> : (z * z) ^ (e + e) = z ^ p * z.
  { rewrite -Z.pow_2_r -Z.pow_mul_r; try lia.
    have -> : 2 * (e + e) = Z.succ p by lia.
    rewrite Z.pow_succ_r; lia. }
  rewrite -Zmult_mod_idemp_l fermat_Z // Zmult_mod_idemp_l. done.
Qed.
