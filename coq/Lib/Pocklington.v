(* Pocklington's primality criterion over Z, and a boolean certificate checker that runs
   under [vm_compute] on binary integers.

   Criterion: N > 1, F | N-1 with F = prod q_i^e_i (q_i prime, pairwise coprime), a witness a
   with a^(N-1) = 1 (mod N) and gcd(a^((N-1)/q_i) - 1, N) = 1 for every i, and N <= F*F.
   Then every prime divisor p of N satisfies p = 1 (mod F), so p > sqrt N, so N is prime.

   Primality is the standard library's [Znumtheory.prime] internally; the final theorem is
   stated for [primeZ] (MathComp's [prime] on [Z.to_nat]) through [V.Lib.PrimeBridge].
   Fermat's little theorem comes from [V.Lib.FermatZ] (itself from MathComp, axiom-free). *)
From Coq Require Import ZArith Znumtheory Zpow_facts List Lia Bool.
From V Require Import Lib.FermatZ Lib.PrimeBridge.
Import ListNotations.
Open Scope Z_scope.

(* ------------------------------------------------------------------------- *)
(* Elementary facts on congruences                                            *)
(* ------------------------------------------------------------------------- *)

Lemma mod1_of_eq (p x k : Z) : 1 < p -> x = 1 + k * p -> x mod p = 1.
Proof.
  intros Hp E. subst x. rewrite Z_mod_plus_full. apply Z.mod_small. lia.
Qed.

Lemma mod1_divide (p N x : Z) : 1 < p -> (p | N) -> x mod N = 1 -> x mod p = 1.
Proof.
  intros Hp [j Hj] H.
  destruct (Z.eq_dec N 0) as [E0|N0].
  { subst N. rewrite E0 in H. rewrite Zmod_0_r in H.
    (* x mod 0 = x in 8.16 *) subst x. apply Z.mod_small. lia. }
  apply (mod1_of_eq p x ((x / N) * j)); [exact Hp|].
  pose proof (Z.div_mod x N N0) as D. rewrite H in D. rewrite D at 1. subst N. ring.
Qed.

Lemma pow_mod1 (p x u : Z) : 1 < p -> 0 <= u -> x mod p = 1 -> (x ^ u) mod p = 1.
Proof.
  intros Hp Hu H. rewrite Zpower_mod by lia. rewrite H. rewrite Z.pow_1_l by lia.
  apply Z.mod_small. lia.
Qed.

(* non-negative Bezout coefficients *)
Lemma bezout_nonneg (m n : Z) : 0 < m -> 0 < n ->
  exists u v, 0 <= u /\ 0 <= v /\ u * m = Z.gcd m n + v * n.
Proof.
  intros Hm Hn.
  destruct (Z.gcd_bezout m n _ eq_refl) as [u0 [v0 E]].
  set (t := Z.abs u0 + Z.abs v0).
  exists (u0 + t * n), (t * m - v0).
  assert (0 <= t) by (unfold t; lia).
  assert (Z.abs u0 <= t) by (unfold t; lia).
  assert (Z.abs v0 <= t) by (unfold t; lia).
  repeat split; try nia.
Qed.

(* the exponents killing b modulo p are closed under gcd *)
Lemma order_gcd (p b m n : Z) : 1 < p -> 0 < m -> 0 < n ->
  (b ^ m) mod p = 1 -> (b ^ n) mod p = 1 -> (b ^ Z.gcd m n) mod p = 1.
Proof.
  intros Hp Hm Hn H1 H2.
  destruct (bezout_nonneg m n Hm Hn) as [u [v [Hu [Hv E]]]].
  pose proof (Z.gcd_nonneg m n) as Hg.
  assert (A : (b ^ (u * m)) mod p = 1).
  { rewrite Z.mul_comm. rewrite Z.pow_mul_r by lia. apply pow_mod1; auto. }
  rewrite E in A. rewrite Z.pow_add_r in A by nia.
  rewrite (Z.mul_comm v n) in A. rewrite (Z.pow_mul_r b n v) in A by lia.
  rewrite Zmult_mod in A. rewrite (pow_mod1 p (b ^ n) v Hp Hv H2) in A.
  rewrite Z.mul_1_r in A. rewrite Zmod_mod in A. exact A.
Qed.

(* a proper positive divisor of q^e (q prime) divides q^(e-1) *)
Lemma prime_power_proper_divisor (q e g : Z) :
  prime q -> 0 < e -> 0 < g -> (g | q ^ e) -> g <> q ^ e -> (g | q ^ (e - 1)).
Proof.
  intros Hq He Hg [h H] Hne.
  assert (Hq1 : 1 < q) by (destruct Hq; auto).
  assert (Hpos : 0 < q ^ e) by (apply Z.pow_pos_nonneg; lia).
  assert (Hh : 0 < h) by nia.
  destruct (Zdivide_dec q h) as [[h' D]|ND].
  - exists h'. subst h.
    replace e with (Z.succ (e - 1)) in H by lia.
    rewrite Z.pow_succ_r in H by lia. nia.
  - exfalso.
    assert (R : rel_prime (q ^ e) h).
    { replace h with (h ^ 1) by lia. apply rel_prime_Zpower; try lia.
      apply prime_rel_prime; auto. }
    destruct R as [_ _ R].
    assert (D1 : (h | 1)).
    { apply R. exists g. lia. apply Z.divide_refl. }
    apply Z.divide_1_r_nonneg in D1; [|lia]. subst h. lia.
Qed.

(* Fermat, in the multiplicative form, for [Znumtheory.prime] *)
Lemma fermat_unit (p b : Z) : prime p -> 0 <= b -> b mod p <> 0 -> (b ^ (p - 1)) mod p = 1.
Proof.
  intros Hp Hb Hnz.
  assert (Hp1 : 1 < p) by (destruct Hp; auto).
  pose proof (fermat_Z p b (primeZ_of_Zprime p Hp) Hb) as F.
  assert (ND : ~ (p | b)).
  { intro D. apply Hnz. apply Zdivide_mod. exact D. }
  assert (D : (p | b * (b ^ (p - 1) - 1))).
  { replace (b * (b ^ (p - 1) - 1)) with (b ^ p - b).
    - apply Zmod_divide; [lia|]. rewrite Zminus_mod. rewrite F. rewrite Z.sub_diag. reflexivity.
    - replace p with (Z.succ (p - 1)) at 1 by lia. rewrite Z.pow_succ_r by lia. ring. }
  apply Gauss in D; [|apply prime_rel_prime; auto].
  destruct D as [k D]. apply (mod1_of_eq p _ k); [lia|lia].
Qed.

(* ------------------------------------------------------------------------- *)
(* Pocklington, one prime power at a time                                     *)
(* ------------------------------------------------------------------------- *)

Lemma pocklington_factor (N a q e p : Z) :
  1 < N -> prime q -> 0 < e -> (q ^ e | N - 1) ->
  (a ^ (N - 1)) mod N = 1 ->
  Z.gcd ((a ^ ((N - 1) / q)) mod N - 1) N = 1 ->
  prime p -> (p | N) -> (q ^ e | p - 1).
Proof.
  intros HN Hq He [m Hm] Ha Hg Hp HpN.
  assert (Hq1 : 1 < q) by (destruct Hq; auto).
  assert (Hp1 : 1 < p) by (destruct Hp; auto).
  assert (Hqe : 0 < q ^ e) by (apply Z.pow_pos_nonneg; lia).
  assert (Hm0 : 0 < m) by nia.
  set (b := (a ^ m) mod p).
  assert (Hb0 : 0 <= b) by (apply Z.mod_pos_bound; lia).
  (* b^(q^e) = a^(N-1) = 1 mod p *)
  assert (B1 : (b ^ (q ^ e)) mod p = 1).
  { unfold b. rewrite <- Zpower_mod by lia. rewrite <- Z.pow_mul_r by lia.
    rewrite <- Hm. apply (mod1_divide p N); auto. }
  assert (Bnz : b mod p <> 0).
  { unfold b. rewrite Zmod_mod. fold b. intro Z0.
    assert (b = 0) by (unfold b; exact Z0).
    rewrite H in B1. rewrite Z.pow_0_l in B1 by lia. rewrite Zmod_0_l in B1. lia. }
  pose proof (fermat_unit p b Hp Hb0 Bnz) as B2.
  pose proof (order_gcd p b (q ^ e) (p - 1) Hp1 Hqe ltac:(lia) B1 B2) as B3.
  set (g := Z.gcd (q ^ e) (p - 1)) in *.
  destruct (Z.eq_dec g (q ^ e)) as [E|NE].
  { rewrite <- E. apply Z.gcd_divide_r. }
  exfalso.
  assert (Hgpos : 0 < g).
  { pose proof (Z.gcd_nonneg (q ^ e) (p - 1)). fold g in H.
    destruct (Z.eq_dec g 0) as [G0|]; [|lia].
    unfold g in G0. apply Z.gcd_eq_0_l in G0. lia. }
  assert (Dg : (g | q ^ (e - 1))).
  { apply prime_power_proper_divisor; auto. apply Z.gcd_divide_l. }
  destruct Dg as [h Hh].
  assert (Hh0 : 0 < h).
  { assert (0 < q ^ (e - 1)) by (apply Z.pow_pos_nonneg; lia). nia. }
  (* a^((N-1)/q) = b^(q^(e-1)) = 1 mod p *)
  assert (Ediv : (N - 1) / q = m * q ^ (e - 1)).
  { rewrite Hm. replace e with (Z.succ (e - 1)) at 1 by lia.
    rewrite Z.pow_succ_r by lia.
    replace (m * (q * q ^ (e - 1))) with (m * q ^ (e - 1) * q) by ring.
    apply Z.div_mul. lia. }
  assert (X1 : (a ^ ((N - 1) / q)) mod p = 1).
  { rewrite Ediv. rewrite Z.pow_mul_r by lia. rewrite Zpower_mod by lia. fold b.
    rewrite Hh. rewrite Z.mul_comm. rewrite Z.pow_mul_r by lia.
    apply pow_mod1; auto; lia. }
  set (x := a ^ ((N - 1) / q)) in *.
  assert (D1 : (p | x mod N - 1)).
  { destruct HpN as [j Hj].
    pose proof (Z.div_mod x N ltac:(lia)) as Dx.
    pose proof (Z.div_mod x p ltac:(lia)) as Dp. rewrite X1 in Dp.
    exists (x / p - (x / N) * j).
    replace (x mod N) with (x - N * (x / N)) by lia.
    rewrite Dp at 1. subst N. ring. }
  pose proof (Z.gcd_greatest _ _ _ D1 HpN) as D. rewrite Hg in D.
  apply Z.divide_1_r_nonneg in D; lia.
Qed.

(* ------------------------------------------------------------------------- *)
(* Every integer > 1 has a prime divisor                                      *)
(* ------------------------------------------------------------------------- *)

Lemma prime_divisor_exists (n : Z) : 1 < n -> exists p, prime p /\ (p | n).
Proof.
  intros Hn. assert (H0 : 0 <= n) by lia. revert Hn.
  pattern n. apply Z_lt_induction; [|exact H0]. clear n H0.
  intros n IH Hn.
  destruct (prime_dec n) as [P|NP].
  - exists n. split; auto. apply Z.divide_refl.
  - destruct (not_prime_divide n Hn NP) as [d [Hd Dd]].
    destruct (IH d ltac:(lia) ltac:(lia)) as [p [Pp Dp]].
    exists p. split; auto. eapply Z.divide_trans; eauto.
Qed.

Theorem pocklington_core (N F : Z) :
  1 < N -> 0 < F -> N <= F * F ->
  (forall p, prime p -> (p | N) -> (F | p - 1)) -> prime N.
Proof.
  intros HN HF HFF H.
  apply prime_alt. split; [exact HN|].
  intros n Hn [k E].
  assert (Hk : 1 < k) by nia.
  assert (L : forall d, 1 < d -> (d | N) -> F + 1 <= d).
  { intros d Hd Dd. destruct (prime_divisor_exists d Hd) as [p [Pp Dp]].
    assert (Hp1 : 1 < p) by (destruct Pp; auto).
    assert (DF : (F | p - 1)) by (apply H; auto; eapply Z.divide_trans; eauto).
    apply Z.divide_pos_le in DF; [|lia].
    apply Z.divide_pos_le in Dp; lia. }
  assert (F + 1 <= n) by (apply L; [lia|exists k; lia]).
  assert (F + 1 <= k) by (apply L; [lia|exists n; lia]).
  nia.
Qed.

(* ------------------------------------------------------------------------- *)
(* Trial division for small primes                                            *)
(* ------------------------------------------------------------------------- *)

Fixpoint trial (fuel : nat) (q d : Z) : bool :=
  match fuel with
  | O => false
  | S f => if q <? d * d then true
           else if q mod d =? 0 then false
           else trial f q (d + 1)
  end.

Lemma trial_sound fuel : forall q d, 0 < d -> trial fuel q d = true ->
  forall d', d <= d' -> d' * d' <= q -> ~ (d' | q).
Proof.
  induction fuel as [|f IH]; intros q d Hd T d' Hd' Hsq; simpl in T; [discriminate|].
  destruct (q <? d * d) eqn:E1.
  - apply Z.ltb_lt in E1. nia.
  - destruct (q mod d =? 0) eqn:E2; [discriminate|].
    apply Z.eqb_neq in E2.
    destruct (Z.eq_dec d' d) as [->|NE].
    + intro D. apply E2. apply Zdivide_mod. exact D.
    + apply (IH q (d + 1)); auto; lia.
Qed.

Lemma prime_of_no_small_divisor (q : Z) : 1 < q ->
  (forall d, 2 <= d -> d * d <= q -> ~ (d | q)) -> prime q.
Proof.
  intros Hq H. apply prime_alt. split; [exact Hq|].
  intros n Hn [k E].
  assert (Hk : 1 < k) by nia.
  destruct (Z_le_gt_dec (n * n) q) as [L|G].
  - apply (H n); [lia|exact L|]. exists k. exact E.
  - apply (H k); [lia|nia|]. exists n. lia.
Qed.

(* bound 2^32 on q: at most 2^16 unary fuel; larger q fail (they need their own entry) *)
Definition is_small_prime (q : Z) : bool :=
  if 1 <? q then
    if q <? 4294967296 then trial (Z.to_nat (Z.sqrt q + 2)) q 2 else false
  else false.

Lemma is_small_prime_sound (q : Z) : is_small_prime q = true -> prime q.
Proof.
  unfold is_small_prime. intros H.
  destruct (1 <? q) eqn:E1; [|discriminate]. apply Z.ltb_lt in E1.
  destruct (q <? 4294967296); [|discriminate].
  apply prime_of_no_small_divisor; [exact E1|].
  intros d Hd Hsq. eapply trial_sound; eauto; lia.
Qed.

(* ------------------------------------------------------------------------- *)
(* Modular exponentiation by squaring, reduced at every step                  *)
(* ------------------------------------------------------------------------- *)

Fixpoint powmod_pos (a : Z) (e : positive) (n : Z) : Z :=
  match e with
  | xH => a mod n
  | xO e' => let x := powmod_pos a e' n in (x * x) mod n
  | xI e' => let x := powmod_pos a e' n in (((x * x) mod n) * a) mod n
  end.

Definition powmod (a k n : Z) : Z :=
  match k with
  | Z0 => 1 mod n
  | Zpos e => powmod_pos a e n
  | Zneg _ => 0
  end.

Lemma powmod_pos_spec (a : Z) (e : positive) (n : Z) :
  powmod_pos a e n = (a ^ Zpos e) mod n.
Proof.
  induction e as [e IH|e IH|]; cbn [powmod_pos].
  - rewrite IH. rewrite Pos2Z.inj_xI.
    replace (2 * Z.pos e + 1) with (Z.pos e + Z.pos e + 1) by lia.
    rewrite !Z.pow_add_r by lia. rewrite Z.pow_1_r.
    rewrite <- Zmult_mod. rewrite Zmult_mod_idemp_l. reflexivity.
  - rewrite IH. rewrite Pos2Z.inj_xO.
    replace (2 * Z.pos e) with (Z.pos e + Z.pos e) by lia.
    rewrite Z.pow_add_r by lia. rewrite <- Zmult_mod. reflexivity.
  - rewrite Z.pow_1_r. reflexivity.
Qed.

Lemma powmod_spec (a k n : Z) : 0 <= k -> powmod a k n = (a ^ k) mod n.
Proof.
  intros Hk. destruct k as [|e|e]; [reflexivity|apply powmod_pos_spec|lia].
Qed.

(* ------------------------------------------------------------------------- *)
(* Certificates                                                               *)
(* ------------------------------------------------------------------------- *)

(* one entry: (N, a, [(q1,e1); ...]) *)
Definition entry : Type := (Z * Z * list (Z * Z))%type.
Definition entry_N (E : entry) : Z := fst (fst E).

Definition prodF (l : list (Z * Z)) : Z :=
  fold_right (fun qe r => fst qe ^ snd qe * r) 1 l.

(* [known]: numbers already proved prime by earlier entries *)
Definition check_q (known : list Z) (q : Z) : bool :=
  if existsb (Z.eqb q) known then true else is_small_prime q.

Definition check_factor (known : list Z) (N a rest q e : Z) : bool :=
  if check_q known q then
    if 0 <? e then
      if Z.gcd q rest =? 1 then
        Z.gcd (powmod a ((N - 1) / q) N - 1) N =? 1
      else false
    else false
  else false.

Fixpoint check_factors (known : list Z) (N a : Z) (l : list (Z * Z)) : bool :=
  match l with
  | [] => true
  | (q, e) :: l' =>
      if check_factor known N a (prodF l') q e then check_factors known N a l' else false
  end.

Definition check_entry (known : list Z) (E : entry) : bool :=
  let '(N, a, l) := E in
  let F := prodF l in
  if 1 <? N then
    if 0 <? F then
      if (N - 1) mod F =? 0 then
        if N <=? F * F then
          if powmod a (N - 1) N =? 1 then check_factors known N a l else false
        else false
      else false
    else false
  else false.

Fixpoint check_cert_from (known : list Z) (c : list entry) : bool :=
  match c with
  | [] => true
  | E :: c' => if check_entry known E then check_cert_from (entry_N E :: known) c' else false
  end.

Definition check_cert (c : list entry) : bool := check_cert_from [] c.

Lemma check_q_sound known q : Forall prime known -> check_q known q = true -> prime q.
Proof.
  intros HK H. unfold check_q in H.
  destruct (existsb (Z.eqb q) known) eqn:E.
  - apply existsb_exists in E. destruct E as [x [Hin Hx]]. apply Z.eqb_eq in Hx. subst x.
    rewrite Forall_forall in HK. apply HK. exact Hin.
  - apply is_small_prime_sound. exact H.
Qed.

Lemma prodF_pos known N a l : Forall prime known -> check_factors known N a l = true -> 0 < prodF l.
Proof.
  intros HK. induction l as [|[q e] l IH]; intros H; cbn [prodF fold_right fst snd]; [lia|].
  cbn [check_factors] in H.
  destruct (check_factor known N a (prodF l) q e) eqn:C; [|discriminate].
  unfold check_factor in C.
  destruct (check_q known q) eqn:Cq; [|discriminate].
  apply (check_q_sound known q HK) in Cq. destruct Cq as [Hq1 _].
  fold (prodF l). specialize (IH H).
  assert (0 < q ^ e) by (apply Z.pow_pos_nonneg; [lia|]; destruct (0 <? e) eqn:Ee; [apply Z.ltb_lt in Ee; lia|discriminate]).
  nia.
Qed.

Lemma check_factors_sound known N a l :
  Forall prime known -> 1 < N -> (a ^ (N - 1)) mod N = 1 ->
  check_factors known N a l = true ->
  forall F, (prodF l | F) -> (F | N - 1) ->
  forall p, prime p -> (p | N) -> (prodF l | p - 1).
Proof.
  intros HK HN Ha. induction l as [|[q e] l IH]; intros H F DF DN p Hp HpN.
  - cbn. apply Z.divide_1_l.
  - cbn [check_factors] in H.
    destruct (check_factor known N a (prodF l) q e) eqn:C; [|discriminate].
    unfold check_factor in C.
    destruct (check_q known q) eqn:Cq; [|discriminate].
    destruct (0 <? e) eqn:Ee; [|discriminate].
    destruct (Z.gcd q (prodF l) =? 1) eqn:Eg; [|discriminate].
    apply Z.ltb_lt in Ee. apply Z.eqb_eq in Eg. apply Z.eqb_eq in C.
    apply (check_q_sound known q HK) in Cq.
    assert (HM : 0 <= (N - 1) / q).
    { destruct Cq as [Hq1 _]. apply Z.div_pos; lia. }
    rewrite powmod_spec in C by exact HM.
    cbn [prodF fold_right fst snd] in *. fold (prodF l) in *.
    assert (D1 : (q ^ e | p - 1)).
    { apply (pocklington_factor N a q e p); auto.
      eapply Z.divide_trans; [|exact DN].
      eapply Z.divide_trans; [|exact DF]. apply Z.divide_mul_l. apply Z.divide_refl. }
    assert (D2 : (prodF l | p - 1)).
    { apply (IH H F); auto.
      eapply Z.divide_trans; [|exact DF]. apply Z.divide_mul_r. apply Z.divide_refl. }
    (* coprime parts multiply *)
    destruct D2 as [k Hk].
    assert (R : rel_prime (q ^ e) (prodF l)).
    { replace (prodF l) with (prodF l ^ 1) by lia.
      apply rel_prime_Zpower; try lia. apply Zgcd_1_rel_prime. exact Eg. }
    assert (D3 : (q ^ e | k)).
    { apply (Gauss _ (prodF l) k); [|exact R]. rewrite Z.mul_comm. rewrite <- Hk. exact D1. }
    destruct D3 as [k' Hk']. exists k'. rewrite Hk. rewrite Hk'. ring.
Qed.

Theorem check_entry_sound known E :
  Forall prime known -> check_entry known E = true -> prime (entry_N E).
Proof.
  intros HK H. destruct E as [[N a] l]. unfold entry_N. cbn [fst].
  unfold check_entry in H.
  destruct (1 <? N) eqn:E1; [|discriminate].
  destruct (0 <? prodF l) eqn:E2; [|discriminate].
  destruct ((N - 1) mod prodF l =? 0) eqn:E3; [|discriminate].
  destruct (N <=? prodF l * prodF l) eqn:E4; [|discriminate].
  destruct (powmod a (N - 1) N =? 1) eqn:E5; [|discriminate].
  apply Z.ltb_lt in E1. apply Z.ltb_lt in E2. apply Z.eqb_eq in E3.
  apply Z.leb_le in E4. apply Z.eqb_eq in E5.
  rewrite powmod_spec in E5 by lia.
  apply (pocklington_core N (prodF l)); auto.
  intros p Hp HpN.
  apply (check_factors_sound known N a l HK E1 E5 H (prodF l)); auto.
  - apply Z.divide_refl.
  - apply Zmod_divide; [lia|exact E3].
Qed.

Lemma check_cert_from_sound c : forall known,
  Forall prime known -> check_cert_from known c = true -> Forall prime (map entry_N c).
Proof.
  induction c as [|E c IH]; intros known HK H; cbn [map]; [constructor|].
  cbn [check_cert_from] in H.
  destruct (check_entry known E) eqn:CE; [|discriminate].
  pose proof (check_entry_sound known E HK CE) as P.
  constructor; [exact P|]. apply (IH (entry_N E :: known)); auto.
Qed.

Theorem check_cert_Zprime (c : list entry) :
  check_cert c = true -> forall N, In N (map entry_N c) -> prime N.
Proof.
  intros H. pose proof (check_cert_from_sound c [] (Forall_nil _) H) as F.
  rewrite Forall_forall in F. exact F.
Qed.

(* the statement used by Proofs/Primes.v *)
Theorem check_cert_sound (c : list entry) :
  check_cert c = true -> forall N, In N (map entry_N c) -> primeZ N.
Proof.
  intros H N HN. apply primeZ_of_Zprime. exact (check_cert_Zprime c H N HN).
Qed.

(* boolean membership form: both premises close by [vm_compute] *)
Theorem check_cert_sound_b (c : list entry) (N : Z) :
  check_cert c = true -> existsb (Z.eqb N) (map entry_N c) = true -> primeZ N.
Proof.
  intros H M. apply (check_cert_sound c H).
  apply existsb_exists in M. destruct M as [x [Hin Hx]]. apply Z.eqb_eq in Hx. subst x. exact Hin.
Qed.

(* hypotheses are satisfiable: 7 via 3 (6 = 2*3), then 29 via 2 (28 = 2^2 * 7, 7 from the list) *)
Example check_cert_example :
  check_cert [(7, 3, [(2, 1); (3, 1)]); (29, 2, [(2, 2); (7, 1)])] = true.
Proof. vm_compute. reflexivity. Qed.

Example check_cert_example_primes : primeZ 7 /\ primeZ 29.
Proof.
  split; apply (check_cert_sound _ check_cert_example); cbn; auto.
Qed.

(* and the checker rejects composites / wrong witnesses *)
Example check_cert_rejects :
  check_cert [(9, 2, [(2, 3)])] = false /\ check_cert [(7, 2, [(2, 1); (3, 1)])] = false
  /\ check_cert [(561, 2, [(2, 4); (5, 1)])] = false.
Proof. vm_compute. repeat split. Qed.
