(* C07 correspondence: the simulator evaluator and the agreement oracle (c07_prop_bad_ids)
   live in Corr/DkgSimCorr.v, shared with C08. *)
From V Require Export Corr.DkgSimCorr.
