(* Correspondence evaluator for C05 (BLS part): byte strings fed to DecodePrivateKey,
   DecodePublicKey and the signature parser (AggregateBLSSignatures of one element =
   E1 read then E1 write), with the observed verdict and re-encoding. *)
From Coq Require Import ZArith NArith List String Bool.
From Bignums Require Import BigZ.
From V Require Import Lib.Hex Lib.Num Prim.Bls12 Model.BlsCodec Spec.ZcashCodec.
Import ListNotations.

Inductive kind := KSk | KPk | KSig | KPkZcashProbe.
Record case := mkCase { c_kind : kind; c_in : string; c_ok : bool; c_reenc : string }.

(* ---- model of the code, executed on BigZ ---- *)
Definition model_check (c : case) : bool :=
  let b := hex (c_in c) in
  match c_kind c with
  | KSk =>
      match decode_private_key BNum rB b with
      | Some v => c_ok c && bytes_eqb (fr_write_bytes BNum v) (hex (c_reenc c))
      | None => negb (c_ok c)
      end
  | KPk | KPkZcashProbe =>
      match decode_public_key BNum pB b with
      | Some P => c_ok c && bytes_eqb (e2_write_bytes BNum P) (hex (c_reenc c))
      | None => negb (c_ok c)
      end
  | KSig =>
      if negb (Nat.eqb (List.length b) (Z.to_nat Generated.Consts.crypto_SignatureLenBLSBLS12381)) then negb (c_ok c)
      else match e1_read_bytes BNum pB b with
           | (VALID, P) => c_ok c && bytes_eqb (e1_write_bytes BNum P) (hex (c_reenc c))
           | _ => negb (c_ok c)
           end
  end.

(* ---- property oracle from the reference format ----
   accepted  <->  in the reference acceptance set ; accepted -> re-encodes to the input.
   KPkZcashProbe cases are checked against the ZCash coefficient order c1 || c0. *)
Definition prop_check (c : case) : bool :=
  let b := hex (c_in c) in
  (if c_ok c then bytes_eqb (hex (c_reenc c)) b else true) &&
  match c_kind c with
  | KSk => Bool.eqb (c_ok c) (sk_accepts b)
  | KPk => Bool.eqb (c_ok c) (match pk_decode false b with Some _ => true | None => false end)
  | KPkZcashProbe => Bool.eqb (c_ok c) (match pk_decode true b with Some _ => true | None => false end)
  | KSig => Bool.eqb (c_ok c) (match g1_decode b with Some _ => true | None => false end)
  end.

Definition bad_ids (cs : list (N * case)) : list N :=
  map fst (filter (fun p => negb (model_check (snd p))) cs).
Definition prop_bad_ids (cs : list (N * case)) : list N :=
  map fst (filter (fun p => negb (prop_check (snd p))) cs).
