(* Correspondence evaluator for C19.  The harness runs every listed operation alone, with a
   snapshot (digest of key encodings, messages, signatures, KMAC state probe) of the whole
   shared environment before and after it, then runs the same operations from several
   goroutines and reports each concurrent result next to the sequential one.
   check      - the model of C19 (listed operations write nothing shared): the snapshot
                taken after an operation equals the one taken before it;
   prop_check - the property: every concurrent result equals the sequential result, and the
                environment after the concurrent phase equals the initial one. *)
From Coq Require Import NArith List String Bool.
Import ListNotations.
Open Scope string_scope.

Record oprec := mkOp { o_name : string; o_before : string; o_after : string; o_seq : string; o_conc : string }.
Record case := mkCase { c_ops : list oprec; c_env0 : string; c_env1 : string }.

Definition op_unmodified (o : oprec) : bool := String.eqb (o_before o) (o_after o).
Definition op_same_result (o : oprec) : bool := String.eqb (o_seq o) (o_conc o).

Definition check (c : case) : bool := forallb op_unmodified (c_ops c).

Definition bad_ids (cs : list (N * case)) : list N :=
  map fst (filter (fun p => negb (check (snd p))) cs).

Definition prop_check (c : case) : bool :=
  forallb op_unmodified (c_ops c) && forallb op_same_result (c_ops c) && String.eqb (c_env0 c) (c_env1 c)
  && match c_ops c with [] => true | o :: _ => String.eqb (o_before o) (c_env0 c) end.

Definition prop_bad_ids (cs : list (N * case)) : list N :=
  map fst (filter (fun p => negb (prop_check (snd p))) cs).
