(* Boolean equalities on the observable types of the DKG models (used by the
   correspondence evaluators of C10, C08, C07). *)
From Coq Require Import ZArith NArith List Bool Arith.
From V Require Import Model.DkgVss.
Import ListNotations.
Open Scope Z_scope.

Fixpoint zlist_eqb (a b : list Z) : bool :=
  match a, b with
  | [], [] => true
  | x :: a', y :: b' => (x =? y) && zlist_eqb a' b'
  | _, _ => false
  end.

Definition sbody_eqb (a b : sbody) : bool :=
  match a, b with
  | SBadLen, SBadLen => true
  | SVal x, SVal y => x =? y
  | _, _ => false
  end.

Definition vbody_eqb (a b : vbody) : bool :=
  match a, b with
  | VBadLen, VBadLen => true
  | VBad _, VBad _ => true          (* the kind of read error is not observable *)
  | VOk x, VOk y => zlist_eqb x y
  | _, _ => false
  end.

Definition cbody_eqb (a b : cbody) : bool :=
  match a, b with
  | CBadLen, CBadLen => true
  | CIdx x, CIdx y => x =? y
  | _, _ => false
  end.

Definition abody_eqb (a b : abody) : bool :=
  match a, b with
  | ABadLen, ABadLen => true
  | AVal x u, AVal y v => (x =? y) && (u =? v)
  | _, _ => false
  end.

Definition msg_eqb (a b : msg) : bool :=
  match a, b with
  | MEmpty, MEmpty => true
  | MShare x, MShare y => sbody_eqb x y
  | MVec x, MVec y => vbody_eqb x y
  | MComplaint x, MComplaint y => cbody_eqb x y
  | MAnswer x, MAnswer y => abody_eqb x y
  | MOther x, MOther y => x =? y
  | _, _ => false
  end.

Definition event_eqb (a b : event) : bool :=
  match a, b with
  | EvSend i x, EvSend j y => Nat.eqb i j && msg_eqb x y
  | EvBcast x, EvBcast y => msg_eqb x y
  | EvDisq i, EvDisq j => Nat.eqb i j
  | EvFlag i, EvFlag j => Nat.eqb i j
  | _, _ => false
  end.

Fixpoint events_eqb (a b : list event) : bool :=
  match a, b with
  | [], [] => true
  | x :: a', y :: b' => event_eqb x y && events_eqb a' b'
  | _, _ => false
  end.

Definition result_eqb (a b : result) : bool :=
  match a, b with
  | ROk, ROk | RInvalidInput, RInvalidInput | RStateErr, RStateErr
  | RFailure, RFailure | RPanic, RPanic | RUndef, RUndef => true
  | RBool x, RBool y => Bool.eqb x y
  | RKeys x Y ys, RKeys x' Y' ys' => (x =? x') && (Y =? Y') && zlist_eqb ys ys'
  | _, _ => false
  end.
