(* Correspondence evaluator for C13.  A case is an operation sequence the harness ran on
   ONE hasher object of /repo/hash (or a one-shot helper / a constructor rejection) with
   every observed output.
   - [check]: replays the operations on the Gallina model of the Go code
     (Model/Hashers.v, with keccakF1600 := Prim.Keccak.keccakf) and compares outputs.
   - [prop_check]: compares the implementation's outputs directly with the standards
     (Spec/HashSpec.v, Prim/Sha2.v); it does not use the model of the Go code. *)
From Coq Require Import ZArith NArith List String Bool.
From V Require Import Lib.Hex Prim.Keccak Prim.Sha2 Spec.HashSpec Model.Hashers.
Import ListNotations.

Inductive op :=
| OWrite (p : string)
| OSum (out : string)
| OReset
| OCompute (x : string) (out : string)
| OPanic (o : op).     (* the implementation panicked in this operation; sequence ends *)

Inductive alg :=
| ASha3_256 | ASha3_384 | AKeccak_256 | ASha2_256 | ASha2_384
| AKmac (key cust : string) (outSize : Z) (ctor_ok : bool).

Inductive case :=
| CObj (a : alg) (ops : list op)
| COneShotSHA3_256 (x out : string)
| COneShotSHA2_256 (x out : string).

(* ---------------- model replay ---------------- *)
Definition kf := keccakf.

Fixpoint run_sponge (d : sponge) (ops : list op) : bool :=
  match ops with
  | [] => true
  | o :: r =>
    match o with
    | OWrite p => match write kf d (hex p) with Ok d' => run_sponge d' r | _ => false end
    | OSum out => match sum kf d with
                  | Ok (h, d') => bytes_eqb h (hex out) && run_sponge d' r
                  | _ => false end
    | OReset => run_sponge (reset d) r
    | OCompute x out => match computeHash kf d (hex x) with
                        | Ok (h, d') => bytes_eqb h (hex out) && run_sponge d' r
                        | _ => false end
    | OPanic (OWrite p) => match write kf d (hex p) with Panic => true | _ => false end
    | OPanic (OSum _) => match sum kf d with Panic => true | _ => false end
    | OPanic (OCompute x _) => match computeHash kf d (hex x) with Panic => true | _ => false end
    | OPanic _ => false
    end
  end.

Fixpoint run_kmac (k : kmac) (ops : list op) : bool :=
  match ops with
  | [] => true
  | o :: r =>
    match o with
    | OWrite p => run_kmac (k_write k (hex p)) r
    | OSum out => let '(h, k') := k_sum k in bytes_eqb h (hex out) && run_kmac k' r
    | OReset => run_kmac (k_reset k) r
    | OCompute x out => let '(h, k') := k_computeHash k (hex x) in bytes_eqb h (hex out) && run_kmac k' r
    | OPanic _ => false
    end
  end.

Fixpoint run_sha2 (s : sha2) (ops : list op) : bool :=
  match ops with
  | [] => true
  | o :: r =>
    match o with
    | OWrite p => run_sha2 (s_write s (hex p)) r
    | OSum out => let '(h, s') := s_sum s in bytes_eqb h (hex out) && run_sha2 s' r
    | OReset => run_sha2 (s_reset s) r
    | OCompute x out => let '(h, s') := s_computeHash s (hex x) in bytes_eqb h (hex out) && run_sha2 s' r
    | OPanic _ => false
    end
  end.

Definition check (c : case) : bool :=
  match c with
  | CObj ASha3_256 ops => run_sponge NewSHA3_256 ops
  | CObj ASha3_384 ops => run_sponge NewSHA3_384 ops
  | CObj AKeccak_256 ops => run_sponge NewKeccak_256 ops
  | CObj ASha2_256 ops => run_sha2 NewSHA2_256 ops
  | CObj ASha2_384 ops => run_sha2 NewSHA2_384 ops
  | CObj (AKmac key cust outSize ok) ops =>
      match NewKMAC_128 (hex key) (hex cust) outSize with
      | inl k => ok && run_kmac k ops
      | inr EPanic => false
      | inr _ => negb ok && match ops with [] => true | _ => false end
      end
  | COneShotSHA3_256 x out =>
      match ComputeSHA3_256 kf (hex x) with Ok h => bytes_eqb h (hex out) | _ => false end
  | COneShotSHA2_256 x out => bytes_eqb (ComputeSHA2_256 (hex x)) (hex out)
  end.

Definition bad_ids (cs : list (N * case)) : list N :=
  map fst (filter (fun p => negb (check (snd p))) cs).

(* ---------------- property oracle (from the standards only) ----------------
   Ghost state: [Some m] = "the object must now behave as having absorbed m",
   [None] = the property says nothing until the next Reset / ComputeHash.
   - every hasher: a new object and an object after Reset have absorbed nothing; Write appends;
     ComputeHash(x) returns spec(x) whatever happened before; a panic is a violation.
   - sponge hashers (SHA3-256/384, Keccak-256): SumHash returns spec(m); afterwards (and after
     ComputeHash) a Reset is required: None.
   - SHA2: SumHash returns spec(m) and the stream continues; after ComputeHash: None.
   - KMAC128: the constructor accepts iff len(key) >= 16 and outputSize >= 0; SumHash returns
     KMAC128(key, m, 8*outputSize, customizer) and the stream continues; ComputeHash(x) returns
     KMAC128(key, x, ...) and leaves the stream unchanged. *)
Inductive family := FSponge | FSha2 | FKmac.

Fixpoint prop_ops (fam : family) (spec : list N -> list N) (m : option (list N)) (ops : list op) : bool :=
  match ops with
  | [] => true
  | o :: r =>
    match o with
    | OWrite p => prop_ops fam spec (match m with Some x => Some (x ++ hex p) | None => None end) r
    | OSum out =>
        match m with
        | Some x => bytes_eqb (hex out) (spec x) &&
                    prop_ops fam spec (match fam with FSponge => None | _ => m end) r
        | None => prop_ops fam spec None r
        end
    | OReset => prop_ops fam spec (Some []) r
    | OCompute x out =>
        bytes_eqb (hex out) (spec (hex x)) &&
        prop_ops fam spec (match fam with FKmac => m | _ => None end) r
    | OPanic _ => false
    end
  end.

Definition prop_check (c : case) : bool :=
  match c with
  | CObj ASha3_256 ops => prop_ops FSponge SHA3_256 (Some []) ops
  | CObj ASha3_384 ops => prop_ops FSponge SHA3_384 (Some []) ops
  | CObj AKeccak_256 ops => prop_ops FSponge Keccak_256 (Some []) ops
  | CObj ASha2_256 ops => prop_ops FSha2 sha256 (Some []) ops
  | CObj ASha2_384 ops => prop_ops FSha2 sha384 (Some []) ops
  | CObj (AKmac key cust outSize ok) ops =>
      let k := hex key in
      if Nat.leb 16 (List.length k) && (0 <=? outSize)%Z
      then ok && prop_ops FKmac (fun x => KMAC128 k x (Z.to_nat outSize) (hex cust)) (Some []) ops
      else negb ok
  | COneShotSHA3_256 x out => bytes_eqb (hex out) (SHA3_256 (hex x))
  | COneShotSHA2_256 x out => bytes_eqb (hex out) (sha256 (hex x))
  end.

Definition prop_bad_ids (cs : list (N * case)) : list N :=
  map fst (filter (fun p => negb (prop_check (snd p))) cs).
