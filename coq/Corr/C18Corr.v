(* Correspondence evaluator for C18.
   A case is either a single-threaded operation sequence run on a real inspector /
   participant (compared op by op with Model/ThresholdObj.v [step]), or a concurrent
   history (thread, op, observed result, invocation stamp, response stamp) which the
   history checker of Model/LinCheck.v must accept.
   Shares are described, not recomputed: identifier, the signer whose key produced it,
   kind, length.  Signatures returned by ThresholdSignature are identified by equality
   with the group signature (id 0) and by verification under the group key. *)
From Coq Require Import ZArith NArith List Bool.
From V Require Import Generated.Consts Model.ThresholdObj Model.LinCheck.
Import ListNotations.

(* kind: 0 genuine share of [s_owner] on the message; 1 well-formed G1 point that is not
   (signature of [s_owner] on another message); 2 right length, does not deserialize;
   3 wrong length *)
Record sdesc := mkS { s_id : N; s_owner : Z; s_kind : N; s_len : Z }.

Definition sdesc_eqb (a b : sdesc) : bool :=
  (s_id a =? s_id b)%N && (s_owner a =? s_owner b)%Z && (s_kind a =? s_kind b)%N && (s_len a =? s_len b)%Z.

Definition vshare (i : Z) (s : sdesc) : bool := (s_kind s =? 0)%N && (s_owner s =? i)%Z.

(* Lagrange reconstruction: fails on a share that does not deserialize; the result is the
   group signature (id 0) exactly when every share is the genuine one of its slot
   (anything else is id 1, which does not verify) *)
Definition recon (l : list (Z * sdesc)) : option N :=
  if existsb (fun p => (2 <=? s_kind (snd p))%N) l then None
  else if forallb (fun p => vshare (fst p) (snd p)) l then Some 0%N else Some 1%N.

Definition vgroup (g : N) : bool := (g =? 0)%N.

Notation mop := (op sdesc N).
Notation mres := (result sdesc N).

Definition opt_eqb (a b : option N) : bool :=
  match a, b with Some x, Some y => (x =? y)%N | None, None => true | _, _ => false end.

Definition res_eqb (a b : mres) : bool :=
  match a, b with
  | RBool x e, RBool y f => Bool.eqb x y && err_eqb e f
  | RBool2 x1 x2 e, RBool2 y1 y2 f => Bool.eqb x1 y1 && Bool.eqb x2 y2 && err_eqb e f
  | RShare s e, RShare u f => sdesc_eqb s u && err_eqb e f
  | RSig g e, RSig h f => opt_eqb g h && err_eqb e f
  | _, _ => false
  end.

Record case := mkCase {
  c_size : Z; c_threshold : Z; c_my : sdesc;
  c_seq : list (mop * mres);                 (* single-threaded: op, observed result *)
  c_hist : list (event mop mres);            (* concurrent history *)
  c_crashed : bool                           (* the run died (Go runtime fatal error / panic) *)
}.

Definition mstep (c : case) := step sdesc N (c_size c) (c_threshold c) s_len vshare recon vgroup (c_my c).

Fixpoint seq_ok (c : case) (st : state sdesc N) (l : list (mop * mres)) : bool :=
  match l with
  | [] => true
  | (o, r) :: rest => let '(st', r') := mstep c st o in res_eqb r' r && seq_ok c st' rest
  end.

Definition hist_ok (c : case) : bool := lin_check (state sdesc N) mop mres (mstep c) res_eqb init (c_hist c).

(* model vs implementation, op by op (concurrent histories are judged by prop_check only) *)
Definition check (c : case) : bool := negb (c_crashed c) && seq_ok c init (c_seq c).

Definition bad_ids (cs : list (N * case)) : list N :=
  map fst (filter (fun p => negb (check (snd p))) cs).

(* ---- property-level oracle, written from the property statement, not from the code ----
   On the observed results of a single-threaded sequence:
   P1 EnoughShares never reverts to false;
   P2 once ThresholdSignature succeeded, every later call returns the same signature, and a
      returned signature is the group signature (verifies);
   P3 the signers for which HasShare returned true are at most t+1;
   P4 HasShare(i) never reverts, and once it is true an add for i is a duplicate error;
   and on a concurrent history: it must be linearizable. *)
Fixpoint p1 (seen : bool) (l : list (mop * mres)) : bool :=
  match l with
  | [] => true
  | (OpEnoughShares, RBool b _) :: r => (if seen then b else true) && p1 (seen || b) r
  | (OpTrustedAdd _ _, RBool b ENone) :: r => (if seen then b else true) && p1 (seen || b) r
  | (OpVerifyAndAdd _ _, RBool2 _ b ENone) :: r => (if seen then b else true) && p1 (seen || b) r
  | _ :: r => p1 seen r
  end.

Fixpoint p2 (got : option N) (l : list (mop * mres)) : bool :=
  match l with
  | [] => true
  | (OpThresholdSignature, RSig g e) :: r =>
      match got with
      | Some x => opt_eqb g (Some x) && err_eqb e ENone && p2 got r
      | None => match g with
                | Some y => (y =? 0)%N && err_eqb e ENone && p2 (Some y) r
                | None => negb (err_eqb e ENone) && p2 None r
                end
      end
  | _ :: r => p2 got r
  end.

Fixpoint zmem (i : Z) (l : list Z) : bool :=
  match l with [] => false | j :: r => (j =? i)%Z || zmem i r end.

Fixpoint p34 (t : Z) (have : list Z) (l : list (mop * mres)) : bool :=
  match l with
  | [] => true
  | (OpHasShare i, RBool b ENone) :: r =>
      if b then let have' := if zmem i have then have else i :: have in
                (Z.of_nat (length have') <=? t + 1)%Z && p34 t have' r
      else negb (zmem i have) && p34 t have r
  | (OpTrustedAdd i _, RBool _ e) :: r =>
      (if zmem i have then err_eqb e EDuplicated else true) && p34 t have r
  | (OpVerifyAndAdd i _, RBool2 _ _ e) :: r =>
      (if zmem i have then err_eqb e EDuplicated else true) && p34 t have r
  | _ :: r => p34 t have r
  end.

Definition prop_check (c : case) : bool :=
  negb (c_crashed c) && p1 false (c_seq c) && p2 None (c_seq c) && p34 (c_threshold c) [] (c_seq c) && hist_ok c.

Definition prop_bad_ids (cs : list (N * case)) : list N :=
  map fst (filter (fun p => negb (prop_check (snd p))) cs).
