(* C05 covers every key and signature decoder of the package.  The BLS decoders are evaluated by
   Corr/C05Corr.v; the ECDSA public-key decoders (raw and X9.62-compressed) by the decoder cases of
   Corr/C11Corr.v and the ECDSA private-key decoder by the decode cases of Corr/C12Corr.v.  One C05
   case is one of the three. *)
From Coq Require Import NArith List Bool.
From V Require Corr.C05Corr Corr.C11Corr Corr.C12Corr.
Import ListNotations.

Inductive acase :=
| ABlsDec (c : C05Corr.case)
| AEcdsaPub (c : C11Corr.case)
| AEcdsaPriv (c : C12Corr.case).

Definition bad1 {A} (f : list (N * A) -> list N) (c : A) : bool :=
  match f [(0%N, c)] with [] => false | _ => true end.

Definition abad (a : acase) : bool :=
  match a with
  | ABlsDec c => bad1 C05Corr.bad_ids c
  | AEcdsaPub c => bad1 C11Corr.bad_ids c
  | AEcdsaPriv c => bad1 C12Corr.bad_ids c
  end.
Definition apbad (a : acase) : bool :=
  match a with
  | ABlsDec c => bad1 C05Corr.prop_bad_ids c
  | AEcdsaPub c => bad1 C11Corr.prop_bad_ids c
  | AEcdsaPriv c => bad1 C12Corr.prop_bad_ids c
  end.

Definition bad_ids (cs : list (N * acase)) : list N := map fst (filter (fun p => abad (snd p)) cs).
Definition prop_bad_ids (cs : list (N * acase)) : list N := map fst (filter (fun p => apbad (snd p)) cs).
