(* C08 correspondence: the simulator evaluator and the fairness oracle (c08_prop_bad_ids)
   live in Corr/DkgSimCorr.v, shared with C07. *)
From V Require Export Corr.DkgSimCorr.
