(* Correspondence evaluator for C12: runs Model/Keygen.v (and the key decoding /
   public key part of Model/Ecdsa.v) on the inputs the harness gave to
   GeneratePrivateKey / DecodePrivateKey / PublicKey and compares every observable. *)
From Coq Require Import ZArith NArith List String Bool.
From Bignums Require Import BigZ.
From V Require Import Lib.Hex Lib.BytesZ Lib.Num Prim.Bls12 Spec.ZcashCodec Spec.HkdfSpec Spec.KeygenSpec Prim.EcdsaCurve Model.Keygen Model.Ecdsa.
Import ListNotations.
Open Scope Z_scope.

Inductive alg := ABls | AP256 | AK1.

(* kind 0: GeneratePrivateKey(alg, input) ; kind 1: DecodePrivateKey(alg, input) (ECDSA only).
   c_ok: no error; c_invalid: the error is an invalidInputsError;
   c_sk: Encode() of the key; c_sk2: Encode() of the key returned by a second identical call;
   c_pk: Encode() of PublicKey() ("" when not recorded); c_idem: PublicKey() twice gives the same,
   Equal keys and the two private keys are Equal. *)
Record case := mkCase {
  c_kind : N; c_alg : alg; c_in : string; c_ok : bool; c_invalid : bool;
  c_sk : string; c_sk2 : string; c_pk : string; c_idem : bool }.

Definition fuel : nat := 4.

Definition curve_of (a : alg) : curve := match a with AK1 => Secp256k1 | _ => P256 end.
Definition ec_curve_of (a : alg) : ec_curve :=
  {| ec_n := curve_n (curve_of a); ec_basemul := basemul_affine (curve_of a) |}.

Definition pk_bytes (xy : Z * Z) : list N := i2osp 32 (fst xy) ++ i2osp 32 (snd xy).

(* compare an observed public key when one was recorded *)
Definition pk_matches (c : case) (xy : Z * Z) : bool :=
  match c_pk c with
  | EmptyString => true
  | s => bytes_eqb (hex s) (pk_bytes xy)
  end.

(* kind 2 (BLS): c_in is the concatenation of 32-byte private scalars; the key under test is the
   decoded key (one scalar) or AggregateBLSPrivateKeys of the decoded keys, some of which had
   PublicKey() called before the aggregation; c_sk / c_pk are its Encode() / PublicKey().Encode(),
   c_sk2 the encoding of a second aggregation after PublicKey() was called on every input.
   Expected: scalar = sum mod r, public key = [scalar] g2 (implementation byte order). *)
Fixpoint chunks32 (fuelc : nat) (b : list N) : list (list N) :=
  match fuelc with
  | O => []
  | S f => match b with [] => [] | _ => firstn 32 b :: chunks32 f (skipn 32 b) end
  end.
Definition bls_sum (inp : list N) : Z :=
  fold_left (fun acc ch => (acc + os2ip ch) mod spec_r) (chunks32 (List.length inp) inp) 0.
Definition to_pt2_12 (P : Bls12.jpt (F:=Bls12.fp2 (T:=bigZ))) : pt2 :=
  match Bls12.to_affine (Bls12.Fp2Ops BNum pB) P with
  | None => Inf2
  | Some ((x0, x1), (y0, y1)) => Aff2 (BigZ.to_Z x0) (BigZ.to_Z x1) (BigZ.to_Z y0) (BigZ.to_Z y1)
  end.
Definition bls_pk_bytes (k : Z) : list N :=
  g2_encode false (to_pt2_12 (Bls12.jmul (Bls12.Fp2Ops BNum pB) k (Bls12.G2gen BNum pB))).
Definition blspk_ok (c : case) : bool :=
  let k := bls_sum (hex (c_in c)) in
  c_ok c && bytes_eqb (hex (c_sk c)) (i2osp 32 k) && bytes_eqb (hex (c_sk2 c)) (i2osp 32 k) && c_idem c &&
  bytes_eqb (hex (c_pk c)) (bls_pk_bytes k).

Definition rejected_invalid (c : case) : bool := negb (c_ok c) && c_invalid c.

Definition check (c : case) : bool :=
  let inp := hex (c_in c) in
  match c_kind c, c_alg c with
  | 0%N, ABls =>
      match bls_generatePrivateKey fuel inp with
      | KOk k => c_ok c && bytes_eqb (hex (c_sk c)) (bls_encode_sk k) && bytes_eqb (hex (c_sk2 c)) (bls_encode_sk k) && c_idem c
      | KErr e => (e =? Keygen.E_INVALID_INPUT)%N && rejected_invalid c
      | _ => false
      end
  | 0%N, a =>
      let cv := ec_curve_of a in
      match ecdsa_generatePrivateKey cv inp with
      | KOk sk =>
          match ecdsa_encode_sk cv sk with
          | KOk b =>
              c_ok c && bytes_eqb (hex (c_sk c)) b && bytes_eqb (hex (c_sk2 c)) b && c_idem c &&
              (match c_pk c with
               | EmptyString => true
               | _ => let '(p1, sk1) := ecdsa_PublicKey sk in
                      let '(p2, _) := ecdsa_PublicKey sk1 in
                      pk_matches c p1 && ecdsa_pub_equals p1 p2
               end)
          | _ => false
          end
      | KErr e => (e =? Keygen.E_INVALID_INPUT)%N && rejected_invalid c
      | _ => false
      end
  | 2%N, ABls => blspk_ok c
  | _, ABls => false
  | _, a =>
      let O := ops_of (curve_of a) in
      match decodePrivateKey O inp with
      | ROk d =>
          match encodePrivateKey O d with
          | ROk b => c_ok c && bytes_eqb (hex (c_sk c)) b && c_idem c && pk_matches c (publicKey O d)
          | _ => false
          end
      | RErr e => (e =? Ecdsa.E_INVALID_INPUT)%N && rejected_invalid c
      | RPanic => false
      end
  end.

Definition bad_ids (cs : list (N * case)) : list N :=
  map fst (filter (fun p => negb (check (snd p))) cs).

(* ---- property-level oracle, independent of the model of the Go code ----
   Recomputed from the documents (Spec/KeygenSpec.v: IETF BLS KeyGen, HKDF of RFC 5869,
   OS2IP mod r; the documented ECDSA derivation): accepted exactly for 32..256 bytes,
   rejected with the invalid-input class otherwise; the key bytes are the 32-byte
   big-endian encoding of the prescribed scalar, which is in [1, order-1]; the second
   call returned the same bytes; PublicKey() is idempotent; the ECDSA public key is
   scalar * base point. *)
Definition order_of (a : alg) : Z :=
  match a with ABls => spec_r | a => curve_n (curve_of a) end.

Definition prop_check (c : case) : bool :=
  let inp := hex (c_in c) in
  let sk := hex (c_sk c) in
  match c_kind c with
  | 0%N =>
      let expected :=
        match c_alg c with
        | ABls => bls_keygen_spec fuel inp
        | a => ecdsa_keygen_spec (order_of a) inp
        end in
      if Nat.leb 32 (List.length inp) && Nat.leb (List.length inp) 256 then
        match expected with
        | Some k =>
            c_ok c && bytes_eqb sk (i2osp 32 k) && (1 <=? os2ip sk) && (os2ip sk <? order_of (c_alg c))
            && bytes_eqb (hex (c_sk2 c)) sk && c_idem c
            && match c_alg c, c_pk c with
               | ABls, _ => true
               | _, EmptyString => true
               | a, s => bytes_eqb (hex s) (pk_bytes (basemul_affine (curve_of a) (os2ip sk)))
               end
        | None => false
        end
      else rejected_invalid c
  | 2%N => match c_alg c with ABls => blspk_ok c | _ => false end
  | _ =>
      match c_alg c with
      | ABls => true
      | a =>
          if Nat.eqb (List.length inp) 32 && (1 <=? os2ip inp) && (os2ip inp <? order_of a) then
            c_ok c && bytes_eqb sk inp && c_idem c
            && match c_pk c with
               | EmptyString => true
               | s => bytes_eqb (hex s) (pk_bytes (basemul_affine (curve_of a) (os2ip inp)))
               end
          else rejected_invalid c
      end
  end.

Definition prop_bad_ids (cs : list (N * case)) : list N :=
  map fst (filter (fun p => negb (prop_check (snd p))) cs).
