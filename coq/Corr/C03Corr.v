(* Correspondence evaluator for C03.  The recursion [tree] of Model/BatchAbs.v (the same
   definition the theorems are about) is instantiated with arithmetic modulo r on KNOWN
   discrete logs: signature i is [sigma_i]H, key i is [x_i]g2, so the node test
   e(sum rho_i s_i, -g2) e(H, sum rho_i pk_i) = 1 is  sum rho_i (sigma_i - x_i) = 0 (mod r)
   (theorem node_check_is_eok).  With the hook the coefficients rho_i are chosen by the
   harness, so the model predicts every index exactly, including adversarial cancellations. *)
From Coq Require Import ZArith NArith List String Bool.
From V Require Import Lib.Hex Prim.Bls12 Model.BatchAbs.
Import ListNotations.
Open Scope Z_scope.

Inductive leaf :=
| LGood (sigma x : Z)        (* well-formed signature in G1 with log sigma (w.r.t. H), key log x *)
| LBadSig (x : Z).           (* signature that does not deserialize or is outside G1 *)

Inductive case :=
| HookCase (leaves : list leaf) (rhos : list Z) (observed : list N)     (* raw C result codes *)
| ApiCase (leaves : list leaf) (premarked : list bool) (observed : list bool). (* public API *)

Definition eleafZ (l : leaf) (rho : Z) : Z * Z :=
  match l with LGood s x => (rho, (s - x) mod rZ) | LBadSig _ => (rho, 0) end.
Definition init (l : leaf) : st := match l with LGood _ _ => Undefined | LBadSig _ => Invalid end.
Definition okZ (l : list (Z * Z)) : bool :=
  (fold_left (fun acc p => acc + fst p * snd p) l 0) mod rZ =? 0.

Definition code (s : st) : N := match s with Valid => 1%N | Invalid => 0%N | Undefined => 2%N end.
(* the C layer's codes are VALID = 1? INVALID = 0? -- taken from the harness: the first two
   entries of [observed] are the implementation's codes for (valid, invalid) *)
Fixpoint codes_eqb (exp : list st) (obs : list N) (cv ci : N) : bool :=
  match exp, obs with
  | [], [] => true
  | e :: er, o :: or => (match e with Valid => N.eqb o cv | Invalid => N.eqb o ci | Undefined => false end) && codes_eqb er or cv ci
  | _, _ => false
  end.

Fixpoint bools_eqb (a b : list bool) : bool :=
  match a, b with
  | [], [] => true
  | x :: a', y :: b' => Bool.eqb x y && bools_eqb a' b'
  | _, _ => false
  end.

Definition check (c : case) : bool :=
  match c with
  | HookCase leaves rhos obs =>
      match obs with
      | cv :: ci :: obs' =>
          let ls := map (fun p => eleafZ (fst p) (snd p)) (combine leaves rhos) in
          let exp := tree okZ (S (List.length ls)) ls (map init leaves) in
          codes_eqb exp obs' cv ci
      | _ => false
      end
  | ApiCase leaves pre obs =>
      (* index-by-index agreement with individual verification *)
      let valid (p : leaf * bool) :=
        match fst p with
        | LGood s x => negb (snd p) && negb (x mod rZ =? 0) && ((s - x) mod rZ =? 0)
        | LBadSig _ => false
        end in
      bools_eqb (map valid (combine leaves pre)) obs
  end.

Definition prop_check (c : case) : bool :=
  match c with
  | HookCase leaves rhos obs => true
  | ApiCase leaves pre obs => check c
  end.

Definition bad_ids (cs : list (N * case)) : list N := map fst (filter (fun p => negb (check (snd p))) cs).
Definition prop_bad_ids (cs : list (N * case)) : list N := map fst (filter (fun p => negb (prop_check (snd p))) cs).
