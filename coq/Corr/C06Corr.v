(* Correspondence evaluator for C06: the dealer polynomial is re-derived from the seed by the model
   (SHA3-256, ChaCha20 "gen_poly", 48-byte reads mod r), private shares predicted byte for byte,
   the group key and every reconstruction compared with [P(0)]g2 / enc([P(0)]H), and the C routine
   for the Lagrange coefficient (uint64 limb batching) run on the signer sets the harness used. *)
From Coq Require Import ZArith NArith List String Bool.
From Bignums Require Import BigZ.
From V Require Import Lib.Hex Lib.Num Prim.Bls12 Spec.ZcashCodec Model.Threshold Corr.C04Corr.
Import ListNotations.
Open Scope string_scope.

Inductive case :=
| KeygenCase (n t : nat) (seed : string) (h : string)
             (priv : list string) (group_pk : string) (pk_share0 : string)
             (recons : list (list Z * string))   (* signer indices (0-based) used, reconstructed signature *)
             (consistent : bool)
| LambdaCase (h : string) (idx : list Z) (sigmas : list string) (out : string)
             (* share j = [sigma_j]H with known sigma_j ; idx are the 1-based indices: the output must be
                [sum_j lambda_j sigma_j]H, a random linear combination that exposes any wrong coefficient *)
| ErrorCase (size threshold : Z) (lens : list nat) (signers : list Z) (observed : string).

Definition zs_eqb (a b : list Z) : bool := (List.length a =? List.length b)%nat && forallb (fun p => Z.eqb (fst p) (snd p)) (combine a b).

Definition check (c : case) : bool :=
  match c with
  | KeygenCase n t seed h priv gpk pk0 recons _ =>
      match generate_poly 8 (hex seed) t, g1_decode (hex h) with
      | POk a, Some H =>
          let sh := shares_of a n in
          let a0 := nth 0 a 0%Z in
          (* private shares byte for byte *)
          (List.length priv =? n)%nat &&
          forallb (fun p => bytes_eqb (hex (fst p)) (z2be 32 (snd p))) (combine priv sh) &&
          (* group key and first public share *)
          bytes_eqb (hex gpk) (g2_encode false (to_pt2 (jmul (Fp2Ops BNum pB) a0 (G2gen BNum pB)))) &&
          bytes_eqb (hex pk0) (g2_encode false (to_pt2 (jmul (Fp2Ops BNum pB) (nth 0 sh 0%Z) (G2gen BNum pB)))) &&
          (* every reconstruction is enc([P(0)]H), and the coefficient routine interpolates to P(0) *)
          let Sg := g1_encode (to_pt1 (jmul (FpOps BNum pB) a0 (jp1 H))) in
          forallb (fun rc =>
            let idx := map (fun s => (s + 1)%Z) (firstn (S t) (fst rc)) in
            let lam := map (fun i => lagrange_coeff_with inv_r_fast idx i) (seq 0 (S t)) in
            let comb := (fold_left (fun acc p => (acc + fst p * nth (Z.to_nat (snd p)) sh 0) mod rZ)%Z
                                   (combine lam (firstn (S t) (fst rc))) 0%Z) in
            bytes_eqb (hex (snd rc)) Sg && Z.eqb comb a0) recons
      | _, _ => false
      end
  | LambdaCase h idx sigmas out =>
      match g1_decode (hex h) with
      | Some H =>
          let lam := map (fun i => lagrange_coeff_with inv_r_fast idx i) (seq 0 (List.length idx)) in
          let comb := fold_left (fun acc p => (acc + fst p * be2z (hex (snd p))) mod rZ)%Z (combine lam sigmas) 0%Z in
          bytes_eqb (hex out) (g1_encode (to_pt1 (jmul (FpOps BNum pB) comb (jp1 H))))
      | None => false
      end
  | ErrorCase size thr lens signers obs =>
      String.eqb obs (match reconstruct_checks size thr lens signers with
                      | Some RInvalidInputs => "err-invalid-input"
                      | Some RNotEnoughShares => "err-not-enough-shares"
                      | Some RDuplicatedSigner => "err-duplicated-signer"
                      | Some RInvalidSignature => "err-invalid-signature"
                      | None => "ok"
                      end)
  end.

Definition prop_check (c : case) : bool :=
  check c &&   (* shares, group key and reconstructions are compared with the dealer polynomial itself *)
  match c with
  | KeygenCase _ _ _ _ _ _ _ recons consistent =>
      (* all reconstructions of one case coincide; harness-side cross checks hold *)
      consistent && match recons with
                    | [] => true
                    | r0 :: rest => forallb (fun rc => String.eqb (snd rc) (snd r0)) rest
                    end
  | _ => true
  end.

Definition bad_ids (cs : list (N * case)) : list N := map fst (filter (fun p => negb (check (snd p))) cs).
Definition prop_bad_ids (cs : list (N * case)) : list N := map fst (filter (fun p => negb (prop_check (snd p))) cs).
