(* Correspondence evaluator shared by C08 and C07: one case is one run of the harness'
   network simulator; for every honest participant it carries the calls made on its real
   instance (Start, the deliveries in the order the simulator chose, the two timeouts, End)
   with what was observed.  [check] runs the Gallina model of that participant on the same
   calls.  The two property oracles read only the observations. *)
From Coq Require Import ZArith NArith List Bool Arith.
From V Require Import Model.DkgVss Model.DkgQual Model.DkgJoint Corr.DkgEq Corr.C10Corr.
Import ListNotations.

Record part := mkP { p_my : nat; p_calls : list (call * obs) }.

Record sim := mkSim {
  s_proto : N;               (* 0 plain VSS, 1 VSS-Qual, 2 Joint-Feldman *)
  s_n : nat;
  s_t : nat;
  s_dealer : nat;
  s_honest : list nat;       (* the simulated honest participants, plus scripted ones whose script is exactly an honest run *)
  s_must_disq : list nat;    (* generator: dealers whose scripted behaviour the property says must be disqualified *)
  s_must_fail : bool;        (* generator (plain VSS): End must not return keys *)
  s_must_keys : bool;        (* generator: every participant is honest and on time: End must return keys *)
  s_parts : list part
}.

Definition check_part (k : sim) (p : part) : bool :=
  let cf := mkCfg (s_n k) (s_t k) (p_my p) in
  match s_proto k with
  | 0%N => run_check (vss_step cf (s_dealer k)) vs_run vss_init (p_calls p)
  | 1%N => run_check (qual_step cf (s_dealer k)) qs_run qual_init (p_calls p)
  | _ => run_check (joint_step cf) j_jrun (joint_init cf) (p_calls p)
  end.

Definition check (k : sim) : bool := forallb (check_part k) (s_parts k).

Definition bad_ids (cs : list (N * sim)) : list N :=
  map fst (filter (fun p => negb (check (snd p))) cs).

(* ---- helpers over observations ---- *)
Definition all_events (p : part) : list event := concat (map (fun co => o_events (snd co)) (p_calls p)).

Definition end_result (p : part) : result :=
  match rev (p_calls p) with
  | (CEnd, o) :: _ => o_res o
  | _ => RUndef
  end.

Definition mem (i : nat) (l : list nat) : bool := existsb (Nat.eqb i) l.

Definition disq_targets (p : part) : list nat :=
  flat_map (fun e => match e with EvDisq j => [j] | _ => [] end) (all_events p).

Definition subset (a b : list nat) : bool := forallb (fun i => mem i b) a.

(* ---- C08: qualification is fair ---- *)
(* no honest participant is disqualified or flagged by an honest participant *)
Definition no_honest_blamed (k : sim) : bool :=
  forallb (fun p =>
    forallb (fun e => match e with
                      | EvDisq j | EvFlag j => negb (mem j (s_honest k))
                      | _ => true
                      end) (all_events p)) (s_parts k).

(* a dealer that must be disqualified is disqualified by every honest participant *)
Definition bad_dealers_out (k : sim) : bool :=
  forallb (fun p =>
    match s_proto k with
    | 1%N => match s_must_disq k with
             | [] => true
             | _ => match end_result p with RFailure => true | _ => false end
             end
    | 2%N => subset (s_must_disq k) (disq_targets p)
    | _ => true
    end) (s_parts k).

Definition is_keysb (res : result) : bool := match res with RKeys _ _ _ => true | _ => false end.


(* ---- C07: honest participants agree ---- *)
Open Scope Z_scope.

(* k-th finite difference of a list mod r *)
Definition diff1 (l : list Z) : list Z :=
  match l with
  | [] => []
  | _ :: tl => map (fun ab => (snd ab - fst ab) mod r) (combine l tl)
  end.
Fixpoint diffk (k : nat) (l : list Z) : list Z :=
  match k with O => l | S k' => diffk k' (diff1 l) end.

(* Y :: ys are the values at 0..n of one polynomial of degree <= t *)
Definition on_poly (t : nat) (Y : Z) (ys : list Z) : bool :=
  forallb (fun z => z =? 0) (diffk (S t) (Y :: ys)).

Definition keys_consistent (k : sim) (p : part) : bool :=
  match end_result p with
  | RKeys x Y ys =>
      (match nth_error ys (p_my p) with Some y => x =? y | None => false end) &&
      Nat.eqb (length ys) (s_n k) && on_poly (s_t k) Y ys && negb (x =? 0) && negb (Y =? 0)
  | RFailure => true
  | _ => false
  end.

(* C08, continued: "bad dealing never accepted".  A disqualified dealer's dealing is not part of what End
   returns: in the Qual-based protocols the keys an honest participant gets are valid keys (its private share is
   the discrete logarithm of its public share, all public shares and the group key lie on one polynomial of
   degree <= t), whoever was disqualified on the way. *)
Definition c08_prop_check (k : sim) : bool :=
  no_honest_blamed k && bad_dealers_out k &&
  (if s_must_fail k then forallb (fun p => negb (is_keysb (end_result p))) (s_parts k) else true) &&
  (if s_must_keys k then forallb (fun p => is_keysb (end_result p)) (s_parts k) else true) &&
  match s_proto k with
  | 0%N => true
  | _ => forallb (keys_consistent k) (s_parts k)
  end.

Definition c08_prop_bad_ids (cs : list (N * sim)) : list N :=
  map fst (filter (fun p => negb (c08_prop_check (snd p))) cs).

Definition same_result (a b : result) : bool :=
  match a, b with
  | RKeys _ Y ys, RKeys _ Y' ys' => (Y =? Y') && zlist_eqb ys ys'
  | RFailure, RFailure => true
  | _, _ => false
  end.

(* Joint-Feldman: "dkgFailureError if the disqualified dealers exceeded the threshold" (more than
   t disqualified, or not more than t qualified); the disqualified dealers are those reported
   through the Disqualify callback *)
Fixpoint dedup (l : list nat) : list nat :=
  match l with
  | [] => []
  | x :: l' => if mem x l' then dedup l' else x :: dedup l'
  end.

Definition joint_rule (k : sim) (p : part) : bool :=
  match s_proto k with
  | 2%N =>
      let dq := length (dedup (disq_targets p)) in
      let must_fail := Nat.ltb (s_t k) dq || Nat.leb (s_n k - dq) (s_t k) in
      Bool.eqb must_fail (negb (is_keysb (end_result p)))
  | _ => true
  end.

Definition c07_prop_check (k : sim) : bool :=
  forallb (joint_rule k) (s_parts k) &&
  match s_proto k with
  | 0%N => true
  | _ =>
    match s_parts k with
    | [] => true
    | p0 :: ps =>
        forallb (keys_consistent k) (s_parts k) &&
        forallb (fun p => same_result (end_result p0) (end_result p) &&
                          subset (disq_targets p0) (disq_targets p) && subset (disq_targets p) (disq_targets p0)) ps
    end
  end.

Definition c07_prop_bad_ids (cs : list (N * sim)) : list N :=
  map fst (filter (fun p => negb (c07_prop_check (snd p))) cs).
