(* Correspondence / oracle evaluator for C01.
   By theorem C01_verify_iff_canonical_sig, Verify(pk_of sk, b, H) is true iff
   sk <> 0 and b is the canonical encoding of [sk]H.  [sk]H is computed with the
   independent curve arithmetic of Prim/Bls12.v on BigZ; H is the point the library's
   hash-to-curve produced (obtained as the signature under key 1 and decoded with the
   reference codec). *)
From Coq Require Import ZArith NArith List String Bool.
From Bignums Require Import BigZ.
From V Require Import Lib.Hex Lib.Num Prim.Bls12 Spec.ZcashCodec Generated.Consts.
From V Require Import Model.Hashers Model.MapToG1 Spec.HashSpec Spec.HashToCurveSpec.
Import ListNotations.
Open Scope string_scope.

(* where the 128 bytes given to map_to_G1 come from: the library's expand_message hasher
   NewExpandMsgXOFKMAC128(tag) applied to the message, or a test hasher with a fixed output *)
Inductive hash_src := HKmac (tag msg : string) | HFixed.

Inductive case :=
| SigCase (sk : string) (h : string) (idpk : bool) (sign : string) (cands : list (string * string))
| SigCaseH (sk : string) (h : string) (idpk : bool) (sign : string) (cands : list (string * string))
           (src : hash_src) (hout : string)
| HasherCase (size : Z) (sign_v : string) (verify_v : string).

Definition to_pt1 (P : jpt (F:=bigZ)) : pt1 :=
  match to_affine (FpOps BNum pB) P with
  | None => Inf1
  | Some (x, y) => Aff1 (BigZ.to_Z x) (BigZ.to_Z y)
  end.

Definition expected_sig (sk : Z) (h : list N) : option (list N) :=
  match g1_decode h with
  | Some Inf1 => Some (g1_encode Inf1)
  | Some (Aff1 x y) =>
      Some (g1_encode (to_pt1 (jmul (FpOps BNum pB) sk (of_affine (FpOps BNum pB) (BigZ.of_Z x) (BigZ.of_Z y)))))
  | None => None
  end.

Definition verdict_ok (idpk : bool) (sk : Z) (Sg : list N) (c : string * string) : bool :=
  let b := hex (fst c) in
  let exp := negb idpk && negb (Z.eqb sk 0) && bytes_eqb b Sg in
  String.eqb (snd c) (if exp then "true" else "false").

(* ---- the hash-to-curve step ----
   model of the hasher (Model/Hashers.v: NewKMAC_128(tag ++ ciphersuite, "H2C", 128).ComputeHash)
   and model of map_to_G1 (Model/MapToG1.v) against the observed hasher output and H(m) *)
Definition pt1_eqb (P Q : pt1) : bool :=
  match P, Q with
  | Inf1, Inf1 => true
  | Aff1 x y, Aff1 x' y' => Z.eqb x x' && Z.eqb y y'
  | _, _ => false
  end.

Definition model_hasher_output (src : hash_src) : option (list N) :=
  match src with
  | HFixed => None
  | HKmac tag msg =>
      match NewKMAC_128 (hex tag ++ crypto_blsSigCipherSuite)
                        crypto_internalExpandMsgXOFKMAC128__blsKMACFunction crypto_expandMsgOutput with
      | inl k => Some (fst (k_computeHash k (hex msg)))
      | inr _ => None
      end
  end.

Definition hasher_ok (src : hash_src) (hout : list N) : bool :=
  match src with
  | HFixed => true
  | HKmac _ _ => match model_hasher_output src with Some o => bytes_eqb o hout | None => false end
  end.

Definition h2c_model_ok (hout h : list N) : bool :=
  match map_to_G1_pt hout, g1_decode h with
  | Some P, Some Q => pt1_eqb P Q
  | _, _ => false
  end.

(* independent oracle: RFC 9380 hash_to_curve (Spec/HashToCurveSpec.v) on the same bytes; for the
   library's hasher the bytes themselves are KMAC128(tag ++ suite, msg, 1024, "H2C") of SP 800-185 *)
Definition spec_hasher_ok (src : hash_src) (hout : list N) : bool :=
  match src with
  | HFixed => true
  | HKmac tag msg =>
      bytes_eqb (KMAC128 (hex tag ++ crypto_blsSigCipherSuite) (hex msg) 128
                         crypto_internalExpandMsgXOFKMAC128__blsKMACFunction) hout
  end.
Definition h2c_spec_ok (hout h : list N) : bool :=
  match spec_hash_bytes_to_G1 hout, g1_decode h with
  | Some P, Some Q => pt1_eqb P Q
  | _, _ => false
  end.

Definition check (c : case) : bool :=
  match c with
  | SigCase sk h idpk sign cands =>
      let k := be2z (hex sk) in
      match expected_sig k (hex h) with
      | None => false
      | Some Sg => bytes_eqb (hex sign) Sg && forallb (verdict_ok idpk k Sg) cands
      end
  | SigCaseH sk h idpk sign cands src hout =>
      let k := be2z (hex sk) in
      (if hasher_ok src (hex hout) then h2c_model_ok (hex hout) (hex h) else false) &&
      match expected_sig k (hex h) with
      | None => false
      | Some Sg => bytes_eqb (hex sign) Sg && forallb (verdict_ok idpk k Sg) cands
      end
  | HasherCase size sv vv =>
      let exp := if Z.eqb size (-1) then "err-nil-hasher" else "err-hasher-size" in
      negb (Z.eqb size crypto_expandMsgOutput) && String.eqb sv exp && String.eqb vv exp
  end.

(* property-level oracle on the implementation's own observations: the returned
   signature verifies (unless the key is the identity / zero), at most one candidate
   string is accepted and it is the one Sign returned, H is in G1 *)
Definition prop_sig (sk h : string) (idpk : bool) (sign : string) (cands : list (string * string)) : bool :=
      let k := be2z (hex sk) in
      let accepted := filter (fun c => String.eqb (snd c) "true") cands in
      forallb (fun c => String.eqb (snd c) "true" || String.eqb (snd c) "false") cands &&
      forallb (fun c => String.eqb (fst c) sign) accepted &&
      (if idpk || Z.eqb k 0 then match accepted with [] => true | _ => false end else true) &&
      match g1_decode (hex h) with Some P => pt1_in_G1 P | None => false end.

Definition prop_check (c : case) : bool :=
  check c &&   (* the closed form is the property's own statement (C01_verify_iff_canonical_sig) *)
  match c with
  | SigCase sk h idpk sign cands => prop_sig sk h idpk sign cands
  | SigCaseH sk h idpk sign cands src hout =>
      prop_sig sk h idpk sign cands &&
      (if spec_hasher_ok src (hex hout) then h2c_spec_ok (hex hout) (hex h) else false)
  | HasherCase size sv vv => negb (String.eqb sv "true") && negb (String.eqb vv "true") && negb (String.eqb vv "false")
  end.

Definition bad_ids (cs : list (N * case)) : list N :=
  map fst (filter (fun p => negb (check (snd p))) cs).
Definition prop_bad_ids (cs : list (N * case)) : list N :=
  map fst (filter (fun p => negb (prop_check (snd p))) cs).

(* the whole signing pipeline in the model: message -> KMAC128 expand_message (Model/Hashers.v)
   -> map_to_G1 (Model/MapToG1.v) -> [sk] (Prim/Bls12.v) -> compressed encoding (Spec/ZcashCodec.v) *)
Definition model_sign (tag msg : list N) (sk : Z) : option (list N) :=
  match model_hasher_output (HKmac (tohex tag) (tohex msg)) with
  | None => None
  | Some hout =>
      match map_to_G1 BNum pB hout with
      | G1Invalid => None
      | G1Point H => Some (g1_encode (to_pt1 (jmul (FpOps BNum pB) sk H)))
      end
  end.
