(* Correspondence / oracle evaluator for C01.
   By theorem C01_verify_iff_canonical_sig, Verify(pk_of sk, b, H) is true iff
   sk <> 0 and b is the canonical encoding of [sk]H.  [sk]H is computed with the
   independent curve arithmetic of Prim/Bls12.v on BigZ; H is the point the library's
   hash-to-curve produced (obtained as the signature under key 1 and decoded with the
   reference codec). *)
From Coq Require Import ZArith NArith List String Bool.
From Bignums Require Import BigZ.
From V Require Import Lib.Hex Lib.Num Prim.Bls12 Spec.ZcashCodec Generated.Consts.
Import ListNotations.
Open Scope string_scope.

Inductive case :=
| SigCase (sk : string) (h : string) (idpk : bool) (sign : string) (cands : list (string * string))
| HasherCase (size : Z) (sign_v : string) (verify_v : string).

Definition to_pt1 (P : jpt (F:=bigZ)) : pt1 :=
  match to_affine (FpOps BNum pB) P with
  | None => Inf1
  | Some (x, y) => Aff1 (BigZ.to_Z x) (BigZ.to_Z y)
  end.

Definition expected_sig (sk : Z) (h : list N) : option (list N) :=
  match g1_decode h with
  | Some Inf1 => Some (g1_encode Inf1)
  | Some (Aff1 x y) =>
      Some (g1_encode (to_pt1 (jmul (FpOps BNum pB) sk (of_affine (FpOps BNum pB) (BigZ.of_Z x) (BigZ.of_Z y)))))
  | None => None
  end.

Definition verdict_ok (idpk : bool) (sk : Z) (Sg : list N) (c : string * string) : bool :=
  let b := hex (fst c) in
  let exp := negb idpk && negb (Z.eqb sk 0) && bytes_eqb b Sg in
  String.eqb (snd c) (if exp then "true" else "false").

Definition check (c : case) : bool :=
  match c with
  | SigCase sk h idpk sign cands =>
      let k := be2z (hex sk) in
      match expected_sig k (hex h) with
      | None => false
      | Some Sg => bytes_eqb (hex sign) Sg && forallb (verdict_ok idpk k Sg) cands
      end
  | HasherCase size sv vv =>
      let exp := if Z.eqb size (-1) then "err-nil-hasher" else "err-hasher-size" in
      negb (Z.eqb size crypto_expandMsgOutput) && String.eqb sv exp && String.eqb vv exp
  end.

(* property-level oracle on the implementation's own observations: the returned
   signature verifies (unless the key is the identity / zero), at most one candidate
   string is accepted and it is the one Sign returned, H is in G1 *)
Definition prop_check (c : case) : bool :=
  check c &&   (* the closed form is the property's own statement (C01_verify_iff_canonical_sig) *)
  match c with
  | SigCase sk h idpk sign cands =>
      let k := be2z (hex sk) in
      let accepted := filter (fun c => String.eqb (snd c) "true") cands in
      forallb (fun c => String.eqb (snd c) "true" || String.eqb (snd c) "false") cands &&
      forallb (fun c => String.eqb (fst c) sign) accepted &&
      (if idpk || Z.eqb k 0 then match accepted with [] => true | _ => false end else true) &&
      match g1_decode (hex h) with Some P => pt1_in_G1 P | None => false end
  | HasherCase size sv vv => negb (String.eqb sv "true") && negb (String.eqb vv "true") && negb (String.eqb vv "false")
  end.

Definition bad_ids (cs : list (N * case)) : list N :=
  map fst (filter (fun p => negb (check (snd p))) cs).
Definition prop_bad_ids (cs : list (N * case)) : list N :=
  map fst (filter (fun p => negb (prop_check (snd p))) cs).
