(* Correspondence evaluator for C10: runs the Gallina models of the three DKG protocols on
   the call sequence the harness ran on a real instance and compares, per call, the result
   (class, and for End the keys as discrete logs), Running() and the emitted events. *)
From Coq Require Import ZArith NArith List Bool Arith.
From V Require Import Model.DkgVss Model.DkgQual Model.DkgJoint Spec.DkgApiSpec Corr.DkgEq.
Import ListNotations.

Record obs := mkObs { o_res : result; o_running : bool; o_events : list event }.

Record case := mkCase {
  k_proto : N;                 (* 0 plain VSS, 1 VSS-Qual, 2 Joint-Feldman *)
  k_cf : cfg;
  k_dealer : nat;
  k_noop : bool;               (* harness: the run without the refused calls is observed identically *)
  k_calls : list (call * obs)
}.

Section Generic.
Context {S : Type}.
Variable step : S -> call -> S * result * list event.
Variable running : S -> bool.

Fixpoint run_check (s : S) (l : list (call * obs)) : bool :=
  match l with
  | [] => true
  | (c, o) :: l' =>
      let '(s', res, ev) := step s c in
      result_eqb res (o_res o) &&
      match res with
      | RPanic => true
      | _ => events_eqb ev (o_events o) && Bool.eqb (running s') (o_running o) && run_check s' l'
      end
  end.
End Generic.

Definition check (k : case) : bool :=
  match k_proto k with
  | 0%N => run_check (vss_step (k_cf k) (k_dealer k)) vs_run vss_init (k_calls k)
  | 1%N => run_check (qual_step (k_cf k) (k_dealer k)) qs_run qual_init (k_calls k)
  | _ => run_check (joint_step (k_cf k)) j_jrun (joint_init (k_cf k)) (k_calls k)
  end.

Definition bad_ids (cs : list (N * case)) : list N :=
  map fst (filter (fun p => negb (check (snd p))) cs).

(* ---- property-level oracle: the documented automaton of Spec/DkgApiSpec.v, not the
   model of the handlers ----
   every observed result class is the prescribed one, Running() is the automaton's flag,
   a refused call emits no event, and (harness, differential) leaving the refused calls out
   does not change what is observed. *)
Definition rclass_eqb (a b : rclass) : bool :=
  match a, b with
  | KOk, KOk | KInvalidInput, KInvalidInput | KStateErr, KStateErr | KEnd, KEnd => true
  | KBool x, KBool y => Bool.eqb x y
  | _, _ => false
  end.

Definition refused (res : result) : bool :=
  match res with RInvalidInput | RStateErr => true | _ => false end.

Section Oracle.
Variable p : proto.
Variable cf : cfg.
Variable dealer : bool.

Fixpoint follows (A : astate) (l : list (call * obs)) : bool :=
  match l with
  | [] => true
  | (c, o) :: l' =>
      let '(A', k) := aut_step p cf dealer A c in
      match class_of (o_res o) with
      | Some k' => rclass_eqb k k' && Bool.eqb (a_run A') (o_running o) &&
                   (if refused (o_res o) then match o_events o with [] => true | _ => false end else true) &&
                   follows A' l'
      | None => false
      end
  end.
End Oracle.

Definition prop_check (k : case) : bool :=
  let p := match k_proto k with 0%N => PVss | 1%N => PQual | _ => PJoint end in
  let dealer := match p with PJoint => true | _ => Nat.eqb (c_my (k_cf k)) (k_dealer k) end in
  k_noop k && follows p (k_cf k) dealer a_init (k_calls k).

Definition prop_bad_ids (cs : list (N * case)) : list N :=
  map fst (filter (fun p => negb (prop_check (snd p))) cs).
