(* C16 uses the evaluator of C01: a proof of possession is the signature of the public key's
   encoding under the PoP hasher, so BLSVerifyPOP(pk, b) = (b = enc([sk] H_pop(enc pk))). *)
From V Require Export Corr.C01Corr.
