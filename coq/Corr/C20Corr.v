(* Evaluator for C20: each build configuration's transcript line is (operation, input, output of this
   build, output of the default build).  Model check: the digests and PRG bytes equal the Gallina
   specifications (FIPS 202 / FIPS 180-4 / RFC 8439), for EVERY build.  Property oracle: every output
   equals the default build's output and the transcript has the expected number of lines. *)
From Coq Require Import ZArith NArith List String Bool.
From V Require Import Lib.Hex Spec.HashSpec Prim.Sha2 Model.Prg.
Import ListNotations.
Open Scope string_scope.

Inductive case := BuildCase (config : string) (expected_lines : nat) (lines : list (string * string * string * string)).

Definition line_model_ok (l : string * string * string * string) : bool :=
  let '(op, inp, out, _) := l in
  let m := hex inp in
  if String.eqb op "sha3_256" || String.eqb op "sha3_256_split" then bytes_eqb (hex out) (SHA3_256 m)
  else if String.eqb op "sha3_384" then bytes_eqb (hex out) (SHA3_384 m)
  else if String.eqb op "keccak_256" then bytes_eqb (hex out) (Keccak_256 m)
  else if String.eqb op "sha2_256" then bytes_eqb (hex out) (sha256 m)
  else if String.eqb op "sha2_384" then bytes_eqb (hex out) (sha384 m)
  else if String.eqb op "prg_read" then
    let seed := firstn 32 m in let cust := skipn 32 m in
    bytes_eqb (hex out) (ks_range seed (cust ++ repeat 0%N (12 - List.length cust)) 0 (List.length (hex out)))
  else true.

Definition check (c : case) : bool :=
  match c with BuildCase _ _ lines => forallb line_model_ok lines end.

Definition prop_check (c : case) : bool :=
  match c with
  | BuildCase _ n lines =>
      Nat.eqb (List.length lines) n &&
      forallb (fun l => let '(_, _, out, dflt) := l in String.eqb out dflt) lines
  end.

Definition bad_ids (cs : list (N * case)) : list N := map fst (filter (fun p => negb (check (snd p))) cs).
Definition prop_bad_ids (cs : list (N * case)) : list N := map fst (filter (fun p => negb (prop_check (snd p))) cs).
