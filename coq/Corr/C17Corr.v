(* Oracle evaluator for C17.  By C17_spock_verify_iff, SPOCKVerify(pk1,p1,pk2,p2) is true
   iff both keys are non-identity, both proofs are canonical encodings of G1 points and
   [sk2]P1 = [sk1]P2 (= e(p1,pk2) = e(p2,pk1) expressed in G1).  Evaluated on BigZ. *)
From Coq Require Import ZArith NArith List String Bool.
From Bignums Require Import BigZ.
From V Require Import Lib.Hex Lib.Num Prim.Bls12 Spec.ZcashCodec.
Import ListNotations.
Open Scope string_scope.

Record case := mkCase {
  c_sk1 : string; c_sk2 : string; c_id1 : bool; c_id2 : bool;
  c_p1 : string; c_p2 : string; c_verdict : string; c_swapped : string }.

Definition jp (P : pt1) : jpt (F:=bigZ) :=
  match P with
  | Inf1 => jinf (FpOps BNum pB)
  | Aff1 x y => of_affine (FpOps BNum pB) (BigZ.of_Z x) (BigZ.of_Z y)
  end.

Definition expected (c : case) : bool :=
  let k1 := be2z (hex (c_sk1 c)) in let k2 := be2z (hex (c_sk2 c)) in
  negb (c_id1 c) && negb (c_id2 c) && negb (Z.eqb k1 0) && negb (Z.eqb k2 0) &&
  match g1_decode (hex (c_p1 c)), g1_decode (hex (c_p2 c)) with
  | Some P1, Some P2 =>
      pt1_in_G1 P1 && pt1_in_G1 P2 &&
      jeqb (FpOps BNum pB) (jmul (FpOps BNum pB) k2 (jp P1)) (jmul (FpOps BNum pB) k1 (jp P2))
  | _, _ => false
  end.

Definition check (c : case) : bool :=
  String.eqb (c_verdict c) (if expected c then "true" else "false").

(* property-level: the verdict is a boolean and does not change when the pairs are swapped *)
Definition prop_check (c : case) : bool :=
  check c &&   (* the closed form is the property's own statement (C17_spock_verify_iff) *)
  (String.eqb (c_verdict c) "true" || String.eqb (c_verdict c) "false") &&
  String.eqb (c_verdict c) (c_swapped c).

Definition bad_ids (cs : list (N * case)) : list N := map fst (filter (fun p => negb (check (snd p))) cs).
Definition prop_bad_ids (cs : list (N * case)) : list N := map fst (filter (fun p => negb (prop_check (snd p))) cs).
