(* C09 correspondence evaluator - MINIMAL version used to test the harness (c09.go).
   The record shape is fixed by the harness; the bodies of [check] / [prop_check] are
   placeholders to be replaced by the oracle against Generated/RiskSkel.v. *)
From Coq Require Import ZArith List String Bool.
Import ListNotations.
Open Scope string_scope.
Open Scope Z_scope.

Record case := mkCase {
  c_api : string;               (* exported function / method that was called *)
  c_args : list (string * Z);   (* API facts (documented at the top of harness/cmd/vh/c09.go) *)
  c_skel : string;              (* key of the risk skeleton modelling the validation ("" = none) *)
  c_env : list (string * Z);    (* known environment entries of that skeleton *)
  c_obs : string                (* observed outcome class *)
}.

Fixpoint lookup (k : string) (l : list (string * Z)) : option Z :=
  match l with
  | [] => None
  | (k', v) :: r => if String.eqb k k' then Some v else lookup k r
  end.

Definition check (c : case) : bool := true.

Definition bad_ids (cs : list (N * case)) : list N :=
  map fst (filter (fun p => negb (check (snd p))) cs).

Definition is_panic (s : string) : bool := String.prefix "PANIC" s.

(* the property: no panic, except UintN(0) and nil interface / callback arguments *)
Definition exempt (c : case) : bool :=
  (String.eqb (c_api c) "random.genericPRG.UintN" &&
   match lookup "n" (c_args c) with Some 0 => true | _ => false end)
  || match lookup "nil.iface" (c_args c) with Some 1 => true | _ => false end.

Definition prop_check (c : case) : bool := negb (is_panic (c_obs c)) || exempt c.

Definition prop_bad_ids (cs : list (N * case)) : list N :=
  map fst (filter (fun p => negb (prop_check (snd p))) cs).
