(* Correspondence evaluator for C09 (hostile stream).
   A case = one call of an exported function with hostile arguments:
     c_api / c_args : the call and integer facts about its arguments and the situation
                      (documented API by API at the top of harness/cmd/vh/c09.go);
     c_skel / c_env : the risk skeleton (Generated/RiskSkel.v) that validates the call and the
                      entries of its environment the harness knows for sure;
     c_obs          : the observed class ("ok", "true", "false", "err-...", "PANIC: msg").
   [check]      : MODEL vs implementation.  The skeleton regenerated from the sources is run on
                  the known entries; when its execution is determinate up to a return (the
                  argument-validation prefix), the returned tag predicts the class.
   [prop_check] : the property's own oracle, written from the documentation, independent of
                  the skeletons: no panic outside the documented exceptions, and an input that
                  the documentation calls invalid is answered with the documented typed error
                  or a false verdict, never with success. *)
From Coq Require Import ZArith List String Bool Ascii.
From V Require Import Model.Risk Generated.RiskSkel.
Import ListNotations.
Open Scope string_scope.
Open Scope Z_scope.

Record case := mkCase { c_api : string; c_args : list (string * Z); c_skel : string;
                        c_env : list (string * Z); c_obs : string }.

(* ---------- strings ---------- *)
Fixpoint contains (sub s : string) : bool :=
  String.prefix sub s || match s with EmptyString => false | String _ r => contains sub r end.

Definition is_panic (s : string) : bool := String.prefix "PANIC" s.

Fixpoint split_comma (s : string) (cur : string) : list string :=
  match s with
  | EmptyString => [cur]
  | String c r => if Ascii.eqb c ","%char then cur :: split_comma r "" else split_comma r (cur ++ String c "")
  end.

Definition mem (x : string) (l : list string) : bool := existsb (String.eqb x) l.

Definition fact (c : case) (k : string) : option Z := assoc k (c_args c).
Definition factd (c : case) (k : string) (d : Z) : Z := match fact c k with Some v => v | None => d end.
Definition has (c : case) (k : string) : bool := match fact c k with Some _ => true | None => false end.

(* ---------- partial execution of a skeleton on the known entries ---------- *)
Definition penv := string -> option Z.
Definition pupd (e : penv) (x : string) (v : option Z) : penv :=
  fun y => if String.eqb y x then v else e y.

Definition omap2 (f : Z -> Z -> Z) (a b : option Z) : option Z :=
  match a, b with Some x, Some y => Some (f x y) | _, _ => None end.

Fixpoint pteval (t : term) (e : penv) : option Z :=
  match t with
  | TLen x | TVar x | TOpaque x => e x
  | TConst z => Some z
  | TAdd a b => omap2 Z.add (pteval a e) (pteval b e)
  | TSub a b => omap2 Z.sub (pteval a e) (pteval b e)
  | TMul a b => omap2 Z.mul (pteval a e) (pteval b e)
  | TByte a => option_map (fun v => v mod 256) (pteval a e)
  end.

Definition cmp2 (f : Z -> Z -> bool) (a b : option Z) : option bool :=
  match a, b with Some x, Some y => Some (f x y) | _, _ => None end.

Fixpoint pceval (c : cond) (e : penv) : option bool :=
  match c with
  | CLt a b => cmp2 Z.ltb (pteval a e) (pteval b e)
  | CLe a b => cmp2 Z.leb (pteval a e) (pteval b e)
  | CEq a b => cmp2 Z.eqb (pteval a e) (pteval b e)
  | CNe a b => cmp2 (fun x y => negb (x =? y)) (pteval a e) (pteval b e)
  | CGt a b => cmp2 Z.ltb (pteval b e) (pteval a e)
  | CGe a b => cmp2 Z.leb (pteval b e) (pteval a e)
  | COr a b =>
      match pceval a e with
      | Some true => Some true
      | Some false => pceval b e
      | None => match pceval b e with Some true => Some true | _ => None end
      end
  | CAnd a b =>
      match pceval a e with
      | Some false => Some false
      | Some true => pceval b e
      | None => match pceval b e with Some false => Some false | _ => None end
      end
  | CNot a => option_map negb (pceval a e)
  | CNil x =>
      match e x with
      | Some n => if 0 <? n then Some false
                  else match e (nil_oracle x) with Some o => Some (o =? 1) | None => None end
      | None => None
      end
  | CTrue => Some true
  | CFalse => Some false
  | CUnknown _ => None
  end.

Inductive pres := PCont (e : penv) | PRet (tag : string) (vs : list (option Z)) | PPanic | PUnknown.

Definition prisk (r : risk) (e : penv) : option bool :=
  match r with
  | RIdx x i => match pteval i e, e x with
                | Some iv, Some n => Some ((0 <=? iv) && (iv <? n)) | _, _ => None end
  | RSlice x lo hi => match pteval lo e, pteval hi e, e x with
                      | Some l, Some h, Some n => Some ((0 <=? l) && (l <=? h) && (h <=? n))
                      | _, _, _ => None end
  | RMake n => option_map (fun v => 0 <=? v) (pteval n e)
  | RDiv d => option_map (fun v => negb (v =? 0)) (pteval d e)
  | RAssert _ | RDeref _ => None
  | RPanic _ => Some false
  end.

Fixpoint passoc (k : string) (l : list (string * option Z)) : option (option Z) :=
  match l with
  | [] => None
  | (k', v) :: r => if String.eqb k k' then Some v else passoc k r
  end.

Definition pcall_env (e : penv) (binds : list (string * term)) (rfrom rto : string) : penv :=
  let bs := map (fun p => (fst p, pteval (snd p) e)) binds in
  fun n => match passoc n bs with Some v => v | None => e (rename rfrom rto n) end.

Fixpoint pbind_res (e : penv) (res : list string) (vs : list (option Z)) : penv :=
  match res with
  | [] => e
  | r :: rs =>
      let v := match vs with v :: _ => v | [] => Some 0 end in
      pbind_res (if String.eqb r "" then e else pupd e r v) rs (tl vs)
  end.

Definition prun_list (pone : ev -> penv -> pres) : list ev -> penv -> pres :=
  fix run (l : list ev) (e : penv) : pres :=
    match l with
    | [] => PCont e
    | x :: r => match pone x e with PCont e' => run r e' | o => o end
    end.

Fixpoint pone (call : list ev -> penv -> pres) (x : ev) (e : penv) {struct x} : pres :=
  match x with
  | ERisk r => match prisk r e with Some true => PCont e | Some false => PPanic | None => PUnknown end
  | EIf c a b =>
      match pceval c e with
      | Some true => prun_list (pone call) a e
      | Some false => prun_list (pone call) b e
      | None => PUnknown
      end
  | ERet tag vs => PRet tag (map (fun t => pteval t e) vs)
  | ELoopRange _ x _ => match e x with Some n => if n <=? 0 then PCont e else PUnknown | None => PUnknown end
  | ELoopN _ lo hi _ =>
      match pteval lo e, pteval hi e with
      | Some l, Some h => if h <=? l then PCont e else PUnknown
      | _, _ => PUnknown
      end
  | ELoopWhile c _ => match pceval c e with Some false => PCont e | _ => PUnknown end
  | EBreak => PUnknown
  | EAssume c => match pceval c e with Some false => PUnknown | _ => PCont e end
  | ESetLen x t => PCont (pupd e x (pteval t e))
  | EReslice x k =>
      match pteval k e, e x with
      | Some kv, Some n => if (0 <=? kv) && (kv <=? n) then PCont (pupd e x (Some (n - kv))) else PPanic
      | _, _ => PUnknown
      end
  | EHavoc x o => PCont (pupd e x (e o))
  | ECall f binds rfrom rto res =>
      match risk_prog f with
      | Some body =>
          match call body (pcall_env e binds rfrom rto) with
          | PCont _ => PCont (pbind_res e res [])
          | PRet _ vs => PCont (pbind_res e res vs)
          | o => o
          end
      | None => PUnknown
      end
  | EDyn _ | EExt _ | ENote _ => PCont e
  | EUnknown _ => PUnknown
  end.

Fixpoint pexec (fuel : nat) : list ev -> penv -> pres :=
  match fuel with
  | O => fun _ _ => PUnknown
  | S n => prun_list (pone (pexec n))
  end.

Definition penv_of (l : list (string * Z)) : penv := fun n => assoc n l.

Definition predict (c : case) : pres :=
  match risk_prog (c_skel c) with
  | Some body => pexec 8 body (penv_of (c_env c))
  | None => PUnknown
  end.

(* ---------- from return tags to classes ---------- *)
Definition err_class_of_head (h : string) : option string :=
  if String.eqb h "invalidInputsErrorf" then Some "err-invalid-inputs"
  else if String.eqb h "errInvalidSignature" then Some "err-invalid-signature"
  else if String.eqb h "errNotBLSKey" then Some "err-not-bls-key"
  else if String.eqb h "errNilHasher" then Some "err-nil-hasher"
  else if String.eqb h "invalidHasherSizeErrorf" then Some "err-hasher-size"
  else if String.eqb h "errBLSAggregateEmptyList" then Some "err-empty-list"
  else if String.eqb h "duplicatedSignerErrorf" then Some "err-duplicated-signer"
  else if String.eqb h "notEnoughSharesErrorf" then Some "err-not-enough-shares"
  else if String.eqb h "dkgFailureErrorf" then Some "err-dkg-failure"
  else if String.eqb h "dkgInvalidStateTransitionErrorf" then Some "err-dkg-transition"
  else if String.eqb h "fmt.Errorf" then Some "err-other"
  else None.

Definition success_classes : list string := ["ok"; "true"; "false"].

(* does the observed class agree with a return built as [tag] whose last value is [lastv]? *)
Definition tag_matches (tag : string) (lastv : option Z) (obs : string) : bool :=
  let heads := split_comma tag "" in
  let lst := last heads "" in
  let fst_h := hd "" heads in
  match err_class_of_head lst with
  | Some cl => String.eqb obs cl
  | None =>
      if String.eqb lst "nil" then
        if (1 <? Z.of_nat (List.length heads)) && String.eqb fst_h "true" then String.eqb obs "true"
        else if (1 <? Z.of_nat (List.length heads)) && String.eqb fst_h "false" then String.eqb obs "false"
        else mem obs success_classes
      else if String.eqb lst "fmt.Errorf%w" then String.prefix "err-" obs
      else match lastv with
           | Some 0 => if String.eqb lst "err" then mem obs success_classes else true
           | Some _ => if String.eqb lst "err" then String.prefix "err-" obs else true
           | None => true
           end
  end.

Definition check (c : case) : bool :=
  if has c "finding.prg-counter-overflow" || has c "shadow.prg-counter-overflow" || has c "nil.iface" then true
  else
    match predict c with
    | PRet tag vs => is_panic (c_obs c) || tag_matches tag (last vs None) (c_obs c)
    | PPanic => is_panic (c_obs c)
    | _ => true
    end.

Definition bad_ids (cs : list (N * case)) : list N :=
  map fst (filter (fun p => negb (check (snd p))) cs).

(* ---------- the property's oracle ---------- *)
Definition api (c : case) (s : string) : bool := String.eqb (c_api c) s.
Definition apis (c : case) (l : list string) : bool := mem (c_api c) l.

Definition geti (c : case) (k : string) : Z := factd c k 0.
Definition in_range (v lo hi : Z) : bool := (lo <=? v) && (v <=? hi).

(* classes the documentation allows when the named defect is present; [] = no defect seen.
   When several defects are present any of their classes is accepted (the documentation does
   not order them). *)
Definition when (b : bool) (l : list string) : list string := if b then l else [].

Definition defects (c : case) : list string :=
  let g := geti c in
  let algo := g "algo" in
  let badalgo := negb (in_range algo 1 3) in
  let size := g "size" in let thr := g "threshold" in
  (* decoding / key generation *)
  (when (api c "DecodePrivateKey")
     (when (badalgo || negb (g "input" =? 32)) ["err-invalid-inputs"]) ++
   when (api c "DecodePublicKey")
     (when (badalgo || ((algo =? 1) && negb (g "input" =? 96)) || ((1 <? algo) && negb (g "input" =? 64)))
        ["err-invalid-inputs"]) ++
   when (api c "DecodePublicKeyCompressed")
     (when (badalgo || ((algo =? 1) && negb (g "data" =? 96)) || ((1 <? algo) && negb (g "data" =? 33)))
        ["err-invalid-inputs"]) ++
   when (api c "GeneratePrivateKey")
     (when (badalgo || (g "seed" <? 32) || (256 <? g "seed")) ["err-invalid-inputs"]) ++
   when (api c "SignatureFormatCheck")
     (when (negb (in_range algo 2 3)) ["err-invalid-inputs"] ++ when (negb (g "s" =? 64)) ["false"]) ++
   (* signing / verification *)
   when (apis c ["prKeyBLSBLS12381.Sign"; "SPOCKProve"])
     (when (has c "sk.nonbls" && (0 <? g "sk.nonbls")) ["err-not-bls-key"] ++
      when (g "kmac" =? 0) ["err-nil-hasher"] ++
      when ((g "kmac" =? 1) && negb (g "kmac.size" =? 128)) ["err-hasher-size"]) ++
   when (api c "prKeyECDSA.Sign")
     (when (g "alg" =? 0) ["err-nil-hasher"] ++ when ((g "alg" =? 1) && (g "alg.size" <? 32)) ["err-hasher-size"]) ++
   when (api c "pubKeyBLSBLS12381.Verify")
     (when (g "kmac" =? 0) ["err-nil-hasher"] ++
      when ((g "kmac" =? 1) && negb (g "kmac.size" =? 128)) ["err-hasher-size"] ++
      when (negb (g "s" =? 48) || (g "pk.isIdentity" =? 1) || (g "s.genuine" =? 0)) ["false"]) ++
   when (api c "pubKeyECDSA.Verify")
     (when (g "alg" =? 0) ["err-nil-hasher"] ++ when ((g "alg" =? 1) && (g "alg.size" <? 32)) ["err-hasher-size"] ++
      when (negb (g "sig" =? 64) || (g "sig.genuine" =? 0)) ["false"]) ++
   when (api c "BLSGeneratePOP") (when (0 <? g "sk.nonbls") ["err-not-bls-key"]) ++
   when (api c "BLSVerifyPOP")
     (when (0 <? g "pk.nonbls") ["err-not-bls-key"] ++
      when (negb (g "s" =? 48) || (g "pk.isIdentity" =? 1) || (g "s.genuine" =? 0)) ["false"]) ++
   when (api c "SPOCKVerifyAgainstData")
     (when (0 <? g "pk.nonbls") ["err-not-bls-key"] ++ when (g "kmac" =? 0) ["err-nil-hasher"] ++
      when ((g "kmac" =? 1) && negb (g "kmac.size" =? 128)) ["err-hasher-size"] ++
      when (negb (g "proof" =? 48) || (g "pk.isIdentity" =? 1) || (g "proof.genuine" =? 0)) ["false"]) ++
   when (api c "SPOCKVerify")
     (when ((0 <? g "pk1.nonbls") || (0 <? g "pk2.nonbls")) ["err-not-bls-key"] ++
      when (negb (g "proof1" =? 48) || negb (g "proof2" =? 48) || (g "pk1.isIdentity" =? 1) || (g "pk2.isIdentity" =? 1))
        ["false"]) ++
   (* aggregation *)
   when (api c "AggregateBLSSignatures")
     (when (g "sigs" =? 0) ["err-empty-list"] ++ when (0 <? g "sigs.badlen") ["err-invalid-signature"]) ++
   when (apis c ["AggregateBLSPrivateKeys"; "AggregateBLSPublicKeys"])
     (when (g "keys" =? 0) ["err-empty-list"] ++ when (0 <? g "keys.nonbls") ["err-not-bls-key"]) ++
   when (api c "RemoveBLSPublicKeys")
     (when ((0 <? g "aggKey.nonbls") || (0 <? g "keysToRemove.nonbls")) ["err-not-bls-key"]) ++
   when (api c "VerifyBLSSignatureOneMessage")
     (when (g "pks" =? 0) ["err-empty-list"] ++ when (0 <? g "pks.nonbls") ["err-not-bls-key"] ++
      when (g "kmac" =? 0) ["err-nil-hasher"] ++
      when ((g "kmac" =? 1) && negb (g "kmac.size" =? 128)) ["err-hasher-size"] ++
      when (negb (g "s" =? 48) || (g "s.genuine" =? 0)) ["false"]) ++
   when (api c "VerifyBLSSignatureManyMessages")
     (when (g "pks" =? 0) ["err-empty-list"] ++
      when (negb (g "pks" =? g "messages") || negb (g "kmac" =? g "messages")) ["err-invalid-inputs"] ++
      when (0 <? g "pks.nonbls") ["err-not-bls-key"] ++ when (0 <? g "kmac.nil") ["err-nil-hasher"] ++
      when (0 <? g "kmac.badsize") ["err-hasher-size"] ++
      when (negb (g "s" =? 48) || (0 <? g "pks.identity") || (g "s.genuine" =? 0)) ["false"]) ++
   when (api c "BatchVerifyBLSSignaturesOneMessage")
     (when (g "pks" =? 0) ["err-empty-list"] ++ when (negb (g "pks" =? g "sigs")) ["err-invalid-inputs"] ++
      when (0 <? g "pks.nonbls") ["err-not-bls-key"] ++ when (g "kmac" =? 0) ["err-nil-hasher"] ++
      when ((g "kmac" =? 1) && negb (g "kmac.size" =? 128)) ["err-hasher-size"] ++
      when ((0 <? g "sigs.badlen") || (0 <? g "pks.identity")) ["false"]) ++
   (* threshold signatures *)
   when (api c "BLSThresholdKeyGen")
     (when (negb (in_range size 2 254) || negb (in_range thr 1 (size - 1)) || (g "seed" <? 32)) ["err-invalid-inputs"]) ++
   when (api c "EnoughShares") (when (thr <? 1) ["err-invalid-inputs"]) ++
   when (api c "BLSReconstructThresholdSignature")
     (when (negb (in_range size 2 254) || negb (in_range thr 1 (size - 1)) || negb (g "shares" =? g "signers")
            || (0 <=? factd c "signers.firstoor" (-1))) ["err-invalid-inputs"] ++
      when (g "shares" <? thr + 1) ["err-not-enough-shares"] ++
      when (0 <=? factd c "signers.firstdup" (-1)) ["err-duplicated-signer"] ++
      when (0 <? g "shares.badlen.head") ["err-invalid-signature"]) ++
   when (apis c ["NewBLSThresholdSignatureInspector"; "NewBLSThresholdSignatureParticipant"])
     (when (negb (in_range (g "sharePublicKeys") 2 254) || negb (in_range thr 1 (g "sharePublicKeys" - 1)))
        ["err-invalid-inputs"] ++
      when ((0 <? g "sharePublicKeys.nonbls") || (0 <? g "groupPublicKey.nonbls") || (0 <? g "myPrivateKey.nonbls"))
        ["err-not-bls-key"] ++
      when (api c "NewBLSThresholdSignatureParticipant" &&
            (negb (in_range (g "myIndex") 0 (g "sharePublicKeys" - 1)) || (factd c "myPrivateKey.match" 1 =? 0)))
        ["err-invalid-inputs"]) ++
   when (apis c ["blsThresholdSignatureInspector.VerifyShare"; "blsThresholdSignatureInspector.HasShare";
                 "blsThresholdSignatureInspector.TrustedAdd"; "blsThresholdSignatureInspector.VerifyAndAdd"])
     (when (negb (in_range (g "orig") 0 (size - 1))) ["err-invalid-inputs"] ++
      when ((g "pre.has" =? 1) && apis c ["blsThresholdSignatureInspector.TrustedAdd"; "blsThresholdSignatureInspector.VerifyAndAdd"])
        ["err-duplicated-signer"] ++
      when (apis c ["blsThresholdSignatureInspector.VerifyShare"; "blsThresholdSignatureInspector.VerifyAndAdd"] &&
            (negb (g "share" =? 48) || (g "share.genuine" =? 0))) ["false"]) ++
   when (api c "blsThresholdSignatureInspector.ThresholdSignature")
     (when (g "pre" <? thr + 1) ["err-not-enough-shares"] ++
      when (0 <? g "pre.badlen") ["err-invalid-signature"] ++
      when (0 <? g "pre.forged") ["err-invalid-signature"; "err-invalid-inputs"]) ++
   when (api c "blsThresholdSignatureInspector.VerifyThresholdSignature")
     (when (negb (g "thresholdSignature" =? 48) || (g "thresholdSignature.genuine" =? 0)) ["false"]) ++
   (* Equals of keys and of hashes: true exactly for the same value *)
   when (apis c ["pubKeyBLSBLS12381.Equals"; "pubKeyECDSA.Equals"; "prKeyBLSBLS12381.Equals"; "prKeyECDSA.Equals"; "hash.Hash.Equal"])
     (if g "same" =? 1 then ["true"] else ["false"]) ++
   (* hash / random constructors and sampling *)
   when (api c "hash.NewKMAC_128") (when ((g "outputSize" <? 0) || (g "key" <? 16)) ["err-other"]) ++
   when (api c "random.NewChacha20PRG") (when (negb (g "seed" =? 32) || (12 <? g "customizer")) ["err-other"]) ++
   when (api c "random.RestoreChacha20PRG") (when (negb (g "stateBytes" =? 52)) ["err-other"]) ++
   when (apis c ["random.genericPRG.Permutation"; "random.genericPRG.Shuffle"]) (when (g "n" <? 0) ["err-other"]) ++
   when (apis c ["random.genericPRG.SubPermutation"; "random.genericPRG.Samples"])
     (when ((g "m" <? 0) || (g "n" <? g "m")) ["err-other"]) ++
   (* DKG constructors *)
   when (apis c ["NewFeldmanVSS"; "NewFeldmanVSSQual"; "NewJointFeldman"])
     (when (negb (in_range size 2 254) || negb (in_range thr 1 (size - 1)) || negb (in_range (g "myIndex") 0 (size - 1))
            || (has c "dealerIndex" && negb (api c "NewJointFeldman") && negb (in_range (g "dealerIndex") 0 (size - 1))))
        ["err-invalid-inputs"]))%list.

(* DKG calls on an instance *)
Definition dkg_method (c : case) (m : string) : bool :=
  apis c ["feldmanVSSstate." ++ m; "feldmanVSSQualState." ++ m; "JointFeldmanState." ++ m; "dkgCommon." ++ m].

Definition dkg_defects (c : case) : list string :=
  let g := geti c in
  let running := g "running" =? 1 in
  let size := g "size" in
  if negb (has c "proto") then []
  else
    (when ((dkg_method c "HandleBroadcastMsg" || dkg_method c "HandlePrivateMsg" || dkg_method c "ForceDisqualify"
            || dkg_method c "End" || (dkg_method c "NextTimeout" && negb (g "proto" =? 0))) && negb running)
       ["err-dkg-transition"] ++
     when (dkg_method c "Start" && running) ["err-dkg-transition"] ++
     when ((dkg_method c "HandleBroadcastMsg" || dkg_method c "HandlePrivateMsg") && running &&
           negb (in_range (g "orig") 0 (size - 1))) ["err-invalid-inputs"] ++
     when (dkg_method c "ForceDisqualify" && running && negb (in_range (g "participant") 0 (size - 1)))
       ["err-invalid-inputs"] ++
     when (dkg_method c "Start" && negb running && (g "seed" <? 32) &&
           ((g "proto" =? 2) || (g "myIndex" =? g "dealerIndex"))) ["err-invalid-inputs"])%list.

(* malformed messages must be REPORTED through the Disqualify callback (plain VSS and Qual, fresh
   running instance whose dealer is not disqualified yet, sender in range and not the receiver) *)
Definition must_disqualify (c : case) : bool :=
  let g := geti c in
  let proto := g "proto" in
  let size := g "size" in
  has c "proto" && in_range proto 0 1 && (g "running" =? 1) && (g "pre" =? 0) &&
  (dkg_method c "HandleBroadcastMsg") && in_range (g "orig") 0 (size - 1) && negb (g "orig" =? g "myIndex") &&
  ((proto =? 0) || (g "phase" =? 1) || (g "warm" =? 1)) &&
  ( (* empty broadcast, unknown broadcast tag *)
    (g "msg" =? 0)
    || ((proto =? 0) && negb (g "tag" =? 1))
    || ((proto =? 1) && negb (in_range (g "tag") 1 3))
    (* Qual, from the dealer, before the complaint timeout: complaint / answer naming an index >= size *)
    || ((proto =? 1) && (g "orig" =? g "dealerIndex") && (g "phase" <? 3) &&
        (((g "tag" =? 2) && (g "msg" =? 2)) || ((g "tag" =? 3) && (g "msg" =? 34))) && (size <=? g "idx")) ).

Definition prop_check (c : case) : bool :=
  let obs := c_obs c in
  if has c "finding.prg-counter-overflow" then negb (is_panic obs && contains "chacha20: counter overflow" obs)
  else if has c "shadow.prg-counter-overflow" then negb (is_panic obs) || contains "chacha20: counter overflow" obs
  else if has c "nil.iface" then true
  else if api c "random.genericPRG.UintN" && (geti c "n" =? 0) then true
  else if is_panic obs then false
  else
    let ds := (defects c ++ dkg_defects c)%list in
    (match ds with [] => true | _ => mem obs ds end) &&
    (negb (must_disqualify c) || (0 <? geti c "cb.disqualify")).

Definition prop_bad_ids (cs : list (N * case)) : list N :=
  map fst (filter (fun p => negb (prop_check (snd p))) cs).
