(* Oracle evaluator for C02.  By C02_many_messages_iff the verdict of
   VerifyBLSSignatureManyMessages is (all keys non-identity) && (b = enc(sum_i [sk_i] H_i));
   by C02_one_message_iff the verdict of VerifyBLSSignatureOneMessage is
   (sum sk_i <> 0) && (b = enc([sum sk_i] H)).  Sums computed on BigZ. *)
From Coq Require Import ZArith NArith List String Bool.
From Bignums Require Import BigZ.
From V Require Import Lib.Hex Lib.Num Prim.Bls12 Spec.ZcashCodec Corr.C04Corr.
Import ListNotations.
Open Scope string_scope.

Inductive case :=
| ManyCase (triples : list (string * string))        (* (scalar, encoding of H_i); scalar 0 = identity key *)
           (cands : list (string * string)) (consistent : bool)
| OneCase (scalars : list string) (h : string) (cands : list (string * string)).

Definition term (t : string * string) : option (jpt (F:=bigZ)) :=
  match g1_decode (hex (snd t)) with
  | Some H => Some (jmul (FpOps BNum pB) (be2z (hex (fst t))) (jp1 H))
  | None => None
  end.

Fixpoint sum_terms (ts : list (string * string)) (acc : jpt (F:=bigZ)) : option (jpt (F:=bigZ)) :=
  match ts with
  | [] => Some acc
  | t :: r => match term t with Some P => sum_terms r (jadd (FpOps BNum pB) acc P) | None => None end
  end.

Definition verdicts_ok (ok : bool) (Sg : list N) (cands : list (string * string)) : bool :=
  forallb (fun c => String.eqb (snd c) (if ok && bytes_eqb (hex (fst c)) Sg then "true" else "false")) cands.

Definition check (c : case) : bool :=
  match c with
  | ManyCase ts cands _ =>
      let nz := forallb (fun t => negb (Z.eqb (be2z (hex (fst t))) 0)) ts in
      match sum_terms ts (jinf (FpOps BNum pB)) with
      | Some Sm => verdicts_ok nz (g1_encode (to_pt1 Sm)) cands
      | None => false
      end
  | OneCase sks h cands =>
      let k := (fold_left (fun acc s => acc + be2z (hex s)) sks 0 mod rZ)%Z in
      match g1_decode (hex h) with
      | Some H => verdicts_ok (negb (Z.eqb k 0)) (g1_encode (to_pt1 (jmul (FpOps BNum pB) k (jp1 H)))) cands
      | None => false
      end
  end.

(* the closed form above IS the property's statement (theorems C02_many_messages_iff /
   C02_one_message_iff), so a verdict that differs from it is a failure of the property itself *)
Definition prop_check (c : case) : bool :=
  check c &&
  match c with
  | ManyCase _ cands consistent =>
      consistent && forallb (fun c => String.eqb (snd c) "true" || String.eqb (snd c) "false") cands
  | OneCase _ _ cands => forallb (fun c => String.eqb (snd c) "true" || String.eqb (snd c) "false") cands
  end.

Definition bad_ids (cs : list (N * case)) : list N := map fst (filter (fun p => negb (check (snd p))) cs).
Definition prop_bad_ids (cs : list (N * case)) : list N := map fst (filter (fun p => negb (prop_check (snd p))) cs).
