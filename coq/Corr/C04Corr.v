(* Oracle evaluator for C04: sums of scalars mod r, of E2 points ([k]g2) and of arbitrary E1
   points, computed with Prim/Bls12.v on BigZ and compared with the bytes the library returned. *)
From Coq Require Import ZArith NArith List String Bool.
From Bignums Require Import BigZ.
From V Require Import Lib.Hex Lib.Num Prim.Bls12 Spec.ZcashCodec.
Import ListNotations.
Open Scope string_scope.

Record case := mkCase {
  c_sks : list string;        (* the private scalars *)
  c_h : string;               (* encoding of H(m) (signature under key 1) *)
  c_agg_sk : string;          (* AggregateBLSPrivateKeys(...).Encode() *)
  c_agg_pk : string;          (* AggregateBLSPublicKeys(...).Encode() *)
  c_agg_sig : string;         (* AggregateBLSSignatures of the individual signatures *)
  c_points : list string;     (* arbitrary E1 encodings (valid, possibly outside G1 / infinity) *)
  c_agg_points : string;      (* AggregateBLSSignatures(points) *)
  c_agg_points_identity : bool; (* IsBLSSignatureIdentity of that result *)
  c_consistent : bool         (* harness-side equalities: pk of agg sk, sig by agg sk, permuted, nested, Remove *)
}.

Definition jp1 (P : pt1) : jpt (F:=bigZ) :=
  match P with Inf1 => jinf (FpOps BNum pB) | Aff1 x y => of_affine (FpOps BNum pB) (BigZ.of_Z x) (BigZ.of_Z y) end.
Definition to_pt1 (P : jpt (F:=bigZ)) : pt1 :=
  match to_affine (FpOps BNum pB) P with None => Inf1 | Some (x, y) => Aff1 (BigZ.to_Z x) (BigZ.to_Z y) end.
Definition to_pt2 (P : jpt (F:=fp2 (T:=bigZ))) : pt2 :=
  match to_affine (Fp2Ops BNum pB) P with
  | None => Inf2
  | Some (x, y) => Aff2 (BigZ.to_Z (fst x)) (BigZ.to_Z (snd x)) (BigZ.to_Z (fst y)) (BigZ.to_Z (snd y))
  end.

Fixpoint decode_pts (l : list string) : option (list pt1) :=
  match l with
  | [] => Some []
  | s :: r => match g1_decode (hex s), decode_pts r with Some P, Some ps => Some (P :: ps) | _, _ => None end
  end.

Definition check (c : case) : bool :=
  let k := (fold_left (fun acc s => acc + be2z (hex s)) (c_sks c) 0 mod rZ)%Z in
  bytes_eqb (hex (c_agg_sk c)) (z2be 32 k) &&
  bytes_eqb (hex (c_agg_pk c)) (g2_encode false (to_pt2 (jmul (Fp2Ops BNum pB) k (G2gen BNum pB)))) &&
  match g1_decode (hex (c_h c)) with
  | Some H => bytes_eqb (hex (c_agg_sig c)) (g1_encode (to_pt1 (jmul (FpOps BNum pB) k (jp1 H))))
  | None => false
  end &&
  match decode_pts (c_points c) with
  | Some ps =>
      let S := fold_left (fun acc P => jadd (FpOps BNum pB) acc (jp1 P)) ps (jinf (FpOps BNum pB)) in
      bytes_eqb (hex (c_agg_points c)) (g1_encode (to_pt1 S)) &&
      Bool.eqb (c_agg_points_identity c) (jis_inf (FpOps BNum pB) S)
  | None => false
  end.

Definition prop_check (c : case) : bool := c_consistent c && check c.

Definition bad_ids (cs : list (N * case)) : list N := map fst (filter (fun p => negb (check (snd p))) cs).
Definition prop_bad_ids (cs : list (N * case)) : list N := map fst (filter (fun p => negb (prop_check (snd p))) cs).
