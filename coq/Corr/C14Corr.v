(* Correspondence evaluator for C14: runs Model/Prg.v on the op sequence the
   harness ran on random.NewChacha20PRG / Read / Store / RestoreChacha20PRG and
   compares every observable. *)
From Coq Require Import NArith List String Bool.
From V Require Import Lib.Hex Model.Prg.
Import ListNotations.

Inductive op :=
| ORead (n : nat) (out : string)
| OStore (out : string)
| ORestore (ok : bool)                     (* cur := Restore(cur.Store()) *)
| ORestoreBytes (st : string) (ok : bool). (* cur := Restore(st) if accepted *)

Record case := mkCase { c_seed : string; c_cust : string; c_ctor_ok : bool; c_ops : list op }.

Fixpoint run_ops (cur : option core) (ops : list op) : bool :=
  match ops with
  | [] => true
  | o :: r =>
    match o, cur with
    | ORead n out, Some c =>
        let '(b, c') := read c n in bytes_eqb b (hex out) && run_ops (Some c') r
    | OStore out, Some c => bytes_eqb (store c) (hex out) && run_ops cur r
    | ORestore ok, Some c =>
        match restore (store c) with
        | ROk c' => ok && run_ops (Some c') r
        | RErr _ => negb ok && run_ops cur r
        end
    | ORestoreBytes st ok, _ =>
        match restore (hex st) with
        | ROk c' => ok && run_ops (Some c') r
        | RErr _ => negb ok && run_ops cur r
        end
    | _, None => false
    end
  end.

Definition check (c : case) : bool :=
  match new_prg (hex (c_seed c)) (hex (c_cust c)) with
  | ROk g => c_ctor_ok c && run_ops (Some g) (c_ops c)
  | RErr _ => negb (c_ctor_ok c) && run_ops None (c_ops c)
  end.

Definition bad_ids (cs : list (N * case)) : list N :=
  map fst (filter (fun p => negb (check (snd p))) cs).

(* ---- property-level oracle, independent of the model of the Go code ----
   The implementation's outputs are compared with the RFC 8439 keystream at the
   position given by the number of bytes output so far; Store must be
   seed || padded customizer || LE64(position); Restore(Store()) must succeed and
   leave the position unchanged.  Crafted states (ORestoreBytes) of the right
   length are read as "a Store() taken at that counter" when counter < 2^38;
   for larger counters the property says nothing and the oracle stops. *)
Definition plimit : N := 274877906944.

Fixpoint prop_ops (key nonce : list N) (pos : option N) (ops : list op) : bool :=
  match ops with
  | [] => true
  | o :: r =>
    match o, pos with
    | ORead n out, Some p =>
        if (p + N.of_nat n <=? plimit)%N
        then bytes_eqb (hex out) (ks_range key nonce p n) && prop_ops key nonce (Some (p + N.of_nat n)%N) r
        else true
    | OStore out, Some p =>
        bytes_eqb (hex out) (key ++ nonce ++ le_bytes 8 p) && prop_ops key nonce pos r
    | ORestore ok, Some p => ok && prop_ops key nonce pos r
    | ORestoreBytes st ok, _ =>
        let b := hex st in
        if Nat.eqb (List.length b) 52 then
          ok && (let ctr := le_val (skipn 44 b) in
                 if (ctr <? plimit)%N then prop_ops (firstn 32 b) (firstn 12 (skipn 32 b)) (Some ctr) r else true)
        else negb ok && prop_ops key nonce pos r
    | _, None => true
    end
  end.

Definition prop_check (c : case) : bool :=
  let seed := hex (c_seed c) in let cust := hex (c_cust c) in
  if Nat.eqb (List.length seed) 32 && Nat.leb (List.length cust) 12
  then c_ctor_ok c && prop_ops seed (cust ++ repeat 0%N (12 - List.length cust)) (Some 0%N) (c_ops c)
  else negb (c_ctor_ok c) && prop_ops [] [] None (c_ops c).

Definition prop_bad_ids (cs : list (N * case)) : list N :=
  map fst (filter (fun p => negb (prop_check (snd p))) cs).
