(* Correspondence evaluator for C11: runs Model/Ecdsa.v on the inputs the harness gave
   to Verify / Sign / SignatureFormatCheck / DecodePublicKey(Compressed) and compares
   every observable.  The hasher is represented by its Size() and its OUTPUT on the
   message (the model works on the digest). *)
From Coq Require Import ZArith NArith List String Bool.
From Bignums Require Import BigZ.
From V Require Import Lib.Hex Lib.BytesZ Spec.EcdsaSpec Prim.EcdsaCurve Model.Ecdsa.
Import ListNotations.
Open Scope Z_scope.

Inductive cid := P | K.   (* ECDSAP256 | ECDSASecp256k1 *)
Definition curve_of (c : cid) : curve := match c with P => P256 | K => Secp256k1 end.
Definition ops (c : cid) : ecops pt := ops_of (curve_of c).

(* error classes observed: 0 none, 1 invalid inputs, 3 nil hasher, 4 hasher size, 9 other *)
Inductive case :=
(* pk.Verify(sig, msg, hasher): pk = raw x||y, digest = hasher output, hsize = Size(), nilh = nil hasher;
   observed (result, error class), SignatureFormatCheck(sig);
   expect: 1 = the property demands true, 0 = demands false, 2 = no demand by construction *)
| CVerify (c : cid) (pk sig digest : string) (hsize : nat) (nilh : bool)
          (obs : bool) (err : N) (fmt : bool) (expect : N)
(* sk.Sign(msg, hasher) refused by the hasher guards *)
| CSignGuard (c : cid) (hsize : nat) (nilh : bool) (err : N)
(* DecodePublicKey / DecodePublicKeyCompressed(inp); observed ok, invalid-input class, Encode(), EncodeCompressed() *)
| CDecPub (c : cid) (compressed : bool) (inp : string) (ok invalid : bool) (enc encc : string).

Definition affine_of (pk : string) : Z * Z :=
  let b := hex pk in (os2ip (firstn 32 b), os2ip (skipn 32 b)).

Definition mk_hasher (hsize : nat) (nilh : bool) (digest : list N) : option hasher :=
  if nilh then None else Some (mkHasher hsize (fun _ => digest)).

Definition check (cs : case) : bool :=
  match cs with
  | CVerify c pk sig digest hsize nilh obs err fmt _ =>
      let O := ops c in
      Bool.eqb (signatureFormatCheck O (hex sig)) fmt &&
      match Verify O (affine_of pk) (hex sig) [] (mk_hasher hsize nilh (hex digest)) with
      | ROk b => Bool.eqb b obs && (err =? 0)%N
      | RErr e => negb obs && (e =? err)%N
      | RPanic => false
      end
  | CSignGuard c hsize nilh err =>
      match Sign (ops c) 1 1 [] (mk_hasher hsize nilh []) with
      | Some (RErr e) => (e =? err)%N
      | _ => false
      end
  | CDecPub c compressed inp ok invalid enc encc =>
      let O := ops c in
      match (if compressed then decodePublicKeyCompressed O (hex inp) else decodePublicKey O (hex inp)) with
      | ROk Q =>
          ok && match encodePublicKey O Q, encodePublicKeyCompressed O Q with
                | ROk e1, ROk e2 => bytes_eqb e1 (hex enc) && bytes_eqb e2 (hex encc)
                | _, _ => false
                end
      | RErr e => negb ok && invalid && (e =? E_INVALID_INPUT)%N
      | RPanic => false
      end
  end.

Definition bad_ids (cs : list (N * case)) : list N :=
  map fst (filter (fun p => negb (check (snd p))) cs).

(* ---- property-level oracle, written from the property text ----
   Verify must return (true, nil) exactly when sig is 64 bytes r||s with 1 <= r, s < n and
   the ECDSA equation holds for the leftmost 32 bytes of the hasher output; the equation
   is evaluated by the Gallina curve arithmetic directly on the implementation's inputs
   (independent of crypto/ecdsa and btcec).  nil hasher / Size() < 32: the documented
   errors.  SignatureFormatCheck false => Verify false.  [expect] carries what the
   property demands by construction of the case (signatures from Sign and twins verify,
   any other change is rejected).
   Decoders: accepted exactly for canonical encodings of affine curve points. *)
Definition spec_verify (c : cid) (pk sig digest : list N) : bool :=
  if Nat.eqb (List.length sig) 64 then
    let C := curve_of c in
    ecdsa_verify pt (curve_n C) (add C) (smul C) (base C) (xr C) (inv_n C)
      (of_affine (os2ip (firstn 32 pk), os2ip (skipn 32 pk)))
      (os2ip (firstn 32 digest)) (os2ip (firstn 32 sig)) (os2ip (skipn 32 sig))
  else false.

(* y^2 = x^3 + a x + b mod p on plain Z *)
Definition spec_on_curve (C : curve) (x y : Z) : bool :=
  let p := curve_p C in
  ((y * y - (x * x * x + BigZ.to_Z (cv_a C) * x + BigZ.to_Z (cv_b C))) mod p =? 0).

(* Euler's criterion: c is a non-zero square mod p iff c^((p-1)/2) = 1 *)
Definition spec_is_square (C : curve) (c : Z) : bool :=
  let p := curve_p C in
  (c mod p =? 0) || (BigZ.to_Z (bpow (cv_p C) (BigZ.of_Z c) (Z.to_pos ((p - 1) / 2))) =? 1).

Definition prop_check (cs : case) : bool :=
  match cs with
  | CVerify c pk sig digest hsize nilh obs err fmt expect =>
      if nilh then negb obs && (err =? 3)%N
      else if Nat.ltb hsize 32 then negb obs && (err =? 4)%N
      else
        (err =? 0)%N &&
        (if fmt then true else negb obs) &&
        (match expect with 0%N => negb obs | 1%N => obs | _ => true end) &&
        Bool.eqb obs (spec_verify c (hex pk) (hex sig) (hex digest))
  | CSignGuard c hsize nilh err =>
      if nilh then (err =? 3)%N else if Nat.ltb hsize 32 then (err =? 4)%N else false
  | CDecPub c compressed inp ok invalid enc encc =>
      let C := curve_of c in
      let p := curve_p C in
      let b := hex inp in
      if compressed then
        match b with
        | pre :: xb =>
            let x := os2ip xb in
            let good := if Nat.eqb (List.length b) 33 && ((pre =? 2)%N || (pre =? 3)%N) && (x <? p)
                        then spec_is_square C (x * x * x + BigZ.to_Z (cv_a C) * x + BigZ.to_Z (cv_b C))
                        else false in
            if good then
              let e := hex enc in
              let y := os2ip (skipn 32 e) in
              ok && Nat.eqb (List.length e) 64 && (os2ip (firstn 32 e) =? x) && (y <? p) && spec_on_curve C x y
              && Bool.eqb (Z.odd y) (N.odd pre) && bytes_eqb (hex encc) b
            else negb ok && invalid
        | [] => negb ok && invalid
        end
      else
        let x := os2ip (firstn 32 b) in
        let y := os2ip (skipn 32 b) in
        if Nat.eqb (List.length b) 64 && (x <? p) && (y <? p) && spec_on_curve C x y then
          ok && bytes_eqb (hex enc) b
          && bytes_eqb (hex encc) ((if Z.odd y then 3%N else 2%N) :: firstn 32 b)
        else negb ok && invalid
  end.

Definition prop_bad_ids (cs : list (N * case)) : list N :=
  map fst (filter (fun p => negb (prop_check (snd p))) cs).
