(* Correspondence evaluator for C15: replays on Model/Rand.v the operations the
   harness ran on a real random.NewChacha20PRG generator, from the tape (= the raw
   keystream of a second generator with the same seed), and compares every
   observable: values, lists, swap-call sequences, final arrangements, errors,
   panics, and the consumed tape length (each next operation and the trailing raw
   Read start where the model says the previous one stopped). *)
From Coq Require Import ZArith NArith List String Bool.
From V Require Import Lib.Hex Model.Rand Spec.RandSpec.
Import ListNotations.

(* err: 0 = nil error, 1/2/3 = the three error messages, 98 = the call panicked *)
Inductive op :=
| OUintN (n : N) (panicked : bool) (v : N)
| OPerm (n : Z) (err : N) (out : list Z)
| OSubPerm (n m : Z) (err : N) (out : list Z)
| OSamples (n m : Z) (err : N) (sw : list (Z * Z)) (track : bool) (final : list Z)
| OShuffle (n : Z) (err : N) (sw : list (Z * Z)) (track : bool) (final : list Z)
| ORead (k : nat) (out : string).

(* c_ops: first run; c_ops2: the same operations on a fresh generator with the same seed *)
Record case := mkCase { c_tape : string; c_ops : list op; c_ops2 : list op }.

Fixpoint listZ_eqb (a b : list Z) : bool :=
  match a, b with
  | [], [] => true
  | x :: a', y :: b' => Z.eqb x y && listZ_eqb a' b'
  | _, _ => false
  end.

Fixpoint pairs_eqb (a b : list (Z * Z)) : bool :=
  match a, b with
  | [], [] => true
  | (x1, x2) :: a', (y1, y2) :: b' => Z.eqb x1 y1 && Z.eqb x2 y2 && pairs_eqb a' b'
  | _, _ => false
  end.

Definition identity (n : Z) : list Z := map Z.of_nat (seq 0 (Z.to_nat n)).

(* ---------------- model vs implementation ---------------- *)

Definition check_samples (r : res (list (Z * Z))) (n : Z) (err : N) (sw : list (Z * Z))
           (track : bool) (final : list Z) (st : prg) : option prg :=
  match r with
  | Ok sw' st' =>
      if N.eqb err 0 && pairs_eqb sw sw' &&
         (if track then match apply_swaps sw' (identity n) with
                        | Some f => listZ_eqb f final | None => false end
          else true)
      then Some st' else None
  | Err e => if N.eqb err e && pairs_eqb sw [] && (if track then listZ_eqb final (identity n) else true)
             then Some st else None
  | _ => None
  end.

Definition step (st : prg) (o : op) : option prg :=
  match o with
  | OUintN n p v =>
      match uintn n st with
      | Ok v' st' => if negb p && N.eqb v v' then Some st' else None
      | Panic => if p then Some st else None
      | _ => None
      end
  | OPerm n err out =>
      match permutation n st with
      | Ok l st' => if N.eqb err 0 && listZ_eqb out l then Some st' else None
      | Err e => if N.eqb err e && listZ_eqb out [] then Some st else None
      | _ => None
      end
  | OSubPerm n m err out =>
      match subpermutation n m st with
      | Ok l st' => if N.eqb err 0 && listZ_eqb out l then Some st' else None
      | Err e => if N.eqb err e && listZ_eqb out [] then Some st else None
      | _ => None
      end
  | OSamples n m err sw track final => check_samples (samples n m st) n err sw track final st
  | OShuffle n err sw track final => check_samples (shuffle n st) n err sw track final st
  | ORead k out =>
      match read k st with
      | Ok b st' => if bytes_eqb b (hex out) then Some st' else None
      | _ => None
      end
  end.

Fixpoint run_ops (st : prg) (ops : list op) : bool :=
  match ops with
  | [] => true
  | o :: r => match step st o with Some st' => run_ops st' r | None => false end
  end.

Definition check (c : case) : bool := run_ops (prg0 (hex (c_tape c))) (c_ops c).

Definition bad_ids (cs : list (N * case)) : list N :=
  map fst (filter (fun p => negb (check (snd p))) cs).

(* ---------------- property-level oracle, independent of Model/Rand.v ----------------
   On the implementation's observed outputs only:
   (1) validity: range, permutation of 0..n-1, distinctness, swap shape, errors, panic on 0;
   (2) determinism: the second run with the same seed observed exactly the same;
   (3) reference sampler: the outputs equal the exactly-uniform reference procedures of
       Spec/RandSpec.v (rejection sampling on the bit length of n-1 over the tape, Fisher-Yates
       of those draws), which is what makes "every outcome equally likely" checkable on a
       single run. *)

Definition op_eqb (a b : op) : bool :=
  match a, b with
  | OUintN n p v, OUintN n' p' v' => N.eqb n n' && Bool.eqb p p' && N.eqb v v'
  | OPerm n e o, OPerm n' e' o' => Z.eqb n n' && N.eqb e e' && listZ_eqb o o'
  | OSubPerm n m e o, OSubPerm n' m' e' o' => Z.eqb n n' && Z.eqb m m' && N.eqb e e' && listZ_eqb o o'
  | OSamples n m e s t f, OSamples n' m' e' s' t' f' =>
      Z.eqb n n' && Z.eqb m m' && N.eqb e e' && pairs_eqb s s' && Bool.eqb t t' && listZ_eqb f f'
  | OShuffle n e s t f, OShuffle n' e' s' t' f' =>
      Z.eqb n n' && N.eqb e e' && pairs_eqb s s' && Bool.eqb t t' && listZ_eqb f f'
  | ORead k o, ORead k' o' => Nat.eqb k k' && String.eqb o o'
  | _, _ => false
  end.

Fixpoint ops_eqb (a b : list op) : bool :=
  match a, b with
  | [], [] => true
  | x :: a', y :: b' => op_eqb x y && ops_eqb a' b'
  | _, _ => false
  end.

(* data[a], data[b] = data[b], data[a] written index-wise (one pass) *)
Fixpoint subst2 (k a b : nat) (x y : Z) (l : list Z) : list Z :=
  match l with
  | [] => []
  | v :: r => (if Nat.eqb k a then y else if Nat.eqb k b then x else v) :: subst2 (S k) a b x y r
  end.

Definition swap_pure (a b : nat) (l : list Z) : list Z :=
  let x := nth a l 0%Z in let y := nth b l 0%Z in subst2 0 a b x y l.

Fixpoint apply_pure (sw : list (Z * Z)) (l : list Z) : list Z :=
  match sw with
  | [] => l
  | (a, b) :: r => apply_pure r (swap_pure (Z.to_nat a) (Z.to_nat b) l)
  end.

(* the k-th call (k counted from i0) is swap(k, b) with k <= b < n *)
Fixpoint shape_ok (n : Z) (i0 : Z) (sw : list (Z * Z)) : bool :=
  match sw with
  | [] => true
  | (a, b) :: r => Z.eqb a i0 && Z.leb a b && Z.ltb b n && shape_ok n (i0 + 1) r
  end.

Fixpoint spec_draws (ns : list N) (t : list N) : option (list N * list N) :=
  match ns with
  | [] => Some ([], t)
  | n :: r =>
    match spec_uintn (S (List.length t)) n t with
    | SOk v rest => match spec_draws r rest with Some (vs, t') => Some (v :: vs, t') | None => None end
    | _ => None
    end
  end.

(* the swap calls of the forward Fisher-Yates for the choices js: (i, i + j_i), i = i0, i0+1, ...
   (Spec.swaps_of on Z, so that huge populations do not build unary numbers) *)
Fixpoint zswaps (i0 : Z) (js : list N) : list (Z * Z) :=
  match js with [] => [] | j :: r => (i0, (i0 + Z.of_N j)%Z) :: zswaps (i0 + 1) r end.

Definition prop_samples (t : list N) (n m : Z) (err : N) (sw : list (Z * Z)) (track : bool) (final : list Z)
  : option (list N) :=
  if (m <? 0)%Z then (if N.eqb err 2 && pairs_eqb sw [] then Some t else None)
  else if (n <? m)%Z then (if N.eqb err 3 && pairs_eqb sw [] then Some t else None)
  else
    match spec_draws (map (fun i => Z.to_N (n - Z.of_nat i)) (seq 0 (Z.to_nat m))) t with
    | Some (js, rest) =>
        if N.eqb err 0 && Nat.eqb (List.length sw) (Z.to_nat m) && shape_ok n 0 sw &&
           pairs_eqb sw (zswaps 0 js) &&
           (if track then listZ_eqb final (apply_pure sw (identity n)) && is_perm_of_range n final else true)
        then Some rest else None
    | None => None
    end.

Definition prop_step (t : list N) (o : op) : option (list N) :=
  match o with
  | OUintN n p v =>
      if N.eqb n 0 then (if p then Some t else None)
      else if p then None
      else match spec_uintn (S (List.length t)) n t with
           | SOk v' rest => if N.ltb v n && N.eqb v v' then Some rest else None
           | _ => None
           end
  | OPerm n err out =>
      if (n <? 0)%Z then (if N.eqb err 1 && listZ_eqb out [] then Some t else None)
      else match spec_draws (map (fun i => N.of_nat (S i)) (seq 0 (Z.to_nat n))) t with
           | Some (js, rest) =>
               if N.eqb err 0 && is_perm_of_range n out && listZ_eqb out (io_perm (map N.to_nat js))
               then Some rest else None
           | None => None
           end
  | OSubPerm n m err out =>
      if (m <? 0)%Z then (if N.eqb err 2 && listZ_eqb out [] then Some t else None)
      else if (n <? m)%Z then (if N.eqb err 3 && listZ_eqb out [] then Some t else None)
      else match spec_draws (map (fun i => N.of_nat (S i)) (seq 0 (Z.to_nat n))) t with
           | Some (js, rest) =>
               if N.eqb err 0 && Nat.eqb (List.length out) (Z.to_nat m) && in_rangeb n out && nodupb out &&
                  listZ_eqb out (firstn (Z.to_nat m) (io_perm (map N.to_nat js)))
               then Some rest else None
           | None => None
           end
  | OSamples n m err sw track final => prop_samples t n m err sw track final
  | OShuffle n err sw track final =>
      if (n <? 0)%Z then (if N.eqb err 1 && pairs_eqb sw [] then Some t else None)
      else prop_samples t n n err sw track final
  | ORead k out =>
      if Nat.leb k (List.length t) && bytes_eqb (firstn k t) (hex out) then Some (skipn k t) else None
  end.

Fixpoint prop_ops (t : list N) (ops : list op) : bool :=
  match ops with
  | [] => true
  | o :: r => match prop_step t o with Some t' => prop_ops t' r | None => false end
  end.

Definition prop_check (c : case) : bool :=
  ops_eqb (c_ops c) (c_ops2 c) && prop_ops (hex (c_tape c)) (c_ops c).

Definition prop_bad_ids (cs : list (N * case)) : list N :=
  map fst (filter (fun p => negb (prop_check (snd p))) cs).
