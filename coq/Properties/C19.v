(* C19 - operations documented as read-only or thread-safe are race-free and leave their
   arguments unmodified.  Only statements, each closed by [exact] of a lemma of Proofs/. *)
From Coq Require Import List String Bool.
From V Require Import Model.Skel Model.Effects Generated.EffectSkel Generated.CProtos Proofs.EffectsProofs.
Import ListNotations.
Open Scope string_scope.
Open Scope list_scope.

(* 1. By evaluation over the regenerated effect skeletons (Generated/EffectSkel.v) and C
      prototypes (Generated/CProtos.v): for each listed operation
        kmac128.ComputeHash, prKeyBLSBLS12381.Sign, pubKeyBLSBLS12381.Verify, BLSVerifyPOP,
        SPOCKVerify, SPOCKVerifyAgainstData, VerifyBLSSignatureOneMessage,
        VerifyBLSSignatureManyMessages, BatchVerifyBLSSignaturesOneMessage,
        prKeyECDSA.Sign, pubKeyECDSA.Verify
      and transitively every function of the module it may call (calls through the interfaces
      PublicKey / PrivateKey / hash.Hasher dispatch to the key types and to KMAC128, the only
      hasher the property allows goroutines to share):
      - no assignment, copy, delete or inc/dec through the receiver, an argument, a
        package-level variable or anything derived from them;
      - every pointer derived from them that is passed to C goes to a `const` parameter; only
        fresh local buffers reach non-const parameters (no exception is needed:
        known_exceptions = []);
      - state-modifying methods that are not defined in the module (Write, Reset, Read, Sum,
        SetBytes) are only called on fresh objects; functions of other packages only write
        fresh buffers (tables ext_methods / ext_functions of Model/Effects.v are trusted);
      - no Unknown syntax. *)
Theorem listed_ops_write_nothing_shared :
  forallb writes_nothing effect_listed = true /\ known_exceptions = [].
Proof. split; [exact listed_ops_check_true | reflexivity]. Qed.
Print Assumptions listed_ops_write_nothing_shared.

(* KMAC128.ComputeHash: Clone() of the shared cSHAKE state, then Reset/Write/Read on the clone only *)
Theorem kmac_compute_hash_mutates_only_the_clone : kmac_mutators_on_clone = true.
Proof. exact kmac_mutators_on_clone_true. Qed.
Print Assumptions kmac_compute_hash_mutates_only_the_clone.

(* the only non-const C parameters receiving a parameter-derived pointer anywhere in the closure
   are the out-buffers of writeScalar / writePointE2, which their callers allocate freshly *)
Theorem nonconst_c_parameters_receiving_shared_pointers :
  nonconst_shared_sites = [("writeScalar", "Fr_write_bytes", 0%nat); ("writePointE2", "E2_write_bytes", 0%nat)].
Proof. exact nonconst_sites. Qed.
Print Assumptions nonconst_c_parameters_receiving_shared_pointers.

(* 2. Read/write-set semantics: threads run sequences of accesses to shared locations (SRd/SWr)
      and keep everything else private (fresh buffers, results).  In ANY interleaving of
      programs that write nothing shared, for any number of threads and any rd/wr:
      the shared memory is unchanged; every thread is exactly where it would be running
      alone on the initial memory (a finished operation returns what it returns alone); and no
      two enabled accesses of different threads conflict (same location, one a write). *)
Theorem writers_free_programs_commute :
  forall (V L : Type) (rd : string -> V -> L -> L) (wr : string -> L -> V)
         (m0 : smem V) (progs : list (L * list sact)) C,
    Forall (fun p => write_free (snd p) = true) progs ->
    sreach V L rd wr (sinit V L m0 progs) C ->
    sc_mem V L C = m0 /\
    (forall i t, nth_error (sc_thr V L C) i = Some t ->
       exists p done, nth_error progs i = Some p /\ snd p = done ++ st_code L t /\
                      st_loc L t = snd (run_alone V L rd wr m0 (fst p) done)) /\
    (forall i t, nth_error (sc_thr V L C) i = Some t -> st_code L t = [] ->
       exists p, nth_error progs i = Some p /\ st_loc L t = snd (run_alone V L rd wr m0 (fst p) (snd p))) /\
    (forall i j ti tj a b ka kb,
       nth_error (sc_thr V L C) i = Some ti -> nth_error (sc_thr V L C) j = Some tj -> i <> j ->
       st_code L ti = a :: ka -> st_code L tj = b :: kb -> conflict a b = false).
Proof. exact commute. Qed.
Print Assumptions writers_free_programs_commute.

(* ---- non-vacuity ---- *)
(* the checker rejects a ComputeHash that absorbs into the shared state before cloning,
   a write through the receiver, and a shared pointer handed to a non-const C parameter *)
Example C19_checker_rejects :
  body_written (written effect_fuel)
    [ECallM (PShared "k" "k") [] "Write" [PShared "data" "data"]; ECallM (PShared "k" "k.ShakeHash") [] "Clone" []] = Some ["k"] /\
  body_written (written effect_fuel) [EWrite (PShared "sk" "sk.pk") "sk.pk"] = Some ["sk"] /\
  body_written (written effect_fuel) [ECgo "bls_sign" [PShared "s" "&s[0]"; PFresh; PFresh; PScalar]] = Some ["s"] /\
  body_written (written effect_fuel) [EUnknown "x"] = None.
Proof. vm_compute. auto. Qed.

(* the hypotheses of writers_free_programs_commute are satisfiable and the semantics moves *)
Example C19_commute_nonvacuous :
  let progs := [(0, [SRd "key"; SRd "hasher"]); (0, [SRd "hasher"])] in
  Forall (fun p => write_free (snd p) = true) progs /\
  exists C, sreach nat nat (fun _ v s => v + s) (fun _ s => s) (sinit nat nat (fun _ => 7) progs) C /\
            sc_thr nat nat C <> sc_thr nat nat (sinit nat nat (fun _ => 7) progs).
Proof.
  cbn. split; [repeat constructor|].
  eexists. split.
  - eapply SRStep; [apply SRNil|]. eapply (SStep nat nat _ _ _ 1); cbn; reflexivity.
  - cbn. discriminate.
Qed.

(* the C glue functions reached by the listed operations keep no mutable static scratch storage *)
From V Require Generated.Guards Proofs.CStaticProofs.
Theorem C19_c_glue_has_no_static_scratch : Guards.c_static_mutable_locals = nil.
Proof. exact CStaticProofs.c_glue_has_no_static_scratch. Qed.
Print Assumptions C19_c_glue_has_no_static_scratch.

(* the only state shared between goroutines besides the arguments: every package-level variable of
   the Go packages (regenerated) is init-once, a read-only table, or the PoP KMAC instance *)
Theorem C19_package_state_is_reviewed :
  Guards.go_package_state = List.map fst CStaticProofs.reviewed_package_state.
Proof. exact CStaticProofs.package_state_is_reviewed. Qed.
Print Assumptions C19_package_state_is_reviewed.
