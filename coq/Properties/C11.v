(* C11 - ECDSA verification is exact on P-256 and secp256k1 for every hasher.
   Only statements, each closed by [exact] of a lemma proved in Proofs/ (or Spec/EcdsaSpec.v).
   [O : ecops G] is the curve object: the theorems hold for every instance; those that
   need the group structure take [ec_laws O] (group laws, scalar action, n-torsion,
   xr(-P) = xr(P), inverse mod n) as an explicit hypothesis.  Primality of the curve order /
   field prime appears only as explicit hypotheses (MathComp's [prime (Z.to_nat _)]). *)
From mathcomp Require Import ssrbool prime.
From Coq Require Import ZArith NArith List Bool.
From Bignums Require Import BigZ.
From V Require Import Lib.BytesZ Lib.EcFermat Spec.EcdsaSpec Prim.EcdsaCurve Model.Ecdsa
  Proofs.EcdsaProofs Proofs.EcdsaCurveProofs Proofs.EcdsaToy.
From V Require Proofs.Primes.
Import ListNotations.
Open Scope Z_scope.
Set Warnings "-notation-overridden".

Section Generic.
  Context {G : Type} (O : ecops G).
  Let n := eo_n O.
  Let p := eo_p O.

  (* ---- fixed-width r || s ---- *)
  Theorem C11_parse_serialise_roundtrip :
    (forall r s, 0 <= r < 256 ^ Z.of_nat (nLen O) -> 0 <= s < 256 ^ Z.of_nat (nLen O) ->
       exists sig, serialise_sig O r s = ROk sig /\ length sig = (2 * nLen O)%nat /\ bytes_ok sig
                   /\ parse_sig O sig = Some (r, s)) /\
    (forall sig r s, bytes_ok sig -> parse_sig O sig = Some (r, s) -> serialise_sig O r s = ROk sig) /\
    (forall sig, parse_sig O sig = None <-> length sig <> (2 * nLen O)%nat).
  Proof.
    split; [exact (serialise_then_parse O)|]. split; [exact (parse_then_serialise O)|exact (parse_sig_none O)].
  Qed.

  (* ---- Verify is true iff 2*nLen bytes, 1 <= r, s < n and the ECDSA equation ---- *)
  Theorem C11_verify_iff_equation :
    forall Q sig h,
      verifyHash O Q sig h = true <->
      length sig = (2 * nLen O)%nat /\
      let r := os2ip (firstn (nLen O) sig) in
      let s := os2ip (skipn (nLen O) sig) in
      1 <= r < n /\ 1 <= s < n /\
      r = eo_xr O (eo_add O (eo_smul O ((hash_to_int O h * eo_inv O s) mod n) (eo_base O))
                            (eo_smul O ((r * eo_inv O s) mod n) (eo_of_affine O Q))).
  Proof. exact (verifyHash_iff O). Qed.

  (* for a 256-bit order: 64 bytes, and the digest enters through its leftmost 32 bytes *)
  Theorem C11_sizes_256 :
    2 ^ 255 <= n < 2 ^ 256 ->
    nLen O = 32%nat /\ forall h, hash_to_int O h = os2ip (firstn 32 h).
  Proof.
    intro H. split; [exact (bitsToBytes_256 n H)|]. intro h. exact (hash_to_int_256 O h H).
  Qed.

  Theorem C11_Verify_with_hasher :
    forall Q sig data a b,
      Verify O Q sig data (Some a) = ROk b <->
      (nLen O <= h_size a)%nat /\ b = verifyHash O Q sig (h_compute a data).
  Proof. exact (Verify_ok_iff O). Qed.

  (* ---- SignatureFormatCheck ---- *)
  Theorem C11_format_check_iff :
    forall sig, signatureFormatCheck O sig = true <->
      length sig = (2 * nLen O)%nat /\ 1 <= os2ip (firstn (nLen O) sig) < n
      /\ 1 <= os2ip (skipn (nLen O) sig) < n.
  Proof. exact (format_check_iff O). Qed.

  Theorem C11_format_false_implies_verify_false :
    forall sig, signatureFormatCheck O sig = false ->
      (forall Q h, verifyHash O Q sig h = false) /\
      (forall Q data alg, Verify O Q sig data alg <> ROk true).
  Proof.
    intros sig F. split.
    - intros Q h. exact (format_false_verify_false O Q sig h F).
    - intros Q data alg. exact (format_false_Verify_not_true O Q sig data alg F).
  Qed.

  (* ---- hasher guards ---- *)
  Theorem C11_short_or_nil_hasher_refused :
    (forall Q sig data d k,
       Verify O Q sig data None = RErr E_NIL_HASHER /\ Sign O d k data None = Some (RErr E_NIL_HASHER)) /\
    (forall Q sig data d k a, (h_size a < nLen O)%nat ->
       Verify O Q sig data (Some a) = RErr E_HASHER_SIZE /\ Sign O d k data (Some a) = Some (RErr E_HASHER_SIZE)).
  Proof. split; [exact (nil_hasher_refused O)|exact (short_hasher_refused O)]. Qed.

  (* ---- signatures produced by the signing equation verify; the twin verifies ---- *)
  Theorem C11_sign_then_verify :
    ec_laws O ->
    forall d k data a sig Q,
      eo_of_affine O Q = eo_smul O d (eo_base O) ->
      Sign O d k data (Some a) = Some (ROk sig) ->
      Verify O Q sig data (Some a) = ROk true.
  Proof. intros L d k data a sig Q. exact (Sign_then_Verify_model O d k data a sig Q L). Qed.

  Theorem C11_twin_verifies :
    ec_laws O ->
    forall Q h sig sig' r s,
      parse_sig O sig = Some (r, s) -> parse_sig O sig' = Some (r, n - s) ->
      verifyHash O Q sig h = verifyHash O Q sig' h.
  Proof. intros L Q h sig sig' r s. exact (twin_verifies_model O Q h sig sig' r s L). Qed.

  Theorem C11_twin_is_wellformed :
    forall r s, 1 <= r < n -> 1 <= s < n ->
      exists sig sig', serialise_sig O r s = ROk sig /\ serialise_sig O r (n - s) = ROk sig'
                       /\ parse_sig O sig = Some (r, s) /\ parse_sig O sig' = Some (r, n - s).
  Proof. exact (twin_serialises O). Qed.

  (* ---- private key codec ---- *)
  Theorem C11_private_key_codec :
    (forall der d, decodePrivateKey O der = ROk d <-> length der = nLen O /\ d = os2ip der /\ 1 <= d < n) /\
    (forall der, (forall d, decodePrivateKey O der <> ROk d) -> decodePrivateKey O der = RErr E_INVALID_INPUT) /\
    (forall der d, bytes_ok der -> decodePrivateKey O der = ROk d -> encodePrivateKey O d = ROk der) /\
    (forall d, 1 <= d < n -> exists b, encodePrivateKey O d = ROk b /\ decodePrivateKey O b = ROk d /\ bytes_ok b).
  Proof.
    split; [exact (decodePrivateKey_iff O)|]. split; [exact (decodePrivateKey_rejects O)|].
    split; [exact (decode_encode_private O)|exact (encode_decode_private O)].
  Qed.

  (* ---- raw public key codec x || y ---- *)
  Theorem C11_public_key_codec :
    (forall der x y, decodePublicKey O der = ROk (x, y) <->
       length der = (2 * pLen O)%nat /\ x = os2ip (firstn (pLen O) der) /\ y = os2ip (skipn (pLen O) der) /\
       x < p /\ y < p /\ on_curve_xy O x y = true) /\
    (forall der Q, bytes_ok der -> decodePublicKey O der = ROk Q -> encodePublicKey O Q = ROk der) /\
    (forall x y, 0 <= x < p -> 0 <= y < p -> on_curve_xy O x y = true ->
       exists b, encodePublicKey O (x, y) = ROk b /\ decodePublicKey O b = ROk (x, y) /\ bytes_ok b).
  Proof.
    split; [exact (decodePublicKey_iff O)|]. split; [exact (decode_encode_public O)|exact (encode_decode_public O)].
  Qed.

  (* ---- compressed public key codec (X9.62 4.3.6) ---- *)
  Theorem C11_compressed_key_codec :
    (forall b x y, decodePublicKeyCompressed O b = ROk (x, y) <->
       exists pre xb, b = pre :: xb /\ length b = compLen O /\ (pre = 2%N \/ pre = 3%N) /\
         x = os2ip xb /\ x < p /\
         let y0 := eo_sqrt_cand O (eo_rhs O x) in
         (y0 * y0) mod p = eo_rhs O x /\ y = select_root O y0 pre) /\
    (forall b x y, bytes_ok b -> eo_bitsize O = bitLen p -> p mod 2 = 1 ->
       (forall c, 0 <= eo_sqrt_cand O c < p) ->
       decodePublicKeyCompressed O b = ROk (x, y) -> y <> 0 ->
       encodePublicKeyCompressed O (x, y) = ROk b).
  Proof. split; [exact (decodeCompressed_iff O)|exact (decode_encode_compressed O)]. Qed.
End Generic.

Print Assumptions C11_parse_serialise_roundtrip.
Print Assumptions C11_verify_iff_equation.
Print Assumptions C11_sizes_256.
Print Assumptions C11_Verify_with_hasher.
Print Assumptions C11_format_check_iff.
Print Assumptions C11_format_false_implies_verify_false.
Print Assumptions C11_short_or_nil_hasher_refused.
Print Assumptions C11_sign_then_verify.
Print Assumptions C11_twin_verifies.
Print Assumptions C11_twin_is_wellformed.
Print Assumptions C11_private_key_codec.
Print Assumptions C11_public_key_codec.
Print Assumptions C11_compressed_key_codec.

(* ---- the abstract ECDSA equations (Spec/EcdsaSpec.v) with their laws spelled out ---- *)
Theorem C11_abstract_sign_then_verify :
  forall (G : Type) (n : Z) (gadd : G -> G -> G) (smul : Z -> G -> G) (B : G) (xr : G -> Z) (inv : Z -> Z),
    1 < n ->
    (forall a, a mod n <> 0 -> (a * inv a) mod n = 1) ->
    (forall a b P, smul (a + b) P = gadd (smul a P) (smul b P)) ->
    (forall a b P, smul a (smul b P) = smul (a * b) P) ->
    (forall a P, smul (a mod n) P = smul a P) ->
    forall d k e r s,
      sign_eq G n smul B xr inv d k e r s -> ecdsa_eq G n gadd smul B xr inv (smul d B) e r s.
Proof. exact sign_then_verify. Qed.
Print Assumptions C11_abstract_sign_then_verify.

Theorem C11_abstract_twin_verifies :
  forall (G : Type) (n : Z) (gadd : G -> G -> G) (gneg : G -> G) (gzero : G)
         (smul : Z -> G -> G) (B : G) (xr : G -> Z) (inv : Z -> Z),
    1 < n ->
    (forall a, a mod n <> 0 -> (a * inv a) mod n = 1) ->
    (forall a b P, smul (a + b) P = gadd (smul a P) (smul b P)) ->
    (forall a P, smul (a mod n) P = smul a P) ->
    (forall P Q R, gadd P (gadd Q R) = gadd (gadd P Q) R) ->
    (forall P Q, gadd P Q = gadd Q P) ->
    (forall P, gadd P gzero = P) ->
    (forall P, gadd P (gneg P) = gzero) ->
    (forall P, xr (gneg P) = xr P) ->
    forall Q e r s,
      ecdsa_eq G n gadd smul B xr inv Q e r s <-> ecdsa_eq G n gadd smul B xr inv Q e r (n - s).
Proof. exact twin_verifies. Qed.
Print Assumptions C11_abstract_twin_verifies.

(* ---- the two concrete curve objects: what follows from primality ---- *)
(* the inverse used by the concrete verifier is an inverse mod n when n is prime
   (the [l_inv_ok] field of [ec_laws] for [ops_of C]) *)
Theorem C11_concrete_inverse :
  forall C : curve,
    is_true (prime (Z.to_nat (curve_n C))) -> 2 < curve_n C ->
    forall s, s mod curve_n C <> 0 -> (s * eo_inv (ops_of C) s) mod curve_n C = 1.
Proof. exact concrete_inv_ok. Qed.
Print Assumptions C11_concrete_inverse.

(* compressed keys are accepted exactly when x < p and x^3 + a x + b is a square mod p
   (p prime, p = 3 mod 4): the checked square root misses no point *)
Theorem C11_compressed_accept_iff_on_curve :
  forall (C : curve) (bs : list N),
    let p := curve_p C in
    is_true (prime (Z.to_nat p)) -> p mod 4 = 3 -> 2 ^ 255 <= p < 2 ^ 256 ->
    ((exists Q, decodePublicKeyCompressed (ops_of C) bs = ROk Q) <->
     exists pre xb, bs = pre :: xb /\ length bs = 33%nat /\ (pre = 2%N \/ pre = 3%N) /\
       os2ip xb < p /\
       exists z, 0 <= z /\
         (z * z) mod p = (os2ip xb * os2ip xb * os2ip xb + BigZ.to_Z (cv_a C) * os2ip xb
                          + BigZ.to_Z (cv_b C)) mod p).
Proof. exact compressed_accept_iff_square. Qed.
Print Assumptions C11_compressed_accept_iff_on_curve.

Theorem C11_raw_accept_iff_on_curve :
  forall (C : curve) x y,
    on_curve_xy (ops_of C) x y = true <->
    (y * y) mod curve_p C = (x * x * x + BigZ.to_Z (cv_a C) * x + BigZ.to_Z (cv_b C)) mod curve_p C.
Proof. exact on_curve_xy_spec. Qed.
Print Assumptions C11_raw_accept_iff_on_curve.

(* ... and both constants of both curves ARE prime (Proofs/Primes.v: Pocklington certificates checked
   by the kernel), so the two statements above hold without hypotheses for the package's curves *)
Theorem C11_p256_inverse :
  forall s, s mod curve_n P256 <> 0 -> (s * eo_inv (ops_of P256) s) mod curve_n P256 = 1.
Proof.
  assert (H : 2 < curve_n P256) by (vm_compute; reflexivity).
  exact (C11_concrete_inverse P256 Primes.p256_n_prime H).
Qed.
Print Assumptions C11_p256_inverse.
Theorem C11_secp256k1_inverse :
  forall s, s mod curve_n Secp256k1 <> 0 -> (s * eo_inv (ops_of Secp256k1) s) mod curve_n Secp256k1 = 1.
Proof.
  assert (H : 2 < curve_n Secp256k1) by (vm_compute; reflexivity).
  exact (C11_concrete_inverse Secp256k1 Primes.secp256k1_n_prime H).
Qed.
Print Assumptions C11_secp256k1_inverse.
Theorem C11_field_and_order_primes :
  is_true (prime (Z.to_nat (curve_p P256))) /\ is_true (prime (Z.to_nat (curve_n P256))) /\
  is_true (prime (Z.to_nat (curve_p Secp256k1))) /\ is_true (prime (Z.to_nat (curve_n Secp256k1))).
Proof.
  exact (conj Primes.p256_p_prime (conj Primes.p256_n_prime (conj Primes.secp256k1_p_prime Primes.secp256k1_n_prime))).
Qed.
Print Assumptions C11_field_and_order_primes.

(* ---- non-vacuity ---- *)
(* [ec_laws] is satisfiable, with a signature that signs, verifies and whose twin verifies *)
Example C11_laws_nonvacuous :
  ec_laws toy_ops /\
  signHash toy_ops 2 2 [1%N] = Some (ROk [1%N; 1%N]) /\
  eo_of_affine toy_ops (2, 0) = eo_smul toy_ops 2 (eo_base toy_ops) /\
  verifyHash toy_ops (2, 0) [1%N; 1%N] [1%N] = true /\
  verifyHash toy_ops (2, 0) [1%N; 2%N] [1%N] = true /\
  is_true (prime (Z.to_nat (eo_n toy_ops))).
Proof.
  split; [exact toy_laws|]. split; [exact toy_sign|]. split; [exact toy_pub|].
  split; [exact toy_verify|]. split; [exact toy_twin|]. reflexivity.
Qed.

(* the size hypotheses hold for both curves; both primes are 3 mod 4 *)
Example C11_sizes_nonvacuous :
  2 ^ 255 <= eo_n p256_ops < 2 ^ 256 /\ 2 ^ 255 <= eo_n secp256k1_ops < 2 ^ 256 /\
  2 ^ 255 <= eo_p p256_ops < 2 ^ 256 /\ 2 ^ 255 <= eo_p secp256k1_ops < 2 ^ 256 /\
  eo_p p256_ops mod 4 = 3 /\ eo_p secp256k1_ops mod 4 = 3 /\
  nLen p256_ops = 32%nat /\ nLen secp256k1_ops = 32%nat /\ pLen p256_ops = 32%nat /\
  pLen secp256k1_ops = 32%nat /\ compLen p256_ops = 33%nat /\ compLen secp256k1_ops = 33%nat /\
  eo_bitsize p256_ops = bitLen (eo_p p256_ops) /\ eo_bitsize secp256k1_ops = bitLen (eo_p secp256k1_ops).
Proof. vm_compute. repeat split; congruence. Qed.

(* known-answer verifications in the concrete model *)
(* RFC 6979 A.2.5: P-256, SHA-256, message "sample" *)
Example C11_p256_rfc6979_vector :
  verifyHash p256_ops
    (0x60FED4BA255A9D31C961EB74C6356D68C049B8923B61FA6CE669622E60F29FB6,
     0x7903FE1008B8BC99A41AE9E95628BC64F2F1B20C2D7E9F5177A3C294D4462299)
    (i2osp 32 0xEFD48B2AACB6A8FD1140DD9CD45E81D69D2C877B56AAF991C34D0EA84EAF3716 ++
     i2osp 32 0xF7CB1C942D657C41D436C7A1B6E29F65F3E900DBB9AFF4064DC4AB2F843ACDA8)
    (i2osp 32 0xaf2bdbe1aa9b6ec1e2ade1d694f41fc71a831d0268e9891562113d8a62add1bf) = true.
Proof. vm_compute. reflexivity. Qed.

(* secp256k1, private key 1, SHA-256("Satoshi Nakamoto"), RFC 6979 nonce (published test vector) *)
Example C11_secp256k1_vector :
  verifyHash secp256k1_ops (publicKey secp256k1_ops 1)
    (i2osp 32 0x934b1ea10a4b3c1757e2b0c017d0b6143ce3c9a7e6a4a49860d7a6ab210ee3d8 ++
     i2osp 32 0x2442ce9d2b916064108014783e923ec36b49743e2ffa1c4496f01a512aafd9e5)
    (i2osp 32 0xa0dc65ffca799873cbea0ac274015b9526505daaaed385155425f7337704883e) = true
  /\
  (* one flipped digest bit is rejected *)
  verifyHash secp256k1_ops (publicKey secp256k1_ops 1)
    (i2osp 32 0x934b1ea10a4b3c1757e2b0c017d0b6143ce3c9a7e6a4a49860d7a6ab210ee3d8 ++
     i2osp 32 0x2442ce9d2b916064108014783e923ec36b49743e2ffa1c4496f01a512aafd9e5)
    (i2osp 32 0xa0dc65ffca799873cbea0ac274015b9526505daaaed385155425f7337704883f) = false.
Proof. vm_compute. split; reflexivity. Qed.

(* a signature made by the model's signing equation verifies in the model's verifier (P-256, k = 7) *)
Example C11_model_sign_verify_p256 :
  match signHash p256_ops 0xC9AFA9D845BA75166B5C215767B1D6934E50C3DB36E89B127B8A622B120F6721 7 (repeat 0xab%N 32) with
  | Some (ROk sig) =>
      verifyHash p256_ops (publicKey p256_ops 0xC9AFA9D845BA75166B5C215767B1D6934E50C3DB36E89B127B8A622B120F6721)
                 sig (repeat 0xab%N 32) = true
  | _ => False
  end.
Proof. vm_compute. reflexivity. Qed.

(* the hypotheses of C11_concrete_inverse are satisfiable: the textbook curve y^2 = x^3 + x + 6
   over F_11 (p = 3 mod 4) with the base point (2,7) of prime order 13 *)
Definition toy_curve : curve :=
  mkCurve (BigZ.of_Z 11) (BigZ.of_Z 1) (BigZ.of_Z 6) (BigZ.of_Z 2) (BigZ.of_Z 7) (BigZ.of_Z 13).
Example C11_concrete_inverse_nonvacuous :
  is_true (prime (Z.to_nat (curve_n toy_curve))) /\ 2 < curve_n toy_curve /\
  (5 * eo_inv (ops_of toy_curve) 5) mod curve_n toy_curve = 1 /\
  is_inf (smul toy_curve 13 (base toy_curve)) = true /\
  is_true (prime (Z.to_nat (curve_p toy_curve))) /\ curve_p toy_curve mod 4 = 3.
Proof. vm_compute. repeat split; reflexivity. Qed.
