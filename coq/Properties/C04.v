(* C04 - key and signature aggregation are mutually consistent group homomorphisms. *)
From Coq Require Import ZArith NArith List Bool Permutation.
From V Require Import Spec.Bilinear Generated.Consts Model.BlsAbs Model.AggAbs Proofs.BlsProofs Proofs.AggProofs Proofs.BilinearInst.
Import ListNotations.

Section C04.
Context {B : bilinear} {C : codecs}.

Theorem C04_pk_of_agg_sk :
  forall sks, sks <> [] ->
    exists k, agg_sks (map Some sks) = AOk k /\
              agg_pks (map (fun s => Some (public_key s)) sks) = AOk (public_key k).
Proof. exact pk_of_agg_sk. Qed.

Theorem C04_agg_sig_is_sig_of_agg_key :
  forall sks h, sks <> [] -> inG1 h = true ->
    agg_sigs (map (fun k => snd (sign k good_hasher h)) sks) = AOk (snd (sign (fsum sks) good_hasher h)).
Proof. exact agg_sig_is_sig_of_agg_key. Qed.

(* any E1 points, also outside G1 and the identity: aggregate of encodings = encoding of the sum *)
Theorem C04_agg_sigs_enc :
  forall ps, ps <> [] -> agg_sigs (map enc1 ps) = AOk (enc1 (sum1 ps)).
Proof. exact agg_sigs_enc. Qed.

Theorem C04_remove_undoes_agg :
  forall A Bk, A <> [] -> Bk <> [] ->
    forall agg, agg_pks (map (fun s => Some (public_key s)) (A ++ Bk)) = AOk agg ->
    remove_pks (Some agg) (map (fun s => Some (public_key s)) Bk) =
    agg_pks (map (fun s => Some (public_key s)) A).
Proof. exact remove_undoes_agg. Qed.

Theorem C04_remove_empty_is_same_object :
  forall a, remove_pks (Some a) [] = AOk a.
Proof. exact remove_empty_is_same_object. Qed.

Theorem C04_agg_sks_perm :
  forall l l', Permutation l l' -> l <> [] -> agg_sks (map Some l) = agg_sks (map Some l').
Proof. exact agg_sks_perm. Qed.

Theorem C04_agg_sigs_perm :
  forall ps ps', Permutation ps ps' -> ps <> [] -> agg_sigs (map enc1 ps) = agg_sigs (map enc1 ps').
Proof. exact agg_sigs_perm. Qed.

Theorem C04_agg_sigs_nesting :
  forall ps1 ps2, ps1 <> [] -> ps2 <> [] ->
    forall a1 a2, agg_sigs (map enc1 ps1) = AOk a1 -> agg_sigs (map enc1 ps2) = AOk a2 ->
    agg_sigs [a1; a2] = agg_sigs (map enc1 (ps1 ++ ps2)).
Proof. exact agg_sigs_nesting. Qed.

Theorem C04_identity_cache_invariant :
  (forall sk, pk_is_identity (public_key sk) = is_O2 (pk_point (public_key sk))) /\
  (forall keys k, agg_pks keys = AOk k -> pk_is_identity k = is_O2 (pk_point k)) /\
  (forall a keys k, pk_is_identity a = is_O2 (pk_point a) -> remove_pks (Some a) keys = AOk k ->
                    pk_is_identity k = is_O2 (pk_point k)).
Proof. exact identity_cache_invariant. Qed.

Theorem C04_cancelling_keys_give_identity :
  forall sk,
    agg_pks [Some (public_key sk); Some (public_key (fopp sk))] = AOk identity_pk /\
    (forall h, inG1 h = true ->
     agg_sigs [enc1 (smul1 sk h); enc1 (smul1 (fopp sk) h)] = AOk identity_sig).
Proof. exact cancelling_keys_give_identity. Qed.

Theorem C04_agg_errors :
  agg_sigs [] = AErr ErrEmptyList /\ agg_sks [] = AErr ErrEmptyList /\ agg_pks [] = AErr ErrEmptyList /\
  (forall l1 l2, agg_sks (l1 ++ None :: l2) = AErr ErrNotBLSKey \/ l1 ++ None :: l2 = []) /\
  (forall sigs b, List.length b <> Z.to_nat crypto_SignatureLenBLSBLS12381 -> In b sigs ->
                  agg_sigs sigs = AErr ErrInvalidSignature) /\
  (forall sigs b, dec1 b = None -> In b sigs -> agg_sigs sigs = AErr ErrInvalidSignature).
Proof. exact agg_errors. Qed.
End C04.
Print Assumptions C04_pk_of_agg_sk.
Print Assumptions C04_remove_undoes_agg.
Print Assumptions C04_agg_sigs_nesting.

Example C04_nonvacuous :
  @agg_sigs F2 F2codecs [enc1 (true, tt); enc1 (true, tt)] = AOk (enc1 (false, tt)).
Proof. vm_compute. reflexivity. Qed.
