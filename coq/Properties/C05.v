(* C05 - serialization is canonical and validating (BLS scalars, G1, G2).
   ECDSA key codecs: Properties/C11.v.  Statements only. *)
From Coq Require Import ZArith NArith String List Bool.
From Bignums Require Import BigZ.
From V Require Import Lib.Num Lib.FermatZ Lib.Hex Prim.Bls12 Model.BlsCodec Spec.ZcashCodec
  Proofs.BytesZ Proofs.CodecProofs Proofs.CodecE2Proofs Proofs.CodecE2Complete Proofs.CodecRefine Proofs.Primes.
Import ListNotations.
Open Scope Z_scope.

(* Accepted BLS private keys are exactly the 32-byte big-endian scalars in [1, r-1]. *)
Theorem C05_sk_accepts_iff :
  forall b v, wf b ->
    decode_sk b = Some v <-> (List.length b = 32%nat /\ v = osZ b /\ 1 <= v < rZ).
Proof. exact sk_accepts_iff. Qed.
Print Assumptions C05_sk_accepts_iff.

(* accept => re-encodes to exactly the input *)
Theorem C05_sk_decode_canonical :
  forall b v, wf b -> decode_sk b = Some v -> encode_sk v = b.
Proof. exact sk_decode_canonical. Qed.
Print Assumptions C05_sk_decode_canonical.

(* every private key encodes to bytes that decode back to it *)
Theorem C05_sk_roundtrip :
  forall v, 1 <= v < rZ -> decode_sk (encode_sk v) = Some v.
Proof. exact sk_roundtrip. Qed.
Print Assumptions C05_sk_roundtrip.

(* G1 (signatures): whatever E1_read_bytes accepts re-encodes to exactly the input;
   in particular exactly one of the two sign-bit values is accepted for a given x,
   and every infinity encoding other than C0 00..00 is rejected.  Uses that p is prime
   (Proofs/Primes.v, a checked Pocklington certificate): no curve point has y = 0, by Fermat:
   -4 is not a cube mod p. *)
Theorem C05_e1_decode_canonical :
  forall b P, wf b -> decode_e1 b = (VALID, P) -> encode_e1 P = b.
Proof. exact (e1_decode_canonical bls_p_prime). Qed.
Print Assumptions C05_e1_decode_canonical.

(* ... and every affine curve point with reduced coordinates (whatever the package produces as a G1
   element) encodes to bytes that decode back to exactly that point.  Uses p prime (Euler's criterion
   for the square root, no zero divisors for the choice of the root by the sign bit). *)
Theorem C05_e1_encode_decode_roundtrip :
  forall x y, 0 <= x < pZ -> 0 <= y < pZ -> on_curve_Z x y ->
    decode_e1 (encode_e1 (Aff x y)) = (VALID, Aff x y).
Proof. exact (e1_encode_decode_roundtrip bls_p_prime). Qed.
Print Assumptions C05_e1_encode_decode_roundtrip.

(* G2 (public keys): whatever E2_read_bytes accepts re-encodes to exactly the input (so exactly one
   sign-bit value is accepted per x, and the only accepted infinity encoding is C0 00..00); an
   accepted finite point has reduced coordinates and lies on y^2 = x^3 + 4(1+u); the curve has no
   point with y = 0 (norm argument: 32 is not a cube mod p), which is what makes the sign bit
   meaningful for every point. *)
Theorem C05_e2_decode_canonical :
  forall b P, wf b -> decode_e2 b = (VALID, P) -> encode_e2 P = b.
Proof. exact (e2_decode_canonical bls_p_prime). Qed.
Print Assumptions C05_e2_decode_canonical.

Theorem C05_e2_decoded_point_on_curve :
  forall b x y, decode_e2 b = (VALID, Aff x y) ->
    inF2 x /\ inF2 y /\ f2mul ZNum pZ y y = rhs2 x.
Proof. exact e2_decode_on_curve. Qed.
Print Assumptions C05_e2_decoded_point_on_curve.

Theorem C05_e2_no_point_with_y_zero : forall x, rhs2 x <> (0, 0).
Proof. exact (rhs2_nonzero bls_p_prime). Qed.
Print Assumptions C05_e2_no_point_with_y_zero.

(* ... and the other direction for G2: every point of the curve with reduced coordinates (whatever the
   package produces as a G2 element) encodes to bytes that decode back to exactly that point.  This is
   completeness of the norm-based square root in F_p^2: every square has a root found, and the root is
   y or -y because F_p^2 = F_p[u]/(u^2+1) has no zero divisors (-1 is a non-residue, p = 3 mod 4). *)
Theorem C05_e2_encode_decode_roundtrip :
  forall x y, inF2 x -> inF2 y -> f2mul ZNum pZ y y = rhs2 x ->
    decode_e2 (encode_e2 (Aff x y)) = (VALID, Aff x y).
Proof. exact (e2_encode_decode_roundtrip bls_p_prime). Qed.
Print Assumptions C05_e2_encode_decode_roundtrip.

Theorem C05_e2_infinity_roundtrip : decode_e2 (encode_e2 Inf) = (VALID, Inf).
Proof. exact e2_encode_decode_roundtrip_inf. Qed.

Theorem C05_fp2_sqrt_complete :
  forall y, inF2 y ->
    exists c, f2sqrt ZNum pZ (f2mul ZNum pZ y y) = Some c /\ (c = y \/ c = f2neg ZNum pZ y).
Proof. exact (f2sqrt_complete bls_p_prime). Qed.
Print Assumptions C05_fp2_sqrt_complete.

Example C05_e2_roundtrip_hypotheses_satisfiable :
  inF2 (g2x ZNum) /\ inF2 (g2y ZNum) /\ f2mul ZNum pZ (g2y ZNum) (g2y ZNum) = rhs2 (g2x ZNum).
Proof. exact roundtrip_hyps_sat. Qed.

(* DecodePublicKey = length guard + E2_read_bytes + membership test: an accepted key re-encodes to
   the input and passed the G2 test of the model ([r]P = infinity) *)
Theorem C05_public_key_decode_canonical :
  forall b P, wf b -> decode_public_key ZNum pZ b = Some P ->
    List.length b = 96%nat /\ encode_e2 P = b /\ e2_in_G2 ZNum pZ (to_j2 ZNum pZ P) = true.
Proof. exact (pk_decode_canonical bls_p_prime). Qed.
Print Assumptions C05_public_key_decode_canonical.

(* The correspondence runs execute the BigZ instance of the same generic definitions.  These
   restate the main facts for exactly the functions Corr/C05Corr.v evaluates (carrier BigZ, [pB], [rB]);
   they follow from the refinement theorems of Proofs/CodecRefine.v (any faithful carrier computes,
   through n_to_Z, what the Z instance computes: field operations, both square roots, Jacobian
   arithmetic incl. the [r]P membership tests, all readers and writers). *)
Theorem C05_executed_public_key_decoder_is_the_Z_model :
  forall b, option_map (apt_map (f2Z BNum)) (decode_public_key BNum pB b) = decode_public_key ZNum pZ b.
Proof. exact bigZ_decode_public_key. Qed.
Print Assumptions C05_executed_public_key_decoder_is_the_Z_model.

Theorem C05_executed_public_key_canonical :
  forall b P, wf b -> decode_public_key BNum pB b = Some P -> e2_write_bytes BNum P = b.
Proof. exact (bigZ_public_key_canonical bls_p_prime). Qed.
Print Assumptions C05_executed_public_key_canonical.

Theorem C05_executed_signature_point_canonical :
  forall b P, wf b -> e1_read_bytes BNum pB b = (VALID, P) -> e1_write_bytes BNum P = b.
Proof. exact (bigZ_e1_canonical bls_p_prime). Qed.
Print Assumptions C05_executed_signature_point_canonical.

Theorem C05_executed_private_key_range :
  forall b v, wf b -> decode_private_key BNum rB b = Some v ->
    List.length b = 32%nat /\ BigZ.to_Z v = osZ b /\ 1 <= BigZ.to_Z v < rZ.
Proof. exact bigZ_private_key_accepts_iff. Qed.
Print Assumptions C05_executed_private_key_range.

(* The full statement "accepted BLS public keys are exactly the canonical encodings
   IN THE ZCASH FORMAT" is false of the faithful model: the coefficients of F_p^2 are
   read real part first.  Witness: the standard generator of G2 in the ZCash encoding
   is rejected, and the model's encoding of the generator differs from it. *)
Theorem C05_g2_zcash_order_refuted :
  exists b, b = g2_encode true g2_generator /\
            pk_decode true b <> None /\
            decode_public_key BNum pB b = None /\
            decode_public_key BNum pB (g2_encode false g2_generator) <> None.
Proof.
  eexists. split; [reflexivity|]. split; [|split].
  - vm_compute. discriminate.
  - vm_compute. reflexivity.
  - vm_compute. discriminate.
Qed.
Print Assumptions C05_g2_zcash_order_refuted.

(* non-vacuity *)
Example C05_sk_example : decode_sk (z2be 32 5) = Some 5.
Proof. vm_compute. reflexivity. Qed.
Example C05_e1_example :
  exists P, decode_e1 (hex "97f1d3a73197d7942695638c4fa9ac0fc3688c4f9774b905a14e3a3f171bac586c55e83ff97a1aeffb3af00adb22c6bb"%string) = (VALID, P).
Proof. eexists. vm_compute. reflexivity. Qed.

(* ---- ECDSA key codecs (both curves; the statements are those of Properties/C11.v, generic over the
   curve operations [O]): accepted private keys are exactly the fixed-width scalars in [1, n-1];
   accepted raw public keys exactly x || y with x, y < p on the curve; accepted compressed keys exactly
   02/03 || x with x < p and x^3 + a x + b a square; accept => re-encodes to the input; every produced
   key encodes to bytes that decode back to it. *)
From V Require Properties.C11.
Theorem C05_ecdsa_private_key_codec :
  ltac:(let t := type of (@C11.C11_private_key_codec) in exact t).
Proof. exact (@C11.C11_private_key_codec). Qed.
Print Assumptions C05_ecdsa_private_key_codec.
Theorem C05_ecdsa_public_key_codec :
  ltac:(let t := type of (@C11.C11_public_key_codec) in exact t).
Proof. exact (@C11.C11_public_key_codec). Qed.
Print Assumptions C05_ecdsa_public_key_codec.
Theorem C05_ecdsa_compressed_key_codec :
  ltac:(let t := type of (@C11.C11_compressed_key_codec) in exact t).
Proof. exact (@C11.C11_compressed_key_codec). Qed.
Print Assumptions C05_ecdsa_compressed_key_codec.
Theorem C05_ecdsa_compressed_accept_iff_on_curve :
  ltac:(let t := type of (@C11.C11_compressed_accept_iff_on_curve) in exact t).
Proof. exact (@C11.C11_compressed_accept_iff_on_curve). Qed.
Print Assumptions C05_ecdsa_compressed_accept_iff_on_curve.
