(* C08 - DKG qualification is fair: honest never blamed, bad dealing never accepted.
   Statements only; proofs in Proofs/DkgVssC08Proofs.v (plain Feldman VSS) and
   Proofs/DkgQualRefine.v / DkgQualFair.v (Feldman-VSS-Qual). *)
From Coq Require Import ZArith List Bool Arith Lia.
From V Require Import Model.DkgVss Model.DkgQual Spec.DkgApiSpec Proofs.DkgC10Proofs Proofs.DkgVssC08Proofs.
Import ListNotations.
Open Scope Z_scope.

(* ------------------------------------------------------------------ *)
(* plain Feldman VSS, a participant that is not the dealer              *)
(* ------------------------------------------------------------------ *)

(* [pre] is ANY call sequence (shares, garbage, ForceDisqualify, End/Start ...) after which
   the instance is running and has not processed a vector of the dealer yet; the vector that
   arrives is invalid in any way (wrong size, or G2_vector_read_bytes fails with any error
   kind); [post] is ANY call sequence.  No End ever returns keys. *)
Theorem C08_vss_invalid_vector_never_keys :
  forall cf d pre vb post,
    cfg_ok cf d = true -> c_my cf <> d ->
    let s := final (vss_step cf d) vss_init pre in
    vs_run s = true -> v_vArecv (vs_v s) = false ->
    invalid_vec vb ->
    forall o, In o (run (vss_step cf d) s (CBroadcast (Z.of_nat d) (MVec vb) :: post)) ->
      ~ is_keys (fst o).
Proof.
  intros cf d pre vb post H Hnd.
  assert (Hmy : (c_my cf < c_n cf)%nat).
  { unfold cfg_ok in H. repeat (apply andb_prop in H as [H ?]).
    match goal with E : (c_my cf <? c_n cf)%nat = true |- _ => apply Nat.ltb_lt in E; exact E end. }
  assert (Hd : (d < c_n cf)%nat).
  { unfold cfg_ok in H. repeat (apply andb_prop in H as [H ?]).
    match goal with E : (d <? c_n cf)%nat = true |- _ => apply Nat.ltb_lt in E; exact E end. }
  exact (invalid_vector_never_keys_reachable cf d Hnd Hd Hmy pre vb post).
Qed.
Print Assumptions C08_vss_invalid_vector_never_keys.

(* state form covering every interleaving: once the dealer's first share and first vector
   have both been processed and the stored share is not the discrete log of y[myIndex]
   (or s.y is nil because the vector was invalid), no End ever returns keys *)
Theorem C08_vss_mismatched_share_never_keys :
  forall cf d pre post,
    cfg_ok cf d = true -> c_my cf <> d ->
    let s := final (vss_step cf d) vss_init pre in
    v_xrecv (vs_v s) = true -> v_vArecv (vs_v s) = true -> mismatch cf (vs_v s) ->
    forall o, In o (run (vss_step cf d) s post) -> ~ is_keys (fst o).
Proof.
  intros cf d pre post H Hnd.
  assert (Hmy : (c_my cf < c_n cf)%nat).
  { unfold cfg_ok in H. repeat (apply andb_prop in H as [H ?]).
    match goal with E : (c_my cf <? c_n cf)%nat = true |- _ => apply Nat.ltb_lt in E; exact E end. }
  exact (mismatched_share_never_keys cf d Hnd Hmy pre post).
Qed.
Print Assumptions C08_vss_mismatched_share_never_keys.

(* message form, the two orders: a valid vector with coefficients l and a private message m
   that is not the matching share (wrong value, zero, >= r, wrong length, wrong tag, empty) *)
Theorem C08_vss_vector_then_bad_share_never_keys :
  forall cf d s l m post,
    c_my cf <> d -> (d < c_n cf)%nat -> (c_my cf < c_n cf)%nat ->
    vs_run s = true -> v_vArecv (vs_v s) = false -> v_xrecv (vs_v s) = false -> v_valid (vs_v s) = false ->
    share_mismatch cf l m ->
    forall o, In o (run (vss_step cf d) s
                      (CBroadcast (Z.of_nat d) (MVec (VOk l)) :: CPrivate (Z.of_nat d) m :: post)) ->
      ~ is_keys (fst o).
Proof. intros cf d s l m post A B C. exact (vector_then_share_never_keys cf d A B C s l m post). Qed.
Print Assumptions C08_vss_vector_then_bad_share_never_keys.

Theorem C08_vss_bad_share_then_vector_never_keys :
  forall cf d s l m post,
    c_my cf <> d -> (d < c_n cf)%nat -> (c_my cf < c_n cf)%nat ->
    vs_run s = true -> v_vArecv (vs_v s) = false -> v_xrecv (vs_v s) = false -> v_valid (vs_v s) = false ->
    v_x (vs_v s) = 0 -> v_y (vs_v s) = None ->
    share_mismatch cf l m ->
    forall o, In o (run (vss_step cf d) s
                      (CPrivate (Z.of_nat d) m :: CBroadcast (Z.of_nat d) (MVec (VOk l)) :: post)) ->
      ~ is_keys (fst o).
Proof. intros cf d s l m post A B C. exact (share_then_vector_never_keys cf d A B C s l m post). Qed.
Print Assumptions C08_vss_bad_share_then_vector_never_keys.

(* non-vacuity: the hypotheses are met by the freshly started receiver, and a matching
   share does give keys (so the conclusions are not trivially true of End) *)
Example C08_vss_nonvacuous_state :
  let s := final (vss_step (mkCfg 3 1 1) 0) vss_init [CStart SeedShort] in
  cfg_ok (mkCfg 3 1 1) 0 = true /\ vs_run s = true /\ v_vArecv (vs_v s) = false /\ v_xrecv (vs_v s) = false /\
  v_valid (vs_v s) = false /\ v_x (vs_v s) = 0 /\ v_y (vs_v s) = None /\ share_mismatch (mkCfg 3 1 1) [5; 3] (MShare (SVal 12)).
Proof. cbn. repeat split; auto. left. vm_compute. discriminate. Qed.

Example C08_vss_matching_share_gives_keys :
  map fst (run (vss_step (mkCfg 3 1 1) 0) vss_init
             [CStart SeedShort; CPrivate 0 (MShare (SVal 11)); CBroadcast 0 (MVec (VOk [5; 3])); CEnd])
  = [ROk; ROk; ROk; RKeys 11 5 [8; 11; 14]].
Proof. vm_compute. reflexivity. Qed.

Example C08_vss_bad_point_then_share_fails :
  map fst (run (vss_step (mkCfg 3 1 1) 0) vss_init
             [CStart SeedShort; CBroadcast 0 (MVec (VBad 1)); CPrivate 0 (MShare (SVal 5)); CEnd])
  = [ROk; ROk; ROk; RFailure].
Proof. vm_compute. reflexivity. Qed.

(* ------------------------------------------------------------------ *)
(* Feldman-VSS-Qual, an honest participant p that is not the dealer d   *)
(* ------------------------------------------------------------------ *)
From V Require Import Spec.DkgQualFacts Proofs.DkgQualRefine Proofs.DkgAgree Proofs.DkgQualFair Proofs.DkgQualEvents.

(* L is ANY list of inputs processed between Start and End (broadcasts and private messages of
   any origin and content in any interleaving, the timeouts, ForceDisqualify); [annot L] tags
   every input with its phase; the facts (vecF, complained, ansF, nkeys ...) are those of
   Spec/DkgQualFacts.v.  [end_result] is what End returns after L. *)

(* a dealer whose vector is missing at the shares timeout (or late), malformed, who has more
   than t complaints at the complaints timeout, or a complaint left unanswered or answered
   with an unreadable / wrong share: End returns dkg-failure *)
Theorem C08_bad_dealer_disqualified :
  forall cf d L, (c_my cf < c_n cf)%nat -> (d < c_n cf)%nat -> c_my cf <> d ->
    ph L = 2%nat -> bad_dealing cf d (annot L) -> end_result cf d L = RFailure.
Proof. intros cf d L A B C. exact (bad_dealer_disqualified cf d A B C L). Qed.
Print Assumptions C08_bad_dealer_disqualified.

(* an honest dealer with polynomial a0 :: al (non-zero a0, non-zero shares): whatever the
   other participants send and in whatever order, as long as at most t participants complain
   (tooMany = false) and the dealer's answers arrive before End (unansweredF = false), End
   returns the dealer's keys *)
Theorem C08_honest_dealer_never_disqualified :
  forall cf d L a0 al, (c_my cf < c_n cf)%nat -> (d < c_n cf)%nat -> c_my cf <> d ->
    ph L = 2%nat -> honest_dealer_log cf d (a0 :: al) (annot L) -> a0 <> 0 ->
    tooMany cf d (annot L) = false -> unansweredF cf d (annot L) = false ->
    end_result cf d L = RKeys (peval (a0 :: al) (Z.of_nat (c_my cf) + 1)) a0 (pubkeys cf (a0 :: al)).
Proof. intros cf d L a0 al A B C. exact (honest_dealer_never_disqualified cf d A B C L a0 al). Qed.
Print Assumptions C08_honest_dealer_never_disqualified.

(* ... and no Disqualify(dealer) callback is ever made while the dealer is not disqualified *)
Theorem C08_no_disqualify_callback_without_verdict :
  forall cf d L, q_disq (irun cf d q_init L) = false -> ~ In (EvDisq d) (irun_events cf d q_init L).
Proof. intros cf d L. exact (no_disq_event cf d L q_init). Qed.
Print Assumptions C08_no_disqualify_callback_without_verdict.

(* honest_never_flagged, dealer side: under the same hypotheses and with the dealer's messages
   on time and not repeated (its private message and its vector are its first ones and arrive
   before the shares timeout, no answer is sent twice), no Disqualify and no FlagMisbehavior
   callback ever names the dealer *)
Theorem C08_honest_dealer_never_flagged :
  forall cf d L a, (c_my cf < c_n cf)%nat -> (d < c_n cf)%nat -> c_my cf <> d ->
    ph L = 2%nat -> honest_dealer_log cf d a (annot L) ->
    tooMany cf d (annot L) = false -> unansweredF cf d (annot L) = false -> dealer_on_time cf d L ->
    ~ In (EvDisq d) (irun_events cf d q_init L) /\ ~ In (EvFlag d) (irun_events cf d q_init L).
Proof. intros cf d L a A B C. exact (honest_dealer_never_blamed cf d A B C L a). Qed.
Print Assumptions C08_honest_dealer_never_flagged.

(* callbacks only ever name the origin of the message being processed or the dealer *)
Theorem C08_callbacks_name_origin_or_dealer :
  forall cf d q x, Forall (ev_ok d (origin d x)) (snd (istep cf d q x)).
Proof. exact istep_events_target. Qed.
Print Assumptions C08_callbacks_name_origin_or_dealer.

(* honest_never_flagged, complainer side: an honest participant j (not the dealer) whose only
   message is one valid complaint delivered before the complaints timeout is never named in a
   Disqualify or FlagMisbehavior callback, whatever everybody else sends *)
Theorem C08_honest_complainer_never_flagged :
  forall cf d L1 L2 j, (c_my cf < c_n cf)%nat -> (d < c_n cf)%nat -> c_my cf <> d ->
    j <> d -> j <> c_my cf -> (j < c_n cf)%nat ->
    (forall x, In x L1 -> origin d x <> j) -> (forall x, In x L2 -> origin d x <> j) ->
    (ph L1 < 2)%nat ->
    let L := L1 ++ [IB j (MComplaint (CIdx (Z.of_nat d)))] ++ L2 in
    ~ In (EvDisq j) (irun_events cf d q_init L) /\ ~ In (EvFlag j) (irun_events cf d q_init L).
Proof. intros cf d L1 L2 j A B C. exact (honest_complainer_not_blamed cf d A B C L1 L2 j). Qed.
Print Assumptions C08_honest_complainer_never_flagged.

(* an honest participant that sends nothing (no complaint) is never named *)
Theorem C08_silent_participant_never_flagged :
  forall cf d L j, j <> d -> (forall x, In x L -> origin d x <> j) ->
    ~ In (EvDisq j) (irun_events cf d q_init L) /\ ~ In (EvFlag j) (irun_events cf d q_init L).
Proof. intros cf d L j. exact (events_only_about_origin cf d L q_init j). Qed.
Print Assumptions C08_silent_participant_never_flagged.

(* non-vacuity of the honest-dealer hypotheses (n = 3, t = 1, p = 1, d = 0, P = 5 + 3X): the
   vector, the share, a Byzantine complaint of participant 2 and its answer *)
Example C08_honest_dealer_nonvacuous :
  let cf := mkCfg 3 1 1 in
  let L := [IB 2 (MComplaint (CIdx 0)); IP 0 (MShare (SVal 11)); IB 0 (MVec (VOk [5; 3]));
            ITimeout; IB 0 (MAnswer (AVal 2 14)); ITimeout] in
  ph L = 2%nat /\ tooMany cf 0 (annot L) = false /\ unansweredF cf 0 (annot L) = false /\
  end_result cf 0 L = RKeys 11 5 [8; 11; 14].
Proof. vm_compute. repeat split. Qed.

Example C08_bad_dealer_nonvacuous :
  let cf := mkCfg 3 1 1 in
  end_result cf 0 [IP 0 (MShare (SVal 12)); IB 0 (MVec (VOk [5; 3])); ITimeout; ITimeout] = RFailure /\
  end_result cf 0 [IP 0 (MShare (SVal 11)); ITimeout; IB 0 (MVec (VOk [5; 3])); ITimeout] = RFailure.
Proof. vm_compute. split; reflexivity. Qed.

(* the honest-dealer hypotheses are satisfiable (same run as above) *)
Example C08_honest_dealer_log_nonvacuous :
  let cf := mkCfg 3 1 1 in
  honest_dealer_log cf 0 [5; 3]
    (annot [IB 2 (MComplaint (CIdx 0)); IP 0 (MShare (SVal 11)); IB 0 (MVec (VOk [5; 3]));
            ITimeout; IB 0 (MAnswer (AVal 2 14)); ITimeout]).
Proof.
  cbn zeta. unfold honest_dealer_log. split; [vm_compute; reflexivity|].
  split.
  { intros k m Hin. cbn in Hin. unfold honest_bcast.
    repeat (destruct Hin as [E|Hin]; [inversion E; subst; clear E|]); try contradiction.
    - left. split; reflexivity.
    - right. exists 2%nat. split; [cbn; lia|]. vm_compute. reflexivity. }
  split; [cbn; auto|].
  split.
  { intros k m Hin. cbn in Hin.
    repeat (destruct Hin as [E|Hin]; [inversion E; subst; clear E|]); try contradiction.
    split; [vm_compute; reflexivity|reflexivity]. }
  split; [exists 0%nat; cbn; right; left; vm_compute; reflexivity|].
  split; [reflexivity|].
  intros c Hc. cbn in Hc. destruct c as [|[|[|c]]]; try lia; vm_compute; reflexivity.
Qed.

Example C08_dealer_on_time_nonvacuous :
  let cf := mkCfg 3 1 1 in
  dealer_on_time cf 0 [IB 2 (MComplaint (CIdx 0)); IP 0 (MShare (SVal 11)); IB 0 (MVec (VOk [5; 3]));
                       ITimeout; IB 0 (MAnswer (AVal 2 14)); ITimeout].
Proof. cbn zeta. apply dealer_on_time_check. vm_compute. reflexivity. Qed.
