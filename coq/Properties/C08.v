(* C08 - DKG qualification is fair: honest never blamed, bad dealing never accepted.
   Statements only; proofs in Proofs/DkgVssC08Proofs.v (plain Feldman VSS) and
   Proofs/DkgQualRefine.v / DkgQualFair.v (Feldman-VSS-Qual). *)
From Coq Require Import ZArith List Bool Arith Lia.
From V Require Import Model.DkgVss Model.DkgQual Spec.DkgApiSpec Proofs.DkgC10Proofs Proofs.DkgVssC08Proofs.
Import ListNotations.
Open Scope Z_scope.

(* ------------------------------------------------------------------ *)
(* plain Feldman VSS, a participant that is not the dealer              *)
(* ------------------------------------------------------------------ *)

(* [pre] is ANY call sequence (shares, garbage, ForceDisqualify, End/Start ...) after which
   the instance is running and has not processed a vector of the dealer yet; the vector that
   arrives is invalid in any way (wrong size, or G2_vector_read_bytes fails with any error
   kind); [post] is ANY call sequence.  No End ever returns keys. *)
Theorem C08_vss_invalid_vector_never_keys :
  forall cf d pre vb post,
    cfg_ok cf d = true -> c_my cf <> d ->
    let s := final (vss_step cf d) vss_init pre in
    vs_run s = true -> v_vArecv (vs_v s) = false ->
    invalid_vec vb ->
    forall o, In o (run (vss_step cf d) s (CBroadcast (Z.of_nat d) (MVec vb) :: post)) ->
      ~ is_keys (fst o).
Proof.
  intros cf d pre vb post H Hnd.
  assert (Hmy : (c_my cf < c_n cf)%nat).
  { unfold cfg_ok in H. repeat (apply andb_prop in H as [H ?]).
    match goal with E : (c_my cf <? c_n cf)%nat = true |- _ => apply Nat.ltb_lt in E; exact E end. }
  assert (Hd : (d < c_n cf)%nat).
  { unfold cfg_ok in H. repeat (apply andb_prop in H as [H ?]).
    match goal with E : (d <? c_n cf)%nat = true |- _ => apply Nat.ltb_lt in E; exact E end. }
  exact (invalid_vector_never_keys_reachable cf d Hnd Hd Hmy pre vb post).
Qed.
Print Assumptions C08_vss_invalid_vector_never_keys.

(* state form covering every interleaving: once the dealer's first share and first vector
   have both been processed and the stored share is not the discrete log of y[myIndex]
   (or s.y is nil because the vector was invalid), no End ever returns keys *)
Theorem C08_vss_mismatched_share_never_keys :
  forall cf d pre post,
    cfg_ok cf d = true -> c_my cf <> d ->
    let s := final (vss_step cf d) vss_init pre in
    v_xrecv (vs_v s) = true -> v_vArecv (vs_v s) = true -> mismatch cf (vs_v s) ->
    forall o, In o (run (vss_step cf d) s post) -> ~ is_keys (fst o).
Proof.
  intros cf d pre post H Hnd.
  assert (Hmy : (c_my cf < c_n cf)%nat).
  { unfold cfg_ok in H. repeat (apply andb_prop in H as [H ?]).
    match goal with E : (c_my cf <? c_n cf)%nat = true |- _ => apply Nat.ltb_lt in E; exact E end. }
  exact (mismatched_share_never_keys cf d Hnd Hmy pre post).
Qed.
Print Assumptions C08_vss_mismatched_share_never_keys.

(* message form, the two orders: a valid vector with coefficients l and a private message m
   that is not the matching share (wrong value, zero, >= r, wrong length, wrong tag, empty) *)
Theorem C08_vss_vector_then_bad_share_never_keys :
  forall cf d s l m post,
    c_my cf <> d -> (d < c_n cf)%nat -> (c_my cf < c_n cf)%nat ->
    vs_run s = true -> v_vArecv (vs_v s) = false -> v_xrecv (vs_v s) = false -> v_valid (vs_v s) = false ->
    share_mismatch cf l m ->
    forall o, In o (run (vss_step cf d) s
                      (CBroadcast (Z.of_nat d) (MVec (VOk l)) :: CPrivate (Z.of_nat d) m :: post)) ->
      ~ is_keys (fst o).
Proof. intros cf d s l m post A B C. exact (vector_then_share_never_keys cf d A B C s l m post). Qed.
Print Assumptions C08_vss_vector_then_bad_share_never_keys.

Theorem C08_vss_bad_share_then_vector_never_keys :
  forall cf d s l m post,
    c_my cf <> d -> (d < c_n cf)%nat -> (c_my cf < c_n cf)%nat ->
    vs_run s = true -> v_vArecv (vs_v s) = false -> v_xrecv (vs_v s) = false -> v_valid (vs_v s) = false ->
    v_x (vs_v s) = 0 -> v_y (vs_v s) = None ->
    share_mismatch cf l m ->
    forall o, In o (run (vss_step cf d) s
                      (CPrivate (Z.of_nat d) m :: CBroadcast (Z.of_nat d) (MVec (VOk l)) :: post)) ->
      ~ is_keys (fst o).
Proof. intros cf d s l m post A B C. exact (share_then_vector_never_keys cf d A B C s l m post). Qed.
Print Assumptions C08_vss_bad_share_then_vector_never_keys.

(* non-vacuity: the hypotheses are met by the freshly started receiver, and a matching
   share does give keys (so the conclusions are not trivially true of End) *)
Example C08_vss_nonvacuous_state :
  let s := final (vss_step (mkCfg 3 1 1) 0) vss_init [CStart SeedShort] in
  cfg_ok (mkCfg 3 1 1) 0 = true /\ vs_run s = true /\ v_vArecv (vs_v s) = false /\ v_xrecv (vs_v s) = false /\
  v_valid (vs_v s) = false /\ v_x (vs_v s) = 0 /\ v_y (vs_v s) = None /\ share_mismatch (mkCfg 3 1 1) [5; 3] (MShare (SVal 12)).
Proof. cbn. repeat split; auto. left. vm_compute. discriminate. Qed.

Example C08_vss_matching_share_gives_keys :
  map fst (run (vss_step (mkCfg 3 1 1) 0) vss_init
             [CStart SeedShort; CPrivate 0 (MShare (SVal 11)); CBroadcast 0 (MVec (VOk [5; 3])); CEnd])
  = [ROk; ROk; ROk; RKeys 11 5 [8; 11; 14]].
Proof. vm_compute. reflexivity. Qed.

Example C08_vss_bad_point_then_share_fails :
  map fst (run (vss_step (mkCfg 3 1 1) 0) vss_init
             [CStart SeedShort; CBroadcast 0 (MVec (VBad 1)); CPrivate 0 (MShare (SVal 5)); CEnd])
  = [ROk; ROk; ROk; RFailure].
Proof. vm_compute. reflexivity. Qed.
