(* C09 - no exported function panics or corrupts memory on untrusted input.
   Only statements, each closed by [exact] of a lemma proved in Proofs/Risk*.v (or re-exported
   from another property), Print Assumptions, and non-vacuity Examples.

   Model: the control skeleton of every function of the root package, hash/ and random/ that
   is reachable from an exported function or method, regenerated from /repo by
   harness/cmd/extract/risk*.go into Generated/RiskSkel.v, with every operation that can panic
   on its operands (index, slice, make, division, type assertion, explicit panic).  Semantics:
   Model/Risk.v ([exec]: one outcome per path; unknown conditions branch both ways; a loop body
   is run once for an arbitrary index; callees are inlined).  [safe body e] =
   "no outcome of exec body e is a panic"; the theorems quantify over ALL environments e, i.e.
   over all argument lengths, integer and enum values, element values, results of foreign calls
   and receiver fields.  Hypotheses name values the library built itself (an oracle entry is
   written as the source text of the assignment or "<variable>@L<k>/@E<k>" for the value at the
   head of / after the k-th loop of the function) or say that a length is non-negative.
   Proof engine: Proofs/RiskProofs.v (weakest preconditions, sound for exec). *)
From Coq Require Import ZArith List String Bool Lia.
From V Require Import Model.Risk Generated.RiskSkel Proofs.RiskProofs Proofs.RiskBase
  Proofs.RiskThmBls Proofs.RiskThmMisc Proofs.RiskThmDkg Proofs.RiskThmJoint Proofs.RiskThmReject
  Proofs.RiskCoverage.
From V Require Properties.C13 Properties.C14 Properties.C15 Properties.C10.
Import ListNotations.
Open Scope string_scope.
Open Scope Z_scope.

(* ============ the proof engine is sound for the executable semantics ============ *)
Theorem C09_wp_sound :
  forall prog fuel l e, wp prog fuel l e top_post -> Forall no_panic (exec prog fuel l e).
Proof. exact wp_no_panic. Qed.
Print Assumptions C09_wp_sound.

(* ============ 93 entry points that need no precondition at all ============ *)
Theorem C09_unconditional_safe : Forall safe_fn unconditional.
Proof. exact unconditional_safe. Qed.
Print Assumptions C09_unconditional_safe.

(* the lists unconditional / conditional / not_covered are exactly the exported functions and
   methods plus the methods reachable through interface calls *)
Theorem C09_coverage_complete :
  forallb covered (risk_roots ++ risk_dyn_targets) = true.
Proof. exact coverage_complete. Qed.

Theorem C09_coverage_exact :
  forallb (fun f => existsb (String.eqb f) (risk_roots ++ risk_dyn_targets))
          (unconditional ++ conditional ++ map fst not_covered) = true /\
  nodupb (unconditional ++ conditional ++ map fst not_covered) = true.
Proof. exact coverage_exact. Qed.

(* ============ witness environment for the non-vacuity examples ============ *)
Definition witness : env := fun n =>
  match assoc n
    [("s.size", 3); ("s.threshold", 1); ("s.myIndex", 0); ("s.dealerIndex", 1); ("s.y", 3); ("s.vA", 2);
     ("s.a", 2); ("s.vAReceived", 1); ("s.validKey", 1); ("s.fvss", 3); ("size", 3); ("jf.size", 3);
     ("s.fvss[i].size", 3); ("s.fvss[i].threshold", 1); ("s.fvss[i].myIndex", 0); ("s.fvss[i].dealerIndex", 1);
     ("s.fvss[i].y", 3); ("s.fvss[i].vA", 2); ("s.fvss[i].a", 2); ("s.fvss[i].vAReceived", 1);
     ("s.fvss[i].y@L1", 3); ("s.fvss[i].vA@L1", 2); ("s.fvss[i].vAReceived@L1", 1);
     ("ok?s.complaints[complainee]", 1); ("qualifiedx@E2", 2); ("qualifiedPubKey@E2", 2); ("qualifiedy[i]", 2);
     ("h:=kmac.ComputeHash(data)", 128); ("h:=kmac.ComputeHash(message)", 128);
     ("sigs", 2); ("flatSigs@E1", 96); ("keys", 2); ("pks", 2); ("scalars@E1", 2); ("points@E1", 2);
     ("pkPoints@E1", 2); ("keysToRemove", 2); ("pointsToSubtract@E1", 2); ("kmac", 2); ("hashes@E1", 2);
     ("flatDistinctHashes@E3", 128); ("lenHashes@E3", 1); ("pkPerHash@E3", 1); ("allPks@E3", 2);
     ("distinctPks@E4", 2); ("hashPerPk@E4", 2); ("flatHashes@E4", 256); ("lenHashes@E4", 2);
     ("okm:=hkdf.Key(hashFunction, secret, salt, info, okmLength)", 48); ("hasher.Size()", 32); ("salt@L1", 32);
     ("s.publicKeyShares", 3); ("s.shares", 2); ("shares@E1", 96); ("signers@E1", 2);
     ("threshold", 1); ("shares", 2); ("flatShares@E1", 96); ("indexSigners@E1", 2);
     ("ret:(bits + 7) >> 3", 32); ("skBytes:=sk.goPrKey.D.Bytes()", 32); ("xBytes:=pk.goPubKey.X.Bytes()", 32);
     ("yBytes:=pk.goPubKey.Y.Bytes()", 32); ("rBytes:=r.Bytes()", 32); ("sBytes:=s.Bytes()", 32);
     ("ecdhPubBytes:=ecdhPriv.PublicKey().Bytes()", 65);
     ("n", 1); ("size@E1", 1); ("i@L1", 1); ("i@E1", 1); ("padlen:=w - (len(buf) % w)", 1); ("k.outputSize", 128);
     ("privateKeyBytes", 31); ("publicKeyBytes", 95); ("orig", 7); ("participant", 7); ("s.running", 1);
     ("s.jointRunning", 1); ("data[0]", 200); ("data", 1); ("origin", 1)]
  with Some v => v | None => 0 end.

(* for the rejection theorems about invalid group sizes *)
Definition witness_small : env :=
  fun n => if String.eqb n "size" then 1 else if String.eqb n "data" then 33 else witness n.

Ltac nonvacuous_with w :=
  exists w; let K := fresh "K" in (intro K; apply K; clear K);
  unfold nlen, kmac_counters, dkg_params, qual_vectors, vectors_ok, note_name;
  lazy -[Z.add Z.sub Z.mul Z.modulo Z.le Z.lt Z.ge Z.gt Z.div Z.opp];
  repeat split; intros; try lia; try congruence; try (Zify.zify; Z.div_mod_to_equations; lia).

Ltac nonvacuous := solve [nonvacuous_with witness | nonvacuous_with witness_small].


(* ============ BLS signatures, aggregation, threshold signatures ============ *)
(* hasher contract: ComputeHash returns Size() bytes, and checkBLSHasher accepted Size() = 128 *)
Theorem C09_np_bls_Sign :
  forall e,
  e "h:=kmac.ComputeHash(data)" = 128 ->
  safe skel_prKeyBLSBLS12381_Sign e.
Proof. exact np_bls_Sign. Qed.
Print Assumptions C09_np_bls_Sign.
Example C09_np_bls_Sign_nonvacuous :
  exists e : env, ~ (e "h:=kmac.ComputeHash(data)" = 128 -> False).
Proof. nonvacuous. Qed.

Theorem C09_np_bls_Verify :
  forall e,
  e "h:=kmac.ComputeHash(data)" = 128 ->
  safe skel_pubKeyBLSBLS12381_Verify e.
Proof. exact np_bls_Verify. Qed.
Print Assumptions C09_np_bls_Verify.
Example C09_np_bls_Verify_nonvacuous :
  exists e : env, ~ (e "h:=kmac.ComputeHash(data)" = 128 -> False).
Proof. nonvacuous. Qed.

(* flatSigs is the concatenation of the sigs, each checked to be 48 bytes in the loop
   (np_bls_AggregateSignatures_loop below) *)
Theorem C09_np_bls_AggregateSignatures :
  forall e,
  0 <= e "sigs" -> e "flatSigs@E1" = 48 * e "sigs" ->
  safe skel_AggregateBLSSignatures e.
Proof. exact np_bls_AggregateSignatures. Qed.
Print Assumptions C09_np_bls_AggregateSignatures.
Example C09_np_bls_AggregateSignatures_nonvacuous :
  exists e : env, ~ (0 <= e "sigs" -> e "flatSigs@E1" = 48 * e "sigs" -> False).
Proof. nonvacuous. Qed.

Theorem C09_np_bls_AggregatePrivateKeys :
  forall e,
  0 <= e "keys" -> e "scalars@E1" = e "keys" ->
  safe skel_AggregateBLSPrivateKeys e.
Proof. exact np_bls_AggregatePrivateKeys. Qed.
Print Assumptions C09_np_bls_AggregatePrivateKeys.
Example C09_np_bls_AggregatePrivateKeys_nonvacuous :
  exists e : env, ~ (0 <= e "keys" -> e "scalars@E1" = e "keys" -> False).
Proof. nonvacuous. Qed.

Theorem C09_np_bls_AggregatePublicKeys :
  forall e,
  0 <= e "keys" -> e "points@E1" = e "keys" ->
  safe skel_AggregateBLSPublicKeys e.
Proof. exact np_bls_AggregatePublicKeys. Qed.
Print Assumptions C09_np_bls_AggregatePublicKeys.
Example C09_np_bls_AggregatePublicKeys_nonvacuous :
  exists e : env, ~ (0 <= e "keys" -> e "points@E1" = e "keys" -> False).
Proof. nonvacuous. Qed.

Theorem C09_np_bls_RemovePublicKeys :
  forall e,
  0 <= e "keysToRemove" -> e "pointsToSubtract@E1" = e "keysToRemove" ->
  safe skel_RemoveBLSPublicKeys e.
Proof. exact np_bls_RemovePublicKeys. Qed.
Print Assumptions C09_np_bls_RemovePublicKeys.
Example C09_np_bls_RemovePublicKeys_nonvacuous :
  exists e : env, ~ (0 <= e "keysToRemove" -> e "pointsToSubtract@E1" = e "keysToRemove" -> False).
Proof. nonvacuous. Qed.

Theorem C09_np_bls_VerifyOneMessage :
  forall e,
  0 <= e "pks" -> e "points@E1" = e "pks" ->
  safe skel_VerifyBLSSignatureOneMessage e.
Proof. exact np_bls_VerifyOneMessage. Qed.
Print Assumptions C09_np_bls_VerifyOneMessage.
Example C09_np_bls_VerifyOneMessage_nonvacuous :
  exists e : env, ~ (0 <= e "pks" -> e "points@E1" = e "pks" -> False).
Proof. nonvacuous. Qed.

Theorem C09_np_bls_BatchVerify :
  forall e,
  0 <= e "sigs" ->
  e "pkPoints@E1" = e "pks" -> e "flatSigs@E1" = 48 * e "sigs" ->
  e "h:=kmac.ComputeHash(message)" = 128 ->
  safe skel_BatchVerifyBLSSignaturesOneMessage e.
Proof. exact np_bls_BatchVerify. Qed.
Print Assumptions C09_np_bls_BatchVerify.
Example C09_np_bls_BatchVerify_nonvacuous :
  exists e : env, ~ (0 <= e "sigs" ->
  e "pkPoints@E1" = e "pks" -> e "flatSigs@E1" = 48 * e "sigs" ->
  e "h:=kmac.ComputeHash(message)" = 128 -> False).
Proof. nonvacuous. Qed.

(* hashes has one entry per hasher; the flattened per-hash / per-key lists are built from
   the non-empty maps filled in the second loop (pks is non-empty, every hash is non-empty) *)
Theorem C09_np_bls_VerifyManyMessages :
  forall e,
  e "hashes@E1" = e "kmac" ->
  0 < e "flatDistinctHashes@E3" -> 0 < e "lenHashes@E3" -> 0 < e "pkPerHash@E3" -> 0 < e "allPks@E3" ->
  0 < e "distinctPks@E4" -> 0 < e "hashPerPk@E4" -> 0 < e "flatHashes@E4" -> 0 < e "lenHashes@E4" ->
  safe skel_VerifyBLSSignatureManyMessages e.
Proof. exact np_bls_VerifyManyMessages. Qed.
Print Assumptions C09_np_bls_VerifyManyMessages.
Example C09_np_bls_VerifyManyMessages_nonvacuous :
  exists e : env, ~ (e "hashes@E1" = e "kmac" ->
  0 < e "flatDistinctHashes@E3" -> 0 < e "lenHashes@E3" -> 0 < e "pkPerHash@E3" -> 0 < e "allPks@E3" ->
  0 < e "distinctPks@E4" -> 0 < e "hashPerPk@E4" -> 0 < e "flatHashes@E4" -> 0 < e "lenHashes@E4" -> False).
Proof. nonvacuous. Qed.

(* hkdf.Key returns okmLength = 48 bytes; sha256 Size() = 32 *)
Theorem C09_np_bls_generatePrivateKey :
  forall e,
  0 < e "okm:=hkdf.Key(hashFunction, secret, salt, info, okmLength)" ->
  0 <= e "hasher.Size()" -> 0 <= e "salt@L1" ->
  safe skel_blsBLS12381Algo_generatePrivateKey e.
Proof. exact np_bls_generatePrivateKey. Qed.
Print Assumptions C09_np_bls_generatePrivateKey.
Example C09_np_bls_generatePrivateKey_nonvacuous :
  exists e : env, ~ (0 < e "okm:=hkdf.Key(hashFunction, secret, salt, info, okmLength)" ->
  0 <= e "hasher.Size()" -> 0 <= e "salt@L1" -> False).
Proof. nonvacuous. Qed.

(* exported; panicked on nil / empty slices before the fix f338146 (found by this skeleton);
   the hypotheses only say that lengths are non-negative *)
Theorem C09_np_E2PolynomialImages :
  forall e,
  0 <= e "out" -> 0 <= e "A" ->
  safe skel_E2PolynomialImages e.
Proof. exact np_E2PolynomialImages. Qed.
Print Assumptions C09_np_E2PolynomialImages.
Example C09_np_E2PolynomialImages_nonvacuous :
  exists e : env, ~ (0 <= e "out" -> 0 <= e "A" -> False).
Proof. nonvacuous. Qed.

(* ---- threshold signatures ---- *)
Theorem C09_np_thr_VerifyShare :
  forall e,
  e "s.publicKeyShares" = e "s.size" ->
  safe skel_blsThresholdSignatureInspector_VerifyShare e.
Proof. exact np_thr_VerifyShare. Qed.
Print Assumptions C09_np_thr_VerifyShare.
Example C09_np_thr_VerifyShare_nonvacuous :
  exists e : env, ~ (e "s.publicKeyShares" = e "s.size" -> False).
Proof. nonvacuous. Qed.

Theorem C09_np_thr_VerifyAndAdd :
  forall e,
  e "s.publicKeyShares" = e "s.size" -> e "s.size" <= 254 ->
  safe skel_blsThresholdSignatureInspector_VerifyAndAdd e.
Proof. exact np_thr_VerifyAndAdd. Qed.
Print Assumptions C09_np_thr_VerifyAndAdd.
Example C09_np_thr_VerifyAndAdd_nonvacuous :
  exists e : env, ~ (e "s.publicKeyShares" = e "s.size" -> e "s.size" <= 254 -> False).
Proof. nonvacuous. Qed.

(* shares / signers are flattened from the map s.shares, which holds threshold+1 entries
   (enoughShares), each checked to be 48 bytes in the loop *)
Theorem C09_np_thr_ThresholdSignature :
  forall e,
  0 <= e "s.threshold" ->
  e "shares@E1" = 48 * e "s.shares" -> e "signers@E1" = e "s.shares" ->
  safe skel_blsThresholdSignatureInspector_ThresholdSignature e.
Proof. exact np_thr_ThresholdSignature. Qed.
Print Assumptions C09_np_thr_ThresholdSignature.
Example C09_np_thr_ThresholdSignature_nonvacuous :
  exists e : env, ~ (0 <= e "s.threshold" ->
  e "shares@E1" = 48 * e "s.shares" -> e "signers@E1" = e "s.shares" -> False).
Proof. nonvacuous. Qed.

Theorem C09_np_thr_Reconstruct :
  forall e,
  48 * (e "threshold" + 1) <= e "flatShares@E1" -> e "indexSigners@E1" = e "shares" ->
  safe skel_BLSReconstructThresholdSignature e.
Proof. exact np_thr_Reconstruct. Qed.
Print Assumptions C09_np_thr_Reconstruct.
Example C09_np_thr_Reconstruct_nonvacuous :
  exists e : env, ~ (48 * (e "threshold" + 1) <= e "flatShares@E1" -> e "indexSigners@E1" = e "shares" -> False).
Proof. nonvacuous. Qed.

(* ---- what one iteration of the accumulating loops does: a wrong-length element ends the
   function, so every element that was appended has exactly 48 bytes ---- *)
Theorem C09_AggregateSignatures_loop_rejects_bad_length :
  forall e,
  e "sig@val1" <> 48 -> always_returns (loop_body skel_AggregateBLSSignatures 0) e.
Proof. exact AggregateSignatures_loop_rejects_bad_length. Qed.
Print Assumptions C09_AggregateSignatures_loop_rejects_bad_length.
Example C09_AggregateSignatures_loop_rejects_bad_length_nonvacuous :
  exists e : env, ~ (e "sig@val1" <> 48 -> False).
Proof. nonvacuous. Qed.

Theorem C09_Reconstruct_loop_rejects_bad_length :
  forall e,
  e "i" <= e "threshold" -> e "share@val1" <> 48 ->
  always_returns (loop_body skel_BLSReconstructThresholdSignature 0) e.
Proof. exact Reconstruct_loop_rejects_bad_length. Qed.
Print Assumptions C09_Reconstruct_loop_rejects_bad_length.
Example C09_Reconstruct_loop_rejects_bad_length_nonvacuous :
  exists e : env, ~ (e "i" <= e "threshold" -> e "share@val1" <> 48 -> False).
Proof. nonvacuous. Qed.

Theorem C09_reconstructThresholdSignature_loop_rejects_bad_length :
  forall e,
  e "share@val1" <> 48 ->
  always_returns (loop_body skel_blsThresholdSignatureInspector_reconstructThresholdSignature 0) e.
Proof. exact reconstructThresholdSignature_loop_rejects_bad_length. Qed.
Print Assumptions C09_reconstructThresholdSignature_loop_rejects_bad_length.
Example C09_reconstructThresholdSignature_loop_rejects_bad_length_nonvacuous :
  exists e : env, ~ (e "share@val1" <> 48 -> False).
Proof. nonvacuous. Qed.


(* ============ ECDSA, random/, hash/ KMAC framing, constructors ============ *)
(* ---- ECDSA: big.Int.Bytes() of a scalar / coordinate reduced mod n / p has at most nlen bytes ---- *)
Theorem C09_np_ecdsa_prKey_Encode :
  forall e,
  0 <= e "skBytes:=sk.goPrKey.D.Bytes()" <= nlen e ->
  safe skel_prKeyECDSA_Encode e.
Proof. exact np_ecdsa_prKey_Encode. Qed.
Print Assumptions C09_np_ecdsa_prKey_Encode.
Example C09_np_ecdsa_prKey_Encode_nonvacuous :
  exists e : env, ~ (0 <= e "skBytes:=sk.goPrKey.D.Bytes()" <= nlen e -> False).
Proof. nonvacuous. Qed.

Theorem C09_np_ecdsa_prKey_String :
  forall e,
  0 <= e "skBytes:=sk.goPrKey.D.Bytes()" <= nlen e ->
  safe skel_prKeyECDSA_String e.
Proof. exact np_ecdsa_prKey_String. Qed.
Print Assumptions C09_np_ecdsa_prKey_String.
Example C09_np_ecdsa_prKey_String_nonvacuous :
  exists e : env, ~ (0 <= e "skBytes:=sk.goPrKey.D.Bytes()" <= nlen e -> False).
Proof. nonvacuous. Qed.

Theorem C09_np_ecdsa_pubKey_Encode :
  forall e,
  0 <= e "xBytes:=pk.goPubKey.X.Bytes()" <= nlen e ->
  0 <= e "yBytes:=pk.goPubKey.Y.Bytes()" <= nlen e ->
  safe skel_pubKeyECDSA_Encode e.
Proof. exact np_ecdsa_pubKey_Encode. Qed.
Print Assumptions C09_np_ecdsa_pubKey_Encode.
Example C09_np_ecdsa_pubKey_Encode_nonvacuous :
  exists e : env, ~ (0 <= e "xBytes:=pk.goPubKey.X.Bytes()" <= nlen e ->
  0 <= e "yBytes:=pk.goPubKey.Y.Bytes()" <= nlen e -> False).
Proof. nonvacuous. Qed.

Theorem C09_np_ecdsa_pubKey_String :
  forall e,
  0 <= e "xBytes:=pk.goPubKey.X.Bytes()" <= nlen e ->
  0 <= e "yBytes:=pk.goPubKey.Y.Bytes()" <= nlen e ->
  safe skel_pubKeyECDSA_String e.
Proof. exact np_ecdsa_pubKey_String. Qed.
Print Assumptions C09_np_ecdsa_pubKey_String.
Example C09_np_ecdsa_pubKey_String_nonvacuous :
  exists e : env, ~ (0 <= e "xBytes:=pk.goPubKey.X.Bytes()" <= nlen e ->
  0 <= e "yBytes:=pk.goPubKey.Y.Bytes()" <= nlen e -> False).
Proof. nonvacuous. Qed.

(* r, s returned by crypto/ecdsa.Sign are in [1, n-1] *)
Theorem C09_np_ecdsa_Sign :
  forall e,
  0 <= e "rBytes:=r.Bytes()" <= nlen e -> 0 <= e "sBytes:=s.Bytes()" <= nlen e ->
  safe skel_prKeyECDSA_Sign e.
Proof. exact np_ecdsa_Sign. Qed.
Print Assumptions C09_np_ecdsa_Sign.
Example C09_np_ecdsa_Sign_nonvacuous :
  exists e : env, ~ (0 <= e "rBytes:=r.Bytes()" <= nlen e -> 0 <= e "sBytes:=s.Bytes()" <= nlen e -> False).
Proof. nonvacuous. Qed.

Theorem C09_np_ecdsa_Verify :
  forall e,
  0 <= nlen e -> safe skel_pubKeyECDSA_Verify e.
Proof. exact np_ecdsa_Verify. Qed.
Print Assumptions C09_np_ecdsa_Verify.
Example C09_np_ecdsa_Verify_nonvacuous :
  exists e : env, ~ (0 <= nlen e -> False).
Proof. nonvacuous. Qed.

Theorem C09_np_ecdsa_SignatureFormatCheck :
  forall e,
  0 <= nlen e -> safe skel_SignatureFormatCheck e.
Proof. exact np_ecdsa_SignatureFormatCheck. Qed.
Print Assumptions C09_np_ecdsa_SignatureFormatCheck.
Example C09_np_ecdsa_SignatureFormatCheck_nonvacuous :
  exists e : env, ~ (0 <= nlen e -> False).
Proof. nonvacuous. Qed.

Theorem C09_np_ecdsa_decodePublicKey :
  forall e,
  0 <= nlen e -> safe skel_ecdsaAlgo_decodePublicKey e.
Proof. exact np_ecdsa_decodePublicKey. Qed.
Print Assumptions C09_np_ecdsa_decodePublicKey.
Example C09_np_ecdsa_decodePublicKey_nonvacuous :
  exists e : env, ~ (0 <= nlen e -> False).
Proof. nonvacuous. Qed.

(* crypto/ecdh P-256 PublicKey().Bytes() is the uncompressed point: 1 + 2*nlen bytes *)
Theorem C09_np_ecdsa_decodePrivateKey :
  forall e,
  0 <= nlen e -> e "ecdhPubBytes:=ecdhPriv.PublicKey().Bytes()" = 1 + 2 * nlen e ->
  safe skel_ecdsaAlgo_decodePrivateKey e.
Proof. exact np_ecdsa_decodePrivateKey. Qed.
Print Assumptions C09_np_ecdsa_decodePrivateKey.
Example C09_np_ecdsa_decodePrivateKey_nonvacuous :
  exists e : env, ~ (0 <= nlen e -> e "ecdhPubBytes:=ecdhPriv.PublicKey().Bytes()" = 1 + 2 * nlen e -> False).
Proof. nonvacuous. Qed.

Theorem C09_np_ecdsa_generatePrivateKey :
  forall e,
  0 <= nlen e -> e "ecdhPubBytes:=ecdhPriv.PublicKey().Bytes()" = 1 + 2 * nlen e ->
  safe skel_ecdsaAlgo_generatePrivateKey e.
Proof. exact np_ecdsa_generatePrivateKey. Qed.
Print Assumptions C09_np_ecdsa_generatePrivateKey.
Example C09_np_ecdsa_generatePrivateKey_nonvacuous :
  exists e : env, ~ (0 <= nlen e -> e "ecdhPubBytes:=ecdhPriv.PublicKey().Bytes()" = 1 + 2 * nlen e -> False).
Proof. nonvacuous. Qed.

(* ---- random ---- *)
Theorem C09_np_rand_Read :
  forall e,
  0 <= e "buffer" -> safe skel_random_chachaCore_Read e.
Proof. exact np_rand_Read. Qed.
Print Assumptions C09_np_rand_Read.
Example C09_np_rand_Read_nonvacuous :
  exists e : env, ~ (0 <= e "buffer" -> False).
Proof. nonvacuous. Qed.

(* remainingBytes is a uint64 remainder *)
Theorem C09_np_rand_Restore :
  forall e,
  0 <= e "remainingBytes:=bytesCounter % bytesPerBlock" ->
  safe skel_random_RestoreChacha20PRG e.
Proof. exact np_rand_Restore. Qed.
Print Assumptions C09_np_rand_Restore.
Example C09_np_rand_Restore_nonvacuous :
  exists e : env, ~ (0 <= e "remainingBytes:=bytesCounter % bytesPerBlock" -> False).
Proof. nonvacuous. Qed.

(* UintN: n = 0 is the documented panic; size counts the bytes of a uint64 (at most 8) *)
Theorem C09_np_rand_UintN :
  forall e,
  e "n" <> 0 -> 0 <= e "size@E1" <= 8 ->
  safe skel_random_genericPRG_UintN e.
Proof. exact np_rand_UintN. Qed.
Print Assumptions C09_np_rand_UintN.
Example C09_np_rand_UintN_nonvacuous :
  exists e : env, ~ (e "n" <> 0 -> 0 <= e "size@E1" <= 8 -> False).
Proof. nonvacuous. Qed.

Theorem C09_np_rand_UintN_zero_panics :
  exists e, e "n" = 0 /\ ~ safe skel_random_genericPRG_UintN e.
Proof. exact np_rand_UintN_zero_panics. Qed.
Print Assumptions C09_np_rand_UintN_zero_panics.

(* random@E3 is the uint64 drawn by UintN, which leaves its loop only with random <= max *)
Theorem C09_np_rand_Permutation :
  forall e,
  0 <= e "size@E1" <= 8 -> 0 <= e "random@E3" ->
  safe skel_random_genericPRG_Permutation e.
Proof. exact np_rand_Permutation. Qed.
Print Assumptions C09_np_rand_Permutation.
Example C09_np_rand_Permutation_nonvacuous :
  exists e : env, ~ (0 <= e "size@E1" <= 8 -> 0 <= e "random@E3" -> False).
Proof. nonvacuous. Qed.

Theorem C09_np_rand_SubPermutation :
  forall e,
  0 <= e "size@E1" <= 8 -> 0 <= e "random@E3" ->
  safe skel_random_genericPRG_SubPermutation e.
Proof. exact np_rand_SubPermutation. Qed.
Print Assumptions C09_np_rand_SubPermutation.
Example C09_np_rand_SubPermutation_nonvacuous :
  exists e : env, ~ (0 <= e "size@E1" <= 8 -> 0 <= e "random@E3" -> False).
Proof. nonvacuous. Qed.

Theorem C09_np_rand_Samples :
  forall e,
  0 <= e "size@E1" <= 8 ->
  safe skel_random_genericPRG_Samples e.
Proof. exact np_rand_Samples. Qed.
Print Assumptions C09_np_rand_Samples.
Example C09_np_rand_Samples_nonvacuous :
  exists e : env, ~ (0 <= e "size@E1" <= 8 -> False).
Proof. nonvacuous. Qed.

Theorem C09_np_rand_Shuffle :
  forall e,
  0 <= e "size@E1" <= 8 ->
  safe skel_random_genericPRG_Shuffle e.
Proof. exact np_rand_Shuffle. Qed.
Print Assumptions C09_np_rand_Shuffle.
Example C09_np_rand_Shuffle_nonvacuous :
  exists e : env, ~ (0 <= e "size@E1" <= 8 -> False).
Proof. nonvacuous. Qed.

Theorem C09_np_hash_NewKMAC_128 :
  forall e,
  kmac_counters e -> safe skel_hash_NewKMAC_128 e.
Proof. exact np_hash_NewKMAC_128. Qed.
Print Assumptions C09_np_hash_NewKMAC_128.
Example C09_np_hash_NewKMAC_128_nonvacuous :
  exists e : env, ~ (kmac_counters e -> False).
Proof. nonvacuous. Qed.

Theorem C09_np_NewExpandMsgXOFKMAC128 :
  forall e,
  kmac_counters e -> safe skel_NewExpandMsgXOFKMAC128 e.
Proof. exact np_NewExpandMsgXOFKMAC128. Qed.
Print Assumptions C09_np_NewExpandMsgXOFKMAC128.
Example C09_np_NewExpandMsgXOFKMAC128_nonvacuous :
  exists e : env, ~ (kmac_counters e -> False).
Proof. nonvacuous. Qed.

(* k.outputSize was checked to be non-negative by the constructor *)
Theorem C09_np_hash_kmac_ComputeHash :
  forall e,
  0 <= e "i@L1" -> 0 <= e "i@E1" <= 8 -> 0 <= e "k.outputSize" ->
  safe skel_hash_kmac128_ComputeHash e.
Proof. exact np_hash_kmac_ComputeHash. Qed.
Print Assumptions C09_np_hash_kmac_ComputeHash.
Example C09_np_hash_kmac_ComputeHash_nonvacuous :
  exists e : env, ~ (0 <= e "i@L1" -> 0 <= e "i@E1" <= 8 -> 0 <= e "k.outputSize" -> False).
Proof. nonvacuous. Qed.

Theorem C09_np_hash_kmac_SumHash :
  forall e,
  0 <= e "i@L1" -> 0 <= e "i@E1" <= 8 -> 0 <= e "k.outputSize" ->
  safe skel_hash_kmac128_SumHash e.
Proof. exact np_hash_kmac_SumHash. Qed.
Print Assumptions C09_np_hash_kmac_SumHash.
Example C09_np_hash_kmac_SumHash_nonvacuous :
  exists e : env, ~ (0 <= e "i@L1" -> 0 <= e "i@E1" <= 8 -> 0 <= e "k.outputSize" -> False).
Proof. nonvacuous. Qed.

(* ---- threshold-signature constructors (they build the KMAC hasher) ---- *)
Theorem C09_np_thr_NewInspector :
  forall e,
  kmac_counters e -> safe skel_NewBLSThresholdSignatureInspector e.
Proof. exact np_thr_NewInspector. Qed.
Print Assumptions C09_np_thr_NewInspector.
Example C09_np_thr_NewInspector_nonvacuous :
  exists e : env, ~ (kmac_counters e -> False).
Proof. nonvacuous. Qed.

Theorem C09_np_thr_NewParticipant :
  forall e,
  kmac_counters e -> safe skel_NewBLSThresholdSignatureParticipant e.
Proof. exact np_thr_NewParticipant. Qed.
Print Assumptions C09_np_thr_NewParticipant.
Example C09_np_thr_NewParticipant_nonvacuous :
  exists e : env, ~ (kmac_counters e -> False).
Proof. nonvacuous. Qed.


(* ============ threshold key generation, Feldman VSS, Feldman VSS with complaints ============ *)
Theorem C09_np_BLSThresholdKeyGen :
  forall e,
  safe_cut sponge_cut skel_BLSThresholdKeyGen e.
Proof. exact np_BLSThresholdKeyGen. Qed.
Print Assumptions C09_np_BLSThresholdKeyGen.

(* ---- plain Feldman VSS ---- *)
Theorem C09_np_vss_Start :
  forall e,
  safe_cut sponge_cut skel_feldmanVSSstate_Start e.
Proof. exact np_vss_Start. Qed.
Print Assumptions C09_np_vss_Start.

Theorem C09_np_vss_HandleBroadcastMsg :
  forall e,
  dkg_params e "s." -> 0 <= e "msg" ->
  safe skel_feldmanVSSstate_HandleBroadcastMsg e.
Proof. exact np_vss_HandleBroadcastMsg. Qed.
Print Assumptions C09_np_vss_HandleBroadcastMsg.
Example C09_np_vss_HandleBroadcastMsg_nonvacuous :
  exists e : env, ~ (dkg_params e "s." -> 0 <= e "msg" -> False).
Proof. nonvacuous. Qed.

Theorem C09_np_vss_HandlePrivateMsg :
  forall e,
  dkg_params e "s." -> 0 <= e "msg" ->
  (e "s.y" = e "s.size" \/ (e "s.y" = 0 /\ e "nil?s.y" = 1)) ->
  safe skel_feldmanVSSstate_HandlePrivateMsg e.
Proof. exact np_vss_HandlePrivateMsg. Qed.
Print Assumptions C09_np_vss_HandlePrivateMsg.
Example C09_np_vss_HandlePrivateMsg_nonvacuous :
  exists e : env, ~ (dkg_params e "s." -> 0 <= e "msg" ->
  (e "s.y" = e "s.size" \/ (e "s.y" = 0 /\ e "nil?s.y" = 1)) -> False).
Proof. nonvacuous. Qed.

Theorem C09_np_vss_End :
  forall e,
  dkg_params e "s." ->
  (e "s.validKey" <> 0 -> e "s.vA" = e "s.threshold" + 1 /\ e "s.y" = e "s.size") ->
  safe skel_feldmanVSSstate_End e.
Proof. exact np_vss_End. Qed.
Print Assumptions C09_np_vss_End.
Example C09_np_vss_End_nonvacuous :
  exists e : env, ~ (dkg_params e "s." ->
  (e "s.validKey" <> 0 -> e "s.vA" = e "s.threshold" + 1 /\ e "s.y" = e "s.size") -> False).
Proof. nonvacuous. Qed.

Theorem C09_np_qual_HandleBroadcastMsg :
  forall e,
  dkg_params e "s." -> 0 <= e "msg" -> 0 <= e "s.dealerIndex" < e "s.size" ->
  qual_vectors e "s." "" ->
  (e "s.myIndex" = e "s.dealerIndex" -> e "s.a" = e "s.threshold" + 1) ->
  0 <= e "complainer@key1" < e "s.size" ->
  e "ok?s.complaints[complainee]" = 1 ->
  safe skel_feldmanVSSQualState_HandleBroadcastMsg e.
Proof. exact np_qual_HandleBroadcastMsg. Qed.
Print Assumptions C09_np_qual_HandleBroadcastMsg.
Example C09_np_qual_HandleBroadcastMsg_nonvacuous :
  exists e : env, ~ (dkg_params e "s." -> 0 <= e "msg" -> 0 <= e "s.dealerIndex" < e "s.size" ->
  qual_vectors e "s." "" ->
  (e "s.myIndex" = e "s.dealerIndex" -> e "s.a" = e "s.threshold" + 1) ->
  0 <= e "complainer@key1" < e "s.size" ->
  e "ok?s.complaints[complainee]" = 1 -> False).
Proof. nonvacuous. Qed.

Theorem C09_np_qual_HandlePrivateMsg :
  forall e,
  dkg_params e "s." -> 0 <= e "msg" -> 0 <= e "s.dealerIndex" < e "s.size" ->
  qual_vectors e "s." "" ->
  safe skel_feldmanVSSQualState_HandlePrivateMsg e.
Proof. exact np_qual_HandlePrivateMsg. Qed.
Print Assumptions C09_np_qual_HandlePrivateMsg.
Example C09_np_qual_HandlePrivateMsg_nonvacuous :
  exists e : env, ~ (dkg_params e "s." -> 0 <= e "msg" -> 0 <= e "s.dealerIndex" < e "s.size" ->
  qual_vectors e "s." "" -> False).
Proof. nonvacuous. Qed.

Theorem C09_np_qual_NextTimeout :
  forall e,
  dkg_params e "s." -> qual_vectors e "s." "" ->
  safe skel_feldmanVSSQualState_NextTimeout e.
Proof. exact np_qual_NextTimeout. Qed.
Print Assumptions C09_np_qual_NextTimeout.
Example C09_np_qual_NextTimeout_nonvacuous :
  exists e : env, ~ (dkg_params e "s." -> qual_vectors e "s." "" -> False).
Proof. nonvacuous. Qed.

(* End is only passed with both timeouts set; a dealer that is still not disqualified then
   (value of the flag after the unanswered-complaint loop) has delivered a valid vector *)
Theorem C09_np_qual_End :
  forall e,
  dkg_params e "s." ->
  (e "s.disqualified@E1" = 0 -> e "s.vA" = e "s.threshold" + 1 /\ e "s.y" = e "s.size") ->
  safe skel_feldmanVSSQualState_End e.
Proof. exact np_qual_End. Qed.
Print Assumptions C09_np_qual_End.
Example C09_np_qual_End_nonvacuous :
  exists e : env, ~ (dkg_params e "s." ->
  (e "s.disqualified@E1" = 0 -> e "s.vA" = e "s.threshold" + 1 /\ e "s.y" = e "s.size") -> False).
Proof. nonvacuous. Qed.


(* ============ Joint-Feldman ============ *)
(* s.fvss = make([]feldmanVSSQualState, s.size) in init() *)
Theorem C09_np_joint_ForceDisqualify :
  forall e,
  e "s.fvss" = e "s.size" ->
  safe skel_JointFeldmanState_ForceDisqualify e.
Proof. exact np_joint_ForceDisqualify. Qed.
Print Assumptions C09_np_joint_ForceDisqualify.
Example C09_np_joint_ForceDisqualify_nonvacuous :
  exists e : env, ~ (e "s.fvss" = e "s.size" -> False).
Proof. nonvacuous. Qed.

Theorem C09_np_joint_Start :
  forall e,
  0 <= e "s.size" -> e "s.fvss" = e "s.size" ->
  safe_cut sponge_cut skel_JointFeldmanState_Start e.
Proof. exact np_joint_Start. Qed.
Print Assumptions C09_np_joint_Start.
Example C09_np_joint_Start_nonvacuous :
  exists e : env, ~ (0 <= e "s.size" -> e "s.fvss" = e "s.size" -> False).
Proof. nonvacuous. Qed.

(* jf embeds the dkgCommon just built from the validated size *)
Theorem C09_np_NewJointFeldman :
  forall e,
  e "jf.size" = e "size" ->
  safe skel_NewJointFeldman e.
Proof. exact np_NewJointFeldman. Qed.
Print Assumptions C09_np_NewJointFeldman.
Example C09_np_NewJointFeldman_nonvacuous :
  exists e : env, ~ (e "jf.size" = e "size" -> False).
Proof. nonvacuous. Qed.

Theorem C09_np_joint_NextTimeout :
  forall e,
  e "s.fvss" = e "s.size" -> dkg_params e "s.fvss[i]." ->
  vectors_ok e "s.fvss[i].vAReceived" "s.fvss[i].disqualified@L1" "s.fvss[i].y" "s.fvss[i].vA"
             "s.fvss[i].size" "s.fvss[i].threshold" ->
  safe skel_JointFeldmanState_NextTimeout e.
Proof. exact np_joint_NextTimeout. Qed.
Print Assumptions C09_np_joint_NextTimeout.
Example C09_np_joint_NextTimeout_nonvacuous :
  exists e : env, ~ (e "s.fvss" = e "s.size" -> dkg_params e "s.fvss[i]." ->
  vectors_ok e "s.fvss[i].vAReceived" "s.fvss[i].disqualified@L1" "s.fvss[i].y" "s.fvss[i].vA"
             "s.fvss[i].size" "s.fvss[i].threshold" -> False).
Proof. nonvacuous. Qed.

Theorem C09_np_joint_HandlePrivateMsg :
  forall e,
  e "s.fvss" = e "s.size" -> dkg_params e "s.fvss[i]." -> 0 <= e "msg" ->
  vectors_ok e "s.fvss[i].vAReceived" "s.fvss[i].disqualified@L1" "s.fvss[i].y" "s.fvss[i].vA"
             "s.fvss[i].size" "s.fvss[i].threshold" ->
  safe skel_JointFeldmanState_HandlePrivateMsg e.
Proof. exact np_joint_HandlePrivateMsg. Qed.
Print Assumptions C09_np_joint_HandlePrivateMsg.
Example C09_np_joint_HandlePrivateMsg_nonvacuous :
  exists e : env, ~ (e "s.fvss" = e "s.size" -> dkg_params e "s.fvss[i]." -> 0 <= e "msg" ->
  vectors_ok e "s.fvss[i].vAReceived" "s.fvss[i].disqualified@L1" "s.fvss[i].y" "s.fvss[i].vA"
             "s.fvss[i].size" "s.fvss[i].threshold" -> False).
Proof. nonvacuous. Qed.

Theorem C09_np_joint_HandleBroadcastMsg :
  forall e,
  e "s.fvss" = e "s.size" -> dkg_params e "s.fvss[i]." -> 0 <= e "msg" ->
  0 <= e "s.fvss[i].dealerIndex" < e "s.fvss[i].size" ->
  vectors_ok e "s.fvss[i].vAReceived@L1" "s.fvss[i].disqualified@L1" "s.fvss[i].y@L1" "s.fvss[i].vA@L1"
             "s.fvss[i].size" "s.fvss[i].threshold" ->
  (e "s.fvss[i].myIndex" = e "s.fvss[i].dealerIndex" -> e "s.fvss[i].a" = e "s.fvss[i].threshold" + 1) ->
  0 <= e "complainer@key1" < e "s.fvss[i].size" ->
  e "ok?s.complaints[complainee]" = 1 ->
  safe skel_JointFeldmanState_HandleBroadcastMsg e.
Proof. exact np_joint_HandleBroadcastMsg. Qed.
Print Assumptions C09_np_joint_HandleBroadcastMsg.
Example C09_np_joint_HandleBroadcastMsg_nonvacuous :
  exists e : env, ~ (e "s.fvss" = e "s.size" -> dkg_params e "s.fvss[i]." -> 0 <= e "msg" ->
  0 <= e "s.fvss[i].dealerIndex" < e "s.fvss[i].size" ->
  vectors_ok e "s.fvss[i].vAReceived@L1" "s.fvss[i].disqualified@L1" "s.fvss[i].y@L1" "s.fvss[i].vA@L1"
             "s.fvss[i].size" "s.fvss[i].threshold" ->
  (e "s.fvss[i].myIndex" = e "s.fvss[i].dealerIndex" -> e "s.fvss[i].a" = e "s.fvss[i].threshold" + 1) ->
  0 <= e "complainer@key1" < e "s.fvss[i].size" ->
  e "ok?s.complaints[complainee]" = 1 -> False).
Proof. nonvacuous. Qed.

(* End: every sub-instance that is not disqualified when the keys are summed up has
   delivered a valid vector (both timeouts have passed); more than threshold dealers are
   qualified (checked just before), so the lists of qualified keys are non-empty *)
Theorem C09_np_joint_End :
  forall e,
  0 <= e "s.size" -> e "s.fvss" = e "s.size" ->
  (e "s.fvss[i].disqualified@E1" = 0 ->
   e "s.fvss[i].vA" = e "s.fvss[i].threshold" + 1 /\ e "s.fvss[i].y" = e "s.size") ->
  0 <= e "s.fvss[i].threshold" ->
  0 < e "qualifiedx@E2" -> 0 < e "qualifiedPubKey@E2" -> 0 < e "qualifiedy[i]" ->
  safe skel_JointFeldmanState_End e.
Proof. exact np_joint_End. Qed.
Print Assumptions C09_np_joint_End.
Example C09_np_joint_End_nonvacuous :
  exists e : env, ~ (0 <= e "s.size" -> e "s.fvss" = e "s.size" ->
  (e "s.fvss[i].disqualified@E1" = 0 ->
   e "s.fvss[i].vA" = e "s.fvss[i].threshold" + 1 /\ e "s.fvss[i].y" = e "s.size") ->
  0 <= e "s.fvss[i].threshold" ->
  0 < e "qualifiedx@E2" -> 0 < e "qualifiedPubKey@E2" -> 0 < e "qualifiedy[i]" -> False).
Proof. nonvacuous. Qed.


(* ============ invalid input is answered with the documented error (skeleton level) ============ *)
Theorem C09_rj_decodePrivateKey_length :
  forall e,
  e "privateKeyBytes" <> 32 ->
  returns_with skel_blsBLS12381Algo_decodePrivateKey e (tag_is "nil,invalidInputsErrorf").
Proof. exact rj_decodePrivateKey_length. Qed.
Print Assumptions C09_rj_decodePrivateKey_length.
Example C09_rj_decodePrivateKey_length_nonvacuous :
  exists e : env, ~ (e "privateKeyBytes" <> 32 -> False).
Proof. nonvacuous. Qed.

Theorem C09_rj_decodePublicKey_length :
  forall e,
  e "publicKeyBytes" <> 96 ->
  returns_with skel_blsBLS12381Algo_decodePublicKey e (tag_is "nil,invalidInputsErrorf").
Proof. exact rj_decodePublicKey_length. Qed.
Print Assumptions C09_rj_decodePublicKey_length.
Example C09_rj_decodePublicKey_length_nonvacuous :
  exists e : env, ~ (e "publicKeyBytes" <> 96 -> False).
Proof. nonvacuous. Qed.

Theorem C09_rj_validIndex :
  forall e,
  (e "orig" < 0 \/ e "s.size" <= e "orig") ->
  returns_with skel_blsThresholdSignatureInspector_validIndex e (tag_is "invalidInputsErrorf").
Proof. exact rj_validIndex. Qed.
Print Assumptions C09_rj_validIndex.
Example C09_rj_validIndex_nonvacuous :
  exists e : env, ~ ((e "orig" < 0 \/ e "s.size" <= e "orig") -> False).
Proof. nonvacuous. Qed.

Theorem C09_rj_VerifyShare_index :
  forall e,
  (e "orig" < 0 \/ e "s.size" <= e "orig") ->
  returns_with skel_blsThresholdSignatureInspector_VerifyShare e (tag_is "false,err").
Proof. exact rj_VerifyShare_index. Qed.
Print Assumptions C09_rj_VerifyShare_index.
Example C09_rj_VerifyShare_index_nonvacuous :
  exists e : env, ~ ((e "orig" < 0 \/ e "s.size" <= e "orig") -> False).
Proof. nonvacuous. Qed.

Theorem C09_rj_Reconstruct_params :
  forall e,
  (e "size" < 2 \/ 254 < e "size" \/ e "threshold" < 1 \/ e "size" <= e "threshold") ->
  returns_with skel_BLSReconstructThresholdSignature e (tag_is "nil,invalidInputsErrorf").
Proof. exact rj_Reconstruct_params. Qed.
Print Assumptions C09_rj_Reconstruct_params.
Example C09_rj_Reconstruct_params_nonvacuous :
  exists e : env, ~ ((e "size" < 2 \/ 254 < e "size" \/ e "threshold" < 1 \/ e "size" <= e "threshold") -> False).
Proof. nonvacuous. Qed.

Theorem C09_rj_vss_ForceDisqualify :
  forall e,
  e "s.running" <> 0 -> (e "participant" < 0 \/ e "s.size" <= e "participant") ->
  returns_with skel_feldmanVSSstate_ForceDisqualify e (tag_is "invalidInputsErrorf").
Proof. exact rj_vss_ForceDisqualify. Qed.
Print Assumptions C09_rj_vss_ForceDisqualify.
Example C09_rj_vss_ForceDisqualify_nonvacuous :
  exists e : env, ~ (e "s.running" <> 0 -> (e "participant" < 0 \/ e "s.size" <= e "participant") -> False).
Proof. nonvacuous. Qed.

Theorem C09_rj_qual_ForceDisqualify :
  forall e,
  e "s.running" <> 0 -> (e "participant" < 0 \/ e "s.size" <= e "participant") ->
  returns_with skel_feldmanVSSQualState_ForceDisqualify e (tag_is "invalidInputsErrorf").
Proof. exact rj_qual_ForceDisqualify. Qed.
Print Assumptions C09_rj_qual_ForceDisqualify.
Example C09_rj_qual_ForceDisqualify_nonvacuous :
  exists e : env, ~ (e "s.running" <> 0 -> (e "participant" < 0 \/ e "s.size" <= e "participant") -> False).
Proof. nonvacuous. Qed.

Theorem C09_rj_joint_ForceDisqualify :
  forall e,
  e "s.jointRunning" <> 0 -> (e "participant" < 0 \/ e "s.size" <= e "participant") ->
  returns_with skel_JointFeldmanState_ForceDisqualify e (tag_is "invalidInputsErrorf").
Proof. exact rj_joint_ForceDisqualify. Qed.
Print Assumptions C09_rj_joint_ForceDisqualify.
Example C09_rj_joint_ForceDisqualify_nonvacuous :
  exists e : env, ~ (e "s.jointRunning" <> 0 -> (e "participant" < 0 \/ e "s.size" <= e "participant") -> False).
Proof. nonvacuous. Qed.

Theorem C09_rj_qual_HandleBroadcastMsg_origin :
  forall e,
  e "s.running" <> 0 -> (e "orig" < 0 \/ e "s.size" <= e "orig") ->
  returns_with skel_feldmanVSSQualState_HandleBroadcastMsg e (tag_is "invalidInputsErrorf").
Proof. exact rj_qual_HandleBroadcastMsg_origin. Qed.
Print Assumptions C09_rj_qual_HandleBroadcastMsg_origin.
Example C09_rj_qual_HandleBroadcastMsg_origin_nonvacuous :
  exists e : env, ~ (e "s.running" <> 0 -> (e "orig" < 0 \/ e "s.size" <= e "orig") -> False).
Proof. nonvacuous. Qed.

Theorem C09_rj_newDKGCommon :
  forall e,
  (e "size" < 2 \/ 254 < e "size" \/ e "threshold" < 1 \/ e "size" <= e "threshold" \/
   e "myIndex" < 0 \/ e "size" <= e "myIndex" \/ e "dealerIndex" < 0 \/ e "size" <= e "dealerIndex") ->
  returns_with skel_newDKGCommon e (tag_is "nil,invalidInputsErrorf").
Proof. exact rj_newDKGCommon. Qed.
Print Assumptions C09_rj_newDKGCommon.
Example C09_rj_newDKGCommon_nonvacuous :
  exists e : env, ~ ((e "size" < 2 \/ 254 < e "size" \/ e "threshold" < 1 \/ e "size" <= e "threshold" \/
   e "myIndex" < 0 \/ e "size" <= e "myIndex" \/ e "dealerIndex" < 0 \/ e "size" <= e "dealerIndex") -> False).
Proof. nonvacuous. Qed.

(* a complaint (1 payload byte) from the dealer that names a participant >= size, before the
   complaint timeout: the dealer is reported through Disqualify exactly once, and the parser
   returns *)
Theorem C09_rj_qual_receiveComplaint_bad_complainee :
  forall e,
  e "s.complaintsTimeout" = 0 -> e "data" = 1 -> e "s.size" <= (e "data[0]") mod 256 ->
  e "origin" = e "s.dealerIndex" -> e (note_name "Disqualify") = 0 ->
  returns_with skel_feldmanVSSQualState_receiveComplaint e (noted "Disqualify" 1).
Proof. exact rj_qual_receiveComplaint_bad_complainee. Qed.
Print Assumptions C09_rj_qual_receiveComplaint_bad_complainee.
Example C09_rj_qual_receiveComplaint_bad_complainee_nonvacuous :
  exists e : env, ~ (e "s.complaintsTimeout" = 0 -> e "data" = 1 -> e "s.size" <= (e "data[0]") mod 256 ->
  e "origin" = e "s.dealerIndex" -> e (note_name "Disqualify") = 0 -> False).
Proof. nonvacuous. Qed.

Theorem C09_rj_qual_receiveComplaintAnswer_bad_complainer :
  forall e,
  e "origin" = e "s.dealerIndex" -> e "data" = 33 -> e "s.size" <= (e "data[0]") mod 256 ->
  e (note_name "Disqualify") = 0 ->
  returns_with skel_feldmanVSSQualState_receiveComplaintAnswer e (noted "Disqualify" 1).
Proof. exact rj_qual_receiveComplaintAnswer_bad_complainer. Qed.
Print Assumptions C09_rj_qual_receiveComplaintAnswer_bad_complainer.
Example C09_rj_qual_receiveComplaintAnswer_bad_complainer_nonvacuous :
  exists e : env, ~ (e "origin" = e "s.dealerIndex" -> e "data" = 33 -> e "s.size" <= (e "data[0]") mod 256 ->
  e (note_name "Disqualify") = 0 -> False).
Proof. nonvacuous. Qed.

(* ============ entry points without a skeleton-level theorem, and why ============ *)
Definition C09_not_covered : list (string * string) := not_covered.
Definition C09_opaque_functions : list (string * string) := opaque_functions.

(* ============ model-level totality theorems of other properties, re-exported ============ *)
(* hash/: no sequence of hasher API calls panics (loops executed, any permutation in place of
   Keccak-f); covers the four not_covered sponge entry points *)
Definition C09_sponge_ops_never_panic := Properties.C13.C13_sponge_ops_preserve_wf.
Check C09_sponge_ops_never_panic.
Print Assumptions C09_sponge_ops_never_panic.
Definition C09_sponge_constructors_wf := Properties.C13.C13_constructors_wf.
Definition C09_kmac_ops_preserve := Properties.C13.C13_kmac_ops_preserve.
Check C09_kmac_ops_preserve.
Definition C09_kmac_rejects := Properties.C13.C13_kmac_rejects.

(* random/: UintN(0) is the documented panic; valid arguments never panic; invalid ones are errors *)
Definition C09_uintn_zero_panics := Properties.C15.C15_uintn_zero_panics.
Check C09_uintn_zero_panics.
Definition C09_uintn_in_range := Properties.C15.C15_uintn_in_range.
Definition C09_rand_valid_arguments_no_error := Properties.C15.C15_valid_arguments_no_error.
Definition C09_rand_argument_errors := Properties.C15.C15_argument_errors.

(* random/: constructor and restore length rejections *)
Definition C09_prg_constructor_accepts_iff := Properties.C14.C14_constructor_accepts_iff.
Definition C09_prg_restore_rejects_bad_length := Properties.C14.C14_restore_rejects_bad_length.

(* DKG: every call of every call sequence is answered with the class the automaton prescribes
   (in particular never with the models' RPanic result) and the run is never cut short *)
Definition C09_dkg_vss_all_sequences := Properties.C10.C10_api_follows_automaton_vss.
Definition C09_dkg_qual_all_sequences := Properties.C10.C10_api_follows_automaton_qual.
Definition C09_dkg_joint_all_sequences := Properties.C10.C10_api_follows_automaton_joint.
Print Assumptions C09_dkg_joint_all_sequences.
