(* C02 - aggregate BLS verification equals the pairing-product definition. *)
From Coq Require Import ZArith NArith List Bool Permutation.
From V Require Import Spec.Bilinear Generated.Consts Model.BlsAbs Model.AggAbs Model.MultisigAbs
  Proofs.BlsProofs Proofs.AggProofs Proofs.MultisigProofs Proofs.BilinearInst.
Import ListNotations.

Section C02.
Context {B : bilinear} {C : codecs}.
Variable Hc : list N -> E1.                     (* hash-to-curve of a hasher output *)
Hypothesis Hc_G1 : forall h, inG1 (Hc h) = true.

(* inputs: (private scalar, in-memory representation tag of the key object, hasher output) *)
Theorem C02_many_messages_iff :
  forall xs b sigma_h sigma_k, xs <> [] ->
    (forall m, Permutation (sigma_h m) m) -> (forall m, Permutation (sigma_k m) m) ->
    (run Hc xs b sigma_h sigma_k = MBool true <-> (all_nonzero xs /\ b = enc1 (expected_sig Hc xs))).
Proof. exact (many_messages_iff Hc Hc_G1). Qed.

Theorem C02_many_messages_perm_invariant :
  forall xs xs' b sh sk sh' sk', xs <> [] -> Permutation xs xs' ->
    (forall m, Permutation (sh m) m) -> (forall m, Permutation (sk m) m) ->
    (forall m, Permutation (sh' m) m) -> (forall m, Permutation (sk' m) m) ->
    run Hc xs b sh sk = run Hc xs' b sh' sk'.
Proof. exact (many_messages_perm_invariant Hc Hc_G1). Qed.

Theorem C02_one_message_iff :
  forall sks b hpt, sks <> [] -> inG1 hpt = true ->
    (verify_one_message (map (fun s => Some (public_key s)) sks) b good_hasher hpt = Some (VBool true)
     <-> (fsum sks <> f0 /\ b = enc1 (smul1 (fsum sks) hpt))).
Proof. exact one_message_iff. Qed.

Theorem C02_many_messages_errors :
  forall n_pks n_msgs n_hashers ts b sh sk,
  (List.length b <> Z.to_nat crypto_SignatureLenBLSBLS12381 ->
     verify_many_messages Hc n_pks n_msgs n_hashers ts b sh sk = MBool false) /\
  (List.length b = Z.to_nat crypto_SignatureLenBLSBLS12381 -> n_pks = 0%nat ->
     verify_many_messages Hc n_pks n_msgs n_hashers ts b sh sk = MErrEmptyList) /\
  (List.length b = Z.to_nat crypto_SignatureLenBLSBLS12381 -> n_pks <> 0%nat -> (n_pks <> n_msgs \/ n_hashers <> n_msgs) ->
     verify_many_messages Hc n_pks n_msgs n_hashers ts b sh sk = MErrInvalidInputs).
Proof. exact (many_messages_errors Hc). Qed.
End C02.
Print Assumptions C02_many_messages_iff.
Print Assumptions C02_many_messages_perm_invariant.
Print Assumptions C02_one_message_iff.

Example C02_nonvacuous :
  @run F2 F2codecs (fun _ => (true, tt)) [(true, 0%N, [1%N]); (true, 1%N, [2%N])]
       (enc1 (false, tt)) (fun m => m) (fun m => m) = MBool true.
Proof. vm_compute. reflexivity. Qed.
