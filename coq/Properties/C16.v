(* C16 - proofs of possession are sound and domain-separated from every signature. *)
From Coq Require Import ZArith NArith List Bool.
From V Require Import Spec.Bilinear Generated.Consts Model.BlsAbs Model.PopAbs Proofs.BlsProofs Proofs.PopProofs Proofs.BilinearInst.
From V Require Spec.HashSpec Proofs.KmacInjective.
Import ListNotations.

(* over the ciphersuite strings regenerated from bls.go: for every application tag the KMAC key
   of NewExpandMsgXOFKMAC128(tag) differs from the proof-of-possession key *)
Theorem C16_pop_key_never_a_sig_key : forall tag : list N, sig_key tag <> pop_key.
Proof. exact pop_key_never_a_sig_key. Qed.
Print Assumptions C16_pop_key_never_a_sig_key.

(* distinct KMAC keys (and distinct messages) give distinct framed sponge inputs: the byte string
   absorbed by KMAC128 determines customizer, key and message (proved under C13) *)
Theorem C16_kmac_framing_injective :
  forall outlen S K X S' K' X',
    KmacInjective.kmac_absorbed S K X outlen = KmacInjective.kmac_absorbed S' K' X' outlen -> S = S' /\ K = K' /\ X = X'.
Proof. exact KmacInjective.kmac_framing_injective. Qed.
Print Assumptions C16_kmac_framing_injective.

(* hence: the sponge input of a signature hash under ANY application tag differs from the sponge
   input of the proof-of-possession hash, whatever the messages *)
Corollary C16_sig_and_pop_sponge_inputs_differ :
  forall tag msg msg' outlen S,
    KmacInjective.kmac_absorbed S (sig_key tag) msg outlen <> KmacInjective.kmac_absorbed S pop_key msg' outlen.
Proof.
  intros tag msg msg' outlen S E.
  apply KmacInjective.kmac_framing_injective in E as (_ & K & _).
  exact (pop_key_never_a_sig_key tag K).
Qed.
Print Assumptions C16_sig_and_pop_sponge_inputs_differ.

Section C16.
Context {B : bilinear} {C : codecs}.
Variable H : list N -> list N -> E1.
Hypothesis H_in_G1 : forall k m, inG1 (H k m) = true.

Theorem C16_pop_iff :
  forall sk b,
    verify_pop H (Some (public_key sk)) b = Some (VBool true) <->
    (sk <> f0 /\ b = enc1 (smul1 sk (H pop_key (enc2 (pk_of sk))))).
Proof. exact (pop_iff H H_in_G1). Qed.

Theorem C16_generated_pop_verifies :
  forall sk, sk <> f0 ->
    exists p, generate_pop H (Some sk) = Some p /\ verify_pop H (Some (public_key sk)) p = Some (VBool true).
Proof. exact (generated_pop_verifies H H_in_G1). Qed.

Theorem C16_pop_identity_key_rejected :
  forall b, verify_pop H (Some (mk_pubkey O2)) b = Some (VBool false).
Proof. exact (pop_identity_key_rejected H). Qed.

(* reductions: any cross-domain acceptance exhibits equal multiples of the hash images of two
   distinct framed KMAC inputs *)
Theorem C16_sig_as_pop_gives_relation :
  forall sk sk' tag msg,
    verify_pop H (Some (public_key sk)) (sign_tag H sk' tag msg) = Some (VBool true) ->
    sig_key tag <> pop_key /\
    smul1 sk' (H (sig_key tag) msg) = smul1 sk (H pop_key (enc2 (pk_of sk))).
Proof. exact (sig_as_pop_gives_relation H H_in_G1). Qed.

Theorem C16_pop_as_sig_gives_relation :
  forall sk sk' tag msg p,
    generate_pop H (Some sk) = Some p ->
    verify_tag H (public_key sk') p tag msg = VBool true ->
    sig_key tag <> pop_key /\
    smul1 sk (H pop_key (enc2 (pk_of sk))) = smul1 sk' (H (sig_key tag) msg).
Proof. exact (pop_as_sig_gives_relation H H_in_G1). Qed.

Theorem C16_pop_other_key_gives_relation :
  forall sk sk' p,
    generate_pop H (Some sk) = Some p ->
    verify_pop H (Some (public_key sk')) p = Some (VBool true) ->
    smul1 sk (H pop_key (enc2 (pk_of sk))) = smul1 sk' (H pop_key (enc2 (pk_of sk'))).
Proof. exact (pop_other_key_gives_relation H H_in_G1). Qed.

(* the separation statements proper, under the explicit (idealised, random-oracle style)
   hypothesis that multiples of hash images of distinct framed inputs never coincide.
   PARTIAL in the sense of DESIGN section 6/C16: this hypothesis is a cryptographic assumption
   about KMAC128 + hash-to-curve, not a theorem, and cannot hold for ALL inputs of a finite group. *)
Hypothesis hash_outputs_unrelated :
  forall k m k' m' (a a' : F), a <> f0 -> a' <> f0 ->
    smul1 a (H k m) = smul1 a' (H k' m') -> k = k' /\ m = m'.

Theorem C16_sig_never_verifies_as_pop_partial :
  forall sk sk' tag msg, sk <> f0 -> sk' <> f0 ->
    verify_pop H (Some (public_key sk)) (sign_tag H sk' tag msg) = Some (VBool false).
Proof. exact (sig_never_verifies_as_pop H H_in_G1 hash_outputs_unrelated). Qed.

Theorem C16_pop_never_verifies_as_sig_partial :
  forall sk sk' tag msg, sk <> f0 -> sk' <> f0 ->
    forall p, generate_pop H (Some sk) = Some p ->
    verify_tag H (public_key sk') p tag msg = VBool false.
Proof. exact (pop_never_verifies_as_sig H H_in_G1 hash_outputs_unrelated). Qed.

Theorem C16_pop_other_key_rejected_partial :
  forall sk sk', sk <> f0 -> sk' <> f0 -> enc2 (pk_of sk) <> enc2 (pk_of sk') ->
    forall p, generate_pop H (Some sk) = Some p ->
    verify_pop H (Some (public_key sk')) p = Some (VBool false).
Proof. exact (pop_other_key_rejected H H_in_G1 hash_outputs_unrelated). Qed.
End C16.
Print Assumptions C16_pop_iff.
Print Assumptions C16_sig_as_pop_gives_relation.

(* non-vacuity of pop_iff on the F_2 instance with a constant hash image *)
Example C16_nonvacuous :
  exists p, @generate_pop F2 F2codecs (fun _ _ => (true, tt)) (Some true) = Some p /\
            @verify_pop F2 F2codecs (fun _ _ => (true, tt)) (Some (public_key true)) p = Some (VBool true).
Proof. eexists. split; vm_compute; reflexivity. Qed.
