(* C20 - results do not depend on the build configuration.
   The models of this development are single mathematical functions: whatever a build computes is
   compared with them.  What IS build-dependent in the sources, and is proved here: the two xorIn /
   copyOut variants selected by build tags, and the limb width of the byte <-> limb conversions. *)
From Coq Require Import ZArith NArith List Bool.
From V Require Import Prim.Keccak Model.Hashers Model.BuildVariants Proofs.SpongeFacts Proofs.BuildVariantsProofs.
Import ListNotations.

(* hash/xor_generic.go (purego / other platforms) and hash/xor_unaligned.go (amd64, 386, ppc64le)
   absorb a full block identically, for both rates in use *)
Theorem C20_xorIn_variants_agree :
  forall a b, rate_ok (length b) -> xorIn_generic a b = xorIn_unaligned a b.
Proof. exact xorIn_generic_block. Qed.
Print Assumptions C20_xorIn_variants_agree.

(* ... and squeeze identically for every output length that is a multiple of 8 up to the maximal rate *)
Theorem C20_copyOut_variants_agree :
  forall n a, (n mod 8 = 0)%nat -> (n <= maxRate)%nat -> copyOut_generic n a = copyOut n a.
Proof. exact copyOut_variants_agree. Qed.
Print Assumptions C20_copyOut_variants_agree.

(* bytes -> limbs -> integer does not depend on the limb width *)
Theorem C20_limb_conversions_width_agnostic :
  forall w, (0 < w)%nat -> forall fuel b,
    (length b <= w * fuel)%nat -> (length b mod w = 0)%nat ->
    limbs_val w (limbs_of_be w fuel b) = be_val b.
Proof. exact limb_conversions_width_agnostic. Qed.
Print Assumptions C20_limb_conversions_width_agnostic.

Theorem C20_limbs_32_and_64_bit_agree :
  forall b, (length b mod 8 = 0)%nat ->
    limbs_val 4 (limbs_of_be 4 (length b) b) = limbs_val 8 (limbs_of_be 8 (length b) b).
Proof. exact limbs_32_and_64_bit_agree. Qed.

(* non-vacuity / the side condition of copyOut is needed *)
Example C20_copyOut_ragged_differs : copyOut_generic 12 (repeat 1%N 25) <> copyOut 12 (repeat 1%N 25).
Proof. exact copyOut_ragged_differs. Qed.
Example C20_limbs_example : limbs_val 8 (limbs_of_be 8 2 [1;2;3;4;5;6;7;8;9;10;11;12;13;14;15;16]%N) = be_val [1;2;3;4;5;6;7;8;9;10;11;12;13;14;15;16]%N.
Proof. vm_compute. reflexivity. Qed.
