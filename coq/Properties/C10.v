(* C10 - DKG instances follow the documented single-use state machine.
   Statements only; proofs are in Proofs/DkgC10Proofs.v.

   Models: Model/DkgVss.v, DkgQual.v, DkgJoint.v ([step : state -> call -> state * result *
   list event], explicit RPanic/RUndef results).  Specification: the automaton of
   Spec/DkgApiSpec.v (Init / Running with 0,1,2 elapsed timeouts / Ended):
     Start refused (state-transition) while running; a Start whose share generation fails
     (seed too short) returns invalid-input and leaves the instance not running;
     NextTimeout: no-op for plain VSS, accepted exactly twice while running otherwise;
     End: refused when not running and (Qual/Joint) before both timeouts, otherwise completes
     (keys or dkg-failure) and leaves the instance not running;
     handlers / ForceDisqualify: state-transition when not running, invalid-input on an
     out-of-range index while running, accepted otherwise; Running() is the flag.

   Single-use contract ("An instance ... is usable for only one protocol run. In order to run
   the protocol again, a new instance needs to be created"): what Start does after End is
   unspecified by the documentation.  The theorems hold for ALL call sequences, with the
   automaton doing what the code does on reuse (Start is accepted again and the elapsed
   timeouts are kept), see C10_reuse_* below. *)
From Coq Require Import ZArith List Bool Arith Lia.
From V Require Import Model.DkgVss Model.DkgQual Model.DkgJoint Spec.DkgApiSpec Proofs.DkgC10Proofs.
Import ListNotations.
Open Scope Z_scope.

Lemma cfg_ok_my cf d : cfg_ok cf d = true -> (c_my cf < c_n cf)%nat.
Proof.
  unfold cfg_ok. intro H. repeat (apply andb_prop in H as [H ?]).
  match goal with E : (c_my cf <? c_n cf)%nat = true |- _ => apply Nat.ltb_lt in E; exact E end.
Qed.

(* ---- every call of every call sequence is answered as the automaton prescribes;
        in particular no call ever panics and the run is never cut short ---- *)
Theorem C10_api_follows_automaton_vss :
  forall cf d cs, cfg_ok cf d = true ->
    map (fun o => class_of (fst o)) (run (vss_step cf d) vss_init cs)
    = map Some (aut_trace PVss cf (Nat.eqb (c_my cf) d) a_init cs)
    /\ length (run (vss_step cf d) vss_init cs) = length cs.
Proof.
  intros cf d cs H. split.
  - exact (vss_api_follows_automaton cf d (cfg_ok_my cf d H) cs).
  - exact (vss_run_complete cf d (cfg_ok_my cf d H) cs).
Qed.
Print Assumptions C10_api_follows_automaton_vss.

Theorem C10_api_follows_automaton_qual :
  forall cf d cs, cfg_ok cf d = true ->
    map (fun o => class_of (fst o)) (run (qual_step cf d) qual_init cs)
    = map Some (aut_trace PQual cf (Nat.eqb (c_my cf) d) a_init cs)
    /\ length (run (qual_step cf d) qual_init cs) = length cs.
Proof.
  intros cf d cs H. split.
  - exact (qual_api_follows_automaton cf d (cfg_ok_my cf d H) cs).
  - exact (qual_run_complete cf d (cfg_ok_my cf d H) cs).
Qed.
Print Assumptions C10_api_follows_automaton_qual.

Theorem C10_api_follows_automaton_joint :
  forall cf cs, cfg_ok cf 0 = true ->
    map (fun o => class_of (fst o)) (run (joint_step cf) (joint_init cf) cs)
    = map Some (aut_trace PJoint cf true a_init cs)
    /\ length (run (joint_step cf) (joint_init cf) cs) = length cs.
Proof.
  intros cf cs H. split.
  - exact (joint_api_follows_automaton cf (cfg_ok_my cf 0 H) cs).
  - exact (joint_run_complete cf (cfg_ok_my cf 0 H) cs).
Qed.
Print Assumptions C10_api_follows_automaton_joint.

(* ---- a call answered with a state-transition or invalid-input error returns a state EQUAL
        to the input state and emits no event.  The only excluded call is a dealer Start
        whose polynomial gives the dealer itself the share 0 (probability 1/r over the seed;
        generateShares then fails after having written its state), see the _refuted lemma ---- *)
Theorem C10_refused_calls_are_noops_vss :
  forall cf d s c s' res ev, cfg_ok cf d = true ->
    vss_step cf d s c = (s', res, ev) -> res = RStateErr \/ res = RInvalidInput ->
    degenerate_start cf (Nat.eqb (c_my cf) d) c = false ->
    s' = s /\ ev = [].
Proof. intros cf d s c s' res ev H. exact (vss_refused_noop cf d (cfg_ok_my cf d H) s c s' res ev). Qed.
Print Assumptions C10_refused_calls_are_noops_vss.

Theorem C10_refused_calls_are_noops_qual :
  forall cf d s c s' res ev, cfg_ok cf d = true ->
    qual_step cf d s c = (s', res, ev) -> res = RStateErr \/ res = RInvalidInput ->
    degenerate_start cf (Nat.eqb (c_my cf) d) c = false ->
    s' = s /\ ev = [].
Proof. intros cf d s c s' res ev H. exact (qual_refused_noop cf d (cfg_ok_my cf d H) s c s' res ev). Qed.
Print Assumptions C10_refused_calls_are_noops_qual.

(* Joint-Feldman, for every state reachable by a call sequence: jointRunning and the n
   instances are unchanged; the shared dkgCommon.running flag may be cleared by a refused
   Start (Start resets it before trying) ... *)
Theorem C10_refused_calls_are_noops_joint :
  forall cf cs c s' res ev, cfg_ok cf 0 = true ->
    let s := final (joint_step cf) (joint_init cf) cs in
    joint_step cf s c = (s', res, ev) -> res = RStateErr \/ res = RInvalidInput ->
    degenerate_start cf true c = false ->
    j_jrun s' = j_jrun s /\ j_insts s' = j_insts s /\
    (j_run s' = j_run s \/ exists sd, c = CStart sd) /\ ev = [].
Proof.
  intros cf cs c s' res ev H s.
  exact (joint_refused_noop cf (cfg_ok_my cf 0 H) s c s' res ev (joint_reachable_inv cf (cfg_ok_my cf 0 H) cs)).
Qed.
Print Assumptions C10_refused_calls_are_noops_joint.

(* ... and that flag cannot be observed while jointRunning is false: the two states answer
   every call identically and stay related *)
Theorem C10_joint_shared_running_flag_unobservable :
  forall cf b1 b2 insts c,
    let '(s1, r1, e1) := joint_step cf (mkJ b1 false insts) c in
    let '(s2, r2, e2) := joint_step cf (mkJ b2 false insts) c in
    r1 = r2 /\ e1 = e2 /\ j_jrun s1 = j_jrun s2 /\ j_insts s1 = j_insts s2 /\
    (j_jrun s1 = true -> j_run s1 = j_run s2).
Proof. exact joint_run_flag_unobservable. Qed.
Print Assumptions C10_joint_shared_running_flag_unobservable.

(* the excluded call is really not a no-op in the model of the code (n=3, t=1, dealer 1 with
   P = (r-2) + X, P(2) = 0): invalid-input, but the share of participant 0 was already sent
   and s.a, s.vA, s.y were written.  Not reproducible with real seeds (would need a seed whose
   polynomial vanishes at myIndex+1). *)
Theorem C10_refused_noop_degenerate_start_refuted :
  exists cf d s sd s' ev,
    cfg_ok cf d = true /\ vss_step cf d s (CStart sd) = (s', RInvalidInput, ev) /\
    s' <> s /\ ev <> [].
Proof.
  exists (mkCfg 3 1 1), 1%nat, vss_init, (SeedOk [r - 2; 1]).
  eexists. eexists. split; [reflexivity|]. split; [vm_compute; reflexivity|]. split; discriminate.
Qed.

(* ---- End ---- *)
Theorem C10_end_leaves_not_running_vss :
  forall cf d s s' res ev, vss_step cf d s CEnd = (s', res, ev) ->
    (res = RStateErr -> s' = s) /\ (res <> RStateErr -> vs_run s' = false).
Proof. intros cf d. exact (vss_end_not_running cf d). Qed.
Print Assumptions C10_end_leaves_not_running_vss.

Theorem C10_end_leaves_not_running_qual :
  forall cf d s s' res ev, cfg_ok cf d = true -> qual_step cf d s CEnd = (s', res, ev) ->
    (res = RStateErr -> s' = s) /\ (res <> RStateErr -> qs_run s' = false).
Proof. intros cf d s s' res ev H. exact (qual_end_not_running cf d (cfg_ok_my cf d H) s s' res ev). Qed.
Print Assumptions C10_end_leaves_not_running_qual.

Theorem C10_end_leaves_not_running_joint :
  forall cf s s' res ev, joint_step cf s CEnd = (s', res, ev) -> res <> RStateErr -> j_jrun s' = false.
Proof. exact joint_end_not_running. Qed.
Print Assumptions C10_end_leaves_not_running_joint.

Theorem C10_vss_nexttimeout_noop :
  forall cf d s, vss_step cf d s CNextTimeout = (s, ROk, []).
Proof. exact vss_nexttimeout_noop. Qed.

(* ---- instance reuse (outside the documented contract): Start after End is accepted and
        keeps both timeouts, the complaints and the disqualified flag ---- *)
Theorem C10_reuse_keeps_timeouts_qual :
  forall cf d s sd s' res ev, qual_step cf d s (CStart sd) = (s', res, ev) ->
    q_st (qs_q s') = q_st (qs_q s) /\ q_ct (qs_q s') = q_ct (qs_q s) /\ q_disq (qs_q s') = q_disq (qs_q s).
Proof. exact qual_reuse_keeps_timeouts. Qed.

Theorem C10_reuse_keeps_timeouts_joint :
  forall cf s sd s' res ev q, cfg_ok cf 0 = true -> joint_step cf s (CStart sd) = (s', res, ev) ->
    nth_error (j_insts s) (c_my cf) = Some q ->
    exists q', nth_error (j_insts s') (c_my cf) = Some q' /\
               q_st q' = q_st q /\ q_ct q' = q_ct q /\ q_disq q' = q_disq q.
Proof. intros cf s sd s' res ev q H. exact (joint_reuse_keeps_timeouts cf (cfg_ok_my cf 0 H) s sd s' res ev q). Qed.

(* a restarted Qual instance refuses NextTimeout and accepts End at once *)
Example C10_reuse_qual_example :
  map fst (run (qual_step (mkCfg 3 1 1) 0) qual_init
             [CStart SeedShort; CNextTimeout; CNextTimeout; CEnd; CStart SeedShort; CNextTimeout; CEnd])
  = [ROk; ROk; ROk; RFailure; ROk; RStateErr; RFailure].
Proof. vm_compute. reflexivity. Qed.

(* a restarted plain-VSS receiver returns the keys of the first run again without any message *)
Example C10_reuse_vss_example :
  map fst (run (vss_step (mkCfg 3 1 1) 0) vss_init
             [CStart SeedShort; CBroadcast 0 (MVec (VOk [5; 3])); CPrivate 0 (MShare (SVal 11)); CEnd;
              CStart SeedShort; CEnd])
  = [ROk; ROk; ROk; RKeys 11 5 [8; 11; 14]; ROk; RKeys 11 5 [8; 11; 14]].
Proof. vm_compute. reflexivity. Qed.

(* plain VSS: ForceDisqualify(dealer) only clears validKey; a later share/vector sets it again *)
Example C10_vss_force_disqualify_overridden :
  map fst (run (vss_step (mkCfg 3 1 1) 0) vss_init
             [CStart SeedShort; CForce 0; CBroadcast 0 (MVec (VOk [5; 3])); CPrivate 0 (MShare (SVal 11)); CEnd])
  = [ROk; ROk; ROk; ROk; RKeys 11 5 [8; 11; 14]].
Proof. vm_compute. reflexivity. Qed.

(* ---- non-vacuity ---- *)
Example C10_cfg_ok_nonvacuous : cfg_ok (mkCfg 3 1 1) 0 = true /\ cfg_ok (mkCfg 3 1 1) 1 = true.
Proof. split; reflexivity. Qed.

Example C10_refusal_nonvacuous :
  exists s' ev, qual_step (mkCfg 3 1 1) 0 qual_init (CBroadcast 0 MEmpty) = (s', RStateErr, ev) /\
                degenerate_start (mkCfg 3 1 1) false (CBroadcast 0 MEmpty) = false.
Proof. eexists. eexists. split; reflexivity. Qed.

(* a complete Joint-Feldman run of participant 1 of 3 (t = 1) with the other two dealers'
   vectors and shares: both timeouts, then keys *)
Example C10_joint_run_example :
  map fst (run (joint_step (mkCfg 3 1 1)) (joint_init (mkCfg 3 1 1))
    [CStart (SeedOk [7; 2]);
     CBroadcast 0 (MVec (VOk [5; 3])); CPrivate 0 (MShare (SVal 11));
     CBroadcast 2 (MVec (VOk [1; 1])); CPrivate 2 (MShare (SVal 3));
     CNextTimeout; CForce 7; CNextTimeout; CNextTimeout; CEnd; CRunning])
  = [ROk; ROk; ROk; ROk; ROk; ROk; RInvalidInput; ROk; RStateErr; RKeys 25 13 [19; 25; 31]; RBool false].
Proof. vm_compute. reflexivity. Qed.
