(* C13 - hashers and KMAC128 equal their standards for all inputs and chunkings.
   Only statements, each closed by [exact] of a lemma proved in Proofs/.
   Model: Model/Hashers.v (Go code of /repo/hash), specs: Spec/HashSpec.v (FIPS 202,
   SP 800-185), Prim/Sha2.v (FIPS 180-4), Prim/Keccak.v (Keccak-f[1600]).
   The sponge theorems hold for an ARBITRARY permutation f in place of keccakF1600. *)
From Coq Require Import ZArith NArith List.
From V Require Import Prim.Keccak Prim.Sha2 Spec.HashSpec Model.Hashers
  Proofs.SpongeFacts Proofs.HashersProofs Proofs.KmacProofs Proofs.KmacInjective.
Import ListNotations.

(* ================= sponge hashers: SHA3-256, SHA3-384, legacy Keccak-256 ================= *)

(* For each algorithm, every well-formed prior state of such an object (fresh with the -1
   sentinel, mid-write with a partly filled buffer, right after SumHash) and every list of
   chunks: Reset, Write of each chunk, SumHash returns the standard digest of the
   concatenation, without panic, and leaves a well-formed object. *)
Theorem C13_sponge_any_chunking :
  forall (a : sponge_alg) (d : sponge) (chunks : list (list N)),
    WF d -> same_cfg (alg_new a) d ->
    exists d1 d2, writes keccakf (reset d) chunks = Ok d1 /\
                  sum keccakf d1 = Ok (alg_spec a (concat chunks), d2) /\
                  WF d2 /\ same_cfg (alg_new a) d2.
Proof. exact sponge_any_chunking. Qed.
Print Assumptions C13_sponge_any_chunking.

(* the same for an arbitrary permutation f and any rate/domain byte/output length configuration
   that satisfies cfg_ok: the buffer logic alone *)
Theorem C13_sponge_any_chunking_any_permutation :
  forall (f : list N -> list N) (d : sponge) (chunks : list (list N)),
    WF d ->
    exists d1 d2, writes f (reset d) chunks = Ok d1 /\
      sum f d1 = Ok (sponge_hash f (sp_rate d) (sp_ds d) (sp_outLen d) (concat chunks), d2) /\
      WF d2 /\ same_cfg d d2.
Proof. exact reset_then_chunks. Qed.
Print Assumptions C13_sponge_any_chunking_any_permutation.

(* the invariant is preserved by every sequence of API calls, none of which panics: in
   particular bufIndex + bufSize never exceeds the rate (<= len(storage)), no slice or
   index expression of keccak.go / xor_unaligned.go goes out of bounds *)
Theorem C13_sponge_ops_preserve_wf :
  forall (f : list N -> list N) (ops : list hop) (d : sponge),
    WF d -> exists outs d', run_ops f d ops = Ok (outs, d') /\ WF d' /\ same_cfg d d'.
Proof. exact run_ops_wf. Qed.
Print Assumptions C13_sponge_ops_preserve_wf.

Theorem C13_constructors_wf : forall a, WF (alg_new a).
Proof. exact alg_new_wf. Qed.
Print Assumptions C13_constructors_wf.

(* ComputeHash(x) on any well-formed state = spec(x) *)
Theorem C13_compute_hash_history_independent :
  forall (a : sponge_alg) (d : sponge) (x : list N),
    WF d -> same_cfg (alg_new a) d ->
    exists d', computeHash keccakf d x = Ok (alg_spec a x, d') /\ WF d' /\ same_cfg (alg_new a) d'.
Proof. exact compute_hash_history_independent. Qed.
Print Assumptions C13_compute_hash_history_independent.

Theorem C13_compute_hash_history_independent_any_permutation :
  forall (f : list N -> list N) (d : sponge) (x : list N),
    WF d ->
    exists d', computeHash f d x = Ok (sponge_hash f (sp_rate d) (sp_ds d) (sp_outLen d) x, d') /\
               WF d' /\ same_cfg d d'.
Proof. exact compute_hash_spec. Qed.
Print Assumptions C13_compute_hash_history_independent_any_permutation.

(* first writes on a never-reset object (bufIndex = bufSize = -1), including SumHash with no
   Write at all *)
Theorem C13_fresh_object_first_write :
  forall (a : sponge_alg) (chunks : list (list N)),
    exists d1 d2, writes keccakf (alg_new a) chunks = Ok d1 /\
                  sum keccakf d1 = Ok (alg_spec a (concat chunks), d2) /\ WF d2.
Proof. exact fresh_object_first_write. Qed.
Print Assumptions C13_fresh_object_first_write.

(* bytes of storage at and beyond bufSize never influence a digest *)
Theorem C13_stale_storage_irrelevant :
  forall (f : list N -> list N) (d : sponge) (st' : list N) (chunks : list (list N)),
    cfg_ok d -> sp_bufIndex d = 0%Z -> (0 <= sp_bufSize d < Z.of_nat (sp_rate d))%Z ->
    length st' = maxRate ->
    firstn (Z.to_nat (sp_bufSize d)) st' = firstn (Z.to_nat (sp_bufSize d)) (sp_storage d) ->
    digest_after f (with_storage d st') chunks = digest_after f d chunks /\
    exists h, digest_after f d chunks = Ok h.
Proof. exact stale_storage. Qed.
Print Assumptions C13_stale_storage_irrelevant.

(* a state that has absorbed msg: its digest after further chunks depends on msg only *)
Theorem C13_absorbing_state_digest :
  forall (f : list N -> list N) (s0 : list N) (d : sponge) (msg : list N) (chunks : list (list N)),
    Absorbing f s0 d msg -> sp_outLen d <= sp_rate d ->
    exists d1 d2, writes f d chunks = Ok d1 /\
      sum f d1 = Ok (squeeze f (sp_rate d)
                       (absorb f (sp_rate d) s0
                          ((msg ++ concat chunks) ++
                           pad101 (sp_rate d) (sp_ds d) (length (msg ++ concat chunks))))
                       (sp_outLen d), d2) /\
      WF d2 /\ same_cfg d d2.
Proof. exact absorbing_digest. Qed.
Print Assumptions C13_absorbing_state_digest.

(* the one-shot helper ComputeSHA3_256 = SHA3-256 = ComputeHash of the object *)
Theorem C13_oneshot_agrees :
  forall x : list N,
    ComputeSHA3_256 keccakf x = Ok (SHA3_256 x) /\
    exists d', computeHash keccakf NewSHA3_256 x = Ok (SHA3_256 x, d').
Proof. exact oneshot_sha3_256. Qed.
Print Assumptions C13_oneshot_agrees.

(* xor_generic.go (purego / other architectures) and xor_unaligned.go (amd64) agree on full blocks *)
Theorem C13_xorIn_builds_agree :
  forall a b, rate_ok (length b) -> xorIn_generic a b = xorIn_unaligned a b.
Proof. exact xorIn_generic_block. Qed.
Print Assumptions C13_xorIn_builds_agree.

(* ================= KMAC128 ================= *)

(* Go's leftEncode / rightEncode / encodeString / bytepad equal SP 800-185 section 2.3 *)
Theorem C13_leftEncode_eq : forall v, (v < 2 ^ 64)%N -> leftEncode v = left_encode v.
Proof. exact leftEncode_spec. Qed.
Print Assumptions C13_leftEncode_eq.
Theorem C13_rightEncode_eq : forall v, (v < 2 ^ 64)%N -> rightEncode v = right_encode v.
Proof. exact rightEncode_spec. Qed.
Print Assumptions C13_rightEncode_eq.
Theorem C13_encodeString_eq : forall s, (zlen s * 8 < 2 ^ 64)%Z -> encodeString s = encode_string s.
Proof. exact encodeString_spec. Qed.
Print Assumptions C13_encodeString_eq.
Theorem C13_bytepad_eq :
  forall x w, 0 < w -> (N.of_nat w < 2 ^ 64)%N -> go_bytepad x w = Ok (bytepad x w).
Proof. exact go_bytepad_spec. Qed.
Print Assumptions C13_bytepad_eq.

(* the specification's n really is "the smallest positive integer for which 2^(8n) > x" *)
Theorem C13_nbytes_is_smallest :
  forall x, (x < 256 ^ N.of_nat (nbytes x))%N /\ (1 < nbytes x -> (256 ^ N.of_nat (nbytes x - 1) <= x)%N).
Proof. intro x. split; [exact (nbytes_upper x)|exact (nbytes_lower x)]. Qed.
Print Assumptions C13_nbytes_is_smallest.

(* len(bytepad(x, w)) is the least multiple of w that is >= len(left_encode(w) || x), the
   output starts with left_encode(w) || x and the rest is zeros.  (False at aligned lengths
   before the fix of kmac.go.) *)
Theorem C13_bytepad_least_multiple :
  forall x w out,
    0 < w -> go_bytepad x w = Ok out ->
    let n := length (leftEncode (N.of_nat w) ++ x) in
    Nat.modulo (length out) w = 0 /\ n <= length out /\
    (forall m, Nat.modulo m w = 0 -> n <= m -> length out <= m) /\
    firstn n out = leftEncode (N.of_nat w) ++ x /\ skipn n out = repeat 0%N (length out - n).
Proof. exact go_bytepad_length. Qed.
Print Assumptions C13_bytepad_least_multiple.

(* every key of at least KmacMinKeyLen bytes, customizer, output length >= 0 and chunking:
   a new object, and any object of that constructor after Reset, returns SP 800-185
   KMAC128(K, X, 8*outputSize, S); relative to the cSHAKE128 object specification
   (Read after absorbing X returns cSHAKE128(X, L, "KMAC", S)). *)
Theorem C13_kmac_eq_sp800_185_new :
  forall key cust out chunks,
    kmac_params_ok key out ->
    exists k0, NewKMAC_128 key cust out = inl k0 /\ KInv key cust out k0 /\
      k_sum (k_writes k0 chunks) = (KMAC128 key (concat chunks) (Z.to_nat out) cust, k_writes k0 chunks).
Proof. exact kmac_fresh_chunks. Qed.
Print Assumptions C13_kmac_eq_sp800_185_new.

Theorem C13_kmac_eq_sp800_185 :
  forall key cust out k chunks,
    kmac_params_ok key out -> KInv key cust out k ->
    k_sum (k_writes (k_reset k) chunks) =
      (KMAC128 key (concat chunks) (Z.to_nat out) cust, k_writes (k_reset k) chunks).
Proof. exact kmac_reset_chunks. Qed.
Print Assumptions C13_kmac_eq_sp800_185.

(* the bytes handed to cSHAKE128 before Read are exactly
   bytepad(encode_string(K), 168) || X || right_encode(L) *)
Theorem C13_kmac_framing :
  forall key cust out k chunks,
    kmac_params_ok key out -> KInv key cust out k ->
    cs_abs (k_shake (k_writes (k_reset k) chunks)) ++ rightEncode (u64 (out * 8)) =
      kmac_newX key (concat chunks) (Z.to_nat out).
Proof. exact kmac_framing. Qed.
Print Assumptions C13_kmac_framing.

(* the object invariant is kept by every operation; SumHash and ComputeHash return the object
   unchanged (they work on a clone) *)
Theorem C13_kmac_ops_preserve :
  forall key cust out k,
    KInv key cust out k ->
    (forall p, KInv key cust out (k_write k p)) /\ KInv key cust out (k_reset k) /\
    snd (k_sum k) = k /\ (forall x, snd (k_computeHash k x) = k).
Proof. exact kinv_ops. Qed.
Print Assumptions C13_kmac_ops_preserve.

Theorem C13_kmac_compute_hash_readonly :
  forall key cust out k x,
    kmac_params_ok key out -> KInv key cust out k ->
    k_computeHash k x = (KMAC128 key x (Z.to_nat out) cust, k).
Proof. exact k_compute_spec. Qed.
Print Assumptions C13_kmac_compute_hash_readonly.

Theorem C13_kmac_write_after_sum_continues :
  forall key cust out k c1 c2,
    kmac_params_ok key out -> KInv key cust out k ->
    let k1 := k_writes (k_reset k) c1 in
    snd (k_sum k1) = k1 /\
    fst (k_sum (k_writes (snd (k_sum k1)) c2)) = KMAC128 key (concat c1 ++ concat c2) (Z.to_nat out) cust.
Proof. exact kmac_write_after_sum. Qed.
Print Assumptions C13_kmac_write_after_sum_continues.

(* domain separation (used by C16): KMAC128(K, X, L, S) is the FIPS 202 sponge over
   kmac_absorbed S K X = bytepad(encode_string("KMAC") || encode_string(S), 168) ||
   bytepad(encode_string(K), 168) || X || right_encode(L), and with L fixed that byte string
   determines the customizer, the key and the message *)
Theorem C13_KMAC128_as_sponge :
  forall K X outlen S,
    KMAC128 K X outlen S = sponge_hash keccakf 168 4 outlen (kmac_absorbed S K X outlen).
Proof. exact KMAC128_as_sponge. Qed.
Print Assumptions C13_KMAC128_as_sponge.

Theorem C13_kmac_framing_injective :
  forall outlen S K X S' K' X',
    kmac_absorbed S K X outlen = kmac_absorbed S' K' X' outlen -> S = S' /\ K = K' /\ X = X'.
Proof. exact kmac_framing_injective. Qed.
Print Assumptions C13_kmac_framing_injective.

Theorem C13_kmac_rejects :
  forall key cust out,
    ((out < 0)%Z -> NewKMAC_128 key cust out = inr EOutputSize) /\
    ((0 <= out)%Z -> length key < KmacMinKeyLen -> NewKMAC_128 key cust out = inr EKeyLen).
Proof. exact new_kmac_rejects. Qed.
Print Assumptions C13_kmac_rejects.

(* ================= SHA2-256 / SHA2-384 (over the crypto/sha256, sha512 object spec) ================= *)
Theorem C13_sha2_any_chunking :
  forall s chunks,
    s_sum (s_writes (s_reset s) chunks) =
      (sha2_digest (s_alg s) (concat chunks), s_writes (s_reset s) chunks).
Proof. exact sha2_any_chunking. Qed.
Print Assumptions C13_sha2_any_chunking.

Theorem C13_sha2_write_after_sum_continues :
  forall s c1 c2,
    let s1 := s_writes (s_reset s) c1 in
    snd (s_sum s1) = s1 /\
    fst (s_sum (s_writes (snd (s_sum s1)) c2)) = sha2_digest (s_alg s) (concat c1 ++ concat c2).
Proof. exact sha2_write_after_sum. Qed.
Print Assumptions C13_sha2_write_after_sum_continues.

Theorem C13_sha2_compute_hash :
  forall s x,
    fst (s_computeHash s x) = sha2_digest (s_alg s) x /\
    ComputeSHA2_256 x = fst (s_computeHash NewSHA2_256 x).
Proof. exact sha2_compute_hash. Qed.
Print Assumptions C13_sha2_compute_hash.

(* ================= non-vacuity ================= *)
(* WF has fresh, mid-write and post-SumHash inhabitants for each configuration *)
Example C13_nonvacuous_wf_fresh : WF NewSHA3_384 /\ same_cfg (alg_new SHA3_384_alg) NewSHA3_384.
Proof. split; [apply (alg_new_wf SHA3_384_alg)|apply same_cfg_refl]. Qed.

Example C13_nonvacuous_wf_midwrite :
  let d := mkSponge zero_state (repeat 7%N 136) 0 5 136 6 32 in
  WF d /\ same_cfg (alg_new SHA3_256_alg) d /\
  cfg_ok d /\ sp_bufIndex d = 0%Z /\ (0 <= sp_bufSize d < Z.of_nat (sp_rate d))%Z /\
  length (repeat 7%N 5 ++ repeat 9%N 131) = maxRate /\
  firstn (Z.to_nat (sp_bufSize d)) (repeat 7%N 5 ++ repeat 9%N 131) = firstn (Z.to_nat (sp_bufSize d)) (sp_storage d).
Proof.
  cbv zeta.
  assert (C : cfg_ok (mkSponge zero_state (repeat 7%N 136) 0 5 136 6 32)).
  { split; [right; reflexivity|]. split; [cbn; repeat constructor|reflexivity]. }
  split; [split; [exact C|right; split; [reflexivity|cbn; split; discriminate]]|].
  split; [repeat split|]. split; [exact C|]. split; [reflexivity|].
  split; [cbn; split; [discriminate|reflexivity]|]. split; reflexivity.
Qed.

Example C13_nonvacuous_wf_postsum :
  let d := mkSponge zero_state (repeat 7%N 136) 0 104 104 1 32 in WF d.
Proof.
  cbv zeta. split.
  - split; [left; reflexivity|]. split; [cbn; repeat constructor|reflexivity].
  - right. split; [reflexivity|cbn; split; discriminate].
Qed.

Example C13_nonvacuous_absorbing :
  Absorbing keccakf zero_state (reset NewKeccak_256) [] /\ sp_outLen (reset NewKeccak_256) <= sp_rate (reset NewKeccak_256).
Proof.
  split; [apply reset_absorbing; apply (alg_new_wf Keccak_256_alg)|cbn; repeat constructor].
Qed.

Example C13_nonvacuous_rate_ok : rate_ok (length (repeat 0%N 104)) /\ rate_ok (length (repeat 0%N 136)).
Proof. split; [left|right]; reflexivity. Qed.

Example C13_nonvacuous_kmac :
  kmac_params_ok (repeat 1%N 16) 32 /\
  exists k, NewKMAC_128 (repeat 1%N 16) [2%N] 32 = inl k /\ KInv (repeat 1%N 16) [2%N] 32 k.
Proof.
  assert (P : kmac_params_ok (repeat 1%N 16) 32).
  { split; [cbn; repeat constructor|]. split; [discriminate|]. split; reflexivity. }
  split; [exact P|]. destruct (new_kmac_ok (repeat 1%N 16) [2%N] 32 P) as (k & H1 & H2 & _). eauto.
Qed.

Example C13_nonvacuous_framing : kmac_absorbed [1%N] (repeat 2%N 16) [3%N] 32 = kmac_absorbed [1%N] (repeat 2%N 16) [3%N] 32.
Proof. reflexivity. Qed.

Example C13_nonvacuous_kmac_reject :
  (-1 < 0)%Z /\ (0 <= 32)%Z /\ length (repeat 1%N 15) < KmacMinKeyLen.
Proof. split; [reflexivity|]. split; [discriminate|]. cbn. repeat constructor. Qed.

Example C13_nonvacuous_encodings :
  (65536 < 2 ^ 64)%N /\ (zlen [1%N; 2%N] * 8 < 2 ^ 64)%Z /\ 0 < 168 /\ (N.of_nat 168 < 2 ^ 64)%N /\
  1 < nbytes 65536 /\ go_bytepad (repeat 0%N 166) 168 = Ok (leftEncode 168 ++ repeat 0%N 166).
Proof.
  split; [reflexivity|]. split; [reflexivity|]. split; [repeat constructor|]. split; [reflexivity|].
  split; [cbn; repeat constructor|reflexivity].
Qed.
