(* C06 - threshold shares reconstruct the unique group signature (placeholder: theorems are added
   as Proofs/ThresholdProofs.v grows). *)
From Coq Require Import ZArith NArith List Bool.
From V Require Import Model.Threshold.
Import ListNotations.
Open Scope Z_scope.

(* the routine and the textbook formula agree on concrete signer sets straddling the limb batches
   (bounded check, labelled as such; the unbounded theorem is in Proofs/ThresholdProofs.v) *)
Example C06_lagrange_small_sets :
  forallb (fun idx => forallb (fun i => lagrange_coeff_with inv_r_fast idx i =? lagrange_spec idx i) (seq 0 (length idx)))
          [[1;2;3]; [9;1;2;3;4;5;6;7;8;250]; [255;254;253;252;251;250;249;248;247]] = true.
Proof. vm_compute. reflexivity. Qed.
