(* C06 - threshold shares reconstruct the unique group signature for any >= t+1 signers. *)
From Coq Require Import ZArith NArith List Bool Field.
From V Require Import Lib.FermatZ Prim.Bls12 Model.Threshold Proofs.ThresholdProofs Proofs.LagrangeField Proofs.LagrangeModR.
From V Require Proofs.Primes.
Import ListNotations.
Open Scope Z_scope.

(* The uint64 limb products of Fr_lagrange_coeff_at_zero never wrap: indices at most 255,
   at most [loops] = 64 / MAX_IND_BITS (regenerated constant) factors per limb. *)
Theorem C06_limb_products_exact :
  forall idx xi i, inrange idx -> 1 <= xi <= 255 ->
  forall cnt j m num den sign,
    (m + cnt <= 8)%nat -> 0 <= num <= 255 ^ Z.of_nat m -> 0 <= den <= 255 ^ Z.of_nat m ->
    batch idx xi i j cnt num den sign = batch_nowrap idx xi i j cnt num den sign.
Proof. exact limb_products_exact. Qed.
Print Assumptions C06_limb_products_exact.

(* The batched routine with its separate sign bit computes
   prod_{j<>i} x_j * (prod_{j<>i} (x_j - x_i))^(-1) mod r, for every list of indices in [1,255]
   (any length, any order) and every position i. *)
Theorem C06_lagrange_code_eq_formula :
  forall idx i, inrange idx -> (i < length idx)%nat -> lagrange_coeff idx i = lagrange_formula idx i.
Proof. exact lagrange_code_eq_formula. Qed.
Print Assumptions C06_lagrange_code_eq_formula.

Theorem C06_lagrange_formula_eq_spec :
  forall idx i, (i < length idx)%nat -> lagrange_formula idx i = lagrange_spec idx i.
Proof. exact lagrange_formula_eq_spec. Qed.

(* Lagrange interpolation at zero over any field: any polynomial of degree < #points *)
Theorem C06_interpolation_at_zero_any_field :
  forall (K : Type) k0 k1 kadd kmul ksub kopp kdiv kinv
         (Kfield : field_theory k0 k1 kadd kmul ksub kopp kdiv kinv (@eq K)) (xs a : list K),
    NoDup xs -> (length a <= length xs)%nat ->
    fold_right kadd k0 (map (fun i => kmul (lambda K k0 k1 kmul ksub kdiv xs i) (peval K k0 kadd kmul a (nth i xs k0))) (seq 0 (length xs)))
    = peval K k0 kadd kmul a k0.
Proof. intros. eapply interpolation_at_zero; eassumption. Qed.
Print Assumptions C06_interpolation_at_zero_any_field.

(* THE reconstruction statement at the level of scalars: for every dealer polynomial of degree at
   most t (coefficients a, reduced mod r) and every list of t+1 or more DISTINCT signer indices in
   ANY order, the coefficients computed by the C routine combine the shares P(x_i) into P(0).
   In G1 this is: sum_i lambda_i * [P(x_i)]H = [P(0)]H, the group signature.  Uses that r is prime
   (Proofs/Primes.v: a Pocklington certificate checked by the kernel). *)
Theorem C06_reconstruct_any_subset_any_order :
  forall (idx a : list Z),
    NoDup idx -> inrange idx -> (length a <= length idx)%nat -> Forall (fun c => 0 <= c < rZ) a -> a <> [] ->
    fold_left (fun acc i => (acc + lagrange_coeff idx i * poly_eval a (nth i idx 0)) mod rZ)
              (seq 0 (length idx)) 0
    = nth 0 a 0.
Proof. exact (code_coefficients_interpolate Primes.bls_r_prime). Qed.
Print Assumptions C06_reconstruct_any_subset_any_order.

(* non-vacuity: concrete indices straddling the 8-per-limb batches meet the hypotheses, and the routine
   agrees with the formula there (bounded check, labelled as such) *)
Example C06_hypotheses_satisfiable :
  NoDup [9;1;2;3;4;5;6;7;8;250] /\ inrange [9;1;2;3;4;5;6;7;8;250].
Proof. split; [repeat constructor; cbn; intuition discriminate|repeat constructor; cbn; discriminate]. Qed.
Example C06_lagrange_small_sets :
  forallb (fun idx => forallb (fun i => lagrange_coeff_with inv_r_fast idx i =? lagrange_spec idx i) (seq 0 (length idx)))
          [[1;2;3]; [9;1;2;3;4;5;6;7;8;250]; [255;254;253;252;251;250;249;248;247]] = true.
Proof. vm_compute. reflexivity. Qed.
