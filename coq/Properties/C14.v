(* C14 - ChaCha20 PRG equals the RFC 8439 keystream; Store/Restore resumes exactly.
   Only statements, each closed by [exact] of a lemma proved in Proofs/. *)
From Coq Require Import NArith List.
From V Require Import Prim.ChaCha Model.Prg Proofs.ChaChaFacts Proofs.PrgProofs.
Import ListNotations.
Open Scope N_scope.

(* For every seed and customizer the constructor accepts and every list of read
   sizes (total at most 2^38 bytes = 2^32 blocks), the concatenated output is the
   RFC 8439 keystream for key = seed, nonce = zero-padded customizer, counter 0. *)
Theorem C14_reads_concat_eq_keystream :
  forall seed cust sizes c,
    new_prg seed cust = ROk c -> total sizes <= limit ->
    concat (fst (reads c sizes)) =
      ks_range seed (copy_into nonceSize cust) 0 (N.to_nat (total sizes)).
Proof. exact reads_concat_eq_keystream. Qed.
Print Assumptions C14_reads_concat_eq_keystream.

(* the keystream range is byte-wise the RFC keystream: byte j of [pos,pos+n) is
   byte (pos+j) mod 64 of block (pos+j)/64 *)
Theorem C14_ks_range_is_blockwise_keystream :
  forall key nonce pos n j, (j < n)%nat ->
    nth j (ks_range key nonce pos n) 0 = ks_byte key nonce (pos + N.of_nat j).
Proof. exact ks_range_nth. Qed.
Print Assumptions C14_ks_range_is_blockwise_keystream.

(* Store after any prefix of reads, then Restore: the very same generator state,
   hence the same continuation of Read, Store and every derived draw. *)
Theorem C14_restore_resumes :
  forall seed cust pre c c1,
    new_prg seed cust = ROk c -> total pre < limit ->
    snd (reads c pre) = c1 ->
    restore (store c1) = ROk c1.
Proof. exact restore_resumes. Qed.
Print Assumptions C14_restore_resumes.

Theorem C14_constructor_accepts_iff :
  forall seed cust,
    (length seed = keySize /\ (length cust <= nonceSize)%nat ->
       new_prg seed cust = ROk (core_at seed (copy_into nonceSize cust) 0)) /\
    ((length seed <> keySize \/ (nonceSize < length cust)%nat) ->
       exists e, new_prg seed cust = RErr e).
Proof.
  intros seed cust. split.
  - intros [H1 H2]. exact (new_prg_ok seed cust H1 H2).
  - exact (new_prg_rejects seed cust).
Qed.
Print Assumptions C14_constructor_accepts_iff.

Theorem C14_restore_rejects_bad_length :
  forall st, length st <> (keySize + nonceSize + counterBytesLen)%nat -> restore st = RErr E_STATELEN.
Proof. exact restore_rejects. Qed.
Print Assumptions C14_restore_rejects_bad_length.

(* non-vacuity: a concrete generator meets the hypotheses, and the model
   reproduces the RFC 8439 section 2.4.2 keystream (block counter 1). *)
Example C14_nonvacuous :
  exists c, new_prg (map N.of_nat (seq 0 32)) [0;0;0;0;0;0;0;0x4a] = ROk c /\
            total [1;63;64;65]%nat <= limit.
Proof. eexists. split; [reflexivity|]. vm_compute. discriminate. Qed.

Example C14_rfc8439_vector :
  firstn 8 (ks_range (map N.of_nat (seq 0 32)) [0;0;0;0;0;0;0;0x4a;0;0;0;0] 64 8)
  = [0x22;0x4f;0x51;0xf3;0x40;0x1b;0xd9;0xe1].
Proof. vm_compute. reflexivity. Qed.
