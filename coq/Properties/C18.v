(* C18 - the stateful threshold-signature object is linearizable under concurrent use.
   Only statements, each closed by [exact] of a lemma proved in Proofs/. *)
From Coq Require Import ZArith NArith List String Bool Permutation.
From V Require Import Model.Skel Model.Locks Model.ThresholdLocks Model.ThresholdObj Model.LinCheck
     Generated.LockSkel Proofs.LocksProofs Proofs.LocksSimProofs Proofs.C18Proofs
     Proofs.ThresholdObjProofs Proofs.LinCheckProofs Corr.C18Corr Proofs.C18CorrProofs.
Import ListNotations.
Open Scope list_scope.

(* 1. The regenerated skeletons of all methods of blsThresholdSignatureInspector /
      Participant obey the lock discipline (by evaluation: the extracted program is finite):
      - every data field of the two structs is classified guarded (shares,
        thresholdSignature) or immutable; no immutable field is ever written by a method;
      - every exported method, entered without the lock, reads the guarded fields only while
        holding the lock (read or write mode) and writes them only in write mode, along every
        path, including the calls of the unlocked helpers (hasShare, enoughShares,
        reconstructThresholdSignature), which are only called from these methods;
      - every Lock/RLock is released exactly once by its deferred Unlock/RUnlock on every
        return path; no acquisition while holding (sync.RWMutex is not reentrant);
      - no Unknown syntax, no alias/escape of a guarded field, no address of a field. *)
Theorem skeletons_well_locked : skeletons_check = true.
Proof. exact skeletons_check_true. Qed.
Print Assumptions skeletons_well_locked.

(* VerifyShare, VerifyThresholdSignature, SignShare, validIndex touch neither the lock nor a
   guarded field: they only read fields that are never written after construction. *)
Theorem stateless_helpers_touch_no_mutable_field : stateless_check = true.
Proof. exact stateless_check_true. Qed.
Print Assumptions stateless_helpers_touch_no_mutable_field.

(* the boolean checker is sound for the path semantics: every complete trace of an accepted
   entry point, along any branch / loop unrolling / helper call, is a well-locked trace *)
Theorem checker_sound_for_all_paths :
  forall guarded immutable P fuel entries tr,
    chk_prog guarded immutable P fuel entries = true -> ttrace P entries tr ->
    wl_trace guarded immutable tr.
Proof. exact chk_prog_sound. Qed.
Print Assumptions checker_sound_for_all_paths.

(* 2. For ANY well-locked program, any number of threads each running any sequence of calls
      of entry points, any values read/written (rd, wr arbitrary) and any interleaving: in
      every reachable configuration C
      - a thread inside a write section excludes every other thread from any section,
      - no conflicting access pair is enabled (no data race on any field),
      - the atomic semantics, in which a whole critical section is ONE step, reaches [abs C]
        (C with the sections in progress run to their unlock) by the steps
        [atomic_trace tr] = the threads of the steps of tr taken outside critical sections, in
        the same order: each critical section is linearized at its own Lock/RLock event, i.e.
        between the invocation and the response of its call, so real-time order is preserved,
      - once all threads are done, abs C = C: same memory and same thread-local states (a
        thread's local state is everything it has read, so every return value is the same). *)
Theorem well_locked_atomic :
  forall guarded immutable P fuel entries,
    chk_prog guarded immutable P fuel entries = true ->
  forall (V L : Type) (rd : string -> V -> L -> L) (wr : string -> L -> V) (m0 : mem V)
         (progs : list (L * list act)),
    Forall (fun p => ttrace P entries (snd p)) progs ->
  forall tr C,
    reach V L rd wr (init_cfg V L m0 progs) tr C ->
    (forall i j ti tj, nth_error (thr V L C) i = Some ti -> nth_error (thr V L C) j = Some tj -> i <> j ->
        md L ti = MW -> md L tj = MNone) /\
    (forall i j ti tj a b ka kb f wb,
        nth_error (thr V L C) i = Some ti -> nth_error (thr V L C) j = Some tj -> i <> j ->
        code L ti = a :: ka -> code L tj = b :: kb ->
        guarded_access guarded a = Some (f, true) -> guarded_access guarded b = Some (f, wb) -> False) /\
    areach V L rd wr (init_cfg V L m0 progs) (atomic_trace tr) (abs V L rd wr C) /\
    (finished V L C -> abs V L rd wr C = C).
Proof. exact atomic. Qed.
Print Assumptions well_locked_atomic.

(* the instance for the code of /repo: hypothesis 1 of well_locked_atomic holds for the
   regenerated skeletons with the exported methods as entry points *)
Theorem threshold_object_is_well_locked :
  chk_prog guarded_fields immutable_fields lock_skels lock_fuel lock_exported = true.
Proof. exact lock_skels_chk. Qed.
Print Assumptions threshold_object_is_well_locked.

(* 3. Sequential invariants of the documented semantics (Model/ThresholdObj.v [step]) over ALL
      operation sequences, for any share/signature types and any verification and
      reconstruction functions; 0 <= threshold is guaranteed by the constructors. *)
Section Sequential.
  Variables share sig : Type.
  Variable size threshold : Z.
  Variable share_len : share -> Z.
  Variable verify_share : Z -> share -> bool.
  Variable reconstruct : list (Z * share) -> option sig.
  Variable verify_group : sig -> bool.
  Variable my_share : share.
  Hypothesis threshold_nonneg : (0 <= threshold)%Z.
  Notation step := (step share sig size threshold share_len verify_share reconstruct verify_group my_share).
  Notation final := (final share sig size threshold share_len verify_share reconstruct verify_group my_share).

  Theorem at_most_t_plus_1_shares : forall ops,
    (Z.of_nat (List.length (shares (final init ops))) <= threshold + 1)%Z.
  Proof. exact (at_most_t_plus_1_shares share sig size threshold share_len verify_share reconstruct verify_group my_share threshold_nonneg). Qed.

  Theorem one_share_per_signer : forall ops,
    NoDup (map fst (shares (final init ops))) /\
    Forall (fun p => (0 <= fst p < size)%Z) (shares (final init ops)).
  Proof. exact (one_share_per_signer share sig size threshold share_len verify_share reconstruct verify_group my_share threshold_nonneg). Qed.

  Theorem enough_shares_monotone : forall ops1 ops2,
    snd (step (final init ops1) OpEnoughShares) = RBool true ENone ->
    snd (step (final init (ops1 ++ ops2)) OpEnoughShares) = RBool true ENone.
  Proof. exact (enough_shares_monotone share sig size threshold share_len verify_share reconstruct verify_group my_share). Qed.

  Theorem threshold_signature_stable : forall ops1 ops2 g e,
    snd (step (final init ops1) OpThresholdSignature) = RSig (Some g) e ->
    snd (step (final init (ops1 ++ OpThresholdSignature :: ops2)) OpThresholdSignature) = RSig (Some g) ENone.
  Proof. exact (threshold_signature_stable share sig size threshold share_len verify_share reconstruct verify_group my_share). Qed.

  Theorem never_returns_invalid_signature : forall ops g e,
    snd (step (final init ops) OpThresholdSignature) = RSig (Some g) e ->
    e = ENone /\ verify_group g = true.
  Proof. exact (never_returns_invalid_signature share sig size threshold share_len verify_share reconstruct verify_group my_share threshold_nonneg). Qed.

  Theorem collected_shares_are_never_dropped : forall st o,
    exists l, shares (fst (step st o)) = l ++ shares st.
  Proof. exact (shares_only_grow share sig size threshold share_len verify_share reconstruct verify_group my_share). Qed.

  Theorem verify_and_add_collects_only_valid : forall ops,
    forallb (fun o => negb (is_trusted_add share sig o)) ops = true ->
    Forall (fun p => verify_share' share share_len verify_share (fst p) (snd p) = true) (shares (final init ops)).
  Proof. exact (verify_and_add_collects_only_valid share sig size threshold share_len verify_share reconstruct verify_group my_share). Qed.
End Sequential.
Print Assumptions at_most_t_plus_1_shares.
Print Assumptions one_share_per_signer.
Print Assumptions enough_shares_monotone.
Print Assumptions threshold_signature_stable.
Print Assumptions never_returns_invalid_signature.

(* 4. The history checker used by the harness is sound: if it accepts a history, a
      linearization exists (a permutation of the history that is legal for [step] with exactly
      the observed results and respects real-time order). *)
Theorem lin_checker_sound :
  forall (state op result : Type) (step : state -> op -> state * result) (res_eqb : result -> result -> bool),
    (forall a b, res_eqb a b = true -> a = b) ->
  forall st h, lin_check state op result step res_eqb st h = true ->
    exists l, Permutation h l /\ legal state op result step st l /\ rt_order op result l.
Proof. exact lin_check_sound. Qed.
Print Assumptions lin_checker_sound.

(* the instance evaluated on the implementation's histories by every run: acceptance of a
   recorded history yields a linearization w.r.t. the sequential specification [step] *)
Theorem harness_history_checker_sound :
  forall c, hist_ok c = true ->
    exists l, Permutation (c_hist c) l /\
              legal (state sdesc N) (op sdesc N) (result sdesc N) (mstep c) init l /\
              rt_order (op sdesc N) (result sdesc N) l.
Proof. exact hist_ok_sound. Qed.
Print Assumptions harness_history_checker_sound.

(* the checker does reject: T0 adds share 0 and responds (stamp 2) before T1 asks HasShare 0
   (stamps 3..4) and is told false - not linearizable; with overlapping stamps it is *)
Example C18_history_checker_rejects_and_accepts :
  let add := mkEv 0%N (OpTrustedAdd 0%Z (mkS 0 0 0 48)) (RBool false ENone : result sdesc N) in
  let has := mkEv 1%N (OpHasShare 0%Z) (RBool false ENone : result sdesc N) in
  let c h := mkCase 3 1 (mkS 0 0 0 48) [] h false in
  hist_ok (c [add 1%N 2%N; has 3%N 4%N]) = false /\ hist_ok (c [add 1%N 4%N; has 2%N 3%N]) = true.
Proof. vm_compute. auto. Qed.

(* ---- non-vacuity ---- *)
(* the path semantics produces the expected complete trace of TrustedAdd (no early return) *)
Example C18_trusted_add_path :
  exists tr, mtrace lock_skels "TrustedAdd" tr /\ In (AWrite "shares") tr /\ wl_trace guarded_fields immutable_fields tr.
Proof.
  eexists. split; [|split].
  - eexists. eexists. eexists. eexists. split; [reflexivity|]. split; [|reflexivity]. ex_path.
  - vm_compute. tauto.
  - vm_compute. reflexivity.
Qed.

(* a thread program made of calls of entry points exists, so the hypotheses of well_locked_atomic are met *)
Example C18_ttrace_nonvacuous :
  exists tr, ttrace lock_skels lock_exported tr /\ tr <> [].
Proof.
  eexists. split.
  - eapply (TCons lock_skels lock_exported "HasShare").
    + vm_compute. tauto.
    + eexists. eexists. eexists. eexists. split; [reflexivity|]. split; [|reflexivity]. ex_path.
    + apply TNil.
  - vm_compute. discriminate.
Qed.

(* the semantics really blocks: after thread 0 took the write lock, thread 1 can neither RLock nor Lock *)
Example C18_writer_blocks_reader :
  let t0 := mkThread unit MW tt [AWrite "shares"; AUnlock] in
  let t1 := mkThread unit MNone tt [ARLock; ARead "shares"; ARUnlock] in
  next_mode unit [t0; t1] t1 ARLock = None /\ next_mode unit [t0; t1] t1 ALock = None /\
  next_mode unit [t0; t1] t0 (AWrite "shares") = Some MW.
Proof. vm_compute. auto. Qed.

(* a method that touches [shares] without the lock is rejected by the checker *)
Example C18_checker_rejects_unlocked_access :
  chk_method guarded_fields immutable_fields lock_skels lock_fuel (Read "shares" ;; Return) = false /\
  chk_method guarded_fields immutable_fields lock_skels lock_fuel (RLock ;; DeferRUnlock ;; Write "shares" ;; Return) = false /\
  chk_method guarded_fields immutable_fields lock_skels lock_fuel (Lock ;; SIf Return SSkip ;; Unlock ;; Return) = false /\
  chk_method guarded_fields immutable_fields lock_skels lock_fuel (Lock ;; DeferUnlock ;; Call "HasShare" ;; Return) = false.
Proof. vm_compute. auto. Qed.
