(* C17 - SPoCK verification holds exactly for proofs of one message under claimed keys. *)
From Coq Require Import ZArith NArith List Bool.
From V Require Import Spec.Bilinear Generated.Consts Model.BlsAbs Model.SpockAbs Proofs.BlsProofs Proofs.SpockProofs Proofs.BilinearInst.
Import ListNotations.

Section C17.
Context {B : bilinear} {C : codecs}.

Theorem C17_spock_verify_iff :
  forall sk1 sk2 b1 b2,
    spock_verify (keyof sk1) b1 (keyof sk2) b2 = SBool true <->
    (sk1 <> f0 /\ sk2 <> f0 /\
     exists s1 s2, b1 = enc1 (s1, t1_0) /\ b2 = enc1 (s2, t1_0) /\ fmul s1 sk2 = fmul s2 sk1).
Proof. exact spock_verify_iff. Qed.

Theorem C17_same_data_verifies :
  forall sk1 sk2 hpt, inG1 hpt = true -> sk1 <> f0 -> sk2 <> f0 ->
    spock_verify (keyof sk1) (enc1 (smul1 sk1 hpt)) (keyof sk2) (enc1 (smul1 sk2 hpt)) = SBool true.
Proof. exact same_data_verifies. Qed.

Theorem C17_different_data_rejected :
  forall sk1 sk2 hpt hpt', inG1 hpt = true -> inG1 hpt' = true -> sk1 <> f0 -> sk2 <> f0 -> hpt <> hpt' ->
    spock_verify (keyof sk1) (enc1 (smul1 sk1 hpt)) (keyof sk2) (enc1 (smul1 sk2 hpt')) = SBool false.
Proof. exact different_data_rejected. Qed.

Theorem C17_other_key_rejected :
  forall sk1 sk1' sk2 hpt, inG1 hpt = true -> hpt <> O1 -> sk1 <> f0 -> sk1' <> f0 -> sk2 <> f0 -> sk1 <> sk1' ->
    spock_verify (keyof sk1') (enc1 (smul1 sk1 hpt)) (keyof sk2) (enc1 (smul1 sk2 hpt)) = SBool false.
Proof. exact other_key_rejected_spock. Qed.

Theorem C17_symmetric :
  forall sk1 sk2 b1 b2,
    spock_verify (keyof sk1) b1 (keyof sk2) b2 = spock_verify (keyof sk2) b2 (keyof sk1) b1.
Proof. exact spock_symmetric. Qed.

Theorem C17_identity_key_rejected :
  forall sk b1 b2,
    spock_verify (Some (mk_pubkey O2)) b1 (keyof sk) b2 = SBool false /\
    spock_verify (keyof sk) b1 (Some (mk_pubkey O2)) b2 = SBool false.
Proof. exact identity_key_rejected_spock. Qed.

Theorem C17_not_bls_key_error :
  forall b1 b2 k,
    spock_verify None b1 k b2 = SErrNotBLSKey /\ spock_verify k b1 None b2 = SErrNotBLSKey.
Proof. exact not_bls_key_error. Qed.

Theorem C17_prove_is_sign :
  forall sk hs hpt, spock_prove (Some sk) hs hpt = Some (sign sk hs hpt).
Proof. exact prove_is_sign. Qed.

Theorem C17_verify_against_data_is_verify :
  forall pk b hs hpt, spock_verify_against_data (Some pk) b hs hpt = Some (verify pk b hs hpt).
Proof. exact verify_against_data_is_verify. Qed.
End C17.
Print Assumptions C17_spock_verify_iff.
Print Assumptions C17_different_data_rejected.

Example C17_nonvacuous :
  @spock_verify F2 F2codecs (keyof true) (enc1 (smul1 true (true, tt))) (keyof true) (enc1 (smul1 true (true, tt))) = SBool true.
Proof. vm_compute. reflexivity. Qed.
