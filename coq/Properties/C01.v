(* C01 - BLS Verify accepts exactly the one signature sk*H(m) per key, message, hasher.
   Statements only.  [bilinear] bundles the algebra of a pairing-friendly pair of groups
   (scalars: an integral domain such as Z_r; pairing specified on G1 x G2 only), [codecs]
   a canonical round-tripping point encoding (the C05 theorems for the real codec).
   The step lists of Verify (Go) and bls_verify (C) are read from Generated/Guards.v. *)
From Coq Require Import ZArith NArith List Bool.
From V Require Import Spec.Bilinear Generated.Consts Model.BlsAbs Proofs.BlsProofs Proofs.BilinearInst.
Import ListNotations.

Section C01.
Context {B : bilinear} {C : codecs}.

(* For every private key sk, every hash-to-curve image h in G1 and every byte string b:
   Verify(pk(sk), b, h) = true  iff  sk <> 0 and b is the canonical encoding of sk*h. *)
Theorem C01_verify_iff_canonical_sig :
  forall sk b hpt, inG1 hpt = true ->
    (verify (public_key sk) b good_hasher hpt = VBool true
     <-> (sk <> f0 /\ b = enc1 (smul1 sk hpt))).
Proof. exact verify_iff_canonical_sig. Qed.

Theorem C01_verdict_is_boolean :
  forall pk b hpt, exists v, verify pk b good_hasher hpt = VBool v.
Proof. exact verify_is_bool. Qed.

Theorem C01_sign_verifies :
  forall sk hpt, inG1 hpt = true -> sk <> f0 ->
    verify (public_key sk) (snd (sign sk good_hasher hpt)) good_hasher hpt = VBool true.
Proof. exact sign_verifies. Qed.

Theorem C01_unique_accepted_string :
  forall sk hpt b b', inG1 hpt = true ->
    verify (public_key sk) b good_hasher hpt = VBool true ->
    verify (public_key sk) b' good_hasher hpt = VBool true -> b = b'.
Proof. exact unique_accepted_string. Qed.

Theorem C01_identity_pk_rejects_all :
  forall b hpt, verify (mk_pubkey O2) b good_hasher hpt = VBool false.
Proof. exact identity_pk_rejects_all. Qed.

Theorem C01_wrong_length_rejects :
  forall pk b hpt, List.length b <> Z.to_nat crypto_SignatureLenBLSBLS12381 ->
    verify pk b good_hasher hpt = VBool false.
Proof. exact wrong_length_rejects. Qed.

(* s+T, T outside the subgroup: rejected whatever the pairing computes there *)
Theorem C01_non_subgroup_rejected :
  forall pk b P hpt, dec1 b = Some P -> inG1 P = false -> verify pk b good_hasher hpt = VBool false.
Proof. exact non_subgroup_rejected. Qed.

Theorem C01_undecodable_rejected :
  forall pk b hpt, dec1 b = None -> verify pk b good_hasher hpt = VBool false.
Proof. exact undecodable_rejected. Qed.

Theorem C01_other_message_rejected :
  forall sk hpt hpt', inG1 hpt = true -> inG1 hpt' = true -> sk <> f0 -> hpt <> hpt' ->
    verify (public_key sk) (enc1 (smul1 sk hpt)) good_hasher hpt' = VBool false.
Proof. exact other_message_rejected. Qed.

Theorem C01_other_key_rejected :
  forall sk sk' hpt, inG1 hpt = true -> hpt <> O1 -> sk <> sk' ->
    verify (public_key sk') (enc1 (smul1 sk hpt)) good_hasher hpt = VBool false.
Proof. exact other_key_rejected. Qed.

Theorem C01_hasher_guards :
  forall pk b hpt,
    verify pk b HNil hpt = VErr ErrNilHasher /\
    (forall n, n <> crypto_expandMsgOutput -> verify pk b (HSize n) hpt = VErr ErrHasherSize).
Proof. exact hasher_guards. Qed.
End C01.
Print Assumptions C01_verify_iff_canonical_sig.
Print Assumptions C01_other_message_rejected.
Print Assumptions C01_hasher_guards.

(* non-vacuity: the bundled hypotheses have an instance (F_2, trivial torsion), and on it
   the main theorem's premises are met by a concrete key and point *)
Example C01_nonvacuous :
  @verify F2 F2codecs (public_key true) (enc1 (smul1 true (true, tt))) good_hasher (true, tt) = VBool true.
Proof. vm_compute. reflexivity. Qed.
