(* C01 - BLS Verify accepts exactly the one signature sk*H(m) per key, message, hasher.
   Statements only.  [bilinear] bundles the algebra of a pairing-friendly pair of groups
   (scalars: an integral domain such as Z_r; pairing specified on G1 x G2 only), [codecs]
   a canonical round-tripping point encoding (the C05 theorems for the real codec).
   The step lists of Verify (Go) and bls_verify (C) are read from Generated/Guards.v. *)
From Coq Require Import ZArith NArith List Bool.
From V Require Import Spec.Bilinear Generated.Consts Model.BlsAbs Proofs.BlsProofs Proofs.BilinearInst.
Import ListNotations.

Section C01.
Context {B : bilinear} {C : codecs}.

(* For every private key sk, every hash-to-curve image h in G1 and every byte string b:
   Verify(pk(sk), b, h) = true  iff  sk <> 0 and b is the canonical encoding of sk*h. *)
Theorem C01_verify_iff_canonical_sig :
  forall sk b hpt, inG1 hpt = true ->
    (verify (public_key sk) b good_hasher hpt = VBool true
     <-> (sk <> f0 /\ b = enc1 (smul1 sk hpt))).
Proof. exact verify_iff_canonical_sig. Qed.

Theorem C01_verdict_is_boolean :
  forall pk b hpt, exists v, verify pk b good_hasher hpt = VBool v.
Proof. exact verify_is_bool. Qed.

Theorem C01_sign_verifies :
  forall sk hpt, inG1 hpt = true -> sk <> f0 ->
    verify (public_key sk) (snd (sign sk good_hasher hpt)) good_hasher hpt = VBool true.
Proof. exact sign_verifies. Qed.

Theorem C01_unique_accepted_string :
  forall sk hpt b b', inG1 hpt = true ->
    verify (public_key sk) b good_hasher hpt = VBool true ->
    verify (public_key sk) b' good_hasher hpt = VBool true -> b = b'.
Proof. exact unique_accepted_string. Qed.

Theorem C01_identity_pk_rejects_all :
  forall b hpt, verify (mk_pubkey O2) b good_hasher hpt = VBool false.
Proof. exact identity_pk_rejects_all. Qed.

Theorem C01_wrong_length_rejects :
  forall pk b hpt, List.length b <> Z.to_nat crypto_SignatureLenBLSBLS12381 ->
    verify pk b good_hasher hpt = VBool false.
Proof. exact wrong_length_rejects. Qed.

(* s+T, T outside the subgroup: rejected whatever the pairing computes there *)
Theorem C01_non_subgroup_rejected :
  forall pk b P hpt, dec1 b = Some P -> inG1 P = false -> verify pk b good_hasher hpt = VBool false.
Proof. exact non_subgroup_rejected. Qed.

Theorem C01_undecodable_rejected :
  forall pk b hpt, dec1 b = None -> verify pk b good_hasher hpt = VBool false.
Proof. exact undecodable_rejected. Qed.

Theorem C01_other_message_rejected :
  forall sk hpt hpt', inG1 hpt = true -> inG1 hpt' = true -> sk <> f0 -> hpt <> hpt' ->
    verify (public_key sk) (enc1 (smul1 sk hpt)) good_hasher hpt' = VBool false.
Proof. exact other_message_rejected. Qed.

Theorem C01_other_key_rejected :
  forall sk sk' hpt, inG1 hpt = true -> hpt <> O1 -> sk <> sk' ->
    verify (public_key sk') (enc1 (smul1 sk hpt)) good_hasher hpt = VBool false.
Proof. exact other_key_rejected. Qed.

Theorem C01_hasher_guards :
  forall pk b hpt,
    verify pk b HNil hpt = VErr ErrNilHasher /\
    (forall n, n <> crypto_expandMsgOutput -> verify pk b (HSize n) hpt = VErr ErrHasherSize).
Proof. exact hasher_guards. Qed.
End C01.
Print Assumptions C01_verify_iff_canonical_sig.
Print Assumptions C01_other_message_rejected.
Print Assumptions C01_hasher_guards.

(* non-vacuity: the bundled hypotheses have an instance (F_2, trivial torsion), and on it
   the main theorem's premises are met by a concrete key and point *)
Example C01_nonvacuous :
  @verify F2 F2codecs (public_key true) (enc1 (smul1 true (true, tt))) good_hasher (true, tt) = VBool true.
Proof. vm_compute. reflexivity. Qed.

(* ------------------------------------------------------------------------------------------
   The hash-to-curve step H(m) = map_to_G1(expand_message(m)), as implemented
   (bls12381_utils.c map_to_G1 + blst map_to_g1; Model/MapToG1.v, constants regenerated from the
   C sources into Generated/IsoG1.v).  Statements only. *)
From Coq Require Import String.
From Bignums Require Import BigZ.
From V Require Proofs.Primes.
From V Require Import Lib.Hex Lib.Num Lib.FermatZ Prim.Bls12 Spec.ZcashCodec Spec.HashToCurveSpec
  Generated.IsoG1 Model.MapToG1 Proofs.MapToG1Proofs Proofs.MapToG1Refine Corr.C01Corr.

(* the glue: exactly 128 bytes are accepted; the two 64-byte big-endian halves are reduced mod p *)
Theorem C01_h2c_glue_bytes :
  forall {T} (M : num T) (p : T) hash,
    map_to_G1 M p hash =
    if Nat.eqb (List.length hash) 128
    then G1Point (map_to_G1_ints M p (be2z (firstn 64 hash)) (be2z (firstn 64 (skipn 64 hash))))
    else G1Invalid.
Proof. exact @map_to_G1_spec_bytes. Qed.

(* redc_mont_384 followed by the Montgomery product with BLS12_381_RRRR is the Montgomery form of
   x mod p (for every integer x): the glue's reduction is "mod p" *)
Theorem C01_h2c_glue_reduction :
  forall x, ((((x * montRinv) mod pZ) * iso_RRRR_raw * montRinv) mod pZ) = ((x mod pZ) * montR) mod pZ.
Proof. exact glue_reduction_is_mod_p. Qed.

(* H(m) depends on the hasher output only through the residues mod p of its two halves *)
Theorem C01_h2c_only_residues :
  forall hash hash',
    List.length hash = 128%nat -> List.length hash' = 128%nat ->
    be2z (firstn 64 hash) mod pZ = be2z (firstn 64 hash') mod pZ ->
    be2z (skipn 64 hash) mod pZ = be2z (skipn 64 hash') mod pZ ->
    map_to_G1 ZNum pZ hash = map_to_G1 ZNum pZ hash'.
Proof. exact map_to_G1_residues. Qed.

(* simplified SWU as implemented (map_to_isogenous_E1), any prime modulus and any constants with
   the stated relations: for EVERY u the result is a finite Jacobian point of y^2 = x^3 + A x + B *)
Theorem C01_h2c_sswu_on_curve :
  forall p, primeZ p -> forall prm : sswu_params Z,
    sp_A prm mod p <> 0 ->
    (sp_minus_A prm + sp_A prm) mod p = 0 ->
    sp_ZxA prm mod p <> 0 ->
    (sp_c2 prm * sp_c2 prm + sp_Z prm * sp_Z prm * sp_Z prm) mod p = 0 ->
    4 * sp_exp prm + 3 = p ->
    m_e2 (sswu_mid_of ZNum p prm 0) = true ->
    forall u, jac_on_curve p (sp_A prm) (sp_B prm) (sswu ZNum p prm u).
Proof. exact sswu_on_curve_gen. Qed.

(* ... in particular with the constants of blst, on E1': y^2 = x^3 + A' x + B'
   (p is prime: Proofs/Primes.v, a Pocklington certificate checked by the kernel) *)
Theorem C01_h2c_sswu_on_E1prime :
  forall u, jac_on_curve pZ iso_Aprime iso_Bprime (sswu ZNum pZ (iso_params ZNum) u).
Proof. exact (sswu_on_E1prime Primes.bls_p_prime). Qed.

(* the model executed on BigZ (correspondence runs) is the model on Z (theorems) *)
Theorem C01_h2c_bigZ_is_Z :
  forall hash,
    match map_to_G1 BNum pB hash, map_to_G1 ZNum pZ hash with
    | G1Point P, G1Point Q => jmapZ BNum P = Q
    | G1Invalid, G1Invalid => True
    | _, _ => False
    end.
Proof. exact map_to_G1_bigZ. Qed.
(* ... and for the values the BigZ execution computes *)
Theorem C01_h2c_sswu_bigZ_on_E1prime :
  forall u : bigZ,
    jac_on_curve pZ iso_Aprime iso_Bprime (jmapZ BNum (sswu BNum pB (iso_params BNum) u)).
Proof. exact (sswu_bigZ_on_E1prime Primes.bls_p_prime). Qed.
Print Assumptions C01_h2c_sswu_on_E1prime.
Print Assumptions C01_h2c_only_residues.
Print Assumptions C01_h2c_bigZ_is_Z.

(* non-vacuity of C01_h2c_sswu_on_curve: a toy instance (p = 19, y^2 = x^3 + x + 1, Z = 2) meets
   every hypothesis, and there the conclusion is also checked by enumeration of all u *)
Definition toy_prm : sswu_params Z := mkSP Z 1 1 2 18 2 7 4.
Example C01_h2c_sswu_hypotheses_satisfiable :
  primeZ 19 /\ sp_A toy_prm mod 19 <> 0 /\ (sp_minus_A toy_prm + sp_A toy_prm) mod 19 = 0 /\
  sp_ZxA toy_prm mod 19 <> 0 /\
  (sp_c2 toy_prm * sp_c2 toy_prm + sp_Z toy_prm * sp_Z toy_prm * sp_Z toy_prm) mod 19 = 0 /\
  4 * sp_exp toy_prm + 3 = 19 /\ m_e2 (sswu_mid_of ZNum 19 toy_prm 0) = true.
Proof. repeat split; try (vm_compute; congruence). Qed.
Example C01_h2c_sswu_toy_enumerated :
  forallb (fun u => let P := sswu ZNum 19 toy_prm u in
             Z.eqb ((jy P * jy P) mod 19)
                   ((jx P * jx P * jx P + 1 * jx P * (jz P * jz P * jz P * jz P)
                     + 1 * (jz P * jz P * jz P * jz P * jz P * jz P)) mod 19)
             && negb (Z.eqb (jz P mod 19) 0))
          (map Z.of_nat (seq 0 19)) = true.
Proof. vm_compute. reflexivity. Qed.

(* known answers.  RFC 9380 Appendix J.9.1 (BLS12381G1_XMD:SHA-256_SSWU_RO_, msg = ""): the u values
   and the resulting point P; both the model and the RFC-level specification reproduce it *)
Definition rfc_j91_u0 : Z := 0x0ba14bd907ad64a016293ee7c2d276b8eae71f25a4b941eece7b0d89f17f75cb3ae5438a614fb61d6835ad59f29c564f.
Definition rfc_j91_u1 : Z := 0x019b9bd7979f12657976de2884c7cce192b82c177c80e0ec604436a7f538d231552f0d96d9f7babe5fa3b19b3ff25ac9.
Definition rfc_j91_P : pt1 :=
  Aff1 0x052926add2207b76ca4fa57a8734416c8dc95e24501772c814278700eed6d1e4e8cf62d9c09db0fac349612b759e79a1
       0x08ba738453bfed09cb546dbb0783dbb3a5f1f566ed67bb6be0e8c67e2e81a4cc68ee29813bb7994998f3eae0c9c6a265.
Example C01_h2c_kat_rfc9380_model :
  jac_to_pt1 (map_to_G1_ints BNum pB rfc_j91_u0 rfc_j91_u1) = rfc_j91_P.
Proof. vm_compute. reflexivity. Qed.
Example C01_h2c_kat_rfc9380_spec :
  match spec_map_to_G1 BNum pB rfc_j91_u0 rfc_j91_u1 with
  | Some (x, y) => Aff1 (BigZ.to_Z x) (BigZ.to_Z y) = rfc_j91_P
  | None => False
  end.
Proof. vm_compute. reflexivity. Qed.

(* u0 = u1 (equal halves): the addition on E1' is a doubling and needs the curve's A'.  Output of
   the library for this input (key 1 signature), reproduced by the model and by the specification *)
Open Scope string_scope.
Definition kat_equal_halves : list N := hex
  "a900dddc584ff8080cedb0831d4cd90e1deef8656deecde137f0cd68207ec530dc32c5f7536177a29bce6ddbaaf05070602840f79525a8bda96130c1f3274b72a900dddc584ff8080cedb0831d4cd90e1deef8656deecde137f0cd68207ec530dc32c5f7536177a29bce6ddbaaf05070602840f79525a8bda96130c1f3274b72".
Definition kat_equal_halves_H : list N := hex
  "a590c2abcedc1e1fc907e1e3abd34324c418c8962e9ed4b88d8e8ed054412dc79feb90bc32c5a809ce3e80825402103c".
Example C01_h2c_kat_equal_halves :
  map_to_G1_pt kat_equal_halves = g1_decode kat_equal_halves_H /\
  spec_hash_bytes_to_G1 kat_equal_halves = g1_decode kat_equal_halves_H /\
  g1_decode kat_equal_halves_H <> None.
Proof. vm_compute. repeat split; congruence. Qed.

(* the whole pipeline on a library output: Sign(sk, msg) with NewExpandMsgXOFKMAC128("tag-651") *)
Example C01_h2c_kat_sign_pipeline :
  model_sign (hex "7461672d363531")
    (hex "22089dda2e9916c172681ba8974bd5d2025d103160e6b74df9ee9a02c396716a160ee0784a03c2f228f9de46a3b749d24b5b807c3e4cdfae0441d43300032236dc474badf771656c1268d48bf5867933461a33ecf64b98135e4df8cdc4702b29b5c0917ad2b632c2218b076a83c34cc046538433d5057bc1ad8152faa3e7a045786e793b6be3edcad98b69a345f6e3af2603cbae54da0ee29367609a338eaa3baa9833704e173fe61c1165121ae32223b3220ef7fcf6c4")
    0x168e92cbcfac9324a8169c3fb89f45cbd7e392f2409494f63c738b2bacb5fcd9
  = Some (hex "a46ecae296a0a2f24c2e3f5b5411789068aa1acb08d19929fd481204ee7e033b62e670a516f84b2a188cab0d6aad1f7e").
Proof. vm_compute. reflexivity. Qed.
Close Scope string_scope.

(* ------------------------------------------------------------------------------------------
   The remaining stages of map_to_g1 keep the curve equations, for ALL inputs
   (Proofs/IsoG1Proofs.v, Proofs/MapToG1Chain.v; p is prime by Proofs/Primes.v). *)
From V Require Import Proofs.IsoG1Proofs Proofs.MapToG1Chain.

(* the 11-isogeny of RFC 9380 Appendix E.2 as the specification evaluates it (rational map with
   Fermat inverses): a point of E1' with a finite image is sent to a point of E1: y^2 = x^3 + 4.
   Reduces to G M^2 D^3 = E^2 (N^3 + 4 D^3) in F_p[X], checked on the coefficient lists. *)
Theorem C01_h2c_iso_spec_on_E1 :
  forall x y,
    (y * y) mod pZ = (x * x * x + rfc_Aprime * x + rfc_Bprime) mod pZ ->
    forall X Y,
      spec_iso_map ZNum pZ (map (n_of_Z ZNum) rfc_k1) (map (n_of_Z ZNum) rfc_k2)
                   (map (n_of_Z ZNum) rfc_k3) (map (n_of_Z ZNum) rfc_k4) (Some (x, y)) = Some (X, Y) ->
      (Y * Y) mod pZ = (X * X * X + 4) mod pZ.
Proof. exact (spec_iso_on_E1 Primes.bls_p_prime). Qed.

(* the same isogeny as blst evaluates it (isogeny_map_to_E1, Jacobian coordinates, tables
   regenerated from the C source): Y^2 = X^3 + A' X Z^4 + B' Z^6 is sent to Y^2 = X^3 + 4 Z^6 *)
Theorem C01_h2c_iso_map_on_E1 :
  forall P, jac_eq pZ iso_Aprime iso_Bprime P -> jac_eq pZ 0 4 (iso_map ZNum pZ (iso_tabs ZNum) P).
Proof. exact iso_map_on_E1. Qed.

(* POINTonE1_dadd keeps y^2 = x^3 + a x + b with a = a4 (0 when a4 = NULL), any modulus, including
   the doubling branch, inputs at infinity and P + (-P) *)
Theorem C01_h2c_dadd_on_curve :
  forall p a4 b P Q,
    jac_eq p (a_of a4) b P -> jac_eq p (a_of a4) b Q -> jac_eq p (a_of a4) b (dadd ZNum p a4 P Q).
Proof. exact dadd_on_curve. Qed.

Theorem C01_h2c_double_on_curve :
  forall p b P, jac_eq p 0 b P -> jac_eq p 0 b (jdbl (FpOps ZNum p) P).
Proof. exact jdbl_on_curve. Qed.

(* the whole of blst's map_to_g1 (SSWU of both elements, addition on E1', isogeny, cofactor
   clearing by any doubling chain): the result satisfies the Jacobian equation of E1 *)
Theorem C01_h2c_map_to_g1_on_E1 :
  forall chain u v,
    jac_eq pZ 0 4 (map_to_g1 ZNum pZ (iso_params ZNum) (iso_tabs ZNum) chain u v).
Proof. exact (map_to_g1_on_E1 Primes.bls_p_prime). Qed.

(* H(m) as the model predicts it from the 128 hasher bytes (the BigZ execution used by the
   correspondence runs, through the affine conversion) is the point at infinity or a point of E1 *)
Theorem C01_h2c_image_on_E1 :
  forall hash x y,
    map_to_G1_pt hash = Some (Aff1 x y) -> (y * y) mod pZ = (x * x * x + 4) mod pZ.
Proof. exact (map_to_G1_pt_on_E1 Primes.bls_p_prime). Qed.
Print Assumptions C01_h2c_iso_spec_on_E1.
Print Assumptions C01_h2c_map_to_g1_on_E1.
Print Assumptions C01_h2c_image_on_E1.

(* non-vacuity: a point of E1' with a finite image under the specification's isogeny (the SSWU
   image of u = 1), and a hasher output whose image is a finite point *)
Example C01_h2c_iso_spec_hypotheses_satisfiable :
  (sample_E1prime_y * sample_E1prime_y) mod pZ =
  (sample_E1prime_x * sample_E1prime_x * sample_E1prime_x + rfc_Aprime * sample_E1prime_x + rfc_Bprime) mod pZ /\
  exists X Y, spec_iso_map ZNum pZ (map (n_of_Z ZNum) rfc_k1) (map (n_of_Z ZNum) rfc_k2)
                (map (n_of_Z ZNum) rfc_k3) (map (n_of_Z ZNum) rfc_k4)
                (Some (sample_E1prime_x, sample_E1prime_y)) = Some (X, Y).
Proof. split; [exact (proj1 sample_E1prime_ok)|exact sample_E1prime_image]. Qed.
Example C01_h2c_image_finite_example :
  exists x y, map_to_G1_pt kat_equal_halves = Some (Aff1 x y).
Proof. vm_compute. eexists. eexists. reflexivity. Qed.
