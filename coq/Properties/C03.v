(* C03 - batch verification agrees index-by-index with individual verification. *)
From Coq Require Import ZArith NArith List Bool.
From V Require Import Spec.Bilinear Generated.Consts Model.BlsAbs Model.AggAbs Model.BatchAbs
  Proofs.BlsProofs Proofs.AggProofs Proofs.BatchProofs Proofs.BilinearInst.
Import ListNotations.

Section C03.
Context {B : bilinear} {C : codecs}.

(* The recursion of bls_batch_verify_tree, for EVERY number of leaves and every initial marking
   without VALID entries: if the coefficients are good (no tree node containing an invalid leaf has
   a vanishing weighted error sum), index i comes out VALID iff its error is zero, and entries
   marked INVALID beforehand stay INVALID. *)
Theorem C03_tree_exact :
  forall fuel (l : list eleaf) res,
    (length l <= fuel)%nat -> length res = length l -> Forall (fun r => r <> Valid) res ->
    good (S fuel) l ->
    tree eok (S fuel) l res = map expect (combine l res).
Proof. exact tree_exact. Qed.

(* the node test on leaves (rho_i*s_i, rho_i*pk_i) with s_i, pk_i in the subgroups is the
   error-level test with e_i = sigma_i - x_i*eta (bilinearity) *)
Theorem C03_node_check_is_eok :
  forall eta (ls : list (F * F * F)),
    node_check (eta, t1_0) (map (fun t => gleaf (fst (fst t)) (snd (fst t)) (snd t)) ls)
    = eok (map (fun t => (fst (fst t), fsub (snd (fst t)) (fmul (snd t) eta))) ls).
Proof. exact node_check_is_eok. Qed.

(* the probability statement, algebraic core: for a node containing an invalid leaf, with all other
   coefficients fixed, at most one value of that leaf's coefficient is bad; among any duplicate-free
   list of candidate values (the 2^128 possible coefficients) at most one makes the node pass *)
Theorem C03_bad_coefficient_unique :
  forall (pre post : list eleaf) (e a a' : F), e <> f0 ->
    wsum (pre ++ (a, e) :: post) = f0 -> wsum (pre ++ (a', e) :: post) = f0 -> a = a'.
Proof. exact bad_coefficient_unique. Qed.

Theorem C03_bad_coefficients_at_most_one :
  forall (pre post : list eleaf) (e : F) (cands : list F), e <> f0 -> NoDup cands ->
    (length (filter (fun a => eok (pre ++ (a, e) :: post)) cands) <= 1)%nat.
Proof. exact bad_coefficients_at_most_one. Qed.

(* THE statement of C03, end to end: Go wrapper (pre-marking of wrong-length signatures and identity
   keys) + C leaf processing (canonical read, G1 membership, multiplication by the coefficient) + tree:
   for every non-empty list of (key scalar, signature bytes, coefficient), if the coefficients are good
   for the error vector of this input, BatchVerifyBLSSignaturesOneMessage returns at each index exactly
   what Verify returns for that key and signature. *)
Theorem C03_batch_agrees_with_verify :
  forall eta (es : list entry), es <> [] ->
    good (S (length es)) (map (err_of eta) es) ->
    go_batch (map (fun e => Some (public_key (e_sk e))) es) (map e_sig es) good_hasher (eta, t1_0) (map e_rho es)
    = BOk (map (vb eta) es).
Proof. exact batch_agrees_with_verify. Qed.

(* on an input error every returned boolean is false *)
Theorem C03_batch_errors_all_false :
  forall pks sigs hs h rhos,
    match go_batch pks sigs hs h rhos with
    | BOk _ => True
    | BErrEmptyList v | BErrInvalidInputs v | BErrHasher _ v | BErrNotBLSKey v => v = repeat false (List.length sigs)
    end.
Proof. exact batch_errors_all_false. Qed.
End C03.
Print Assumptions C03_batch_agrees_with_verify.
Print Assumptions C03_tree_exact.
Print Assumptions C03_node_check_is_eok.
Print Assumptions C03_bad_coefficients_at_most_one.

(* non-vacuity: good coefficients exist and the hypotheses are met by a concrete 3-leaf instance over F_2 *)
Example C03_nonvacuous :
  @good F2 4 [(true, false); (true, true); (true, false)] /\
  @tree (@eleaf F2) (@eok F2) 4 [(true, false); (true, true); (true, false)] [Undefined; Undefined; Undefined]
  = [Valid; Invalid; Valid].
Proof.
  split; [|vm_compute; reflexivity].
  cbn [good length Nat.div Nat.sub firstn skipn]. cbn.
  repeat split; intro H;
    try (cbv; discriminate);
    try (destruct H as [p [Hin Hp]]; cbn in Hin;
         repeat (destruct Hin as [<-|Hin]; [cbn in Hp; try congruence|]); try contradiction).
Qed.
