(* C12 - Key generation is a fixed, in-range, deterministic function of the seed.
   Only statements, each closed by [exact] of a lemma proved in Proofs/KeygenProofs.v. *)
From Coq Require Import ZArith NArith List String.
From V Require Import Lib.Hex Lib.BytesZ Spec.HkdfSpec Spec.KeygenSpec Prim.EcdsaCurve
  Model.Keygen Proofs.KeygenProofs.
Import ListNotations.
Open Scope Z_scope.

(* Fr_from_be_bytes (32-byte digits from the end, Montgomery radix R^2) computes
   OS2IP(bytes) mod r for EVERY byte string, including the empty one. *)
Theorem C12_map_to_fr_eq_os2ip_mod_r :
  forall b : list N, Fr_from_be_bytes b = os2ip b mod bls_r.
Proof. exact Fr_from_be_bytes_spec. Qed.
Print Assumptions C12_map_to_fr_eq_os2ip_mod_r.

(* the Go wrapper mapToFr: the same on non-empty input, a panic (&src[0]) on the empty slice *)
Theorem C12_mapToFr_go :
  (forall src, src <> [] -> mapToFr src = KOk (os2ip src mod bls_r, os2ip src mod bls_r =? 0))
  /\ mapToFr [] = KPanic.
Proof. split; [exact mapToFr_spec|exact mapToFr_empty]. Qed.
Print Assumptions C12_mapToFr_go.

Theorem C12_bls_keygen_in_range :
  forall fuel ikm k, bls_generatePrivateKey fuel ikm = KOk k -> 1 <= k < bls_r.
Proof. exact bls_keygen_in_range. Qed.
Print Assumptions C12_bls_keygen_in_range.

Theorem C12_ecdsa_keygen_in_range :
  forall c seed sk, 2 <= ec_n c ->
    ecdsa_generatePrivateKey c seed = KOk sk -> 1 <= sk_d sk <= ec_n c - 1.
Proof. exact ecdsa_keygen_in_range. Qed.
Print Assumptions C12_ecdsa_keygen_in_range.

(* the limits are those of common.go (regenerated constants): 32 and 256 *)
Theorem C12_seed_limits : seedMin = 32%nat /\ seedMax = 256%nat.
Proof. split; reflexivity. Qed.

(* every length outside [min, max] is rejected with the invalid-input class ... *)
Theorem C12_seed_length_rejected :
  forall seed, (List.length seed < seedMin \/ seedMax < List.length seed)%nat ->
    (forall fuel, bls_generatePrivateKey fuel seed = KErr E_INVALID_INPUT) /\
    (forall c, ecdsa_generatePrivateKey c seed = KErr E_INVALID_INPUT).
Proof.
  intros seed H. split.
  - intro fuel. exact (bls_seed_rejected fuel seed H).
  - intro c. exact (ecdsa_seed_rejected c seed H).
Qed.
Print Assumptions C12_seed_length_rejected.

(* ... and every length inside is accepted: ECDSA returns a key; BLS returns a key unless the
   model's loop fuel runs out (each round fails with probability 2^-255), never an error or panic *)
Theorem C12_seed_length_accepted :
  forall seed, (seedMin <= List.length seed <= seedMax)%nat ->
    (forall fuel, (exists k, bls_generatePrivateKey fuel seed = KOk k)
                  \/ bls_generatePrivateKey fuel seed = KOutOfFuel) /\
    (forall c, 2 ^ 255 <= ec_n c < 2 ^ 256 -> exists sk, ecdsa_generatePrivateKey c seed = KOk sk).
Proof.
  intros seed H. split.
  - intro fuel. exact (bls_seed_accepted fuel seed H).
  - intros c Hn. exact (ecdsa_seed_accepted c seed Hn H).
Qed.
Print Assumptions C12_seed_length_accepted.

(* determinism: the model is a function of the seed, and the BLS result does not depend on the
   loop fuel of the model *)
Theorem C12_keygen_deterministic :
  forall c s1 s2, s1 = s2 ->
    (forall f, bls_generatePrivateKey f s1 = bls_generatePrivateKey f s2) /\
    ecdsa_generatePrivateKey c s1 = ecdsa_generatePrivateKey c s2.
Proof. intros c s1 s2 ->. split; reflexivity. Qed.

Theorem C12_bls_keygen_fuel_irrelevant :
  forall f f' ikm k k',
    bls_generatePrivateKey f ikm = KOk k -> bls_generatePrivateKey f' ikm = KOk k' -> k = k'.
Proof. exact bls_keygen_fuel_irrelevant. Qed.
Print Assumptions C12_bls_keygen_fuel_irrelevant.

(* the model of the code computes the documented derivations (Spec/KeygenSpec.v:
   IETF BLS KeyGen over RFC 5869 HKDF; HKDF to 48 bytes reduced into [1, n-1]) *)
Theorem C12_bls_keygen_is_ietf_keygen :
  forall fuel ikm,
    match bls_generatePrivateKey fuel ikm with
    | KOk k => bls_keygen_spec fuel ikm = Some k
    | KOutOfFuel => bls_keygen_spec fuel ikm = None
    | KErr e => e = E_INVALID_INPUT /\ seed_len_spec (List.length ikm) = false
    | KPanic => False
    end.
Proof. exact bls_keygen_eq_spec. Qed.
Print Assumptions C12_bls_keygen_is_ietf_keygen.

Theorem C12_ecdsa_keygen_is_documented_derivation :
  forall c seed, 2 ^ 255 <= ec_n c < 2 ^ 256 ->
    match ecdsa_generatePrivateKey c seed with
    | KOk sk => ecdsa_keygen_spec (ec_n c) seed = Some (sk_d sk) /\ sk_pubKey sk = None
                /\ sk_goPub sk = ec_basemul c (sk_d sk)
    | KErr e => e = E_INVALID_INPUT /\ seed_len_spec (List.length seed) = false
    | _ => False
    end.
Proof. exact ecdsa_keygen_eq_spec. Qed.
Print Assumptions C12_ecdsa_keygen_is_documented_derivation.

(* Encode() of the generated keys is the 32-byte big-endian scalar *)
Theorem C12_encodings :
  (forall k, 0 <= k < bls_r -> os2ip (bls_encode_sk k) = k /\ List.length (bls_encode_sk k) = 32%nat) /\
  (forall c sk, 2 ^ 255 <= ec_n c < 2 ^ 256 -> 1 <= sk_d sk <= ec_n c - 1 ->
     exists b, ecdsa_encode_sk c sk = KOk b /\ List.length b = 32%nat /\ os2ip b = sk_d sk).
Proof. split; [exact bls_encode_roundtrip|exact ecdsa_encode_ok]. Qed.
Print Assumptions C12_encodings.

(* PublicKey(): the second call returns the value of the first and leaves the key unchanged;
   a freshly constructed key returns scalar * base point *)
Theorem C12_public_key_idempotent :
  forall sk,
    let '(p1, sk1) := ecdsa_PublicKey sk in
    let '(p2, sk2) := ecdsa_PublicKey sk1 in
    p1 = p2 /\ sk2 = sk1 /\ sk_d sk1 = sk_d sk /\ sk_goPub sk1 = sk_goPub sk.
Proof. exact public_key_idempotent. Qed.
Print Assumptions C12_public_key_idempotent.

Theorem C12_public_key_is_scalar_times_base :
  forall c d, fst (ecdsa_PublicKey (goecdsaPrivateKey c d)) = ec_basemul c d.
Proof. exact public_key_fresh. Qed.

(* ---- non-vacuity and pinned vectors ---- *)
Definition pinned_seed : list N := hex "00112233445566778899AABBCCDDEEFF00112233445566778899AABBCCDDEEFF".

(* TestBLSKeyGenerationBreakingChange *)
Example C12_bls_breaking_change_vector :
  bls_generatePrivateKey 1 pinned_seed
  = KOk 0x5895ab2eccd1883856adc0784b15097e69154ac9bf29ecd605f95be3064f6f01.
Proof. vm_compute. reflexivity. Qed.

(* TestECDSAKeyGenerationBreakingChange *)
Definition p256_c : ec_curve := {| ec_n := p256_n; ec_basemul := basemul_affine P256 |}.
Definition k1_c : ec_curve := {| ec_n := secp256k1_n; ec_basemul := basemul_affine Secp256k1 |}.

Example C12_ecdsa_breaking_change_vector_secp256k1 :
  match ecdsa_generatePrivateKey k1_c pinned_seed with
  | KOk sk => sk_d sk = 0x4723d238a9702296f96bf64f1288c8b1eb93a4bff8b1482be4172c745bf30acb
  | _ => False
  end.
Proof. vm_compute. reflexivity. Qed.

Example C12_ecdsa_breaking_change_vector_p256 :
  match ecdsa_generatePrivateKey p256_c pinned_seed with
  | KOk sk => sk_d sk = 0x3cadd4123b493233252ffdeccaef07066b73e2c3a9a08905669c5a857027708b
  | _ => False
  end.
Proof. vm_compute. reflexivity. Qed.

(* the two orders of the model are those of the curve code, and in the 256-bit range *)
Example C12_orders :
  p256_n = curve_n P256 /\ secp256k1_n = curve_n Secp256k1 /\
  2 ^ 255 <= p256_n < 2 ^ 256 /\ 2 ^ 255 <= secp256k1_n < 2 ^ 256.
Proof. vm_compute. repeat split; congruence. Qed.

(* hypotheses are satisfiable: an accepted and a rejected length, a 100-byte input of the reduction *)
Example C12_nonvacuous_lengths :
  (List.length pinned_seed = 32 /\ seedMin <= 32 <= seedMax)%nat /\
  (List.length (repeat 0%N 31) < seedMin)%nat /\ (seedMax < List.length (repeat 0%N 257))%nat.
Proof. vm_compute. repeat split; repeat constructor. Qed.

Example C12_map_to_fr_100_bytes :
  Fr_from_be_bytes (repeat 255%N 100) = (256 ^ 100 - 1) mod bls_r.
Proof. vm_compute. reflexivity. Qed.

(* "identical on every call": key generation reads no package-level state besides init-once
   instances and read-only tables (regenerated list of every package-level variable) *)
From V Require Generated.Guards Proofs.CStaticProofs.
Theorem C12_no_call_to_call_state :
  Guards.go_package_state = List.map fst CStaticProofs.reviewed_package_state.
Proof. exact CStaticProofs.package_state_is_reviewed. Qed.
Print Assumptions C12_no_call_to_call_state.
