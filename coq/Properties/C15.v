(* C15 - sampling helpers (UintN / Permutation / SubPermutation / Shuffle / Samples)
   are in range, valid and exactly uniform in the PRG's bits.
   Only statements, each closed by [exact] of a lemma proved in Proofs/Rand*.v.
   Model: Model/Rand.v (tape = byte stream of the core, explicit 8-byte uintnBuffer).
   All theorems quantify over every n (uint64 resp. int range), every tape, every
   buffer content; bounded in-kernel enumerations at the end are labelled as tests. *)
From Coq Require Import ZArith NArith List Bool Permutation.
From V Require Import Model.Rand Spec.RandSpec Proofs.RandUintN Proofs.RandUniform Proofs.RandPerm
  Proofs.RandTheorems.
Import ListNotations.

(* ---------------- UintN ---------------- *)

(* whenever UintN(n) returns v (any fuel, any tape, any buffer), v < n *)
Theorem C15_uintn_in_range :
  forall fuel n s v s', uintn_fuel fuel n s = Ok v s' -> (v < n)%N.
Proof. exact uintn_fuel_in_range. Qed.

Theorem C15_uintn_zero_panics : forall fuel s, uintn_fuel fuel 0 s = Panic.
Proof. exact uintn_zero_panics. Qed.

(* the two bounded loops compute the byte length and the all-ones mask of the bit length of n-1 *)
Theorem C15_size_loop_is_byte_length :
  forall max, (max < w64)%N -> size_loop 9 max 0 = Some (nbytes max) /\ (nbytes max <= 8)%nat.
Proof. exact size_loop_spec. Qed.

Theorem C15_mask_loop_is_bit_length :
  forall max, (max < w64)%N -> mask_loop 65 max 0 = Some (N.ones (bits max)) /\ (bits max <= 64)%N.
Proof. exact mask_loop_spec. Qed.

(* one loop body: the masked 8-byte little-endian read equals the low b bits of the
   fresh k-byte chunk, whatever the stale bytes behind it are *)
Theorem C15_attempt_is_low_bits_of_chunk :
  forall chunk stale b, (b <= 8 * N.of_nat (length chunk))%N ->
    N.land (le_val (chunk ++ stale)) (N.ones b) = attempt b (le_num chunk).
Proof. exact attempt_value. Qed.

(* stale_bytes_masked: two generators with the same tape and arbitrary 8-byte buffers
   give the same value and the same remaining tape - for UintN and for every helper *)
Theorem C15_stale_bytes_masked :
  forall s1 s2, same_tape s1 s2 ->
    (forall fuel n, (n < w64)%N -> res_rel (uintn_fuel fuel n s1) (uintn_fuel fuel n s2)) /\
    (forall n, (n < w64)%N -> res_rel (uintn n s1) (uintn n s2)) /\
    (forall n, res_rel (permutation n s1) (permutation n s2)) /\
    (forall n m, res_rel (subpermutation n m s1) (subpermutation n m s2)) /\
    (forall n m, res_rel (samples n m s1) (samples n m s2)) /\
    (forall n, res_rel (shuffle n s1) (shuffle n s2)).
Proof. exact all_helpers_ignore_stale_bytes. Qed.

(* the model of the Go code refines the reference rejection sampler of Spec/RandSpec.v:
   same value, same remaining tape, same tape/fuel exhaustion *)
Theorem C15_uintn_refines_reference_sampler :
  forall fuel n s, (0 < n)%N -> (n < w64)%N -> length (ubuf s) = 8%nat ->
    forget (uintn_fuel fuel n s) = inl (inl (spec_uintn fuel n (tape s))) /\ buf_ok (uintn_fuel fuel n s).
Proof. exact uintn_fuel_refines. Qed.

(* termination: each attempt accepts more than half of the masked values, and on a finite
   tape the default fuel of [uintn] is never exhausted *)
Theorem C15_attempt_accepts_more_than_half :
  forall n, (0 < n)%N -> (2 ^ bits (n - 1) < 2 * n)%N.
Proof. exact accept_more_than_half. Qed.

Theorem C15_uintn_never_out_of_fuel :
  forall n s, (n < w64)%N -> length (ubuf s) = 8%nat -> uintn n s <> OutOfFuel.
Proof. exact uintn_never_out_of_fuel. Qed.

(* exact uniformity of one attempt: attempt c = v  <->  c = v + 2^b q, and the explicit
   bijection between [0, 2^(8k-b)) and the chunks c < 2^(8k) that yield v *)
Theorem C15_attempt_iff :
  forall b c v, attempt b c = v <-> exists q, (c = v + 2 ^ b * q /\ v < 2 ^ b)%N.
Proof. exact attempt_iff. Qed.

Theorem C15_uintn_attempt_fibres :
  forall n v, (0 < n)%N -> (v < n)%N ->
    let b := bits (n - 1) in let k8 := (8 * N.of_nat (nbytes (n - 1)))%N in
    (forall q, (q < 2 ^ (k8 - b))%N ->
       (fibre_in b v q < 2 ^ k8)%N /\ attempt b (fibre_in b v q) = v /\ fibre_out b (fibre_in b v q) = q) /\
    (forall c, (c < 2 ^ k8)%N -> attempt b c = v ->
       (fibre_out b c < 2 ^ (k8 - b))%N /\ fibre_in b v (fibre_out b c) = c).
Proof. exact uintn_attempt_fibres. Qed.

(* counting corollary: every v < n has exactly 2^(8k-b) preimages among the 256^k chunks *)
Theorem C15_uintn_attempt_fibre_count :
  forall n v, (0 < n)%N -> (v < n)%N ->
    length (filter (fun c => (attempt (bits (n - 1)) c =? v)%N) (nrange (256 ^ N.of_nat (nbytes (n - 1))))) =
    N.to_nat (2 ^ (8 * N.of_nat (nbytes (n - 1)) - bits (n - 1))).
Proof. exact uintn_attempt_fibre_count. Qed.

(* exact uniformity over all attempts: on tapes made of [length cs] chunks, the involution
   [retarget_tape n v v'] (exchange the low b bits v <-> v' in every chunk) maps the tapes
   on which UintN(n) returns v onto those on which it returns v' *)
Theorem C15_uintn_exchange_involution :
  forall n buf v v' cs,
    (0 < n)%N -> (n < w64)%N -> length buf = 8%nat -> (v < n)%N -> (v' < n)%N ->
    chunks_ok (nbytes (n - 1)) cs ->
    chunks_ok (nbytes (n - 1)) (retarget_tape n v v' cs) /\
    length (retarget_tape n v v' cs) = length cs /\
    retarget_tape n v v' (retarget_tape n v v' cs) = cs /\
    (uintn_value n buf cs = Some v <-> uintn_value n buf (retarget_tape n v v' cs) = Some v').
Proof.
  intros n buf v v' cs Hn Hw Hb Hv Hv' Hcs.
  exact (conj (retarget_tape_ok n v v' cs Hn Hv Hv' Hcs)
        (conj (retarget_tape_length n v v' cs)
        (conj (retarget_tape_invol n v v' cs Hn Hv Hv')
              (uintn_value_exchange n buf v v' cs Hn Hw Hb Hv Hv' Hcs)))).
Qed.

(* hence: for every number of attempts [fuel], the number of tapes (fuel chunks of k bytes)
   on which UintN(n) returns v is the same for all v < n *)
Theorem C15_uintn_exactly_uniform :
  forall n buf fuel v v',
    (0 < n)%N -> (n < w64)%N -> length buf = 8%nat -> (v < n)%N -> (v' < n)%N ->
    count_tapes n buf fuel v = count_tapes n buf fuel v'.
Proof. exact count_tapes_uniform. Qed.

(* ---------------- Permutation / SubPermutation ---------------- *)

Theorem C15_permutation_is_permutation :
  forall n s items s', (n < Z.of_N w63)%Z -> length (ubuf s) = 8%nat ->
    permutation n s = Ok items s' ->
    Permutation items (zrange (Z.to_nat n)) /\ length items = Z.to_nat n.
Proof. exact permutation_is_perm. Qed.

(* Permutation(n) = inside-out Fisher-Yates of the choices j_i = UintN(i+1) drawn in order *)
Theorem C15_permutation_is_fisher_yates_of_draws :
  forall n s items s', (n < Z.of_N w63)%Z -> length (ubuf s) = 8%nat ->
    permutation n s = Ok items s' ->
    (0 <= n)%Z /\
    exists js, draws (perm_args 0 (Z.to_nat n)) s = Ok js s' /\
               io_valid 0 (map N.to_nat js) /\ length js = Z.to_nat n /\
               items = io_perm (map N.to_nat js).
Proof. exact permutation_ok_inv. Qed.

(* choice vectors (j_i <= i) |-> permutations of 0..n-1: into, injective and onto *)
Theorem C15_choices_to_permutation_bijective :
  forall n : nat,
    (forall js, length js = n -> io_valid 0 js -> Permutation (io_perm js) (zrange n)) /\
    (forall js js', length js = n -> length js' = n -> io_valid 0 js -> io_valid 0 js' ->
                    io_perm js = io_perm js' -> js = js') /\
    (forall p, Permutation p (zrange n) -> exists js, length js = n /\ io_valid 0 js /\ io_perm js = p).
Proof. exact choices_to_permutation_bijective. Qed.

Theorem C15_subpermutation_distinct :
  forall n m s l s', (n < Z.of_N w63)%Z -> length (ubuf s) = 8%nat ->
    subpermutation n m s = Ok l s' ->
    (0 <= m <= n)%Z /\ length l = Z.to_nat m /\ NoDup l /\ Forall (fun x => (0 <= x < n)%Z) l /\
    exists items, permutation n s = Ok items s' /\ l = firstn (Z.to_nat m) items.
Proof. exact subpermutation_ok_inv. Qed.

(* ---------------- Samples / Shuffle ---------------- *)

(* the callback is called exactly m times, the k-th call is swap(k, b) with k <= b < n,
   and applying the calls to any slice of length n succeeds and permutes it *)
Theorem C15_samples_swaps_shape :
  forall n m s sw s', (n < Z.of_N w63)%Z -> length (ubuf s) = 8%nat ->
    samples n m s = Ok sw s' ->
    length sw = Z.to_nat m /\
    (forall k a b, nth_error sw k = Some (a, b) -> a = Z.of_nat k /\ (a < m)%Z /\ (a <= b < n)%Z) /\
    (forall (A : Type) (L : list A), length L = Z.to_nat n ->
       exists L', apply_swaps sw L = Some L' /\ Permutation L L').
Proof. exact samples_shape. Qed.

Theorem C15_samples_is_fisher_yates_of_draws :
  forall n m s sw s', (n < Z.of_N w63)%Z -> length (ubuf s) = 8%nat ->
    samples n m s = Ok sw s' ->
    (0 <= m <= n)%Z /\
    exists js, draws (samp_args n 0 (Z.to_nat m)) s = Ok js s' /\
               fy_valid (Z.to_nat n) 0 (map N.to_nat js) /\ length js = Z.to_nat m /\
               sw = zpairs (swaps_of 0 (map N.to_nat js)).
Proof. exact samples_ok_inv. Qed.

Theorem C15_shuffle_is_samples_n_n :
  forall n s, (0 <= n)%Z -> shuffle n s = samples n n s.
Proof. exact shuffle_is_samples. Qed.

(* choice vectors (j_i < n - i, i < m) |-> ordered m-samples of a duplicate-free slice:
   into (a permutation of the slice), injective, and onto the n!/(n-m)! ordered samples *)
Theorem C15_choices_to_sample_bijective :
  forall (A : Type) (n m : nat) (L : list A), NoDup L -> length L = n ->
    (forall js, length js = m -> fy_valid n 0 js ->
       exists R, apply_swaps (zpairs (swaps_of 0 js)) L = Some R /\ Permutation L R) /\
    (forall js js' R R', length js = m -> length js' = m -> fy_valid n 0 js -> fy_valid n 0 js' ->
       apply_swaps (zpairs (swaps_of 0 js)) L = Some R -> apply_swaps (zpairs (swaps_of 0 js')) L = Some R' ->
       firstn m R = firstn m R' -> js = js') /\
    (forall q, length q = m -> NoDup q -> incl q L ->
       exists js R, length js = m /\ fy_valid n 0 js /\
                    apply_swaps (zpairs (swaps_of 0 js)) L = Some R /\ firstn m R = q).
Proof. exact @choices_to_sample_bijective. Qed.

(* ---------------- arguments, determinism ---------------- *)

Theorem C15_argument_errors :
  forall s,
    (forall n, (n < 0)%Z -> permutation n s = Err E_NEG_POPULATION) /\
    (forall n m, (m < 0)%Z -> subpermutation n m s = Err E_NEG_SAMPLE) /\
    (forall n m, (0 <= m)%Z -> (n < m)%Z -> subpermutation n m s = Err E_SAMPLE_GT_POP) /\
    (forall n m, (m < 0)%Z -> samples n m s = Err E_NEG_SAMPLE) /\
    (forall n m, (0 <= m)%Z -> (n < m)%Z -> samples n m s = Err E_SAMPLE_GT_POP) /\
    (forall n, (n < 0)%Z -> shuffle n s = Err E_NEG_POPULATION).
Proof. exact argument_errors. Qed.

(* valid arguments: no error, no panic, no fuel exhaustion; only the tape can run out *)
Theorem C15_valid_arguments_no_error :
  forall s, length (ubuf s) = 8%nat ->
    (forall n, (0 < n < w64)%N -> ok_or_tape (uintn n s)) /\
    (forall n, (0 <= n < Z.of_N w63)%Z -> ok_or_tape (permutation n s)) /\
    (forall n m, (0 <= m <= n)%Z -> (n < Z.of_N w63)%Z -> ok_or_tape (subpermutation n m s)) /\
    (forall n m, (0 <= m <= n)%Z -> (n < Z.of_N w63)%Z -> ok_or_tape (samples n m s)) /\
    (forall n, (0 <= n < Z.of_N w63)%Z -> ok_or_tape (shuffle n s)).
Proof. exact valid_arguments_no_error. Qed.

(* determinism: the helpers are functions of the generator state (and, by
   C15_stale_bytes_masked, of the tape alone; by C14 the tape is a function of the seed) *)
Theorem C15_equal_tapes_equal_outputs :
  forall s1 s2, s1 = s2 ->
    (forall n, uintn n s1 = uintn n s2) /\ (forall n, permutation n s1 = permutation n s2) /\
    (forall n m, subpermutation n m s1 = subpermutation n m s2) /\
    (forall n m, samples n m s1 = samples n m s2) /\ (forall n, shuffle n s1 = shuffle n s2).
Proof. exact equal_states_equal_outputs. Qed.

(* one Print Assumptions over all theorems of this file (each costs about a second) *)
Definition C15_all_theorems :=
  (@C15_uintn_in_range,
   @C15_uintn_zero_panics,
   @C15_size_loop_is_byte_length,
   @C15_mask_loop_is_bit_length,
   @C15_attempt_is_low_bits_of_chunk,
   @C15_stale_bytes_masked,
   @C15_uintn_refines_reference_sampler,
   @C15_attempt_accepts_more_than_half,
   @C15_uintn_never_out_of_fuel,
   @C15_attempt_iff,
   @C15_uintn_attempt_fibres,
   @C15_uintn_attempt_fibre_count,
   @C15_uintn_exchange_involution,
   @C15_uintn_exactly_uniform,
   @C15_permutation_is_permutation,
   @C15_permutation_is_fisher_yates_of_draws,
   @C15_choices_to_permutation_bijective,
   @C15_subpermutation_distinct,
   @C15_samples_swaps_shape,
   @C15_samples_is_fisher_yates_of_draws,
   @C15_shuffle_is_samples_n_n,
   @C15_choices_to_sample_bijective,
   @C15_argument_errors,
   @C15_valid_arguments_no_error,
   @C15_equal_tapes_equal_outputs).
Print Assumptions C15_all_theorems.

(* ---------------- non-vacuity ---------------- *)

(* n = 3: k = 1, b = 2; chunk 0xff is rejected (3 > 2), chunk 0x01 accepted *)
Example C15_nonvacuous_uintn :
  uintn 3 (prg0 [0xff; 0x01; 0x77]%N) = Ok 1%N (mkPrg [0x77%N] [0x01; 0; 0; 0; 0; 0; 0; 0]%N).
Proof. vm_compute. reflexivity. Qed.

(* stale high bytes: a buffer full of 0xff gives the same value and tape *)
Example C15_nonvacuous_stale :
  same_tape (prg0 [0xff; 0x01]%N) (mkPrg [0xff; 0x01]%N (repeat 0xff%N 8)) /\
  uintn 3 (mkPrg [0xff; 0x01]%N (repeat 0xff%N 8)) = Ok 1%N (mkPrg [] (0x01 :: repeat 0xff 7)%N).
Proof. split; [repeat split|vm_compute; reflexivity]. Qed.

(* n = 2^64 - 1 : 8 bytes, 64 bits; the chunk ff..ff (= n) is rejected *)
Example C15_nonvacuous_uintn_max :
  uintn 18446744073709551615 (prg0 (repeat 0xff 8 ++ [1; 2; 3; 4; 5; 6; 7; 8])%N)
  = Ok 578437695752307201%N (mkPrg [] [1; 2; 3; 4; 5; 6; 7; 8]%N).
Proof. vm_compute. reflexivity. Qed.

Example C15_nonvacuous_uniform_hyps :
  (0 < 5 /\ 5 < w64 /\ 1 < 5 /\ 4 < 5)%N /\ length (repeat 0%N 8) = 8%nat /\
  chunks_ok (nbytes (5 - 1)) [7; 6; 1]%N /\
  uintn_value 5 (repeat 0%N 8) [7; 6; 1]%N = Some 1%N /\
  retarget_tape 5 1 4 [7; 6; 1]%N = [7; 6; 4]%N /\
  uintn_value 5 (repeat 0%N 8) [7; 6; 4]%N = Some 4%N.
Proof.
  split; [vm_compute; repeat split; reflexivity|]. split; [reflexivity|]. split.
  - repeat constructor.
  - vm_compute. repeat split; reflexivity.
Qed.

Example C15_nonvacuous_permutation :
  permutation 5 (prg0 [1; 2; 7; 0; 3; 9]%N) = Ok [4; 1; 2; 3; 0]%Z (mkPrg [3; 9]%N [0; 0; 0; 0; 0; 0; 0; 0]%N) /\
  (5 < Z.of_N w63)%Z.
Proof. vm_compute. split; reflexivity. Qed.

Example C15_nonvacuous_subpermutation :
  subpermutation 5 2 (prg0 [1; 2; 7; 0; 3; 9]%N) = Ok [4; 1]%Z (mkPrg [3; 9]%N [0; 0; 0; 0; 0; 0; 0; 0]%N).
Proof. vm_compute. reflexivity. Qed.

Example C15_nonvacuous_samples :
  samples 5 3 (prg0 [6; 1; 3; 2]%N) = Ok [(0, 1); (1, 4); (2, 4)]%Z (mkPrg [] [2; 0; 0; 0; 0; 0; 0; 0]%N) /\
  apply_swaps [(0, 1); (1, 4); (2, 4)]%Z [10; 11; 12; 13; 14]%Z = Some [11; 14; 10; 13; 12]%Z.
Proof. vm_compute. split; reflexivity. Qed.

Example C15_nonvacuous_choices :
  io_valid 0 [0; 1; 0; 2]%nat /\ io_perm [0; 1; 0; 2]%nat = [2; 1; 3; 0]%Z /\
  fy_valid 5 0 [1; 3; 2]%nat /\ NoDup [10; 11; 12; 13; 14]%Z.
Proof.
  split; [cbn; repeat split; repeat constructor|]. split; [vm_compute; reflexivity|].
  split; [cbn; repeat split; repeat constructor|].
  repeat constructor; cbn; intuition discriminate.
Qed.

Example C15_nonvacuous_errors :
  permutation (-1) (prg0 []) = Err E_NEG_POPULATION /\
  samples 3 (-2) (prg0 []) = Err E_NEG_SAMPLE /\ subpermutation 3 4 (prg0 []) = Err E_SAMPLE_GT_POP /\
  uintn 0 (prg0 [1%N]) = Panic /\ uintn 300 (prg0 [1%N]) = OutOfTape.
Proof. vm_compute. repeat split; reflexivity. Qed.

(* ---------------- bounded exhaustive tests (NOT the claim: the theorems above are) ---------------- *)

(* all 256 one-chunk tapes and all 65536 two-chunk tapes for n = 1..4 resp. n = 3:
   the number of tapes returning v is the same for every v < n *)
Example C15_test_all_one_chunk_tapes_n_le_4 :
  map (fun n => map (count_tapes n (repeat 0%N 8) 1) (map N.of_nat (seq 0 (N.to_nat n)))) [1; 2; 3; 4]%N
  = [[1]; [128; 128]; [64; 64; 64]; [64; 64; 64; 64]]%nat.
Proof. vm_compute. reflexivity. Qed.

Example C15_test_all_two_chunk_tapes_n_3 :
  (let vals := map (uintn_value 3 (repeat 0xff%N 8)) (vectors 256 2) in
   map (fun v => N.of_nat (length (filter (fun o => opt_is o v) vals))) [0; 1; 2; 3]%N)
  = [20480; 20480; 20480; 0]%N.
Proof. vm_cast_no_check (eq_refl [20480; 20480; 20480; 0]%N). Qed.

Definition outcomes {A} (run : prg -> res A) (tapes : list (list N)) : list A :=
  flat_map (fun t => match run (prg0 t) with Ok a _ => [a] | _ => [] end) tapes.

Definition listZ_dec : forall a b : list Z, {a = b} + {a <> b} := list_eq_dec Z.eq_dec.

(* distinct elements, linear in (length * number of distinct elements) *)
Definition distinct (l : list (list Z)) : list (list Z) :=
  fold_left (fun acc x => if in_dec listZ_dec x acc then acc else x :: acc) l [].
Definition occurs (l : list (list Z)) (p : list Z) : N := N.of_nat (count_occ listZ_dec l p).

(* Permutation(3) on all 65536 two-byte tapes: 6 outcomes, each on exactly 128*64 tapes *)
Example C15_test_permutation_3_all_two_byte_tapes :
  (let outs := outcomes (permutation 3) (vectors 256 2) in
   let ds := distinct outs in
   Nat.eqb (length ds) 6 && forallb (fun p => N.eqb (occurs outs p) 8192) ds &&
   forallb (is_perm_of_range 3) ds) = true.
Proof. vm_cast_no_check (eq_refl true). Qed.

(* Permutation(4) on all 256 four-byte tapes over the byte alphabet {0,1,2,3} (only the low two
   bits of a byte are used for n <= 4): 24 outcomes, each on exactly 10 tapes *)
Example C15_test_permutation_4_all_tapes_low_bits :
  let outs := outcomes (permutation 4) (vectors 4 4) in
  let ds := distinct outs in
  length ds = 24%nat /\ forallb (fun p => N.eqb (occurs outs p) 10) ds = true /\
  forallb (is_perm_of_range 4) ds = true.
Proof. vm_compute. repeat split; reflexivity. Qed.

(* Samples(4,2) on all 64 three-byte tapes over {0,1,2,3}: 12 ordered samples, each on 5 tapes *)
Example C15_test_samples_4_2_all_tapes_low_bits :
  let outs := outcomes (fun s => match samples 4 2 s with
                                 | Ok sw s' => match apply_swaps sw [0; 1; 2; 3]%Z with
                                               | Some R => Ok (firstn 2 R) s' | None => Panic end
                                 | Err e => Err e | Panic => Panic
                                 | OutOfTape => OutOfTape | OutOfFuel => OutOfFuel end) (vectors 4 3) in
  let ds := distinct outs in
  length ds = 12%nat /\ forallb (fun p => N.eqb (occurs outs p) 5) ds = true.
Proof. vm_compute. repeat split; reflexivity. Qed.
