(* C07 - DKG: honest participants agree on the verdict and on consistent keys.
   Statements only; proofs in Proofs/DkgQualRefine.v (refinement of the Feldman-VSS-Qual
   handlers to the fact set of Spec/DkgQualFacts.v) and Proofs/DkgAgree.v.

   Setting (Model/DkgNet.v): every honest participant is described by the list L of inputs its
   instance processed between Start and End - broadcasts and private messages of ANY origin
   and content (the Byzantine participants are not machines: whatever they send just appears
   in these lists), the timeouts, ForceDisqualify - in ANY interleaving.  [annot L] tags each
   input with its phase. *)
From Coq Require Import ZArith List Bool Arith Lia.
From V Require Import Model.DkgVss Model.DkgQual Model.DkgJoint Model.DkgNet Spec.DkgQualFacts
  Proofs.DkgQualRefine Proofs.DkgAgree Proofs.DkgQualEvents Proofs.DkgQualFair.
Import ListNotations.
Open Scope Z_scope.

(* ---- the refinement ---- *)
(* after ANY input list processed by a running honest non-dealer: either the instance is not
   disqualified, its flags, vector, public shares and complaint map are the abstraction of the
   facts (first vector of phase 0 and its validity, first private message, complainers seen
   before the complaints timeout incl. the own complaint, FIRST answer per complainer, the
   private share), and Phi is false; or it is disqualified and Phi is true *)
Theorem C07_qual_refines_factset :
  forall cf d, (c_my cf < c_n cf)%nat -> (d < c_n cf)%nat -> c_my cf <> d ->
  forall L, Refines cf d (annot L) (irun cf d q_init L).
Proof. exact qual_refines_factset. Qed.
Print Assumptions C07_qual_refines_factset.

(* End after both timeouts: dkg-failure iff PhiEnd (Phi, or a complaint never answered), or the
   dealer's group key is the identity; otherwise the keys of the dealer's vector, with the own
   private share equal to the discrete log of the own public share *)
Theorem C07_qual_end_result :
  forall cf d, (c_my cf < c_n cf)%nat -> (d < c_n cf)%nat -> c_my cf <> d ->
  forall L, ph L = 2%nat ->
    let A := annot L in
    let '(_, _, res, _) := q_end cf d true (irun cf d q_init L) in
    (PhiEnd cf d A = true -> res = RFailure) /\
    (PhiEnd cf d A = false ->
       exists a0 al, vecOk cf d A = Some (a0 :: al) /\
         res = if a0 =? 0 then RFailure
               else RKeys (peval (a0 :: al) (Z.of_nat (c_my cf) + 1)) a0 (pubkeys cf (a0 :: al))).
Proof. exact qual_end_result. Qed.
Print Assumptions C07_qual_end_result.

(* ---- the verdict is a function of the common broadcast log ---- *)
(* PsiEnd reads: the dealer's phase-tagged broadcast sequence [bview d A], the set of
   complainers (the own complaint is a member: it is itself broadcast), whether
   ForceDisqualify(d) was called, and the number of elapsed timeouts - nothing else, in
   particular not the interleaving and not the private messages *)
Theorem C07_verdict_is_function_of_broadcast_log :
  forall cf d A,
    PhiEnd cf d A = PsiEnd (c_n cf) (c_t cf) (bview d A) (complained cf d A) (forced d A) (nph A).
Proof. exact PhiEnd_is_Psi. Qed.
Print Assumptions C07_verdict_is_function_of_broadcast_log.

(* the own complaint is itself in the broadcast log: as long as the participant has not
   disqualified the dealer, the model broadcasts the complaint message if and only if the
   declarative fact [ownc] (used by [complained] for the own index) holds.  This is what the
   network assumption "got_complaint j i = own_complaint i" of [admissible] expresses. *)
Theorem C07_own_complaint_is_broadcast :
  forall cf d, (c_my cf < c_n cf)%nat -> (d < c_n cf)%nat -> c_my cf <> d ->
  forall L, Phi cf d (annot L) = false ->
    (In (EvBcast (MComplaint (CIdx (Z.of_nat d)))) (irun_events cf d q_init L) <-> ownc cf d (annot L) = true).
Proof. intros cf d A B C L. exact (own_complaint_emitted_iff cf d A B C L). Qed.
Print Assumptions C07_own_complaint_is_broadcast.

(* ---- agreement, one dealer ---- *)
(* any two honest non-dealers of an admissible execution (same per-sender broadcast sequences
   in the same phases; an honest participant's complaint reaches the others before the
   complaints timeout) reach the same verdict on the dealer *)
Theorem C07_agreement_disqualified :
  forall n t d honest inputs, admissible n t d honest inputs ->
  forall i j, In i honest -> In j honest ->
    PhiEnd (cfg_of n t i) d (annot (inputs i)) = PhiEnd (cfg_of n t j) d (annot (inputs j)).
Proof. intros n t d honest inputs H. exact (agreement_disqualified n t d honest inputs H). Qed.
Print Assumptions C07_agreement_disqualified.

(* ... and the same outcome: all fail with dkg-failure, or all return the same group key and
   the same vector of public shares, each private share being the log of its public share *)
Theorem C07_agreement_outcome_qual :
  forall n t d honest inputs, (d < n)%nat -> admissible n t d honest inputs ->
  forall i j, In i honest -> In j honest ->
    let ri := let '(_, _, res, _) := q_end (cfg_of n t i) d true (irun (cfg_of n t i) d q_init (inputs i)) in res in
    let rj := let '(_, _, res, _) := q_end (cfg_of n t j) d true (irun (cfg_of n t j) d q_init (inputs j)) in res in
    (ri = RFailure /\ rj = RFailure) \/
    (exists xi xj Y ys, ri = RKeys xi Y ys /\ rj = RKeys xj Y ys /\
                        nth_error ys i = Some xi /\ nth_error ys j = Some xj /\ length ys = n).
Proof. intros n t d honest inputs Hd H. exact (agreement_outcome_qual n t d honest inputs Hd H). Qed.
Print Assumptions C07_agreement_outcome_qual.

(* ---- Joint-Feldman ---- *)
(* [inst_rel cf q oa]: instance q is disqualified (oa = None) or qualified with the dealer
   vector a (oa = Some a): vA = a, y = public shares of a, own share = P_a(my+1).
   Two participants whose n instances carry the same verdicts and the same vectors: *)

(* same group key, same public shares, own share = log of own public share, and all shares
   lie on ONE polynomial S with t+1 coefficients (degree <= t): the sum of the qualified
   dealers' polynomials; the group key is S(0) *)
Theorem C07_agreement_keys :
  forall (cf cf' : cfg) qs qs' oas,
    c_n cf' = c_n cf -> c_t cf' = c_t cf -> (c_my cf < c_n cf)%nat -> (c_my cf' < c_n cf')%nat ->
    Forall2 (inst_rel cf) qs oas -> Forall2 (inst_rel cf') qs' oas -> somes oas <> [] ->
    let S := psum (c_t cf) (somes oas) in
    exists x x' ys,
      length S = Datatypes.S (c_t cf) /\
      sum_up cf qs = Some (x, peval S 0, ys) /\ sum_up cf' qs' = Some (x', peval S 0, ys) /\
      ys = pubkeys cf S /\
      nth_error ys (c_my cf) = Some x /\ nth_error ys (c_my cf') = Some x'.
Proof. exact agreement_keys. Qed.
Print Assumptions C07_agreement_keys.

(* End (failure rule: more than t disqualified or not more than t qualified, then the sums):
   both fail or both return those keys - provided neither summed share is zero (a participant
   whose summed share is zero alone returns dkg-failure, see the _refuted example below) *)
Theorem C07_agreement_outcome_joint :
  forall (cf cf' : cfg) qs qs' oas,
    c_n cf' = c_n cf -> c_t cf' = c_t cf -> (c_my cf < c_n cf)%nat -> (c_my cf' < c_n cf')%nat ->
    length oas = c_n cf ->
    Forall2 (inst_rel cf) qs oas -> Forall2 (inst_rel cf') qs' oas ->
    let S := psum (c_t cf) (somes oas) in
    peval S (Z.of_nat (c_my cf) + 1) <> 0 -> peval S (Z.of_nat (c_my cf') + 1) <> 0 ->
    (joint_outcome cf qs = RFailure /\ joint_outcome cf' qs' = RFailure) \/
    (exists x x' ys,
       joint_outcome cf qs = RKeys x (peval S 0) ys /\ joint_outcome cf' qs' = RKeys x' (peval S 0) ys /\
       ys = pubkeys cf S /\ nth_error ys (c_my cf) = Some x /\ nth_error ys (c_my cf') = Some x' /\
       length S = Datatypes.S (c_t cf)).
Proof. exact agreement_outcome_joint. Qed.
Print Assumptions C07_agreement_outcome_joint.

(* [joint_outcome] is what JointFeldmanState.End returns after its first loop *)
Theorem C07_joint_end_is_outcome :
  forall cf s qs ev, j_jrun s = true ->
    jend_loop cf 0 (j_insts s) = (qs, ev, Some (length (filter q_disq qs))) ->
    snd (fst (joint_end cf s)) = joint_outcome cf qs.
Proof. exact joint_end_outcome. Qed.
Print Assumptions C07_joint_end_is_outcome.

(* without the non-zero hypothesis the outcome agreement is refuted in the model (n = 3, t = 1,
   dealers 0 and 1 qualified with P_0 = -2 + X and P_1 = 1, dealer 2 disqualified): the sum is
   S = -1 + X, S(1) = 0: participant 0 gets dkg-failure, participant 1 keys.
   Needs a dealer that knows the others' polynomials (or probability 1/r); the code documents
   it ("does not weaken the likelihood of generating an identity key to practical
   probabilities"). *)
Definition mk_inst (cf : cfg) (a : list Z) : qinst :=
  mkQ (mkV None (VAFull a) true (peval a (Z.of_nat (c_my cf) + 1)) true (Some (pubkeys cf a)) false)
      (fun _ => None) false true true.
Definition dq_inst : qinst := mkQ v_init (fun _ => None) true true true.

Theorem C07_agreement_outcome_joint_refuted :
  let oas := [Some [r - 2; 1]; Some [1; 0]; None] in
  let cf0 := mkCfg 3 1 0 in let cf1 := mkCfg 3 1 1 in
  let qs0 := [mk_inst cf0 [r - 2; 1]; mk_inst cf0 [1; 0]; dq_inst] in
  let qs1 := [mk_inst cf1 [r - 2; 1]; mk_inst cf1 [1; 0]; dq_inst] in
  Forall2 (inst_rel cf0) qs0 oas /\ Forall2 (inst_rel cf1) qs1 oas /\
  joint_outcome cf0 qs0 = RFailure /\ joint_outcome cf1 qs1 = RKeys 1 (r - 1) [0; 1; 2].
Proof.
  cbn zeta. split; [|split; [|split; vm_compute; reflexivity]].
  - repeat constructor; cbn; eauto; vm_compute; reflexivity.
  - repeat constructor; cbn; eauto; vm_compute; reflexivity.
Qed.

(* ---- non-vacuity ---- *)
(* an admissible execution with a Byzantine dealer 0 (n = 3, t = 1): participant 1 gets a bad
   share and complains, the dealer answers correctly; participant 2 sees the complaint and the
   answer in the other order *)
Example C07_admissible_nonvacuous :
  let inputs := fun i =>
    if Nat.eqb i 1 then [IB 0 (MVec (VOk [5; 3])); IP 0 (MShare (SVal 12)); ITimeout; IB 0 (MAnswer (AVal 1 11)); ITimeout]
    else [IP 0 (MShare (SVal 14)); IB 0 (MVec (VOk [5; 3])); ITimeout; IB 0 (MAnswer (AVal 1 11)); IB 1 (MComplaint (CIdx 0)); ITimeout] in
  admissible 3 1 0 [1%nat; 2%nat] inputs /\
  PhiEnd (cfg_of 3 1 1) 0 (annot (inputs 1%nat)) = false.
Proof.
  cbn zeta. split; [|vm_compute; reflexivity].
  unfold admissible.
  assert (Hmem : forall i, In i [1%nat; 2%nat] -> i = 1%nat \/ i = 2%nat) by (intros i [E|[E|[]]]; auto).
  split; [|split; [|split; [|split]]].
  - intros i Hi. destruct (Hmem i Hi) as [->| ->]; vm_compute; repeat split; try lia; discriminate.
  - intros i j Hi Hj. destruct (Hmem i Hi) as [->| ->]; destruct (Hmem j Hj) as [->| ->]; vm_compute; reflexivity.
  - intros i j c Hi Hj Hci Hcj. destruct (Hmem i Hi) as [->| ->]; destruct (Hmem j Hj) as [->| ->]; try reflexivity;
      destruct c as [|[|[|c]]]; try (exfalso; auto; fail); vm_compute; reflexivity.
  - intros i j Hi Hj Hij. destruct (Hmem i Hi) as [->| ->]; destruct (Hmem j Hj) as [->| ->];
      try (exfalso; auto; fail); vm_compute; reflexivity.
  - intros i j Hi Hj. destruct (Hmem i Hi) as [->| ->]; destruct (Hmem j Hj) as [->| ->]; vm_compute; reflexivity.
Qed.

Example C07_joint_keys_nonvacuous :
  let cf := mkCfg 3 1 1 in
  exists qs, Forall2 (inst_rel cf) qs [Some [5; 3]; Some [7; 2]; None] /\
             joint_outcome cf qs = RKeys 22 12 [17; 22; 27].
Proof.
  exists [mk_inst (mkCfg 3 1 1) [5; 3]; mk_inst (mkCfg 3 1 1) [7; 2]; dq_inst].
  split; [repeat constructor; cbn; eauto; vm_compute; reflexivity|vm_compute; reflexivity].
Qed.
