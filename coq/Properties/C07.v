(* C07 - DKG: honest participants agree on the verdict and on consistent keys.
   Statements only; proofs in Proofs/DkgQualRefine.v (refinement of the Feldman-VSS-Qual
   handlers to the fact set of Spec/DkgQualFacts.v) and Proofs/DkgAgree.v.

   Setting (Model/DkgNet.v): every honest participant is described by the list L of inputs its
   instance processed between Start and End - broadcasts and private messages of ANY origin
   and content (the Byzantine participants are not machines: whatever they send just appears
   in these lists), the timeouts, ForceDisqualify - in ANY interleaving.  [annot L] tags each
   input with its phase. *)
From Coq Require Import ZArith List Bool Arith Lia.
From V Require Import Model.DkgVss Model.DkgQual Model.DkgJoint Model.DkgNet Spec.DkgQualFacts
  Proofs.DkgQualRefine Proofs.DkgAgree Proofs.DkgQualEvents Proofs.DkgQualFair.
Import ListNotations.
Open Scope Z_scope.

(* ---- the refinement ---- *)
(* after ANY input list processed by a running honest non-dealer: either the instance is not
   disqualified, its flags, vector, public shares and complaint map are the abstraction of the
   facts (first vector of phase 0 and its validity, first private message, complainers seen
   before the complaints timeout incl. the own complaint, FIRST answer per complainer, the
   private share), and Phi is false; or it is disqualified and Phi is true *)
Theorem C07_qual_refines_factset :
  forall cf d, (c_my cf < c_n cf)%nat -> (d < c_n cf)%nat -> c_my cf <> d ->
  forall L, Refines cf d (annot L) (irun cf d q_init L).
Proof. exact qual_refines_factset. Qed.
Print Assumptions C07_qual_refines_factset.

(* End after both timeouts: dkg-failure iff PhiEnd (Phi, or a complaint never answered), or the
   dealer's group key is the identity; otherwise the keys of the dealer's vector, with the own
   private share equal to the discrete log of the own public share *)
Theorem C07_qual_end_result :
  forall cf d, (c_my cf < c_n cf)%nat -> (d < c_n cf)%nat -> c_my cf <> d ->
  forall L, ph L = 2%nat ->
    let A := annot L in
    let '(_, _, res, _) := q_end cf d true (irun cf d q_init L) in
    (PhiEnd cf d A = true -> res = RFailure) /\
    (PhiEnd cf d A = false ->
       exists a0 al, vecOk cf d A = Some (a0 :: al) /\
         res = if a0 =? 0 then RFailure
               else RKeys (peval (a0 :: al) (Z.of_nat (c_my cf) + 1)) a0 (pubkeys cf (a0 :: al))).
Proof. exact qual_end_result. Qed.
Print Assumptions C07_qual_end_result.

(* ---- the verdict is a function of the common broadcast log ---- *)
(* PsiEnd reads: the dealer's phase-tagged broadcast sequence [bview d A], the set of
   complainers (the own complaint is a member: it is itself broadcast), whether
   ForceDisqualify(d) was called, and the number of elapsed timeouts - nothing else, in
   particular not the interleaving and not the private messages *)
Theorem C07_verdict_is_function_of_broadcast_log :
  forall cf d A,
    PhiEnd cf d A = PsiEnd (c_n cf) (c_t cf) (bview d A) (complained cf d A) (forced d A) (nph A).
Proof. exact PhiEnd_is_Psi. Qed.
Print Assumptions C07_verdict_is_function_of_broadcast_log.

(* the own complaint is itself in the broadcast log: as long as the participant has not
   disqualified the dealer, the model broadcasts the complaint message if and only if the
   declarative fact [ownc] (used by [complained] for the own index) holds.  This is what the
   network assumption "got_complaint j i = own_complaint i" of [admissible] expresses. *)
Theorem C07_own_complaint_is_broadcast :
  forall cf d, (c_my cf < c_n cf)%nat -> (d < c_n cf)%nat -> c_my cf <> d ->
  forall L, Phi cf d (annot L) = false ->
    (In (EvBcast (MComplaint (CIdx (Z.of_nat d)))) (irun_events cf d q_init L) <-> ownc cf d (annot L) = true).
Proof. intros cf d A B C L. exact (own_complaint_emitted_iff cf d A B C L). Qed.
Print Assumptions C07_own_complaint_is_broadcast.

(* ---- agreement, one dealer ---- *)
(* any two honest non-dealers of an admissible execution (same per-sender broadcast sequences
   in the same phases; an honest participant's complaint reaches the others before the
   complaints timeout) reach the same verdict on the dealer *)
Theorem C07_agreement_disqualified :
  forall n t d honest inputs, admissible n t d honest inputs ->
  forall i j, In i honest -> In j honest ->
    PhiEnd (cfg_of n t i) d (annot (inputs i)) = PhiEnd (cfg_of n t j) d (annot (inputs j)).
Proof. intros n t d honest inputs H. exact (agreement_disqualified n t d honest inputs H). Qed.
Print Assumptions C07_agreement_disqualified.

(* ... and the same outcome: all fail with dkg-failure, or all return the same group key and
   the same vector of public shares, each private share being the log of its public share *)
Theorem C07_agreement_outcome_qual :
  forall n t d honest inputs, (d < n)%nat -> admissible n t d honest inputs ->
  forall i j, In i honest -> In j honest ->
    let ri := let '(_, _, res, _) := q_end (cfg_of n t i) d true (irun (cfg_of n t i) d q_init (inputs i)) in res in
    let rj := let '(_, _, res, _) := q_end (cfg_of n t j) d true (irun (cfg_of n t j) d q_init (inputs j)) in res in
    (ri = RFailure /\ rj = RFailure) \/
    (exists xi xj Y ys, ri = RKeys xi Y ys /\ rj = RKeys xj Y ys /\
                        nth_error ys i = Some xi /\ nth_error ys j = Some xj /\ length ys = n).
Proof. intros n t d honest inputs Hd H. exact (agreement_outcome_qual n t d honest inputs Hd H). Qed.
Print Assumptions C07_agreement_outcome_qual.

(* ---- Joint-Feldman ---- *)
(* [inst_rel cf q oa]: instance q is disqualified (oa = None) or qualified with the dealer
   vector a (oa = Some a): vA = a, y = public shares of a, own share = P_a(my+1).
   Two participants whose n instances carry the same verdicts and the same vectors: *)

(* same group key, same public shares, own share = log of own public share, and all shares
   lie on ONE polynomial S with t+1 coefficients (degree <= t): the sum of the qualified
   dealers' polynomials; the group key is S(0) *)
Theorem C07_agreement_keys :
  forall (cf cf' : cfg) qs qs' oas,
    c_n cf' = c_n cf -> c_t cf' = c_t cf -> (c_my cf < c_n cf)%nat -> (c_my cf' < c_n cf')%nat ->
    Forall2 (inst_rel cf) qs oas -> Forall2 (inst_rel cf') qs' oas -> somes oas <> [] ->
    let S := psum (c_t cf) (somes oas) in
    exists x x' ys,
      length S = Datatypes.S (c_t cf) /\
      sum_up cf qs = Some (x, peval S 0, ys) /\ sum_up cf' qs' = Some (x', peval S 0, ys) /\
      ys = pubkeys cf S /\
      nth_error ys (c_my cf) = Some x /\ nth_error ys (c_my cf') = Some x'.
Proof. exact agreement_keys. Qed.
Print Assumptions C07_agreement_keys.

(* End (failure rule: more than t disqualified or not more than t qualified, then the sums):
   both fail or both return those keys - provided neither summed share is zero (a participant
   whose summed share is zero alone returns dkg-failure, see the _refuted example below) *)
Theorem C07_agreement_outcome_joint :
  forall (cf cf' : cfg) qs qs' oas,
    c_n cf' = c_n cf -> c_t cf' = c_t cf -> (c_my cf < c_n cf)%nat -> (c_my cf' < c_n cf')%nat ->
    length oas = c_n cf ->
    Forall2 (inst_rel cf) qs oas -> Forall2 (inst_rel cf') qs' oas ->
    let S := psum (c_t cf) (somes oas) in
    peval S (Z.of_nat (c_my cf) + 1) <> 0 -> peval S (Z.of_nat (c_my cf') + 1) <> 0 ->
    (joint_outcome cf qs = RFailure /\ joint_outcome cf' qs' = RFailure) \/
    (exists x x' ys,
       joint_outcome cf qs = RKeys x (peval S 0) ys /\ joint_outcome cf' qs' = RKeys x' (peval S 0) ys /\
       ys = pubkeys cf S /\ nth_error ys (c_my cf) = Some x /\ nth_error ys (c_my cf') = Some x' /\
       length S = Datatypes.S (c_t cf)).
Proof. exact agreement_outcome_joint. Qed.
Print Assumptions C07_agreement_outcome_joint.

(* [joint_outcome] is what JointFeldmanState.End returns after its first loop *)
Theorem C07_joint_end_is_outcome :
  forall cf s qs ev, j_jrun s = true ->
    jend_loop cf 0 (j_insts s) = (qs, ev, Some (length (filter q_disq qs))) ->
    snd (fst (joint_end cf s)) = joint_outcome cf qs.
Proof. exact joint_end_outcome. Qed.
Print Assumptions C07_joint_end_is_outcome.

(* without the non-zero hypothesis the outcome agreement is refuted in the model (n = 3, t = 1,
   dealers 0 and 1 qualified with P_0 = -2 + X and P_1 = 1, dealer 2 disqualified): the sum is
   S = -1 + X, S(1) = 0: participant 0 gets dkg-failure, participant 1 keys.
   Needs a dealer that knows the others' polynomials (or probability 1/r); the code documents
   it ("does not weaken the likelihood of generating an identity key to practical
   probabilities"). *)
Definition mk_inst (cf : cfg) (a : list Z) : qinst :=
  mkQ (mkV None (VAFull a) true (peval a (Z.of_nat (c_my cf) + 1)) true (Some (pubkeys cf a)) false)
      (fun _ => None) false true true.
Definition dq_inst : qinst := mkQ v_init (fun _ => None) true true true.

Theorem C07_agreement_outcome_joint_refuted :
  let oas := [Some [r - 2; 1]; Some [1; 0]; None] in
  let cf0 := mkCfg 3 1 0 in let cf1 := mkCfg 3 1 1 in
  let qs0 := [mk_inst cf0 [r - 2; 1]; mk_inst cf0 [1; 0]; dq_inst] in
  let qs1 := [mk_inst cf1 [r - 2; 1]; mk_inst cf1 [1; 0]; dq_inst] in
  Forall2 (inst_rel cf0) qs0 oas /\ Forall2 (inst_rel cf1) qs1 oas /\
  joint_outcome cf0 qs0 = RFailure /\ joint_outcome cf1 qs1 = RKeys 1 (r - 1) [0; 1; 2].
Proof.
  cbn zeta. split; [|split; [|split; vm_compute; reflexivity]].
  - repeat constructor; cbn; eauto; vm_compute; reflexivity.
  - repeat constructor; cbn; eauto; vm_compute; reflexivity.
Qed.

(* ---- non-vacuity ---- *)
(* an admissible execution with a Byzantine dealer 0 (n = 3, t = 1): participant 1 gets a bad
   share and complains, the dealer answers correctly; participant 2 sees the complaint and the
   answer in the other order *)
Example C07_admissible_nonvacuous :
  let inputs := fun i =>
    if Nat.eqb i 1 then [IB 0 (MVec (VOk [5; 3])); IP 0 (MShare (SVal 12)); ITimeout; IB 0 (MAnswer (AVal 1 11)); ITimeout]
    else [IP 0 (MShare (SVal 14)); IB 0 (MVec (VOk [5; 3])); ITimeout; IB 0 (MAnswer (AVal 1 11)); IB 1 (MComplaint (CIdx 0)); ITimeout] in
  admissible 3 1 0 [1%nat; 2%nat] inputs /\
  PhiEnd (cfg_of 3 1 1) 0 (annot (inputs 1%nat)) = false.
Proof.
  cbn zeta. split; [|vm_compute; reflexivity].
  unfold admissible.
  assert (Hmem : forall i, In i [1%nat; 2%nat] -> i = 1%nat \/ i = 2%nat) by (intros i [E|[E|[]]]; auto).
  split; [|split; [|split; [|split]]].
  - intros i Hi. destruct (Hmem i Hi) as [->| ->]; vm_compute; repeat split; try lia; discriminate.
  - intros i j Hi Hj. destruct (Hmem i Hi) as [->| ->]; destruct (Hmem j Hj) as [->| ->]; vm_compute; reflexivity.
  - intros i j c Hi Hj Hci Hcj. destruct (Hmem i Hi) as [->| ->]; destruct (Hmem j Hj) as [->| ->]; try reflexivity;
      destruct c as [|[|[|c]]]; try (exfalso; auto; fail); vm_compute; reflexivity.
  - intros i j Hi Hj Hij. destruct (Hmem i Hi) as [->| ->]; destruct (Hmem j Hj) as [->| ->];
      try (exfalso; auto; fail); vm_compute; reflexivity.
  - intros i j Hi Hj. destruct (Hmem i Hi) as [->| ->]; destruct (Hmem j Hj) as [->| ->]; vm_compute; reflexivity.
Qed.

Example C07_joint_keys_nonvacuous :
  let cf := mkCfg 3 1 1 in
  exists qs, Forall2 (inst_rel cf) qs [Some [5; 3]; Some [7; 2]; None] /\
             joint_outcome cf qs = RKeys 22 12 [17; 22; 27].
Proof.
  exists [mk_inst (mkCfg 3 1 1) [5; 3]; mk_inst (mkCfg 3 1 1) [7; 2]; dq_inst].
  split; [repeat constructor; cbn; eauto; vm_compute; reflexivity|vm_compute; reflexivity].
Qed.

(* ====================================================================================== *)
(* The Joint-Feldman execution link (Proofs/DkgJointLink.v): the statements above are about  *)
(* per-instance data ([inst_rel]); the theorems below connect them to executions of the      *)
(* Joint-Feldman machine ([joint_step]) itself.                                              *)
(* ====================================================================================== *)
From V Require Import Spec.DkgApiSpec Proofs.DkgC10Proofs Proofs.DkgJointLink.

(* Start(seed) on a fresh instance: the own dealer instance holds the polynomial of the seed,
   its vector, public shares and own share; the shares P(j+1) are sent to every j <> my in
   index order, then the vector is broadcast; all other instances are untouched *)
Theorem C07_joint_start_deals :
  forall cf, (c_my cf < c_n cf)%nat -> forall a0,
    seed_fails cf (SeedOk a0) = false ->
    let a := fixpoly (c_t cf) a0 in
    joint_start cf (joint_init cf) (SeedOk a0) = (started cf a, ROk, start_events cf a).
Proof. exact joint_start_ok. Qed.
Print Assumptions C07_joint_start_deals.

(* ONE step: an input call (HandleBroadcastMsg / HandlePrivateMsg / NextTimeout /
   ForceDisqualify with ANY origin and message) on a running Joint-Feldman state never panics,
   keeps it running, and changes instance i exactly as the single-dealer Feldman-VSS-Qual step
   with dealer i does (a refused call - state error, invalid input - is a no-op everywhere) *)
Theorem C07_joint_step_is_fanout :
  forall cf, (c_my cf < c_n cf)%nat -> forall s c,
    jinv cf s -> j_jrun s = true -> is_input c = true ->
    let '(s', res, _) := joint_step cf s c in
    res <> RPanic /\ jinv cf s' /\ j_jrun s' = true /\
    j_insts s' = mapi (fun i q => qcall cf i q c) 0 (j_insts s).
Proof. exact joint_step_link. Qed.
Print Assumptions C07_joint_step_is_fanout.

(* EVERY list of input calls after a successful Start: instance i of the Joint state is the
   state the single-dealer model with dealer i reaches on the SAME calls *)
Theorem C07_joint_instances_are_qual_runs :
  forall cf, (c_my cf < c_n cf)%nat -> forall a0 L,
    seed_fails cf (SeedOk a0) = false -> forallb is_input L = true ->
    let a := fixpoly (c_t cf) a0 in
    let s := final (joint_step cf) (joint_init cf) (CStart (SeedOk a0) :: L) in
    j_jrun s = true /\ j_run s = true /\ length (j_insts s) = c_n cf /\
    (forall i, (i < c_n cf)%nat -> nth_error (j_insts s) i = Some (qrun cf i (q0 cf a i) L)) /\
    length (run (joint_step cf) (joint_init cf) (CStart (SeedOk a0) :: L)) = S (length L) /\
    (forall o, In o (run (joint_step cf) (joint_init cf) (CStart (SeedOk a0) :: L)) -> fst o <> RPanic).
Proof. exact joint_instances. Qed.
Print Assumptions C07_joint_instances_are_qual_runs.

(* ... and [qrun] is literally the run of the Feldman-VSS-Qual machine of dealer i *)
Theorem C07_qual_machine_run :
  forall cf, (c_my cf < c_n cf)%nat -> forall i a0 L,
    (i < c_n cf)%nat -> seed_fails cf (SeedOk a0) = false -> forallb is_input L = true ->
    final (qual_step cf i) qual_init (CStart (SeedOk a0) :: L)
    = mkQS true (qrun cf i (q0 cf (fixpoly (c_t cf) a0) i) L).
Proof. exact qual_model_run. Qed.
Print Assumptions C07_qual_machine_run.

(* End: every instance is closed as by the single-dealer End ([endq]: an unanswered complaint
   disqualifies), and the result is the failure / sum rule over the closed instances *)
Theorem C07_joint_end_link :
  forall cf s, j_jrun s = true -> same_to (j_insts s) true true ->
    snd (fst (joint_end cf s)) = joint_outcome cf (map (endq cf) (j_insts s)) /\
    j_jrun (fst (fst (joint_end cf s))) = false.
Proof. exact joint_end_link. Qed.
Print Assumptions C07_joint_end_link.

(* the dealer side: after ANY inputs the own instance still holds the dealt polynomial, every
   complaint received in time was answered, and it is disqualified iff [DPhi]: ForceDisqualify
   on itself, or more than t complainers at the complaints timeout *)
Theorem C07_own_instance :
  forall cf, (c_my cf < c_n cf)%nat -> forall a, (exists a0 al, a = a0 :: al) ->
  forall items, DRef cf a (annot items) (irun cf (c_my cf) (q_own cf a) items).
Proof. exact own_refines. Qed.
Print Assumptions C07_own_instance.

(* ... and what it emits after Start, at every point of every run: no private message, and as
   broadcasts only correct answers (the share P(c+1) of a complainer c); together with
   C07_joint_start_deals these are the broadcasts [honest_dealer_view] expects to be delivered *)
Theorem C07_own_instance_events :
  forall cf, (c_my cf < c_n cf)%nat -> forall a, (exists a0 al, a = a0 :: al) ->
  forall items, Forall (own_event_ok cf a) (irun_events cf (c_my cf) (q_own cf a) items).
Proof. exact own_events_ok. Qed.
Print Assumptions C07_own_instance_events.

(* one participant, Start(seed) ; any input calls with both timeouts ; End: the result is
   [joint_outcome] of instances that satisfy the per-dealer verdicts ([verdicts]: DPhi and the
   own polynomial for the own instance, PhiEnd and the dealer's vector for the others) *)
Theorem C07_joint_run_end :
  forall cf, (c_my cf < c_n cf)%nat -> forall a0 L,
    seed_fails cf (SeedOk a0) = false -> forallb is_input L = true -> ph (items_of cf L) = 2%nat ->
    let s := final (joint_step cf) (joint_init cf) (CStart (SeedOk a0) :: L) in
    snd (fst (joint_step cf s CEnd)) = joint_outcome cf (map (endq cf) (j_insts s)) /\
    j_jrun (fst (fst (joint_step cf s CEnd))) = false /\
    Forall2 (inst_rel cf) (map (endq cf) (j_insts s)) (verdicts cf a0 L).
Proof. exact joint_run_end. Qed.
Print Assumptions C07_joint_run_end.

(* AGREEMENT ON JOINT-FELDMAN EXECUTIONS.  Two honest participants i <> j run the real machine:
   Start(seed), then ANY input calls (any origins, any messages, any interleaving; both
   timeouts), then End.  Network hypotheses only: [admissible] for the instance of every other
   dealer d (honest or Byzantine), [honest_dealer_view] for the instances of i and j themselves
   (what the other one receives from an honest dealer).  No hypothesis on instance states.
   Conclusion: both return dkg-failure, or both return the same group key S(0) and the same
   public shares, each with its own share of the sum S of the polynomials of the dealers both
   kept (degree t).  The zero-own-share failure of the code is excluded explicitly. *)
Theorem C07_joint_agreement_on_runs :
  forall n t i j, (i < n)%nat -> (j < n)%nat -> i <> j ->
  forall si sj Li Lj,
    let cfi := cfg_of n t i in let cfj := cfg_of n t j in
    seed_fails cfi (SeedOk si) = false -> seed_fails cfj (SeedOk sj) = false ->
    forallb is_input Li = true -> forallb is_input Lj = true ->
    let Ii := items_of cfi Li in let Ij := items_of cfj Lj in
    ph Ii = 2%nat -> ph Ij = 2%nat ->
    let inputs := fun k => if Nat.eqb k i then Ii else Ij in
    (forall d, (d < n)%nat -> d <> i -> d <> j -> admissible n t d [i; j] inputs) ->
    honest_dealer_view n t i j (fixpoly t si) Ii Ij ->
    honest_dealer_view n t j i (fixpoly t sj) Ij Ii ->
    let end_i := final (joint_step cfi) (joint_init cfi) (CStart (SeedOk si) :: Li) in
    let end_j := final (joint_step cfj) (joint_init cfj) (CStart (SeedOk sj) :: Lj) in
    let res_i := snd (fst (joint_step cfi end_i CEnd)) in
    let res_j := snd (fst (joint_step cfj end_j CEnd)) in
    let S := psum t (somes (verdicts cfi si Li)) in
    peval S (Z.of_nat i + 1) <> 0 -> peval S (Z.of_nat j + 1) <> 0 ->
    (res_i = RFailure /\ res_j = RFailure) \/
    (exists x x' ys,
       res_i = RKeys x (peval S 0) ys /\ res_j = RKeys x' (peval S 0) ys /\
       ys = pubkeys cfi S /\ nth_error ys i = Some x /\ nth_error ys j = Some x' /\
       length S = Datatypes.S t).
Proof. exact joint_agreement_on_runs. Qed.
Print Assumptions C07_joint_agreement_on_runs.

(* the two participants reach the same verdict and vector for EVERY dealer *)
Theorem C07_joint_verdicts_agree :
  forall n t i j, (i < n)%nat -> (j < n)%nat -> i <> j ->
  forall si sj Li Lj,
    let cfi := cfg_of n t i in let cfj := cfg_of n t j in
    let Ii := items_of cfi Li in let Ij := items_of cfj Lj in
    ph Ii = 2%nat -> ph Ij = 2%nat ->
    let inputs := fun k => if Nat.eqb k i then Ii else Ij in
    (forall d, (d < n)%nat -> d <> i -> d <> j -> admissible n t d [i; j] inputs) ->
    honest_dealer_view n t i j (fixpoly t si) Ii Ij ->
    honest_dealer_view n t j i (fixpoly t sj) Ij Ii ->
    verdicts cfj sj Lj = verdicts cfi si Li.
Proof. exact verdicts_agree. Qed.
Print Assumptions C07_joint_verdicts_agree.

(* ---- non-vacuity of the execution theorems: n = 3, t = 1, participants 0 and 1 honest with
   seeds [5;3] and [7;2], dealer 2 silent (disqualified by both: no vector at the shares
   timeout); some refused calls (origin out of range) are mixed in.  All hypotheses of
   C07_joint_agreement_on_runs hold, and the real machine returns at both participants the group
   key 12 = 5 + 7 and the public shares of S = 12 + 5 X, each with its own share ---- *)
Definition ex_L0 : list call :=
  [CBroadcast 1 (MVec (VOk [7; 2])); CForce 7; CPrivate 1 (MShare (SVal 9)); CNextTimeout; CNextTimeout].
Definition ex_L1 : list call :=
  [CPrivate 0 (MShare (SVal 11)); CBroadcast 0 (MVec (VOk [5; 3])); CNextTimeout; CBroadcast 9 MEmpty; CNextTimeout].

Ltac comp_annot :=
  repeat match goal with |- context [annot (items_of ?cf ?L)] =>
    let A := eval vm_compute in (annot (items_of cf L)) in change (annot (items_of cf L)) with A end;
  repeat match goal with |- context [fixpoly ?t ?l] =>
    let a := eval vm_compute in (fixpoly t l) in change (fixpoly t l) with a end.

Ltac in_cases H := cbn [In] in H; repeat (destruct H as [H|H]; try discriminate H); try contradiction.

Ltac hd_view :=
  unfold honest_dealer_view; comp_annot;
  split; [|split; [vm_compute; reflexivity|split; [|vm_compute; reflexivity]]];
  [ unfold honest_dealer_log; cbn [cfg_of c_n c_t c_my];
    split; [vm_compute; reflexivity|];
    split; [intros k m H; in_cases H; inversion H; subst; left; split; reflexivity|];
    split; [cbn [In]; auto 10|];
    split; [intros k m H; in_cases H; inversion H; subst; split; vm_compute; reflexivity|];
    split; [exists 0%nat; vm_compute; auto 10|];
    split; [vm_compute; reflexivity|];
    intros c Hc; destruct c as [|[|[|c]]]; [vm_compute; reflexivity ..|lia]
  | let c := fresh "c" in intro c; unfold keyF, complained; cbn [cfg_of c_my];
    match goal with |- context [Nat.eqb c ?p] => destruct (Nat.eqb c p) end; vm_compute; reflexivity ].

Example C07_joint_agreement_nonvacuous :
  let cf0 := cfg_of 3 1 0 in let cf1 := cfg_of 3 1 1 in
  let I0 := items_of cf0 ex_L0 in let I1 := items_of cf1 ex_L1 in
  let inputs := fun k => if Nat.eqb k 0 then I0 else I1 in
  let end_0 := final (joint_step cf0) (joint_init cf0) (CStart (SeedOk [5; 3]) :: ex_L0) in
  let end_1 := final (joint_step cf1) (joint_init cf1) (CStart (SeedOk [7; 2]) :: ex_L1) in
  let S := psum 1 (somes (verdicts cf0 [5; 3] ex_L0)) in
  (seed_fails cf0 (SeedOk [5; 3]) = false /\ seed_fails cf1 (SeedOk [7; 2]) = false /\
   forallb is_input ex_L0 = true /\ forallb is_input ex_L1 = true /\
   ph I0 = 2%nat /\ ph I1 = 2%nat) /\
  (forall d, (d < 3)%nat -> d <> 0%nat -> d <> 1%nat -> admissible 3 1 d [0%nat; 1%nat] inputs) /\
  honest_dealer_view 3 1 0 1 (fixpoly 1 [5; 3]) I0 I1 /\
  honest_dealer_view 3 1 1 0 (fixpoly 1 [7; 2]) I1 I0 /\
  (peval S (Z.of_nat 0 + 1) <> 0 /\ peval S (Z.of_nat 1 + 1) <> 0) /\
  verdicts cf0 [5; 3] ex_L0 = [Some [5; 3]; Some [7; 2]; None] /\
  snd (fst (joint_step cf0 end_0 CEnd)) = RKeys 17 12 [17; 22; 27] /\
  snd (fst (joint_step cf1 end_1 CEnd)) = RKeys 22 12 [17; 22; 27].
Proof.
  cbn zeta.
  split; [repeat split; vm_compute; reflexivity|].
  split.
  { intros d Hd H0 H1. assert (d = 2%nat) by lia. subst d. clear Hd H0 H1.
    assert (Hmem : forall i, In i [0%nat; 1%nat] -> i = 0%nat \/ i = 1%nat) by (intros i [E|[E|[]]]; auto).
    unfold admissible. split; [|split; [|split; [|split]]].
    - intros i Hi. destruct (Hmem i Hi) as [->| ->]; vm_compute; repeat split; try lia; discriminate.
    - intros i j Hi Hj. destruct (Hmem i Hi) as [->| ->]; destruct (Hmem j Hj) as [->| ->]; vm_compute; reflexivity.
    - intros i j c Hi Hj Hci Hcj. destruct (Hmem i Hi) as [->| ->]; destruct (Hmem j Hj) as [->| ->]; try reflexivity;
        destruct c as [|[|[|c]]]; try (exfalso; auto; fail); vm_compute; reflexivity.
    - intros i j Hi Hj Hij. destruct (Hmem i Hi) as [->| ->]; destruct (Hmem j Hj) as [->| ->];
        try (exfalso; auto; fail); vm_compute; reflexivity.
    - intros i j Hi Hj. destruct (Hmem i Hi) as [->| ->]; destruct (Hmem j Hj) as [->| ->]; vm_compute; reflexivity. }
  split; [hd_view|]. split; [hd_view|].
  split; [split; vm_compute; discriminate|].
  split; [vm_compute; reflexivity|]. split; vm_compute; reflexivity.
Qed.
