(* C07 - DKG: honest participants agree on the verdict and on consistent keys.
   Statements only; proofs in Proofs/DkgQualRefine.v and Proofs/DkgAgree.v. *)
From Coq Require Import ZArith List Bool Arith Lia.
From V Require Import Model.DkgVss Model.DkgQual Spec.DkgQualFacts Proofs.DkgQualRefine.
Import ListNotations.
Open Scope Z_scope.

(* the invariant of the refinement: after ANY list of inputs (broadcasts and private messages
   of any origin and content, timeouts, ForceDisqualify) processed by a running honest
   non-dealer, either the instance is not disqualified, its flags and complaint map are the
   abstraction of the facts and Phi is false, or it is disqualified and Phi is true *)
Theorem C07_qual_refines_factset :
  forall cf d, (c_my cf < c_n cf)%nat -> (d < c_n cf)%nat -> c_my cf <> d ->
  forall L, Refines cf d (annot L) (irun cf d q_init L).
Proof. exact qual_refines_factset. Qed.
Print Assumptions C07_qual_refines_factset.
