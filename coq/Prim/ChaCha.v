(* RFC 8439 ChaCha20 block function and keystream, executable, on N.
   Written from the RFC text (section 2.1-2.4), not from x/crypto. *)
From Coq Require Import NArith List.
Import ListNotations.
Open Scope N_scope.

Definition w32 : N := 4294967296.
Definition m32 : N := 4294967295.
Definition add32 (a b : N) : N := (a + b) mod w32.
Definition rotl32 (x k : N) : N :=
  N.lor (N.land (N.shiftl x k) m32) (N.shiftr x (32 - k)).

Definition qr (q : N * N * N * N) : N * N * N * N :=
  let '(a, b, c, d) := q in
  let a := add32 a b in let d := rotl32 (N.lxor d a) 16 in
  let c := add32 c d in let b := rotl32 (N.lxor b c) 12 in
  let a := add32 a b in let d := rotl32 (N.lxor d a) 8 in
  let c := add32 c d in let b := rotl32 (N.lxor b c) 7 in
  (a, b, c, d).

Fixpoint upd {A} (l : list A) (i : nat) (v : A) : list A :=
  match l, i with
  | [], _ => []
  | _ :: t, O => v :: t
  | h :: t, S i' => h :: upd t i' v
  end.

Definition qround (s : list N) (i j k l : nat) : list N :=
  let '(a, b, c, d) := qr (nth i s 0, nth j s 0, nth k s 0, nth l s 0) in
  upd (upd (upd (upd s i a) j b) k c) l d.

Definition dround (s : list N) : list N :=
  let s := qround s 0 4 8 12 in
  let s := qround s 1 5 9 13 in
  let s := qround s 2 6 10 14 in
  let s := qround s 3 7 11 15 in
  let s := qround s 0 5 10 15 in
  let s := qround s 1 6 11 12 in
  let s := qround s 2 7 8 13 in
  qround s 3 4 9 14.

Fixpoint iter {A} (n : nat) (f : A -> A) (x : A) : A :=
  match n with O => x | S n' => iter n' f (f x) end.

(* little-endian word <-> bytes *)
Definition le32 (b : list N) : N :=
  nth 0 b 0 + 256 * nth 1 b 0 + 65536 * nth 2 b 0 + 16777216 * nth 3 b 0.
Definition bytes_of_le32 (w : N) : list N :=
  [w mod 256; (w / 256) mod 256; (w / 65536) mod 256; (w / 16777216) mod 256].

Fixpoint words_of_bytes (n : nat) (b : list N) : list N :=
  match n with
  | O => []
  | S n' => le32 (firstn 4 b) :: words_of_bytes n' (skipn 4 b)
  end.

Definition chacha_consts : list N := [0x61707865; 0x3320646e; 0x79622d32; 0x6b206574].

(* key: 32 bytes, nonce: 12 bytes, counter: 32-bit block counter *)
Definition init_state (key nonce : list N) (counter : N) : list N :=
  chacha_consts ++ words_of_bytes 8 key ++ [counter mod w32] ++ words_of_bytes 3 nonce.

Fixpoint map2 {A B C} (f : A -> B -> C) (l1 : list A) (l2 : list B) : list C :=
  match l1, l2 with
  | a :: t1, b :: t2 => f a b :: map2 f t1 t2
  | _, _ => []
  end.

Definition chacha_block (key nonce : list N) (counter : N) : list N :=
  let s0 := init_state key nonce counter in
  let s := iter 10 dround s0 in
  flat_map bytes_of_le32 (map2 add32 s s0).

(* byte i of the keystream that starts at block counter 0 *)
Definition ks_byte (key nonce : list N) (i : N) : N :=
  nth (N.to_nat (i mod 64)) (chacha_block key nonce (i / 64)) 0.
