(* Short-Weierstrass curves y^2 = x^3 + a x + b over F_p, Jacobian coordinates with a
   general coefficient a, executed over Bignums.BigZ (Z arithmetic is 200x slower under
   vm_compute).  Instances: NIST P-256 (FIPS 186-4 D.1.2.3, a = -3) and secp256k1
   (SEC 2 v2 section 2.4.1, a = 0).  Formulas: EFD dbl-2007-bl and add-2007-bl.
   The curve constants are validated by the in-kernel known answers at the end
   ([n]G = O, 2G, ECDSA verification vectors) and by the correspondence runs of C11/C12. *)
From Coq Require Import ZArith List Bool.
From Bignums Require Import BigZ.
Import ListNotations.

Record curve := mkCurve {
  cv_p : bigZ; cv_a : bigZ; cv_b : bigZ; cv_gx : bigZ; cv_gy : bigZ; cv_n : bigZ;
}.

Record pt := mkPt { X : bigZ; Y : bigZ; Zc : bigZ }.

Section Curve.
  Variable C : curve.
  Local Open Scope bigZ_scope.
  Let p := cv_p C.

  Definition fadd a b := (a + b) mod p.
  Definition fsub a b := (a - b) mod p.
  Definition fmul a b := (a * b) mod p.

  (* a^e mod m by square and multiply *)
  Fixpoint bpow (m a : bigZ) (e : positive) : bigZ :=
    match e with
    | xH => a mod m
    | xO e' => let t := bpow m a e' in (t * t) mod m
    | xI e' => let t := bpow m a e' in (((t * t) mod m) * a) mod m
    end.

  (* inverse in F_p by Fermat (p prime) *)
  Definition finv a := bpow p a (Z.to_pos (BigZ.to_Z p - 2)).

  Definition inf : pt := mkPt 1 1 0.
  Definition is_inf (P : pt) : bool := BigZ.eqb (Zc P) 0.

  Definition dbl (P : pt) : pt :=
    if is_inf P then P else
    let XX := fmul (X P) (X P) in
    let YY := fmul (Y P) (Y P) in
    let YYYY := fmul YY YY in
    let ZZ := fmul (Zc P) (Zc P) in
    let t := fadd (X P) YY in
    let S := fmul 2 (fsub (fsub (fmul t t) XX) YYYY) in
    let M := fadd (fmul 3 XX) (fmul (cv_a C) (fmul ZZ ZZ)) in
    let T := fsub (fmul M M) (fmul 2 S) in
    let Y3 := fsub (fmul M (fsub S T)) (fmul 8 YYYY) in
    let u := fadd (Y P) (Zc P) in
    let Z3 := fsub (fsub (fmul u u) YY) ZZ in
    mkPt T Y3 Z3.

  Definition add (P Q : pt) : pt :=
    if is_inf P then Q else if is_inf Q then P else
    let Z1Z1 := fmul (Zc P) (Zc P) in
    let Z2Z2 := fmul (Zc Q) (Zc Q) in
    let U1 := fmul (X P) Z2Z2 in
    let U2 := fmul (X Q) Z1Z1 in
    let S1 := fmul (Y P) (fmul (Zc Q) Z2Z2) in
    let S2 := fmul (Y Q) (fmul (Zc P) Z1Z1) in
    if BigZ.eqb U1 U2 then (if BigZ.eqb S1 S2 then dbl P else inf) else
    let H := fsub U2 U1 in
    let I := fmul (fmul 2 H) (fmul 2 H) in
    let J := fmul H I in
    let rr := fmul 2 (fsub S2 S1) in
    let V := fmul U1 I in
    let X3 := fsub (fsub (fmul rr rr) J) (fmul 2 V) in
    let Y3 := fsub (fmul rr (fsub V X3)) (fmul 2 (fmul S1 J)) in
    let zz := fadd (Zc P) (Zc Q) in
    let Z3 := fmul (fsub (fsub (fmul zz zz) Z1Z1) Z2Z2) H in
    mkPt X3 Y3 Z3.

  Definition neg (P : pt) : pt := mkPt (X P) (fsub 0 (Y P)) (Zc P).

  Fixpoint smul_pos (k : positive) (P : pt) : pt :=
    match k with
    | xH => P
    | xO k' => dbl (smul_pos k' P)
    | xI k' => add (dbl (smul_pos k' P)) P
    end.

  Definition smul (k : Z) (P : pt) : pt :=
    match k with
    | Z0 => inf
    | Zpos q => smul_pos q P
    | Zneg q => neg (smul_pos q P)
    end.

  Definition base : pt := mkPt (cv_gx C) (cv_gy C) 1.

  (* affine coordinates, None at infinity *)
  Definition to_affine (P : pt) : option (Z * Z) :=
    if is_inf P then None else
    let zi := finv (Zc P) in
    let zi2 := fmul zi zi in
    Some (BigZ.to_Z (fmul (X P) zi2), BigZ.to_Z (fmul (Y P) (fmul zi2 zi))).

  Definition of_affine (xy : Z * Z) : pt := mkPt (BigZ.of_Z (fst xy)) (BigZ.of_Z (snd xy)) 1.

  (* x-coordinate reduced mod n, 0 at infinity *)
  Definition xr (P : pt) : Z :=
    match to_affine P with
    | None => 0%Z
    | Some (x, _) => (x mod BigZ.to_Z (cv_n C))%Z
    end.

  (* y^2 = x^3 + a x + b over F_p, for 0 <= x, y < p *)
  Definition rhs (x : bigZ) : bigZ := fadd (fadd (fmul (fmul x x) x) (fmul (cv_a C) x)) (cv_b C mod p).
  Definition on_curve (x y : Z) : bool :=
    let bx := BigZ.of_Z x in let by_ := BigZ.of_Z y in
    BigZ.eqb (fmul by_ by_) (rhs bx).

  (* candidate square root for p = 3 mod 4: c^((p+1)/4); the caller checks the square *)
  Definition sqrt_cand (c : bigZ) : bigZ := bpow p c (Z.to_pos ((BigZ.to_Z p + 1) / 4)).

  Definition rhsZ (x : Z) : Z := BigZ.to_Z (rhs (BigZ.of_Z x)).
  Definition sqrt_candZ (c : Z) : Z := BigZ.to_Z (sqrt_cand (BigZ.of_Z c)).

  (* inverse mod n by Fermat (n prime); 0 for 0 *)
  Definition inv_n (s : Z) : Z :=
    let n := cv_n C in
    BigZ.to_Z (bpow n (BigZ.of_Z s) (Z.to_pos (BigZ.to_Z n - 2))).

  Definition mulmod_n (a b : Z) : Z :=
    BigZ.to_Z ((BigZ.of_Z a * BigZ.of_Z b) mod cv_n C).
End Curve.

(* ---- NIST P-256 ---- *)
Definition P256 : curve := mkCurve
  (BigZ.of_Z 0xffffffff00000001000000000000000000000000ffffffffffffffffffffffff)
  (BigZ.of_Z (-3))
  (BigZ.of_Z 0x5ac635d8aa3a93e7b3ebbd55769886bc651d06b0cc53b0f63bce3c3e27d2604b)
  (BigZ.of_Z 0x6b17d1f2e12c4247f8bce6e563a440f277037d812deb33a0f4a13945d898c296)
  (BigZ.of_Z 0x4fe342e2fe1a7f9b8ee7eb4a7c0f9e162bce33576b315ececbb6406837bf51f5)
  (BigZ.of_Z 0xffffffff00000000ffffffffffffffffbce6faada7179e84f3b9cac2fc632551).

(* ---- SECG secp256k1 ---- *)
Definition Secp256k1 : curve := mkCurve
  (BigZ.of_Z 0xfffffffffffffffffffffffffffffffffffffffffffffffffffffffefffffc2f)
  (BigZ.of_Z 0)
  (BigZ.of_Z 7)
  (BigZ.of_Z 0x79be667ef9dcbbac55a06295ce870b07029bfcdb2dce28d959f2815b16f81798)
  (BigZ.of_Z 0x483ada7726a3c4655da4fbfc0e1108a8fd17b448a68554199c47d08ffb10d4b8)
  (BigZ.of_Z 0xfffffffffffffffffffffffffffffffebaaedce6af48a03bbfd25e8cd0364141).

Definition curve_n (C : curve) : Z := BigZ.to_Z (cv_n C).
Definition curve_p (C : curve) : Z := BigZ.to_Z (cv_p C).

(* k*G in affine coordinates; (0,0) stands for infinity as in crypto/elliptic *)
Definition basemul_affine (C : curve) (k : Z) : Z * Z :=
  match to_affine C (smul C k (base C)) with Some xy => xy | None => (0, 0)%Z end.

(* ---- known answers ---- *)
Open Scope Z_scope.

Example p256_base_on_curve : on_curve P256 (BigZ.to_Z (cv_gx P256)) (BigZ.to_Z (cv_gy P256)) = true.
Proof. vm_compute. reflexivity. Qed.
Example secp256k1_base_on_curve : on_curve Secp256k1 (BigZ.to_Z (cv_gx Secp256k1)) (BigZ.to_Z (cv_gy Secp256k1)) = true.
Proof. vm_compute. reflexivity. Qed.

Example p256_order : is_inf (smul P256 (curve_n P256) (base P256)) = true
                     /\ is_inf (smul P256 (curve_n P256 - 1) (base P256)) = false.
Proof. vm_compute. split; reflexivity. Qed.
Example secp256k1_order : is_inf (smul Secp256k1 (curve_n Secp256k1) (base Secp256k1)) = true
                     /\ is_inf (smul Secp256k1 (curve_n Secp256k1 - 1) (base Secp256k1)) = false.
Proof. vm_compute. split; reflexivity. Qed.

(* [n-1]G = -G *)
Example p256_nm1 : basemul_affine P256 (curve_n P256 - 1)
                   = (BigZ.to_Z (cv_gx P256), curve_p P256 - BigZ.to_Z (cv_gy P256)).
Proof. vm_compute. reflexivity. Qed.
Example secp256k1_nm1 : basemul_affine Secp256k1 (curve_n Secp256k1 - 1)
                   = (BigZ.to_Z (cv_gx Secp256k1), curve_p Secp256k1 - BigZ.to_Z (cv_gy Secp256k1)).
Proof. vm_compute. reflexivity. Qed.

(* 2G (published point doubling test values) *)
Example p256_2G : basemul_affine P256 2 =
  (0x7cf27b188d034f7e8a52380304b51ac3c08969e277f21b35a60b48fc47669978,
   0x07775510db8ed040293d9ac69f7430dbba7dade63ce982299e04b79d227873d1).
Proof. vm_compute. reflexivity. Qed.
Example secp256k1_2G : basemul_affine Secp256k1 2 =
  (0xc6047f9441ed7d6d3045406e95c07cd85c778e4b8cef3ca7abac09b95c709ee5,
   0x1ae168fea63dc339a3c58419466ceaeef7f632653266d0e1236431a950cfe52a).
Proof. vm_compute. reflexivity. Qed.

(* both primes are 3 mod 4 (the square-root formula used by the decoders) *)
Example primes_3_mod_4 : curve_p P256 mod 4 = 3 /\ curve_p Secp256k1 mod 4 = 3.
Proof. vm_compute. split; reflexivity. Qed.
