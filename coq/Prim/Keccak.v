(* Keccak-f[1600] (FIPS 202, section 3) as an executable Gallina function on
   25 lanes of 64 bits (N), lane index x + 5*y, and the byte <-> lane conversions
   of FIPS 202 section 3.1.2 / appendix B.1 (little-endian lanes).
   About 19 ms per permutation under vm_compute. *)
From Coq Require Import NArith List.
Import ListNotations.
Local Open Scope N_scope.

Definition m64 : N := 0xFFFFFFFFFFFFFFFF.
Definition rotl (x : N) (k : N) : N :=
  if k =? 0 then x else N.lor (N.land (N.shiftl x k) m64) (N.shiftr x (64 - k)).
Definition lane (s : list N) (i : nat) : N := nth i s 0.

Definition RC : list N := [
 0x0000000000000001; 0x0000000000008082; 0x800000000000808A; 0x8000000080008000;
 0x000000000000808B; 0x0000000080000001; 0x8000000080008081; 0x8000000000008009;
 0x000000000000008A; 0x0000000000000088; 0x0000000080008009; 0x000000008000000A;
 0x000000008000808B; 0x800000000000008B; 0x8000000000008089; 0x8000000000008003;
 0x8000000000008002; 0x8000000000000080; 0x000000000000800A; 0x800000008000000A;
 0x8000000080008081; 0x8000000000008080; 0x0000000080000001; 0x8000000080008008].
(* rotation offsets r[x,y] at index x + 5*y *)
Definition ROT : list N := [0;1;62;28;27; 36;44;6;55;20; 3;10;43;25;39; 41;45;15;21;8; 18;2;61;56;14].
Definition idx (x y : nat) : nat := (Nat.modulo x 5 + 5 * (Nat.modulo y 5))%nat.
Definition xs : list nat := [0;1;2;3;4]%nat.

Definition theta (s : list N) : list N :=
  let C := map (fun x => fold_left N.lxor (map (fun y => lane s (idx x y)) xs) 0) xs in
  let D := map (fun x => N.lxor (nth (Nat.modulo (x+4) 5) C 0) (rotl (nth (Nat.modulo (x+1) 5) C 0) 1)) xs in
  map (fun i => N.lxor (lane s i) (nth (Nat.modulo i 5) D 0)) (seq 0 25).

(* rho and pi: B[y, 2x+3y] = rot(A[x,y], r[x,y]), computed by inverse lookup *)
Definition rhopi (s : list N) : list N :=
  map (fun j => let X := Nat.modulo j 5 in let Y := Nat.div j 5 in
                let x := Nat.modulo (X + 3 * Y)%nat 5 in let y := X in
                rotl (lane s (idx x y)) (nth (idx x y) ROT 0)) (seq 0 25).

Definition chi (s : list N) : list N :=
  map (fun j => let X := Nat.modulo j 5 in let Y := Nat.div j 5 in
       N.lxor (lane s j) (N.land (N.lxor (lane s (idx (X+1) Y)) m64) (lane s (idx (X+2) Y)))) (seq 0 25).

Definition iota (rc : N) (s : list N) : list N :=
  match s with a :: t => N.lxor a rc :: t | [] => [] end.

Definition round (s : list N) (rc : N) := iota rc (chi (rhopi (theta s))).
Definition keccakf (s : list N) : list N := fold_left round RC s.

(* ---- bytes <-> lanes ---- *)

(* little-endian value of up to 8 bytes *)
Definition le_word (bs : list N) : N := fold_right (fun b acc => b + 256 * acc) 0 bs.

(* the 64-bit little-endian words of a byte string (a trailing group of fewer
   than 8 bytes is dropped, as binary.LittleEndian.Uint64 over len/8 words) *)
Fixpoint chunks8 (l : list N) : list N :=
  match l with
  | b0 :: b1 :: b2 :: b3 :: b4 :: b5 :: b6 :: b7 :: r =>
      le_word [b0; b1; b2; b3; b4; b5; b6; b7] :: chunks8 r
  | _ => []
  end.

Definition le_bytes8 (x : N) : list N :=
  [x mod 256; (x / 256) mod 256; (x / 65536) mod 256; (x / 16777216) mod 256;
   (x / 4294967296) mod 256; (x / 1099511627776) mod 256;
   (x / 281474976710656) mod 256; (x / 72057594037927936) mod 256].

(* the 200 bytes of a state (lanes 0..24, each little-endian) *)
Definition state_bytes (s : list N) : list N :=
  flat_map (fun i => le_bytes8 (lane s i)) (seq 0 25).

Definition zero_state : list N := repeat 0 25.

(* KAT: Keccak-f applied to the padded empty SHA3-256 block gives SHA3-256("") *)
Example keccakf_kat :
  firstn 4 (keccakf (map (fun i => if Nat.eqb i 0 then 0x06 else if Nat.eqb i 16 then 0x8000000000000000 else 0) (seq 0 25)))
  = [7410425521722818471; 7121987202003222865; 18035012034529034485; 5351394012144785538].
Proof. vm_compute. reflexivity. Qed.
