(* SHA-256 written from FIPS 180-4 (4.1.2 functions, 4.2.2 constants, 5.1.1 padding,
   5.3.3 initial hash value, 6.2.2 computation), executable on N.  Bytes are N < 256.
   Used by Spec/HkdfSpec.v (C12).  Checked in-kernel against the FIPS vectors for
   "abc", the empty string and the two-block message at the end of the file. *)
From Coq Require Import NArith List.
Import ListNotations.
Open Scope N_scope.

Definition m32 : N := 0xffffffff.
Definition add32 (x y : N) : N := N.land (x + y) m32.
Definition rotr32 (x k : N) : N := N.lor (N.shiftr x k) (N.land (N.shiftl x (32 - k)) m32).
Definition not32 (x : N) : N := N.lxor x m32.

Definition Ch (x y z : N) : N := N.lxor (N.land x y) (N.land (not32 x) z).
Definition Maj (x y z : N) : N := N.lxor (N.lxor (N.land x y) (N.land x z)) (N.land y z).
Definition BSig0 (x : N) : N := N.lxor (N.lxor (rotr32 x 2) (rotr32 x 13)) (rotr32 x 22).
Definition BSig1 (x : N) : N := N.lxor (N.lxor (rotr32 x 6) (rotr32 x 11)) (rotr32 x 25).
Definition ssig0 (x : N) : N := N.lxor (N.lxor (rotr32 x 7) (rotr32 x 18)) (N.shiftr x 3).
Definition ssig1 (x : N) : N := N.lxor (N.lxor (rotr32 x 17) (rotr32 x 19)) (N.shiftr x 10).

Definition K256 : list N := [
  0x428a2f98; 0x71374491; 0xb5c0fbcf; 0xe9b5dba5; 0x3956c25b; 0x59f111f1; 0x923f82a4; 0xab1c5ed5;
  0xd807aa98; 0x12835b01; 0x243185be; 0x550c7dc3; 0x72be5d74; 0x80deb1fe; 0x9bdc06a7; 0xc19bf174;
  0xe49b69c1; 0xefbe4786; 0x0fc19dc6; 0x240ca1cc; 0x2de92c6f; 0x4a7484aa; 0x5cb0a9dc; 0x76f988da;
  0x983e5152; 0xa831c66d; 0xb00327c8; 0xbf597fc7; 0xc6e00bf3; 0xd5a79147; 0x06ca6351; 0x14292967;
  0x27b70a85; 0x2e1b2138; 0x4d2c6dfc; 0x53380d13; 0x650a7354; 0x766a0abb; 0x81c2c92e; 0x92722c85;
  0xa2bfe8a1; 0xa81a664b; 0xc24b8b70; 0xc76c51a3; 0xd192e819; 0xd6990624; 0xf40e3585; 0x106aa070;
  0x19a4c116; 0x1e376c08; 0x2748774c; 0x34b0bcb5; 0x391c0cb3; 0x4ed8aa4a; 0x5b9cca4f; 0x682e6ff3;
  0x748f82ee; 0x78a5636f; 0x84c87814; 0x8cc70208; 0x90befffa; 0xa4506ceb; 0xbef9a3f7; 0xc67178f2].

Definition H256 : list N := [
  0x6a09e667; 0xbb67ae85; 0x3c6ef372; 0xa54ff53a; 0x510e527f; 0x9b05688c; 0x1f83d9ab; 0x5be0cd19].

(* message schedule 6.2.2 step 1; the list is kept most-recent-first:
   W_t = ssig1(W_{t-2}) + W_{t-7} + ssig0(W_{t-15}) + W_{t-16} *)
Fixpoint expand (k : nat) (rw : list N) : list N :=
  match k with
  | O => rw
  | S k' =>
      let wt := add32 (add32 (add32 (ssig1 (nth 1 rw 0)) (nth 6 rw 0)) (ssig0 (nth 14 rw 0))) (nth 15 rw 0) in
      expand k' (wt :: rw)
  end.
Definition schedule (m16 : list N) : list N := rev (expand 48 (rev m16)).

Definition st8 : Type := (N * N * N * N * N * N * N * N)%type.

Definition round (s : st8) (kw : N * N) : st8 :=
  let '(a, b, c, d, e, f, g, h) := s in
  let t1 := add32 (add32 (add32 (add32 h (BSig1 e)) (Ch e f g)) (fst kw)) (snd kw) in
  let t2 := add32 (BSig0 a) (Maj a b c) in
  (add32 t1 t2, a, b, c, add32 d t1, e, f, g).

Definition compress (H : st8) (m16 : list N) : st8 :=
  let '(a, b, c, d, e, f, g, h) := fold_left round (combine K256 (schedule m16)) H in
  let '(a0, b0, c0, d0, e0, f0, g0, h0) := H in
  (add32 a0 a, add32 b0 b, add32 c0 c, add32 d0 d, add32 e0 e, add32 f0 f, add32 g0 g, add32 h0 h).

Definition be32 (b : list N) : N :=
  16777216 * nth 0 b 0 + 65536 * nth 1 b 0 + 256 * nth 2 b 0 + nth 3 b 0.
Definition bytes_of_be32 (w : N) : list N :=
  [(w / 16777216) mod 256; (w / 65536) mod 256; (w / 256) mod 256; w mod 256].
Definition bytes_of_be64 (w : N) : list N :=
  bytes_of_be32 ((w / 4294967296) mod 4294967296) ++ bytes_of_be32 (w mod 4294967296).

Fixpoint words (k : nat) (b : list N) : list N :=
  match k with O => [] | S k' => be32 (firstn 4 b) :: words k' (skipn 4 b) end.

(* 5.1.1: append 0x80, then k zero bytes with len + 1 + k = 56 mod 64, then the bit length on 64 bits *)
Definition pad (m : list N) : list N :=
  let l := N.of_nat (length m) in
  let k := (119 - l mod 64) mod 64 in
  m ++ [128] ++ repeat 0 (N.to_nat k) ++ bytes_of_be64 (8 * l).

Fixpoint blocks (nb : nat) (H : st8) (b : list N) : st8 :=
  match nb with
  | O => H
  | S nb' => blocks nb' (compress H (words 16 (firstn 64 b))) (skipn 64 b)
  end.

Definition iv256 : st8 :=
  (0x6a09e667, 0xbb67ae85, 0x3c6ef372, 0xa54ff53a, 0x510e527f, 0x9b05688c, 0x1f83d9ab, 0x5be0cd19).

Definition sha256 (m : list N) : list N :=
  let p := pad m in
  let '(a, b, c, d, e, f, g, h) := blocks (Nat.div (length p) 64) iv256 p in
  flat_map bytes_of_be32 [a; b; c; d; e; f; g; h].

(* ---- FIPS 180-4 / NIST example vectors, checked by the kernel ---- *)
Example sha256_abc :
  sha256 [0x61; 0x62; 0x63] =
  [0xba;0x78;0x16;0xbf;0x8f;0x01;0xcf;0xea;0x41;0x41;0x40;0xde;0x5d;0xae;0x22;0x23;
   0xb0;0x03;0x61;0xa3;0x96;0x17;0x7a;0x9c;0xb4;0x10;0xff;0x61;0xf2;0x00;0x15;0xad].
Proof. vm_compute. reflexivity. Qed.

Example sha256_empty :
  sha256 [] =
  [0xe3;0xb0;0xc4;0x42;0x98;0xfc;0x1c;0x14;0x9a;0xfb;0xf4;0xc8;0x99;0x6f;0xb9;0x24;
   0x27;0xae;0x41;0xe4;0x64;0x9b;0x93;0x4c;0xa4;0x95;0x99;0x1b;0x78;0x52;0xb8;0x55].
Proof. vm_compute. reflexivity. Qed.

(* "abcdbcdecdefdefgefghfghighijhijkijkljklmklmnlmnomnopnopq" (56 bytes, two blocks) *)
Example sha256_two_blocks :
  sha256 [0x61;0x62;0x63;0x64;0x62;0x63;0x64;0x65;0x63;0x64;0x65;0x66;0x64;0x65;0x66;0x67;
          0x65;0x66;0x67;0x68;0x66;0x67;0x68;0x69;0x67;0x68;0x69;0x6a;0x68;0x69;0x6a;0x6b;
          0x69;0x6a;0x6b;0x6c;0x6a;0x6b;0x6c;0x6d;0x6b;0x6c;0x6d;0x6e;0x6c;0x6d;0x6e;0x6f;
          0x6d;0x6e;0x6f;0x70;0x6e;0x6f;0x70;0x71] =
  [0x24;0x8d;0x6a;0x61;0xd2;0x06;0x38;0xb8;0xe5;0xc0;0x26;0x93;0x0c;0x3e;0x60;0x39;
   0xa3;0x3c;0xe4;0x59;0x64;0xff;0x21;0x67;0xf6;0xec;0xed;0xd4;0x19;0xdb;0x06;0xc1].
Proof. vm_compute. reflexivity. Qed.

Lemma sha256_length_32_example : length (sha256 [1;2;3]) = 32%nat.
Proof. vm_compute. reflexivity. Qed.
