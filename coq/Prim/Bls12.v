(* BLS12-381 field and curve arithmetic, executable, written from the curve's
   definition (draft-irtf-cfrg-pairing-friendly-curves): F_p, F_p^2 = F_p[u]/(u^2+1),
   E1: y^2 = x^3 + 4 over F_p, E2: y^2 = x^3 + 4(1+u) over F_p^2, Jacobian formulas
   dbl-2009-l and add-2007-bl.  Generic over Lib/Num.v: proofs use Z, execution BigZ.
   NOT a model of blst: it is the independent oracle the correspondence runs use. *)
From Coq Require Import ZArith List Bool.
From V Require Import Lib.Num.
Import ListNotations.
Open Scope Z_scope.

Definition pZ : Z := 0x1a0111ea397fe69a4b1ba7b6434bacd764774b84f38512bf6730d2a0f6b0f6241eabfffeb153ffffb9feffffffffaaab.
Definition rZ : Z := 0x73eda753299d7d483339d80809a1d80553bda402fffe5bfeffffffff00000001.

Section Arith.
(* [p] is the field modulus in the carrier: [n_of_Z M pZ], passed in so that the BigZ
   instance can precompute it once ([pB] below) *)
Context {T : Type} (M : num T) (p : T).
Let zero := n_of_Z M 0.
Let one := n_of_Z M 1.

(* ---- arithmetic modulo m ---- *)
Section Mod.
Variable m : T.
Definition madd (a b : T) : T := n_mod M (n_add M a b) m.
Definition msub (a b : T) : T := n_mod M (n_sub M a b) m.
Definition mmul (a b : T) : T := n_mod M (n_mul M a b) m.
Definition mneg (a : T) : T := n_mod M (n_sub M m a) m.
Fixpoint mpow_pos (a : T) (e : positive) : T :=
  match e with
  | xH => a
  | xO e' => let h := mpow_pos a e' in mmul h h
  | xI e' => let h := mpow_pos a e' in mmul (mmul h h) a
  end.
Definition mpow (a : T) (e : Z) : T :=
  match e with Zpos e' => mpow_pos a e' | _ => n_mod M one m end.
End Mod.

(* ---- F_p ---- *)
Definition fadd := madd p.
Definition fsub := msub p.
Definition fmul := mmul p.
Definition fneg := mneg p.
Definition fpow := mpow p.
Definition finv (a : T) : T := fpow a (pZ - 2).
Definition feqb (a b : T) : bool := n_eqb M a b.
(* checked square root (p = 3 mod 4) *)
Definition fsqrt (a : T) : option T :=
  let c := fpow a ((pZ + 1) / 4) in
  if feqb (fmul c c) a then Some c else None.
(* "lexicographically largest": y > (p-1)/2 *)
Definition fsign (y : T) : bool := n_ltb M (n_of_Z M ((pZ - 1) / 2)) y.
Definition fis_sq (a : T) : bool :=
  feqb a zero || feqb (fpow a ((pZ - 1) / 2)) one.

(* ---- F_p^2, (c0, c1) = c0 + c1 u ---- *)
Definition fp2 : Type := (T * T)%type.
Definition f2zero : fp2 := (zero, zero).
Definition f2one : fp2 := (one, zero).
Definition f2add (a b : fp2) : fp2 := (fadd (fst a) (fst b), fadd (snd a) (snd b)).
Definition f2sub (a b : fp2) : fp2 := (fsub (fst a) (fst b), fsub (snd a) (snd b)).
Definition f2neg (a : fp2) : fp2 := (fneg (fst a), fneg (snd a)).
Definition f2mul (a b : fp2) : fp2 :=
  (fsub (fmul (fst a) (fst b)) (fmul (snd a) (snd b)),
   fadd (fmul (fst a) (snd b)) (fmul (snd a) (fst b))).
Definition f2eqb (a b : fp2) : bool := feqb (fst a) (fst b) && feqb (snd a) (snd b).
Definition f2inv (a : fp2) : fp2 :=
  let n := finv (fadd (fmul (fst a) (fst a)) (fmul (snd a) (snd a))) in
  (fmul (fst a) n, fneg (fmul (snd a) n)).
(* sign: c1 <> 0 ? sign c1 : sign c0   (ZCash: compare the u-coefficient first) *)
Definition f2sign (y : fp2) : bool :=
  if feqb (snd y) zero then fsign (fst y) else fsign (snd y).
(* checked square root through the norm *)
Definition f2sqrt (a : fp2) : option fp2 :=
  let a0 := fst a in let a1 := snd a in
  let half := finv (n_of_Z M 2) in
  let cand :=
    if feqb a1 zero then
      match fsqrt a0 with
      | Some s => Some (s, zero)
      | None => match fsqrt (fneg a0) with Some s => Some (zero, s) | None => None end
      end
    else
      match fsqrt (fadd (fmul a0 a0) (fmul a1 a1)) with
      | None => None
      | Some s =>
          let t1 := fmul (fadd a0 s) half in
          let t := if fis_sq t1 then t1 else fmul (fsub a0 s) half in
          match fsqrt t with
          | None => None
          | Some x0 => Some (x0, fmul a1 (finv (fadd x0 x0)))
          end
      end
  in
  match cand with
  | Some c => if f2eqb (f2mul c c) a then Some c else None
  | None => None
  end.

(* ---- generic short Weierstrass curve y^2 = x^3 + b (a = 0), Jacobian ---- *)
Record fops (F : Type) := mkF {
  o_zero : F; o_one : F;
  o_add : F -> F -> F; o_sub : F -> F -> F; o_mul : F -> F -> F;
  o_neg : F -> F; o_inv : F -> F; o_eqb : F -> F -> bool;
}.
Arguments o_zero {F}. Arguments o_one {F}. Arguments o_add {F}. Arguments o_sub {F}.
Arguments o_mul {F}. Arguments o_neg {F}. Arguments o_inv {F}. Arguments o_eqb {F}.

Definition FpOps : fops T := mkF T zero one fadd fsub fmul fneg finv feqb.
Definition Fp2Ops : fops fp2 := mkF fp2 f2zero f2one f2add f2sub f2mul f2neg f2inv f2eqb.

Section Curve.
Context {F : Type} (O : fops F) (b : F).
Record jpt := mkJ { jx : F; jy : F; jz : F }.
Definition jinf : jpt := mkJ (o_one O) (o_one O) (o_zero O).
Definition jis_inf (P : jpt) : bool := o_eqb O (jz P) (o_zero O).
Definition of_affine (x y : F) : jpt := mkJ x y (o_one O).
Let add := o_add O. Let sub := o_sub O. Let mul := o_mul O.
Definition dbl2 (a : F) := add a a.
Definition jdbl (P : jpt) : jpt :=
  if jis_inf P then P else
  let A := mul (jx P) (jx P) in let B := mul (jy P) (jy P) in let C := mul B B in
  let t := add (jx P) B in
  let D := dbl2 (sub (sub (mul t t) A) C) in
  let E := add (dbl2 A) A in let Fq := mul E E in
  let X3 := sub Fq (dbl2 D) in
  let Y3 := sub (mul E (sub D X3)) (dbl2 (dbl2 (dbl2 C))) in
  let Z3 := dbl2 (mul (jy P) (jz P)) in
  mkJ X3 Y3 Z3.
Definition jadd (P Q : jpt) : jpt :=
  if jis_inf P then Q else if jis_inf Q then P else
  let Z1Z1 := mul (jz P) (jz P) in let Z2Z2 := mul (jz Q) (jz Q) in
  let U1 := mul (jx P) Z2Z2 in let U2 := mul (jx Q) Z1Z1 in
  let S1 := mul (jy P) (mul (jz Q) Z2Z2) in let S2 := mul (jy Q) (mul (jz P) Z1Z1) in
  if o_eqb O U1 U2 then (if o_eqb O S1 S2 then jdbl P else jinf) else
  let H := sub U2 U1 in let I := mul (dbl2 H) (dbl2 H) in let J := mul H I in
  let rr := dbl2 (sub S2 S1) in let V := mul U1 I in
  let X3 := sub (sub (mul rr rr) J) (dbl2 V) in
  let Y3 := sub (mul rr (sub V X3)) (dbl2 (mul S1 J)) in
  let zz := add (jz P) (jz Q) in
  let Z3 := mul (sub (sub (mul zz zz) Z1Z1) Z2Z2) H in
  mkJ X3 Y3 Z3.
Definition jneg (P : jpt) : jpt := mkJ (jx P) (o_neg O (jy P)) (jz P).
Fixpoint jmul_pos (k : positive) (P : jpt) : jpt :=
  match k with
  | xH => P
  | xO k' => jdbl (jmul_pos k' P)
  | xI k' => jadd (jdbl (jmul_pos k' P)) P
  end.
Definition jmul (k : Z) (P : jpt) : jpt :=
  match k with Z0 => jinf | Zpos k' => jmul_pos k' P | Zneg k' => jneg (jmul_pos k' P) end.
(* projective equality *)
Definition jeqb (P Q : jpt) : bool :=
  if jis_inf P then jis_inf Q else if jis_inf Q then false else
  let Z1Z1 := mul (jz P) (jz P) in let Z2Z2 := mul (jz Q) (jz Q) in
  o_eqb O (mul (jx P) Z2Z2) (mul (jx Q) Z1Z1) &&
  o_eqb O (mul (jy P) (mul (jz Q) Z2Z2)) (mul (jy Q) (mul (jz P) Z1Z1)).
Definition to_affine (P : jpt) : option (F * F) :=
  if jis_inf P then None else
  let zi := o_inv O (jz P) in let zi2 := mul zi zi in
  Some (mul (jx P) zi2, mul (jy P) (mul zi2 zi)).
Definition on_curve_aff (x y : F) : bool :=
  o_eqb O (mul y y) (add (mul (mul x x) x) b).
Definition jsum (l : list jpt) : jpt := fold_left jadd l jinf.
End Curve.

(* ---- E1 and E2 ---- *)
Definition b1 : T := n_of_Z M 4.
Definition b2 : fp2 := (n_of_Z M 4, n_of_Z M 4).
Definition g1x : T := n_of_Z M 0x17f1d3a73197d7942695638c4fa9ac0fc3688c4f9774b905a14e3a3f171bac586c55e83ff97a1aeffb3af00adb22c6bb.
Definition g1y : T := n_of_Z M 0x08b3f481e3aaa0f1a09e30ed741d8ae4fcf5e095d5d00af600db18cb2c04b3edd03cc744a2888ae40caa232946c5e7e1.
Definition g2x : fp2 :=
  (n_of_Z M 0x024aa2b2f08f0a91260805272dc51051c6e47ad4fa403b02b4510b647ae3d1770bac0326a805bbefd48056c8c121bdb8,
   n_of_Z M 0x13e02b6052719f607dacd3a088274f65596bd0d09920b61ab5da61bbdc7f5049334cf11213945d57e5ac7d055d042b7e).
Definition g2y : fp2 :=
  (n_of_Z M 0x0ce5d527727d6e118cc9cdc6da2e351aadfd9baa8cbdd3a76d429a695160d12c923ac9cc3baca289e193548608b82801,
   n_of_Z M 0x0606c4a02ea734cc32acd2b02bc28b99cb3e287e85a763af267492ab572e99ab3f370d275cec1da1aaa9075ff05f79be).
Definition G1gen : jpt := of_affine FpOps g1x g1y.
Definition G2gen : jpt := of_affine Fp2Ops g2x g2y.
Definition e1_in_G1 (P : @jpt T) : bool := jis_inf FpOps (jmul FpOps rZ P).
Definition e2_in_G2 (P : @jpt fp2) : bool := jis_inf Fp2Ops (jmul Fp2Ops rZ P).
End Arith.

From Bignums Require Import BigZ.
Definition pB : bigZ := Eval vm_compute in BigZ.of_Z pZ.
Lemma pB_ok : BigZ.to_Z pB = pZ.
Proof. vm_compute. reflexivity. Qed.
