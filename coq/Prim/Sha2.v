(* SHA-256 and SHA-384 written from FIPS 180-4 (sections 4.1.2/4.1.3 functions,
   4.2.2/4.2.3 constants, 5.1 padding, 5.3 initial values, 6.2/6.4/6.5 computation),
   executable on N.  Bytes are N < 256.  Checked against the FIPS "abc" vectors below. *)
From Coq Require Import NArith List.
Import ListNotations.
Local Open Scope N_scope.

Section Sha2.
  Variable w : N.                      (* word size in bits: 32 or 64 *)
  Variables A0 A1 A2 : N.              (* Sigma0 = ROTR^A0 xor ROTR^A1 xor ROTR^A2 *)
  Variables B0 B1 B2 : N.              (* Sigma1 *)
  Variables c0 c1 c2 : N.              (* sigma0 = ROTR^c0 xor ROTR^c1 xor SHR^c2 *)
  Variables d0 d1 d2 : N.              (* sigma1 *)
  Variable K : list N.                 (* round constants; number of rounds = length K *)

  Definition mask : N := N.ones w.
  Definition add (x y : N) : N := N.land (x + y) mask.
  Definition rotr (x k : N) : N := N.lor (N.shiftr x k) (N.land (N.shiftl x (w - k)) mask).
  Definition Sig0 x := N.lxor (N.lxor (rotr x A0) (rotr x A1)) (rotr x A2).
  Definition Sig1 x := N.lxor (N.lxor (rotr x B0) (rotr x B1)) (rotr x B2).
  Definition sig0 x := N.lxor (N.lxor (rotr x c0) (rotr x c1)) (N.shiftr x c2).
  Definition sig1 x := N.lxor (N.lxor (rotr x d0) (rotr x d1)) (N.shiftr x d2).
  Definition Ch x y z := N.lxor (N.land x y) (N.land (N.lxor x mask) z).
  Definition Maj x y z := N.lxor (N.lxor (N.land x y) (N.land x z)) (N.land y z).

  (* message schedule, most recent word first *)
  Fixpoint expand (n : nat) (rw : list N) : list N :=
    match n with
    | O => rw
    | S k =>
        let wt := add (add (add (sig1 (nth 1 rw 0)) (nth 6 rw 0)) (sig0 (nth 14 rw 0))) (nth 15 rw 0) in
        expand k (wt :: rw)
    end.
  Definition schedule (m : list N) : list N := rev (expand (length K - 16) (rev m)).

  Definition st8 : Type := (N * N * N * N * N * N * N * N)%type.
  Definition step (s : st8) (kw : N * N) : st8 :=
    let '(a, b, c, d, e, f, g, h) := s in
    let t1 := add (add (add (add h (Sig1 e)) (Ch e f g)) (fst kw)) (snd kw) in
    let t2 := add (Sig0 a) (Maj a b c) in
    (add t1 t2, a, b, c, add d t1, e, f, g).

  (* one block: m = 16 words *)
  Definition block (H : st8) (m : list N) : st8 :=
    let '(a, b, c, d, e, f, g, h) := fold_left step (combine K (schedule m)) H in
    let '(a0, b0, c0', d0', e0, f0, g0, h0) := H in
    (add a0 a, add b0 b, add c0' c, add d0' d, add e0 e, add f0 f, add g0 g, add h0 h).

  Definition wbytes : nat := N.to_nat (w / 8).
  Definition be_word (bs : list N) : N := fold_left (fun acc b => acc * 256 + b) bs 0.
  Definition be_bytes (n : nat) (x : N) : list N :=
    map (fun i => N.land (N.shiftr x (8 * N.of_nat (n - 1 - i))) 255) (seq 0 n).

  Fixpoint chunk (fuel n : nat) (l : list N) : list (list N) :=
    match fuel with
    | O => []
    | S k => match l with [] => [] | _ => firstn n l :: chunk k n (skipn n l) end
    end.

  (* 5.1: append 0x80, k zero bytes, the bit length on 2 words *)
  Definition pad (msg : list N) : list N :=
    let bb := (16 * wbytes)%nat in
    let lb := (2 * wbytes)%nat in
    let k := Nat.modulo (bb - Nat.modulo (length msg + 1 + lb) bb) bb in
    msg ++ [128] ++ repeat 0 k ++ be_bytes lb (8 * N.of_nat (length msg)).

  Definition digest_words (H0 : st8) (msg : list N) : list N :=
    let p := pad msg in
    let blocks := chunk (length p) (16 * wbytes) p in
    let '(a, b, c, d, e, f, g, h) :=
      fold_left (fun H blk => block H (map be_word (chunk 16 wbytes blk))) blocks H0 in
    [a; b; c; d; e; f; g; h].

  Definition digest (H0 : st8) (outlen : nat) (msg : list N) : list N :=
    firstn outlen (flat_map (be_bytes wbytes) (digest_words H0 msg)).
End Sha2.

Definition K256 : list N := [
0x428a2f98; 0x71374491; 0xb5c0fbcf; 0xe9b5dba5; 0x3956c25b; 0x59f111f1; 0x923f82a4; 0xab1c5ed5; 
0xd807aa98; 0x12835b01; 0x243185be; 0x550c7dc3; 0x72be5d74; 0x80deb1fe; 0x9bdc06a7; 0xc19bf174; 
0xe49b69c1; 0xefbe4786; 0x0fc19dc6; 0x240ca1cc; 0x2de92c6f; 0x4a7484aa; 0x5cb0a9dc; 0x76f988da; 
0x983e5152; 0xa831c66d; 0xb00327c8; 0xbf597fc7; 0xc6e00bf3; 0xd5a79147; 0x06ca6351; 0x14292967; 
0x27b70a85; 0x2e1b2138; 0x4d2c6dfc; 0x53380d13; 0x650a7354; 0x766a0abb; 0x81c2c92e; 0x92722c85; 
0xa2bfe8a1; 0xa81a664b; 0xc24b8b70; 0xc76c51a3; 0xd192e819; 0xd6990624; 0xf40e3585; 0x106aa070; 
0x19a4c116; 0x1e376c08; 0x2748774c; 0x34b0bcb5; 0x391c0cb3; 0x4ed8aa4a; 0x5b9cca4f; 0x682e6ff3; 
0x748f82ee; 0x78a5636f; 0x84c87814; 0x8cc70208; 0x90befffa; 0xa4506ceb; 0xbef9a3f7; 0xc67178f2].

Definition K512 : list N := [
0x428a2f98d728ae22; 0x7137449123ef65cd; 0xb5c0fbcfec4d3b2f; 0xe9b5dba58189dbbc; 0x3956c25bf348b538; 
0x59f111f1b605d019; 0x923f82a4af194f9b; 0xab1c5ed5da6d8118; 0xd807aa98a3030242; 0x12835b0145706fbe; 
0x243185be4ee4b28c; 0x550c7dc3d5ffb4e2; 0x72be5d74f27b896f; 0x80deb1fe3b1696b1; 0x9bdc06a725c71235; 
0xc19bf174cf692694; 0xe49b69c19ef14ad2; 0xefbe4786384f25e3; 0x0fc19dc68b8cd5b5; 0x240ca1cc77ac9c65; 
0x2de92c6f592b0275; 0x4a7484aa6ea6e483; 0x5cb0a9dcbd41fbd4; 0x76f988da831153b5; 0x983e5152ee66dfab; 
0xa831c66d2db43210; 0xb00327c898fb213f; 0xbf597fc7beef0ee4; 0xc6e00bf33da88fc2; 0xd5a79147930aa725; 
0x06ca6351e003826f; 0x142929670a0e6e70; 0x27b70a8546d22ffc; 0x2e1b21385c26c926; 0x4d2c6dfc5ac42aed; 
0x53380d139d95b3df; 0x650a73548baf63de; 0x766a0abb3c77b2a8; 0x81c2c92e47edaee6; 0x92722c851482353b; 
0xa2bfe8a14cf10364; 0xa81a664bbc423001; 0xc24b8b70d0f89791; 0xc76c51a30654be30; 0xd192e819d6ef5218; 
0xd69906245565a910; 0xf40e35855771202a; 0x106aa07032bbd1b8; 0x19a4c116b8d2d0c8; 0x1e376c085141ab53; 
0x2748774cdf8eeb99; 0x34b0bcb5e19b48a8; 0x391c0cb3c5c95a63; 0x4ed8aa4ae3418acb; 0x5b9cca4f7763e373; 
0x682e6ff3d6b2b8a3; 0x748f82ee5defb2fc; 0x78a5636f43172f60; 0x84c87814a1f0ab72; 0x8cc702081a6439ec; 
0x90befffa23631e28; 0xa4506cebde82bde9; 0xbef9a3f7b2c67915; 0xc67178f2e372532b; 0xca273eceea26619c; 
0xd186b8c721c0c207; 0xeada7dd6cde0eb1e; 0xf57d4f7fee6ed178; 0x06f067aa72176fba; 0x0a637dc5a2c898a6; 
0x113f9804bef90dae; 0x1b710b35131c471b; 0x28db77f523047d84; 0x32caab7b40c72493; 0x3c9ebe0a15c9bebc; 
0x431d67c49c100d4c; 0x4cc5d4becb3e42b6; 0x597f299cfc657e2a; 0x5fcb6fab3ad6faec; 0x6c44198c4a475817].

Definition IV256 : st8 :=
  (0x6a09e667, 0xbb67ae85, 0x3c6ef372, 0xa54ff53a, 0x510e527f, 0x9b05688c, 0x1f83d9ab, 0x5be0cd19).
Definition IV384 : st8 :=
  (0xcbbb9d5dc1059ed8, 0x629a292a367cd507, 0x9159015a3070dd17, 0x152fecd8f70e5939,
   0x67332667ffc00b31, 0x8eb44a8768581511, 0xdb0c2e0d64f98fa7, 0x47b5481dbefa4fa4).

Definition sha256 (msg : list N) : list N :=
  digest 32 2 13 22 6 11 25 7 18 3 17 19 10 K256 IV256 32 msg.
Definition sha384 (msg : list N) : list N :=
  digest 64 28 34 39 14 18 41 1 8 7 19 61 6 K512 IV384 48 msg.

(* FIPS 180-4 / NIST example vectors *)
Example sha256_abc :
  sha256 [97; 98; 99] =
  [0xba;0x78;0x16;0xbf;0x8f;0x01;0xcf;0xea;0x41;0x41;0x40;0xde;0x5d;0xae;0x22;0x23;
   0xb0;0x03;0x61;0xa3;0x96;0x17;0x7a;0x9c;0xb4;0x10;0xff;0x61;0xf2;0x00;0x15;0xad].
Proof. vm_compute. reflexivity. Qed.

Example sha256_empty :
  sha256 [] =
  [0xe3;0xb0;0xc4;0x42;0x98;0xfc;0x1c;0x14;0x9a;0xfb;0xf4;0xc8;0x99;0x6f;0xb9;0x24;
   0x27;0xae;0x41;0xe4;0x64;0x9b;0x93;0x4c;0xa4;0x95;0x99;0x1b;0x78;0x52;0xb8;0x55].
Proof. vm_compute. reflexivity. Qed.

Example sha384_abc :
  sha384 [97; 98; 99] =
  [0xcb;0x00;0x75;0x3f;0x45;0xa3;0x5e;0x8b;0xb5;0xa0;0x3d;0x69;0x9a;0xc6;0x50;0x07;
   0x27;0x2c;0x32;0xab;0x0e;0xde;0xd1;0x63;0x1a;0x8b;0x60;0x5a;0x43;0xff;0x5b;0xed;
   0x80;0x86;0x07;0x2b;0xa1;0xe7;0xcc;0x23;0x58;0xba;0xec;0xa1;0x34;0xc8;0x25;0xa7].
Proof. vm_compute. reflexivity. Qed.
