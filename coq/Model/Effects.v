(* C19: effect checker over the regenerated effect skeletons (Generated/EffectSkel.v)
   and C prototypes (Generated/CProtos.v), and a read/write-set semantics of
   concurrently running operations.  No proofs here (Proofs/EffectsProofs.v). *)
From Coq Require Import List String Bool Arith.
From V Require Import Model.Skel Generated.EffectSkel Generated.CProtos.
Import ListNotations.
Open Scope string_scope.
Open Scope list_scope.

Definition str_mem (s : string) (l : list string) : bool := existsb (String.eqb s) l.

Fixpoint assoc {A} (k : string) (l : list (string * A)) : option A :=
  match l with
  | [] => None
  | (n, v) :: r => if String.eqb k n then Some v else assoc k r
  end.

Definition lookup_fn (n : string) : option efn := find (fun f => String.eqb (ef_name f) n) effect_skels.

(* ---- trusted tables (explicit, part of the trusted base of C19) ---- *)

(* methods that are not defined in the module (embedded sha3.ShakeHash, math/big, elliptic):
   (modifies its receiver, indices of the arguments it writes through) *)
Definition ext_methods : list (string * (bool * list nat)) :=
  [ ("Write", (true, [])); ("Reset", (true, [])); ("Read", (true, [0])); ("Sum", (true, [0]));
    ("SetBytes", (true, []));
    ("Clone", (false, [])); ("Size", (false, [])); ("Params", (false, [])); ("BitLen", (false, []));
    ("Bytes", (false, [])) ].

(* functions of other packages: indices of the arguments they write through *)
Definition ext_functions : list (string * list nat) :=
  [ ("fmt.Errorf", []); ("rand.Read", [0]); ("binary.BigEndian.PutUint64", [0]);
    ("ecdsa.Sign", []); ("ecdsa.Verify", []) ].

(* ---- the checker ---- *)

(* roots written when something is written through a value of provenance p; None = reject *)
Definition roots_of (p : prov) : option (list string) :=
  match p with
  | PFresh | PScalar => Some []
  | PShared r _ => Some [r]
  | PUnknown _ => None
  end.

Definition opt_app {A} (a b : option (list A)) : option (list A) :=
  match a, b with Some x, Some y => Some (x ++ y) | _, _ => None end.

Fixpoint index_of (s : string) (l : list string) : option nat :=
  match l with
  | [] => None
  | x :: r => if String.eqb s x then Some 0 else option_map S (index_of s r)
  end.

(* a callee writes the roots [ws] (names of its parameters, or global:/result: roots);
   translate them to the caller's view through the actual arguments *)
Fixpoint through_args (params : list string) (args : list prov) (ws : list string) : option (list string) :=
  match ws with
  | [] => Some []
  | w :: r =>
      let here := match index_of w params with
                  | Some j => match nth_error args j with Some p => roots_of p | None => None end
                  | None => Some [w]
                  end in
      opt_app here (through_args params args r)
  end.

Fixpoint args_at (idx : list nat) (args : list prov) : option (list string) :=
  match idx with
  | [] => Some []
  | j :: r => opt_app (match nth_error args j with Some p => roots_of p | None => None end) (args_at r args)
  end.

(* C call: every argument against its parameter *)
Fixpoint cgo_args (ps : list cparam) (args : list prov) : option (list string) :=
  match ps, args with
  | [], [] => Some []
  | p :: pr, a :: ar =>
      let here := if cp_ptr p then (if cp_const p then (match a with PUnknown _ => None | _ => Some [] end) else roots_of a)
                  else (match a with PUnknown _ => None | _ => Some [] end) in
      opt_app here (cgo_args pr ar)
  | _, _ => None
  end.

Section Written.
  Variable written_fn : string -> option (list string).   (* callee summaries, one level down *)

  Definition call_named (callee : string) (args : list prov) : option (list string) :=
    match lookup_fn callee, written_fn callee with
    | Some f, Some ws => through_args (ef_params f) args ws
    | _, _ => None
    end.

  Definition ev_written (e : eev) : option (list string) :=
    match e with
    | EWrite p _ => roots_of p
    | ECgo f args => match assoc f cprotos with Some ps => cgo_args ps args | None => None end
    | ECallF g args => call_named g args
    | ECallM recv cands m args =>
        match cands with
        | [] => match assoc m ext_methods with
                | Some (wr, idx) => opt_app (if wr then roots_of recv else Some []) (args_at idx args)
                | None => None
                end
        | _ => fold_right (fun c acc => opt_app (call_named c (recv :: args)) acc) (Some []) cands
        end
    | EExt f args => match assoc f ext_functions with Some idx => args_at idx args | None => None end
    | EUnknown _ => None
    end.

  Definition body_written (b : list eev) : option (list string) :=
    fold_right (fun e acc => opt_app (ev_written e) acc) (Some []) b.
End Written.

Fixpoint written (fuel : nat) (n : string) : option (list string) :=
  match fuel with
  | O => None
  | S f => match lookup_fn n with
           | Some fn => body_written (written f) (ef_body fn)
           | None => None
           end
  end.

Definition effect_fuel : nat := 8.

(* an operation writes nothing shared: accepted by the checker with an empty written set *)
Definition writes_nothing (n : string) : bool :=
  match written effect_fuel n with Some [] => true | _ => false end.

Definition listed_ops_check : bool := forallb writes_nothing effect_listed.

(* known exceptions: (function, C function, argument index) where a receiver-/argument-derived
   pointer reaches a non-const C parameter.  Expected: none. *)
Definition known_exceptions : list (string * string * nat) := [].

Fixpoint nonconst_shared (fname cf : string) (i : nat) (ps : list cparam) (args : list prov) : list (string * string * nat) :=
  match ps, args with
  | p :: pr, a :: ar =>
      (if cp_ptr p && negb (cp_const p) then match a with PShared _ _ | PUnknown _ => [(fname, cf, i)] | _ => [] end else [])
      ++ nonconst_shared fname cf (S i) pr ar
  | _, _ => []
  end.

(* every place in the closure where shared data is handed to a non-const C parameter (also in
   helpers, where the "shared" value is the helper's own parameter, e.g. the out-buffer of writePointE2) *)
Definition nonconst_shared_sites : list (string * string * nat) :=
  flat_map (fun fn => flat_map (fun e => match e with
                                         | ECgo cf args => match assoc cf cprotos with
                                                           | Some ps => nonconst_shared (ef_name fn) cf 0 ps args
                                                           | None => [(ef_name fn, cf, 0)]
                                                           end
                                         | _ => [] end) (ef_body fn)) effect_skels.

(* KMAC128 ComputeHash: every state-modifying method is called on the fresh clone *)
Definition is_mutator (m : string) : bool :=
  match assoc m ext_methods with Some (true, _) => true | _ => false end.

Definition kmac_mutators_on_clone : bool :=
  match lookup_fn "kmac128.ComputeHash" with
  | Some fn =>
      forallb (fun e => match e with
                        | ECallM recv _ m _ => if is_mutator m then match recv with PFresh => true | _ => false end else true
                        | EWrite p _ => match p with PFresh => true | _ => false end
                        | EUnknown _ => false
                        | _ => true
                        end) (ef_body fn)
      && existsb (fun e => match e with ECallM (PShared _ _) _ "Clone" _ => true | _ => false end) (ef_body fn)
  | None => false
  end.

(* ------------------------------------------------------------------ *)
(* read/write-set semantics of concurrently running operations          *)
(* ------------------------------------------------------------------ *)
Section RW.
  Variables V L : Type.                       (* values of shared locations; private state of a thread *)
  Variable rd : string -> V -> L -> L.
  Variable wr : string -> L -> V.

  Inductive sact := SRd (l : string) | SWr (l : string).   (* access to a SHARED location *)
  Definition smem := string -> V.
  Definition supd (m : smem) (l : string) (v : V) : smem := fun g => if String.eqb g l then v else m g.

  Definition seff (a : sact) (m : smem) (s : L) : smem * L :=
    match a with
    | SRd l => (m, rd l (m l) s)
    | SWr l => (supd m l (wr l s), s)
    end.

  Record sthread := mkST { st_loc : L; st_code : list sact }.
  Record scfg := mkSC { sc_mem : smem; sc_thr : list sthread }.

  Fixpoint sset_nth {A} (i : nat) (x : A) (l : list A) : list A :=
    match l, i with
    | [], _ => []
    | _ :: r, O => x :: r
    | y :: r, S j => y :: sset_nth j x r
    end.

  Inductive sstep : scfg -> scfg -> Prop :=
  | SStep C i t a k :
      nth_error (sc_thr C) i = Some t -> st_code t = a :: k ->
      sstep C (mkSC (fst (seff a (sc_mem C) (st_loc t)))
                    (sset_nth i (mkST (snd (seff a (sc_mem C) (st_loc t))) k) (sc_thr C))).

  Inductive sreach : scfg -> scfg -> Prop :=
  | SRNil C : sreach C C
  | SRStep C C1 C2 : sreach C C1 -> sstep C1 C2 -> sreach C C2.

  (* an operation run alone on memory m *)
  Fixpoint run_alone (m : smem) (s : L) (code : list sact) : smem * L :=
    match code with
    | [] => (m, s)
    | a :: k => run_alone (fst (seff a m s)) (snd (seff a m s)) k
    end.

  Definition is_swr (a : sact) : bool := match a with SWr _ => true | SRd _ => false end.
  Definition write_free (code : list sact) : bool := forallb (fun a => negb (is_swr a)) code.

  Definition sloc (a : sact) : string := match a with SRd l | SWr l => l end.
  (* two accesses conflict: same location, at least one write *)
  Definition conflict (a b : sact) : bool := String.eqb (sloc a) (sloc b) && (is_swr a || is_swr b).
End RW.
