(* Model of /repo/dkg.go (dkgCommon, message tags, error classes) and
   /repo/dkg_feldmanvss.go (plain Feldman VSS), handler by handler.  No proofs here.

   Group elements of G2 are modelled by their discrete logarithms in Z_r with respect to
   the generator g2 (the harness and the honest dealers know them): a verification vector
   is the list of the t+1 coefficients a_k, the public key of participant j is
   P(j+1) = sum a_k (j+1)^k mod r, and G2_check_log(x, y) is  x = log(y).

   Messages are seen through the checks the handlers perform on them (tag byte, length,
   index byte, scalar value, result of G2_vector_read_bytes); [classify] maps a tag byte and
   the raw reading of a byte string to that view using the constants of the Go source.

   Explicit panic semantics: every Go expression that could index out of range or
   dereference nil returns [RPanic] (terminal); reading a partially initialised vector
   returns [RUndef]. *)
From Coq Require Import ZArith List Bool Arith.
From V Require Import Generated.Consts.
Import ListNotations.
Open Scope Z_scope.

(* ---- the scalar field ---- *)
(* order of G1/G2 of BLS12-381 (blst: BLS12_381_r) *)
Definition r : Z := 0x73eda753299d7d483339d80809a1d80553bda402fffe5bfeffffffff00000001.

(* P(x) = a_0 + a_1 x + ... (Horner, as Fr_polynomial_image / E2_polynomial_image) *)
Fixpoint peval (a : list Z) (x : Z) : Z :=
  match a with
  | [] => 0
  | c :: a' => (c + x * peval a' x) mod r
  end.

(* the polynomial generateFrPolynomial(seed, t) produces has exactly t+1 coefficients in
   [0,r); a vector G2_vector_read_bytes accepted has exactly t+1 points *)
Definition fixpoly (t : nat) (a : list Z) : list Z :=
  firstn (S t) (map (fun z => z mod r) a ++ repeat 0 (S t)).

(* ---- configuration of an instance (constructor arguments) ---- *)
Record cfg := mkCfg { c_n : nat; c_t : nat; c_my : nat }.

(* newDKGCommon's argument validation *)
Definition cfg_ok (cf : cfg) (dealer : nat) : bool :=
  (Z.to_nat crypto_DKGMinSize <=? c_n cf)%nat && (c_n cf <=? Z.to_nat crypto_DKGMaxSize)%nat &&
  (c_my cf <? c_n cf)%nat && (dealer <? c_n cf)%nat &&
  (c_t cf <? c_n cf)%nat && (Z.to_nat crypto_MinimumThreshold <=? c_t cf)%nat.

(* ---- messages ---- *)
Inductive sbody := SBadLen | SVal (z : Z).                 (* data after the share tag *)
Inductive vbody := VBadLen | VBad (kind : N) | VOk (l : list Z). (* after the vector tag: wrong size,
      G2_vector_read_bytes error (1 bad encoding, 2 bad value, 3 not on curve, 4 not in G2), valid *)
Inductive cbody := CBadLen | CIdx (b : Z).                 (* complaint: |complainee| *)
Inductive abody := ABadLen | AVal (b : Z) (z : Z).         (* answer: |complainer|share| *)
Inductive msg :=
| MEmpty
| MShare (s : sbody)
| MVec (v : vbody)
| MComplaint (c : cbody)
| MAnswer (a : abody)
| MOther (tag : Z).

(* what the readers see of the bytes after the tag *)
Record raw := mkRaw {
  r_len : nat;       (* len(msg) - 1 *)
  r_first : Z;       (* msg[1] if present *)
  r_s0 : Z;          (* big-endian value of msg[1:33] when r_len = 32 *)
  r_s1 : Z;          (* big-endian value of msg[2:34] when r_len = 33 *)
  r_vec : vbody      (* G2_vector_read_bytes on msg[1:] when r_len = 96 (t+1) *)
}.

Definition shareSize : nat := Z.to_nat crypto_frBytesLen.
Definition verifVectorSize : nat := Z.to_nat crypto_g2BytesLen.
Definition complaintSize : nat := 1.
Definition complaintAnswerSize : nat := 1 + Z.to_nat crypto_frBytesLen.

Definition classify (t : nat) (tag : Z) (w : raw) : msg :=
  if tag =? crypto_feldmanVSSShare then
    MShare (if Nat.eqb (r_len w) shareSize then SVal (r_s0 w) else SBadLen)
  else if tag =? crypto_feldmanVSSVerifVec then
    MVec (if Nat.eqb (r_len w) (verifVectorSize * (t + 1)) then
            match r_vec w with VBadLen => VBad 1 | v => v end
          else VBadLen)
  else if tag =? crypto_feldmanVSSComplaint then
    MComplaint (if Nat.eqb (r_len w) complaintSize then CIdx (r_first w) else CBadLen)
  else if tag =? crypto_feldmanVSSComplaintAnswer then
    MAnswer (if Nat.eqb (r_len w) complaintAnswerSize then AVal (r_first w) (r_s1 w) else ABadLen)
  else MOther tag.

(* ---- outputs ---- *)
Inductive event :=
| EvSend (dest : nat) (m : msg)
| EvBcast (m : msg)
| EvDisq (j : nat)
| EvFlag (j : nat).

Inductive result :=
| ROk
| RInvalidInput            (* crypto.IsInvalidInputsError *)
| RStateErr                (* crypto.IsDKGInvalidStateTransitionError *)
| RBool (b : bool)         (* Running() *)
| RKeys (x : Z) (Y : Z) (ys : list Z)   (* End: private share, log of group key, logs of public shares *)
| RFailure                 (* crypto.IsDKGFailureError *)
| RPanic                   (* index out of range / nil dereference *)
| RUndef.                  (* value computed from a partially initialised vector *)

(* ---- API calls ---- *)
(* the seed of Start is seen through generateFrPolynomial: too short, or the polynomial *)
Inductive seed := SeedShort | SeedOk (a : list Z).

Inductive call :=
| CStart (sd : seed)
| CNextTimeout
| CEnd
| CRunning
| CBroadcast (orig : Z) (m : msg)
| CPrivate (orig : Z) (m : msg)
| CForce (j : Z).

(* readScalarFrStar(&dst, data) with len(data) = 32: (accepted, new value of dst).
   Fr_read_bytes leaves dst untouched when the value is >= r and stores 0 before
   Fr_star_read_bytes rejects a zero. *)
Definition read_star (z old : Z) : bool * Z :=
  if (0 <? z) && (z <? r) then (true, z)
  else if z =? 0 then (false, 0) else (false, old).

(* ---- feldmanVSSstate (without the shared dkgCommon.running) ---- *)
Inductive vAval := VANil | VAPartial | VAFull (l : list Z).

Record vinst := mkV {
  v_a : option (list Z);      (* s.a, nil before generateFrPolynomial succeeded *)
  v_vA : vAval;               (* s.vA *)
  v_vArecv : bool;
  v_x : Z;
  v_xrecv : bool;
  v_y : option (list Z);      (* s.y, None = nil *)
  v_valid : bool
}.

Definition v_init : vinst :=
  mkV None VANil false 0 false None false.

Definition set_a v a := mkV a (v_vA v) (v_vArecv v) (v_x v) (v_xrecv v) (v_y v) (v_valid v).
Definition set_vA v a := mkV (v_a v) a (v_vArecv v) (v_x v) (v_xrecv v) (v_y v) (v_valid v).
Definition set_vArecv v b := mkV (v_a v) (v_vA v) b (v_x v) (v_xrecv v) (v_y v) (v_valid v).
Definition set_x v x := mkV (v_a v) (v_vA v) (v_vArecv v) x (v_xrecv v) (v_y v) (v_valid v).
Definition set_xrecv v b := mkV (v_a v) (v_vA v) (v_vArecv v) (v_x v) b (v_y v) (v_valid v).
Definition set_y v y := mkV (v_a v) (v_vA v) (v_vArecv v) (v_x v) (v_xrecv v) y (v_valid v).
Definition set_valid v b := mkV (v_a v) (v_vA v) (v_vArecv v) (v_x v) (v_xrecv v) (v_y v) b.

Section Inst.
Variable cf : cfg.
Variable d : nat.      (* dealerIndex *)

Let n := c_n cf.
Let t := c_t cf.
Let my := c_my cf.

(* public keys y[j] = Q(j+1), j < n (E2_polynomial_images / frPolynomialImage) *)
Definition pubkeys (a : list Z) : list Z :=
  map (fun j => peval a (Z.of_nat j + 1)) (seq 0 n).

(* verifyShare: G2_check_log(x, y[myIndex]); None = s.y[s.myIndex] panics *)
Definition verify_share (v : vinst) : option bool :=
  match v_y v with
  | None => None
  | Some ys => match nth_error ys my with
               | None => None
               | Some yv => Some (v_x v =? yv)
               end
  end.

(* the loop of generateShares over i = 1..n: events and the entries of s.y written so far;
   stops when the dealer's own share is zero (readScalarFrStar fails) *)
Fixpoint gen_loop (a : list Z) (js : list nat) : list event * list Z * bool :=
  match js with
  | [] => ([], [], true)
  | j :: js' =>
      let p := peval a (Z.of_nat j + 1) in
      if Nat.eqb j my then
        if p =? 0 then ([], [p], false)
        else let '(ev, ys, ok) := gen_loop a js' in (ev, p :: ys, ok)
      else
        let '(ev, ys, ok) := gen_loop a js' in
        (EvSend j (MShare (SVal p)) :: ev, p :: ys, ok)
  end.

(* generateShares: a seed that is too short leaves the state unchanged (the polynomial is
   generated into a local first); the (probability 1/r) failure on a zero own share happens
   inside the loop, after s.a, s.y, s.vA were written and the shares below myIndex sent *)
Definition gen_shares (sd : seed) (v : vinst) : vinst * result * list event :=
  match sd with
  | SeedShort => (v, RInvalidInput, [])
  | SeedOk a0 =>
      let a := fixpoly t a0 in
      let v2 := set_vA (set_y (set_a v (Some a)) (Some (repeat 0 n))) (VAFull a) in
      let '(ev, ys, ok) := gen_loop a (seq 0 n) in
      let yfull := ys ++ repeat 0 (n - length ys) in
      if ok then
        let v3 := set_x (set_y v2 (Some yfull)) (peval a (Z.of_nat my + 1)) in
        (set_valid (set_xrecv (set_vArecv v3 true) true) true, ROk, ev ++ [EvBcast (MVec (VOk a))])
      else
        (set_x (set_y v2 (Some yfull)) 0, RInvalidInput, ev)
  end.

(* Start: the instance is marked as running only if the shares could be generated *)
Definition vss_start (run : bool) (v : vinst) (sd : seed) : bool * vinst * result * list event :=
  if run then (run, v, RStateErr, [])
  else if Nat.eqb d my then
    let '(v', res, ev) := gen_shares sd v in
    match res with
    | ROk => (true, v', res, ev)
    | _ => (run, v', res, ev)
    end
  else (true, v, ROk, []).

(* receiveShare; None = panic *)
Definition vss_receive_share (o : nat) (m : msg) (v : vinst) : option (vinst * list event) :=
  if negb (Nat.eqb o d) then Some (v, [])
  else if v_xrecv v then Some (v, [EvFlag o])
  else
    let v1 := set_xrecv v true in
    match m with
    | MShare (SVal z) =>
        let '(ok, x') := read_star z (v_x v1) in
        let v2 := set_x v1 x' in
        if negb ok then Some (set_valid v2 false, [EvFlag o])
        else if v_vArecv v2 && (match v_y v2 with Some _ => true | None => false end) then
          match verify_share v2 with
          | None => None
          | Some b => Some (set_valid v2 b, [])
          end
        else Some (v2, [])
    | _ => Some (set_valid v1 false, [EvFlag o])
    end.

(* receiveVerifVector *)
Definition vss_receive_vector (o : nat) (vb : vbody) (v : vinst) : option (vinst * list event) :=
  if negb (Nat.eqb o d) then Some (v, [])
  else if v_vArecv v then Some (v, [EvFlag o])
  else
    match vb with
    | VBadLen => Some (set_valid (set_vArecv v true) false, [EvDisq o])
    | VBad _ => Some (set_valid (set_vArecv (set_vA v VAPartial) true) false, [EvDisq o])
    | VOk l =>
        let a := fixpoly t l in
        let v1 := set_vArecv (set_y (set_vA v (VAFull a)) (Some (pubkeys a))) true in
        if v_xrecv v1 then
          match verify_share v1 with
          | None => None
          | Some b => Some (set_valid v1 b, [])
          end
        else Some (v1, [])
    end.

Definition in_range (orig : Z) : bool := (0 <=? orig) && (orig <? Z.of_nat n).

Definition lift (run : bool) (v : vinst) (h : option (vinst * list event)) : bool * vinst * result * list event :=
  match h with
  | None => (run, v, RPanic, [])
  | Some (v', ev) => (run, v', ROk, ev)
  end.

(* HandleBroadcastMsg *)
Definition vss_broadcast (run : bool) (v : vinst) (orig : Z) (m : msg) : bool * vinst * result * list event :=
  if negb run then (run, v, RStateErr, [])
  else if negb (in_range orig) then (run, v, RInvalidInput, [])
  else
    let o := Z.to_nat orig in
    if Nat.eqb my o then (run, v, ROk, [])
    else match m with
         | MEmpty => (run, v, ROk, [EvDisq o])
         | MVec vb => lift run v (vss_receive_vector o vb v)
         | _ => (run, v, ROk, [EvDisq o])
         end.

(* HandlePrivateMsg *)
Definition vss_private (run : bool) (v : vinst) (orig : Z) (m : msg) : bool * vinst * result * list event :=
  if negb run then (run, v, RStateErr, [])
  else if negb (in_range orig) then (run, v, RInvalidInput, [])
  else
    let o := Z.to_nat orig in
    if Nat.eqb my o then (run, v, ROk, [])
    else lift run v (vss_receive_share o m v).

(* ForceDisqualify *)
Definition vss_force (run : bool) (v : vinst) (j : Z) : bool * vinst * result * list event :=
  if negb run then (run, v, RStateErr, [])
  else if negb (in_range j) then (run, v, RInvalidInput, [])
  else if Nat.eqb (Z.to_nat j) d then (run, set_valid v false, ROk, [])
  else (run, v, ROk, []).

(* the key triple End returns: x, vA[0], y; shared by the three protocols *)
Definition end_keys (x : Z) (vA : vAval) (y : option (list Z)) : result :=
  match vA with
  | VANil => RPanic                       (* s.vA[0] on a nil slice *)
  | VAPartial => RUndef
  | VAFull [] => RPanic
  | VAFull (Y :: _) =>
      match y with
      | None => RUndef                    (* a slice of nil public keys is returned *)
      | Some ys =>
          if (n <? length ys)%nat then RPanic   (* y[i] beyond make([]PublicKey, size) *)
          else if x =? 0 then RFailure
          else if Y =? 0 then RFailure
          else RKeys x Y ys
      end
  end.

(* End *)
Definition vss_end (run : bool) (v : vinst) : bool * vinst * result * list event :=
  if negb run then (run, v, RStateErr, [])
  else if negb (v_valid v) then (false, v, RFailure, [])
  else (false, v, end_keys (v_x v) (v_vA v) (v_y v), []).

(* the instance as a state machine *)
Record vstate := mkVS { vs_run : bool; vs_v : vinst }.

Definition vss_init : vstate := mkVS false v_init.

Definition pack (q : bool * vinst * result * list event) : vstate * result * list event :=
  let '(run, v, res, ev) := q in (mkVS run v, res, ev).

Definition vss_step (s : vstate) (c : call) : vstate * result * list event :=
  match c with
  | CStart sd => pack (vss_start (vs_run s) (vs_v s) sd)
  | CNextTimeout => (s, ROk, [])                       (* dkgCommon.NextTimeout *)
  | CEnd => pack (vss_end (vs_run s) (vs_v s))
  | CRunning => (s, RBool (vs_run s), [])
  | CBroadcast o m => pack (vss_broadcast (vs_run s) (vs_v s) o m)
  | CPrivate o m => pack (vss_private (vs_run s) (vs_v s) o m)
  | CForce j => pack (vss_force (vs_run s) (vs_v s) j)
  end.

End Inst.

(* a run of a state machine: the outputs of the calls, stopping after a panic *)
Section Run.
Context {S : Type}.
Variable step : S -> call -> S * result * list event.

Fixpoint run (s : S) (cs : list call) : list (result * list event) :=
  match cs with
  | [] => []
  | c :: cs' =>
      let '(s', res, ev) := step s c in
      (res, ev) :: match res with RPanic => [] | _ => run s' cs' end
  end.

Fixpoint final (s : S) (cs : list call) : S :=
  match cs with
  | [] => s
  | c :: cs' => let '(s', res, _) := step s c in
                match res with RPanic => s' | _ => final s' cs' end
  end.
End Run.
