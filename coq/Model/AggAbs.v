(* Aggregation of keys and signatures (bls_multisig.go:112-270) over the bilinear algebra. *)
From Coq Require Import ZArith NArith List Bool String.
From V Require Import Spec.Bilinear Generated.Consts Model.BlsAbs.
Import ListNotations.

Inductive aerr := ErrEmptyList | ErrNotBLSKey | ErrInvalidSignature.
Inductive ares (A : Type) := AOk (a : A) | AErr (e : aerr).
Arguments AOk {A}. Arguments AErr {A}.

Section Agg.
Context {B : bilinear} {C : codecs}.

(* AggregateBLSSignatures: empty list; per-element length; E1_sum_vector_byte = decode each
   (no membership check), sum, encode *)
Fixpoint decode_all (l : list (list N)) : option (list E1) :=
  match l with
  | [] => Some []
  | b :: r => match dec1 b, decode_all r with
              | Some P, Some ps => Some (P :: ps)
              | _, _ => None
              end
  end.
Definition agg_sigs (sigs : list (list N)) : ares (list N) :=
  match sigs with
  | [] => AErr ErrEmptyList
  | _ =>
    if negb (forallb (fun s => Nat.eqb (List.length s) (Z.to_nat crypto_SignatureLenBLSBLS12381)) sigs)
    then AErr ErrInvalidSignature
    else match decode_all sigs with
         | Some ps => AOk (enc1 (sum1 ps))
         | None => AErr ErrInvalidSignature
         end
  end.

(* AggregateBLSPrivateKeys: keys of another scheme are None *)
Fixpoint all_bls {A} (l : list (option A)) : option (list A) :=
  match l with
  | [] => Some []
  | Some a :: r => match all_bls r with Some r' => Some (a :: r') | None => None end
  | None :: _ => None
  end.
Definition agg_sks (keys : list (option F)) : ares F :=
  match keys with
  | [] => AErr ErrEmptyList
  | _ => match all_bls keys with Some ks => AOk (fsum ks) | None => AErr ErrNotBLSKey end
  end.

(* AggregateBLSPublicKeys: sum of the points, identity flag recomputed from the sum *)
Definition agg_pks (keys : list (option pubkey)) : ares pubkey :=
  match keys with
  | [] => AErr ErrEmptyList
  | _ => match all_bls keys with
         | Some ks => AOk (mk_pubkey (sum2 (map pk_point ks)))
         | None => AErr ErrNotBLSKey
         end
  end.

(* RemoveBLSPublicKeys: an empty removal list returns the SAME key object *)
Definition sub2 (P Q : E2) : E2 := add2 P (smul2 (fopp f1) Q).
Definition remove_pks (agg : option pubkey) (keys : list (option pubkey)) : ares pubkey :=
  match agg with
  | None => AErr ErrNotBLSKey
  | Some a =>
    match all_bls keys with
    | None => AErr ErrNotBLSKey
    | Some [] => AOk a
    | Some ks => AOk (mk_pubkey (sub2 (pk_point a) (sum2 (map pk_point ks))))
    end
  end.

Definition identity_pk : pubkey := mk_pubkey O2.
Definition identity_sig : list N := enc1 O1.
(* IsBLSSignatureIdentity compares with the identity encoding *)
End Agg.
