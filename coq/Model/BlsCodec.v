(* Model of the byte codecs of /repo/bls12381_utils.c:
   Fr_read_bytes / Fr_star_read_bytes / Fr_write_bytes (lines 145-176),
   Fp_read_bytes / Fp_write_bytes, Fp2_read_bytes / Fp2_write_bytes (real part first, as the code does),
   E1_read_bytes / E1_write_bytes (494-595), E2_read_bytes / E2_write_bytes (776-900),
   and the Go wrappers' length guards.  Generic over Lib/Num.v. Sizes come from Generated/Consts.v. *)
From Coq Require Import ZArith NArith List Bool.
From V Require Import Lib.Num Prim.Bls12 Generated.Consts.
Import ListNotations.
Open Scope Z_scope.

Inductive status := VALID | BAD_ENCODING | BAD_VALUE | POINT_NOT_ON_CURVE.
Definition status_eqb (a b : status) : bool :=
  match a, b with
  | VALID, VALID | BAD_ENCODING, BAD_ENCODING | BAD_VALUE, BAD_VALUE
  | POINT_NOT_ON_CURVE, POINT_NOT_ON_CURVE => true
  | _, _ => false
  end.

Inductive apt (F : Type) := Inf | Aff (x y : F).
Arguments Inf {F}. Arguments Aff {F}.

Definition Fr_BYTES : nat := Z.to_nat C_Fr_BYTES.
Definition Fp_BYTES : nat := Z.to_nat C_Fp_BYTES.
Definition G1_SER_BYTES : nat := Z.to_nat C_G1_SER_BYTES.
Definition G2_SER_BYTES : nat := Z.to_nat C_G2_SER_BYTES.

Section Codec.
Context {T : Type} (M : num T) (p r : T).
Let zero := n_of_Z M 0.

(* big-endian bytes <-> number *)
Definition os2ip (b : list N) : T :=
  fold_left (fun acc x => n_add M (n_mul M acc (n_of_Z M 256)) (n_of_Z M (Z.of_N x))) b zero.
Fixpoint i2osp_rev (k : nat) (v : T) : list N :=
  match k with
  | O => []
  | S k' => Z.to_N (n_to_Z M (n_mod M v (n_of_Z M 256))) :: i2osp_rev k' (n_div M v (n_of_Z M 256))
  end.
Definition i2osp (k : nat) (v : T) : list N := rev (i2osp_rev k v).

(* ---- F_r ---- *)
Definition fr_read_bytes (b : list N) : status * T :=
  if negb (Nat.eqb (length b) Fr_BYTES) then (BAD_ENCODING, zero)
  else let v := os2ip b in
       if n_ltb M v r then (VALID, v) else (BAD_VALUE, zero).
Definition fr_star_read_bytes (b : list N) : status * T :=
  match fr_read_bytes b with
  | (VALID, v) => if n_eqb M v zero then (BAD_VALUE, zero) else (VALID, v)
  | e => e
  end.
Definition fr_write_bytes (v : T) : list N := i2osp Fr_BYTES v.

(* ---- F_p ---- *)
Definition fp_read_bytes (b : list N) : status * T :=
  if negb (Nat.eqb (length b) Fp_BYTES) then (BAD_ENCODING, zero)
  else let v := os2ip b in
       if n_ltb M v p then (VALID, v) else (BAD_VALUE, zero).
Definition fp_write_bytes (v : T) : list N := i2osp Fp_BYTES v.

(* F_p^2: real part (c0) first, then imaginary part (c1) -- the order of the code *)
Definition fp2_read_bytes (b : list N) : status * fp2 (T:=T) :=
  if negb (Nat.eqb (length b) (2 * Fp_BYTES)) then (BAD_ENCODING, (zero, zero))
  else match fp_read_bytes (firstn Fp_BYTES b) with
       | (VALID, c0) =>
           match fp_read_bytes (skipn Fp_BYTES b) with
           | (VALID, c1) => (VALID, (c0, c1))
           | (e, _) => (e, (zero, zero))
           end
       | (e, _) => (e, (zero, zero))
       end.
Definition fp2_write_bytes (a : fp2 (T:=T)) : list N := fp_write_bytes (fst a) ++ fp_write_bytes (snd a).

(* header helpers on the first byte *)
Definition hd0 (b : list N) : N := match b with x :: _ => x | [] => 0%N end.
Definition set_hd (b : list N) (x : N) : list N := match b with _ :: t => x :: t | [] => [] end.
Definition all_zero (l : list N) : bool := forallb (fun x => N.eqb x 0) l.

(* ---- E1, compressed (G1_SERIALIZATION = COMPRESSED is checked against Consts) ---- *)
Definition e1_read_bytes (b : list N) : status * apt T :=
  if negb (Nat.eqb (length b) G1_SER_BYTES) then (BAD_ENCODING, Inf)
  else
    let h := hd0 b in
    let compressed := N.shiftr h 7 in
    if negb (Bool.eqb (N.eqb compressed 1) (Z.eqb C_G1_SERIALIZATION C_COMPRESSED)) then (BAD_ENCODING, Inf)
    else if negb (N.eqb (N.land h 0x40) 0) then
      (* infinity: all remaining bits must be zero *)
      if negb (N.eqb (N.land h 0x3F) 0) then (BAD_ENCODING, Inf)
      else if all_zero (tl b) then (VALID, Inf) else (BAD_ENCODING, Inf)
    else
      let y_sign := N.eqb (N.land (N.shiftr h 5) 1) 1 in
      match fp_read_bytes (set_hd b (N.land h 0x1F)) with
      | (VALID, x) =>
          match fsqrt M p (fadd M p (fmul M p (fmul M p x x) x) (b1 M)) with
          | None => (POINT_NOT_ON_CURVE, Inf)
          | Some y => (VALID, Aff x (if Bool.eqb (fsign M y) y_sign then y else fneg M p y))
          end
      | (e, _) => (e, Inf)
      end.

Definition e1_write_bytes (P : apt T) : list N :=
  match P with
  | Inf => 0xC0%N :: repeat 0%N (G1_SER_BYTES - 1)
  | Aff x y =>
      let o := fp_write_bytes x in
      set_hd o (N.lor (N.lor (hd0 o) (if fsign M y then 0x20 else 0)) 0x80)%N
  end.

(* ---- E2, compressed ---- *)
Definition e2_read_bytes (b : list N) : status * apt (fp2 (T:=T)) :=
  if negb (Nat.eqb (length b) G2_SER_BYTES) then (BAD_ENCODING, Inf)
  else
    let h := hd0 b in
    let compressed := N.shiftr h 7 in
    if negb (Bool.eqb (N.eqb compressed 1) (Z.eqb C_G2_SERIALIZATION C_COMPRESSED)) then (BAD_ENCODING, Inf)
    else if negb (N.eqb (N.land h 0x40) 0) then
      if negb (N.eqb (N.land h 0x3F) 0) then (BAD_ENCODING, Inf)
      else if all_zero (tl b) then (VALID, Inf) else (BAD_ENCODING, Inf)
    else
      let y_sign := N.eqb (N.land (N.shiftr h 5) 1) 1 in
      match fp2_read_bytes (set_hd b (N.land h 0x1F)) with
      | (VALID, x) =>
          match f2sqrt M p (f2add M p (f2mul M p (f2mul M p x x) x) (b2 M)) with
          | None => (POINT_NOT_ON_CURVE, Inf)
          | Some y => (VALID, Aff x (if Bool.eqb (f2sign M y) y_sign then y else f2neg M p y))
          end
      | (e, _) => (e, Inf)
      end.

Definition e2_write_bytes (P : apt (fp2 (T:=T))) : list N :=
  match P with
  | Inf => 0xC0%N :: repeat 0%N (G2_SER_BYTES - 1)
  | Aff x y =>
      let o := fp2_write_bytes x in
      set_hd o (N.lor (N.lor (hd0 o) (if f2sign M y then 0x20 else 0)) 0x80)%N
  end.

(* conversions to the Jacobian arithmetic of Prim/Bls12.v *)
Definition to_j1 (P : apt T) : jpt (F:=T) :=
  match P with Inf => jinf (FpOps M p) | Aff x y => of_affine (FpOps M p) x y end.
Definition of_j1 (P : jpt (F:=T)) : apt T :=
  match to_affine (FpOps M p) P with None => Inf | Some (x, y) => Aff x y end.
Definition to_j2 (P : apt (fp2 (T:=T))) : jpt (F:=fp2 (T:=T)) :=
  match P with Inf => jinf (Fp2Ops M p) | Aff x y => of_affine (Fp2Ops M p) x y end.
Definition of_j2 (P : jpt (F:=fp2 (T:=T))) : apt (fp2 (T:=T)) :=
  match to_affine (Fp2Ops M p) P with None => Inf | Some (x, y) => Aff x y end.

(* decodePublicKey (bls.go:339-360): length, E2 read, G2 membership *)
Definition decode_public_key (b : list N) : option (apt (fp2 (T:=T))) :=
  if negb (Nat.eqb (length b) (Z.to_nat crypto_PubKeyLenBLSBLS12381)) then None
  else match e2_read_bytes b with
       | (VALID, P) => if e2_in_G2 M p (to_j2 P) then Some P else None
       | _ => None
       end.

(* decodePrivateKey (bls.go, after the fix): length then Fr_star_read_bytes *)
Definition decode_private_key (b : list N) : option T :=
  if negb (Nat.eqb (length b) (Z.to_nat crypto_PrKeyLenBLSBLS12381)) then None
  else match fr_star_read_bytes b with (VALID, v) => Some v | _ => None end.
End Codec.

From Bignums Require Import BigZ.
Definition rB : bigZ := Eval vm_compute in BigZ.of_Z rZ.
