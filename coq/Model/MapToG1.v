(* Model of the hash-to-curve step of the BLS code, as implemented:
     bls12381_utils.c  map_to_G1 / map_96_bytes_to_Fp   (the 128 hasher bytes -> two field elements)
     blst_src/map_to_g1.c  map_to_g1                    (simplified SWU to the 11-isogenous curve E1'
        for both elements, addition on E1' (POINTonE1_dadd with a4 = A'), the 11-isogeny to E1
        evaluated in Jacobian coordinates, cofactor clearing by the addition chain for 1 - z)
   Executable over Lib/Num.v (run on BigZ, proved over Z).  All curve constants, the isogeny
   tables, the exponent of recip_sqrt_fp and the doubling counts of the addition chain come from
   Generated/IsoG1.v (regenerated from the C sources).  No proofs here. *)
From Coq Require Import ZArith NArith List Bool.
From V Require Import Lib.Num Prim.Bls12 Spec.ZcashCodec Generated.Consts Generated.IsoG1.
Import ListNotations.
Open Scope Z_scope.

(* constants of map_to_isogenous_E1, in the carrier *)
Record sswu_params (T : Type) := mkSP {
  sp_A : T;            (* Aprime_E1 *)
  sp_B : T;            (* Bprime_E1 *)
  sp_Z : T;            (* Z *)
  sp_minus_A : T;      (* minus_A *)
  sp_ZxA : T;          (* ZxA *)
  sp_c2 : T;           (* sqrt_minus_ZZZ *)
  sp_exp : Z;          (* exponent of recip_sqrt_fp_3mod4 *)
}.
Arguments sp_A {T}. Arguments sp_B {T}. Arguments sp_Z {T}. Arguments sp_minus_A {T}.
Arguments sp_ZxA {T}. Arguments sp_c2 {T}. Arguments sp_exp {T}.

(* what map_to_isogenous_E1 computes from tv2 = (Z u^2)^2 + Z u^2 alone *)
Record sswu_mid (T : Type) := mkMid {
  m_x1n : T; m_xd : T; m_gxd : T; m_gx1 : T; m_tv4 : T; m_t0 : T; m_e2 : bool; m_y1 : T }.
Arguments m_x1n {T}. Arguments m_xd {T}. Arguments m_gxd {T}. Arguments m_gx1 {T}.
Arguments m_tv4 {T}. Arguments m_t0 {T}. Arguments m_e2 {T}. Arguments m_y1 {T}.

Section MapToG1.
Context {T : Type} (M : num T) (p : T).
Local Notation zero := (n_of_Z M 0).
Local Notation one := (n_of_Z M 1).
Local Notation add := (fadd M p).
Local Notation sub := (fsub M p).
Local Notation mul := (fmul M p).
Local Notation neg := (fneg M p).
Local Notation eqb := (feqb M).

(* sgn0_pty_mont_384(a) & 1: parity of the canonical representative *)
Definition sgn0 (a : T) : bool := n_eqb M (n_mod M a (n_of_Z M 2)) one.

(* ---------- map_to_isogenous_E1 ---------- *)
Section SSWU.
Variable prm : sswu_params T.

(* recip_sqrt_fp: t0 = a^e; returns ((t0*a)^2 == a, t0) *)
Definition recip_sqrt (a : T) : bool * T :=
  let t0 := fpow M p a (sp_exp prm) in
  let t1 := mul t0 a in
  (eqb (mul t1 t1) a, t0).

(* the steps of map_to_isogenous_E1 that depend on tv2 = (Z u^2)^2 + Z u^2 only *)
Definition mid_x1n (tv2 : T) : T := mul (add tv2 one) (sp_B prm).      (* x1n = (tv2 + 1) * B *)
Definition mid_xd (tv2 : T) : T :=
  let xd0 := mul (sp_minus_A prm) tv2 in                               (* xd = -A * tv2 *)
  if eqb xd0 zero then sp_ZxA prm else xd0.                            (* e1: xd == 0 -> Z*A *)
Definition mid_gxd (xd xd2 : T) : T := mul xd xd2.                      (* gxd = xd^3 *)
Definition mid_gx1 (x1n xd2 gxd : T) : T :=                            (* x1n^3 + A x1n xd^2 + B xd^3 *)
  add (mul (add (mul x1n x1n) (mul (sp_A prm) xd2)) x1n) (mul (sp_B prm) gxd).
Definition mid_tv4 (gxd tv2b : T) : T := mul (mul gxd gxd) tv2b.        (* gx1 * gxd^3 *)

Definition sswu_mid_of (tv2 : T) : sswu_mid T :=
  let x1n := mid_x1n tv2 in
  let xd := mid_xd tv2 in
  let xd2 := mul xd xd in
  let gxd := mid_gxd xd xd2 in
  let gx1 := mid_gx1 x1n xd2 gxd in
  let tv2b := mul gx1 gxd in
  let tv4 := mid_tv4 gxd tv2b in
  let r := recip_sqrt tv4 in
  mkMid T x1n xd gxd gx1 tv4 (snd r) (fst r) (mul (snd r) tv2b).       (* y1 = t0 * gx1 * gxd *)

Definition sswu (u : T) : @jpt T :=
  let uu := mul u u in
  let Zuu := mul (sp_Z prm) uu in
  let tv2 := add (mul Zuu Zuu) Zuu in
  let m := sswu_mid_of tv2 in
  let x2n := mul Zuu (m_x1n m) in
  let y2 := mul (mul (mul (m_y1 m) (sp_c2 prm)) uu) u in
  let xn := if m_e2 m then m_x1n m else x2n in
  let y := if m_e2 m then m_y1 m else y2 in
  let y' := if xorb (sgn0 u) (sgn0 y) then neg y else y in
  mkJ (mul xn (m_xd m)) (mul y' (m_gxd m)) (m_xd m).
End SSWU.

(* ---------- POINTonE1_dadd(out, p1, p2, a4) ---------- *)
(* the common tail: X3 = R^2 - H^2 sx, Y3 = R (H^2 U1 - X3) - H^3 S1, Z3 = H zz, on the inputs
   selected for addition (U1, S1, Z1 Z2, U2-U1, S2-S1, U1+U2) or doubling (X1, Y1, Z1, 2 Y1,
   3 X1^2 [+ a4 Z1^4], 2 X1) *)
Definition dadd_tail (p3X p3Y p3Z H R sx : T) : @jpt T :=
  let Z3 := mul p3Z H in
  let HH := mul H H in
  let HHHS1 := mul (mul HH H) p3Y in
  let HHU1 := mul HH p3X in
  let X3 := sub (mul R R) (mul HH sx) in
  let Y3 := sub (mul (sub HHU1 X3) R) HHHS1 in
  mkJ X3 Y3 Z3.

Definition dadd_dbl_R (a4 : option T) (X1 Z1Z1 : T) : T :=
  let x1x1 := mul X1 X1 in
  let R0 := add (add x1x1 x1x1) x1x1 in                 (* mul_by_3 *)
  match a4 with
  | Some a => add R0 (mul (mul Z1Z1 Z1Z1) a)            (* + a4 * Z1^4 *)
  | None => R0
  end.

Definition dadd (a4 : option T) (P Q : @jpt T) : @jpt T :=
  let p2inf := eqb (jz Q) zero in
  let p1inf := eqb (jz P) zero in
  let Z2Z2 := mul (jz Q) (jz Q) in
  let Z1Z1 := mul (jz P) (jz P) in
  let S1 := mul (mul (jy P) (jz Q)) Z2Z2 in
  let S2 := mul (mul (jy Q) (jz P)) Z1Z1 in
  let U1 := mul Z2Z2 (jx P) in
  let U2 := mul Z1Z1 (jx Q) in
  (* is_dbl: H == 0 and R == 0 (vec_is_zero over both) *)
  let is_dbl := if eqb (sub U2 U1) zero then eqb (sub S2 S1) zero else false in
  let p3 := if is_dbl
            then dadd_tail (jx P) (jy P) (jz P) (add (jy P) (jy P)) (dadd_dbl_R a4 (jx P) Z1Z1) (add (jx P) (jx P))
            else dadd_tail U1 S1 (mul (jz P) (jz Q)) (sub U2 U1) (sub S2 S1) (add U2 U1) in
  if p1inf then Q else if p2inf then P else p3.

(* ---------- isogeny_map_to_E1 ---------- *)
(* sum_i ks[i] X^i Zz^(deg-i), deg = length ks - 1, by Horner from the leading coefficient *)
Definition hom_eval (ks : list T) (X Zz : T) : T :=
  match rev ks with
  | [] => zero
  | lead :: rest =>
      fst (fold_left (fun (st : T * T) k =>
                        let pw := mul (snd st) Zz in
                        (add (mul (fst st) X) (mul k pw), pw))
                     rest (lead, one))
  end.

Record iso_tables (T' : Type) := mkIso { it_xn : list T'; it_xd : list T'; it_yn : list T'; it_yd : list T' }.
Arguments it_xn {T'}. Arguments it_xd {T'}. Arguments it_yn {T'}. Arguments it_yd {T'}.

Definition iso_map (tb : iso_tables T) (P : @jpt T) : @jpt T :=
  let Zz := mul (jz P) (jz P) in
  let xn := hom_eval (it_xn tb) (jx P) Zz in
  let xd := mul (hom_eval (it_xd tb ++ [one]) (jx P) Zz) Zz in             (* monic; xd *= Z^2 *)
  let yn := mul (hom_eval (it_yn tb) (jx P) Zz) (jy P) in                  (* yn *= Y *)
  let yd := mul (hom_eval (it_yd tb ++ [one]) (jx P) Zz) (mul Zz (jz P)) in (* monic; yd *= Z^3 *)
  let Zo := mul xd yd in
  let Xo := mul (mul xn yd) Zo in
  let Yo := mul (mul (mul Zo Zo) xd) yn in
  mkJ Xo Yo Zo.

(* ---------- POINTonE1_times_minus_z ---------- *)
Fixpoint dbl_n (n : nat) (P : @jpt T) : @jpt T :=
  match n with O => P | S n' => dbl_n n' (jdbl (FpOps M p) P) end.
Definition times_minus_z (chain : list Z) (P : @jpt T) : @jpt T :=
  fold_left (fun out n => dbl_n (Z.to_nat n) (dadd None out P)) chain (jdbl (FpOps M p) P).

(* ---------- map_to_g1(out, u, v), v != NULL ---------- *)
Definition map_to_g1 (prm : sswu_params T) (tb : iso_tables T) (chain : list Z) (u v : T) : @jpt T :=
  let P := sswu prm u in
  let Q := sswu prm v in
  let S := dadd (Some (sp_A prm)) P Q in
  let I := iso_map tb S in
  let out := times_minus_z chain I in
  dadd None out I.

(* the constants of the source *)
Definition iso_params : sswu_params T :=
  mkSP T (n_of_Z M iso_Aprime) (n_of_Z M iso_Bprime) (n_of_Z M iso_Z) (n_of_Z M iso_minus_A)
       (n_of_Z M iso_ZxA) (n_of_Z M iso_sqrt_minus_ZZZ) iso_recip_sqrt_exp.
Definition iso_tabs : iso_tables T :=
  mkIso T (map (n_of_Z M) iso_x_num) (map (n_of_Z M) iso_x_den)
          (map (n_of_Z M) iso_y_num) (map (n_of_Z M) iso_y_den).
End MapToG1.
Arguments it_xn {T'}. Arguments it_xd {T'}. Arguments it_yn {T'}. Arguments it_yd {T'}.

(* ---------- bls12381_utils.c: map_to_G1(h, hash, hash_len) ---------- *)
(* map_96_bytes_to_Fp: big-endian integer of the slice; redc_mont_384 gives x * R^-1 mod p, the
   Montgomery product with BLS12_381_RRRR (raw value R^3 mod p, see MapToG1Proofs.RRRR_is_R_cubed)
   gives x * R mod p, the Montgomery form of x mod p *)
(* map_to_G1: half = MAP_TO_G1_INPUT_LEN / 2; u[0] from hash[0..half), u[1] from hash[half..2 half);
   map_to_g1(h, u[0], u[1])  (the statements are pinned by MapToG1Proofs.glue_shape_as_modelled) *)
Definition glue_half : Z := C_MAP_TO_G1_INPUT_LEN / 2.
Definition glue_slice (hash : list N) (k : Z) : list N :=
  firstn (Z.to_nat glue_half) (skipn (Z.to_nat (k * glue_half)) hash).

Inductive g1_result (T : Type) := G1Invalid | G1Point (P : @jpt T).
Arguments G1Invalid {T}. Arguments G1Point {T}.

Section Glue.
Context {T : Type} (M : num T) (p : T).
Definition map_to_G1_ints (u0 u1 : Z) : @jpt T :=
  map_to_g1 M p (iso_params M) (iso_tabs M) iso_minus_z_chain
            (n_mod M (n_of_Z M u0) p) (n_mod M (n_of_Z M u1) p).
Definition map_to_G1 (hash : list N) : g1_result T :=
  if negb (Z.eqb (Z.of_nat (List.length hash)) C_MAP_TO_G1_INPUT_LEN) then G1Invalid else
  G1Point (map_to_G1_ints (be2z (glue_slice hash 0)) (be2z (glue_slice hash 1))).
End Glue.

(* affine view of a Jacobian point over BigZ, as the reference codec's point type *)
From Bignums Require Import BigZ.
Definition jac_to_pt1 (P : jpt (F:=bigZ)) : pt1 :=
  match to_affine (FpOps BNum pB) P with
  | None => Inf1
  | Some (x, y) => Aff1 (BigZ.to_Z x) (BigZ.to_Z y)
  end.
Definition map_to_G1_pt (hash : list N) : option pt1 :=
  match map_to_G1 BNum pB hash with
  | G1Invalid => None
  | G1Point P => Some (jac_to_pt1 P)
  end.
