(* SPoCK (spock.go, bls_core.c:487-524) over the bilinear algebra. *)
From Coq Require Import ZArith NArith List Bool String.
From V Require Import Spec.Bilinear Generated.Guards Generated.Consts Model.BlsAbs.
Import ListNotations.

Section Spock.
Context {B : bilinear} {C : codecs}.

Definition neg2 (P : E2) : E2 := smul2 (fopp f1) P.

(* bls_spock_verify: both proofs read canonically and checked in G1, then
   e(p1, -pk2) * e(p2, pk1) == 1 *)
Definition c_spock_verify (pk1 : E2) (b1 : list N) (pk2 : E2) (b2 : list N) : bool :=
  match dec1 b1 with
  | None => false
  | Some P1 =>
    if negb (inG1 P1) then false else
    match dec1 b2 with
    | None => false
    | Some P2 =>
      if negb (inG1 P2) then false else
      multi_pairing_is_one [(P1, neg2 pk2); (P2, pk1)]
    end
  end.

Inductive sres := SBool (v : bool) | SErrNotBLSKey.

(* a PublicKey argument: None models a key of another signature scheme *)
Definition spock_verify (pk1 : option pubkey) (b1 : list N) (pk2 : option pubkey) (b2 : list N) : sres :=
  match pk1, pk2 with
  | Some k1, Some k2 =>
      if negb (Nat.eqb (List.length b1) (Z.to_nat crypto_g1BytesLen)) || negb (Nat.eqb (List.length b2) (Z.to_nat crypto_g1BytesLen))
      then SBool false
      else if pk_is_identity k1 || pk_is_identity k2 then SBool false
      else SBool (c_spock_verify (pk_point k1) b1 (pk_point k2) b2)
  | _, _ => SErrNotBLSKey
  end.

(* SPOCKProve / SPOCKVerifyAgainstData: algorithm check then Sign / Verify *)
Definition spock_prove (sk : option F) (hs : hasher) (hpt : E1) : option (option herr * list N) :=
  match sk with Some k => Some (sign k hs hpt) | None => None end.
Definition spock_verify_against_data (pk : option pubkey) (b : list N) (hs : hasher) (hpt : E1) : option vres :=
  match pk with Some k => Some (verify k b hs hpt) | None => None end.
End Spock.
