(* BLS Sign / Verify over the bilinear algebra of Spec/Bilinear.v.
   The sequence of validation steps of pubKeyBLSBLS12381.Verify (bls.go) and of
   bls_verify (bls_core.c) is NOT written here: it is read from
   Generated/Guards.v, which the translator regenerates from the sources. *)
From Coq Require Import ZArith NArith List Bool String.
From V Require Import Spec.Bilinear Generated.Guards Generated.Consts.
Import ListNotations.

(* byte encodings of points, abstractly: any codec that is canonical and round-trips
   (for the real codec these are the C05 theorems) *)
Class codecs {B : bilinear} := {
  enc1 : E1 -> list N;
  dec1 : list N -> option E1;
  dec1_canonical : forall b P, dec1 b = Some P -> enc1 P = b;
  dec1_enc1 : forall P, dec1 (enc1 P) = Some P;
  enc1_len : forall P, List.length (enc1 P) = Z.to_nat C_G1_SER_BYTES;
  enc2 : E2 -> list N;
  dec2 : list N -> option E2;
  dec2_canonical : forall b P, dec2 b = Some P -> enc2 P = b;
  dec2_enc2 : forall P, dec2 (enc2 P) = Some P;
  enc2_len : forall P, List.length (enc2 P) = Z.to_nat C_G2_SER_BYTES;
}.

(* hashers, abstractly: nil, or an object with an output size *)
Inductive hasher := HNil | HSize (n : Z).
Inductive herr := ErrNilHasher | ErrHasherSize.

Section Bls.
Context {B : bilinear} {C : codecs}.

(* ---- steps recognised in the Go method and in the C function ---- *)
Inductive gstep := GHasher | GLen | GHash | GIdKey | GCallVerify.
Inductive cstep := CRead | CInG1 | CMap | CPair.

Definition go_step (e : ev) : option gstep :=
  match e with
  | Guard n =>
      if String.eqb n "checkBLSHasher(" then Some GHasher
      else if String.eqb n "len(s) != SignatureLenBLSBLS12381" then Some GLen
      else if String.eqb n "pk.isIdentity" then Some GIdKey
      else None
  | Call n =>
      if String.eqb n "ComputeHash(" then Some GHash
      else if String.eqb n "C.bls_verify(" then Some GCallVerify
      else None
  | Missing => None
  end.
Definition c_step (e : ev) : option cstep :=
  match e with
  | Guard n =>
      if String.eqb n "E1_read_bytes(" then Some CRead
      else if String.eqb n "E1_in_G1(" then Some CInG1
      else if String.eqb n "map_to_G1(" then Some CMap
      else None
  | Call n => if String.eqb n "bls_verify_E1(" then Some CPair else None
  | Missing => None
  end.

Fixpoint all_some {A} (l : list (option A)) : option (list A) :=
  match l with
  | [] => Some []
  | Some a :: r => match all_some r with Some r' => Some (a :: r') | None => None end
  | None :: _ => None
  end.

Definition go_steps : option (list gstep) := all_some (map go_step skel_bls_pubKeyBLSBLS12381_Verify).
Definition c_steps : option (list cstep) := all_some (map c_step skel_bls_core_bls_verify).

(* checkBLSHasher (bls.go:138-146) *)
Definition check_hasher (h : hasher) : option herr :=
  match h with
  | HNil => Some ErrNilHasher
  | HSize n => if Z.eqb n crypto_expandMsgOutput then None else Some ErrHasherSize
  end.

(* bls_verify_E1: e(s, -g2) * e(h, pk) == 1 *)
Definition verify_E1 (pk : E2) (s h : E1) : bool :=
  multi_pairing_is_one [(s, neg_g2); (h, pk)].

(* bls_verify (bls_core.c:256-275) run over the extracted step list.
   [hpt] is the hash-to-curve image of the hasher output. *)
Fixpoint c_run (steps : list cstep) (pk : E2) (b : list N) (hpt : E1) (s : option E1) : bool :=
  match steps with
  | [] => false
  | CRead :: r => match dec1 b with Some P => c_run r pk b hpt (Some P) | None => false end
  | CInG1 :: r => match s with
                  | Some P => if inG1 P then c_run r pk b hpt s else false
                  | None => false
                  end
  | CMap :: r => c_run r pk b hpt s
  | CPair :: _ => match s with Some P => verify_E1 pk P hpt | None => false end
  end.

Inductive vres := VBool (v : bool) | VErr (e : herr) | VUnknownProgram.

(* a public key object: the point and the cached identity flag *)
Record pubkey := { pk_point : E2; pk_is_identity : bool }.
Definition mk_pubkey (P : E2) : pubkey := {| pk_point := P; pk_is_identity := is_O2 P |}.

(* pubKeyBLSBLS12381.Verify (bls.go:199-231) run over the extracted step list *)
Fixpoint go_run (steps : list gstep) (csteps : list cstep)
         (pk : pubkey) (b : list N) (hs : hasher) (hpt : E1) : vres :=
  match steps with
  | [] => VBool false
  | GHasher :: r => match check_hasher hs with Some e => VErr e | None => go_run r csteps pk b hs hpt end
  | GLen :: r => if Nat.eqb (List.length b) (Z.to_nat crypto_SignatureLenBLSBLS12381)
                 then go_run r csteps pk b hs hpt else VBool false
  | GHash :: r => go_run r csteps pk b hs hpt
  | GIdKey :: r => if pk_is_identity pk then VBool false else go_run r csteps pk b hs hpt
  | GCallVerify :: _ => VBool (c_run csteps (pk_point pk) b hpt None)
  end.

Definition verify (pk : pubkey) (b : list N) (hs : hasher) (hpt : E1) : vres :=
  match go_steps, c_steps with
  | Some gs, Some cs => go_run gs cs pk b hs hpt
  | _, _ => VUnknownProgram
  end.

(* Sign: hasher guard, hash, map to G1, scalar multiplication, compressed write *)
Definition sign (sk : F) (hs : hasher) (hpt : E1) : option herr * list N :=
  match check_hasher hs with
  | Some e => (Some e, [])
  | None => (None, enc1 (smul1 sk hpt))
  end.

(* computePublicKey (bls.go): the point is sk*g2 and the identity flag is cached from the SCALAR *)
Definition public_key (sk : F) : pubkey := {| pk_point := pk_of sk; pk_is_identity := feqb sk f0 |}.
End Bls.
