(* Model of key generation in /repo (property C12):
     bls.go            (a *blsBLS12381Algo) generatePrivateKey
     bls12381_utils.go mapToFr
     bls12381_utils.c  Fr_from_be_bytes / map_bytes_to_Fr
     ecdsa.go          (a *ecdsaAlgo) generatePrivateKey, goecdsaMapKey, goecdsaPrivateKey,
                       rawEncode, PublicKey (cache)
     common.go         KeyGenSeedMinLen / KeyGenSeedMaxLen (taken from Generated/Consts.v)
   Executable Gallina, no proofs.  Go's crypto/hkdf and crypto/sha256 are modelled by
   their specifications (Spec/HkdfSpec.v, Prim/Sha256.v); blst's Montgomery primitives
   (mul_mont_sparse_256, add_mod_256, from_mont_256) by their arithmetic meaning. *)
From Coq Require Import ZArith NArith List Bool.
From V Require Import Lib.BytesZ Prim.Sha256 Spec.HkdfSpec Generated.Consts.
Import ListNotations.
Open Scope Z_scope.

(* result of an API call: value, error class, Go panic, or model loop fuel exhausted *)
Inductive kres (A : Type) := KOk (a : A) | KErr (cls : N) | KPanic | KOutOfFuel.
Arguments KOk {A}. Arguments KErr {A}. Arguments KPanic {A}. Arguments KOutOfFuel {A}.

Definition E_INVALID_INPUT : N := 1.   (* invalidInputsError *)
Definition E_UNEXPECTED : N := 2.      (* any other error *)

(* ---- constants of the sources ---- *)
Definition seedMin : nat := Z.to_nat crypto_KeyGenSeedMinLen.
Definition seedMax : nat := Z.to_nat crypto_KeyGenSeedMaxLen.
Definition frBytesLen : nat := Z.to_nat crypto_frBytesLen.   (* Go side *)
Definition Fr_BYTES : nat := Z.to_nat C_Fr_BYTES.            (* C side *)
Definition securityBytes : nat := Z.to_nat (crypto_securityBits / 8).

(* len(seed) < KeyGenSeedMinLen || len(seed) > KeyGenSeedMaxLen *)
Definition seed_len_bad (l : nat) : bool := Nat.ltb l seedMin || Nat.ltb seedMax l.

(* ---- blst constants (blst_src/consts.c): r, R = 2^256, R^2 mod r; Rinv = R^-1 mod r ---- *)
Definition bls_r : Z := 0x73eda753299d7d483339d80809a1d80553bda402fffe5bfeffffffff00000001.
Definition mont_R : Z := 2 ^ 256.
Definition BLS12_381_rRR : Z := 0x0748d9d99f59ff1105d314967254398f2b6cedcb87925c23c999e990f3f29c6d.
Definition mont_Rinv : Z := 0x1bbe869330009d577204078a4f77266aab6fca8f09dc705f13f75b69fe75c040.

(* Fr_mul_montg: a*b*R^-1 mod r ; Fr_add ; Fr_from_montg: a*R^-1 mod r *)
Definition Fr_mul_montg (a b : Z) : Z := (a * b * mont_Rinv) mod bls_r.
Definition Fr_add (a b : Z) : Z := (a + b) mod bls_r.
Definition Fr_from_montg (a : Z) : Z := (a * mont_Rinv) mod bls_r.

(* limbs_from_be_bytes(&digit, p, k): big-endian bytes to integer *)
Definition limbs_from_be_bytes (b : list N) : Z := os2ip b.

(* the while (n > Fr_BYTES) loop of Fr_from_be_bytes; [inp] is the not yet consumed
   prefix in[0..n) of the input; one iteration consumes its last Fr_BYTES bytes *)
Fixpoint fr_loop (fuel : nat) (inp : list N) (out radix : Z) : Z * Z * list N :=
  match fuel with
  | O => (out, radix, inp)
  | S f =>
      if Nat.ltb Fr_BYTES (length inp) then
        let k := (length inp - Fr_BYTES)%nat in
        let digit := limbs_from_be_bytes (skipn k inp) in
        let digit := Fr_mul_montg digit radix in
        fr_loop f (firstn k inp) (Fr_add out digit) (Fr_mul_montg radix BLS12_381_rRR)
      else (out, radix, inp)
  end.

Definition Fr_from_be_bytes (inp : list N) : Z :=
  let '(out, radix, rest) := fr_loop (length inp) inp 0 BLS12_381_rRR in
  let digit := limbs_from_be_bytes rest in
  let digit := Fr_mul_montg digit radix in
  Fr_from_montg (Fr_add out digit).

(* map_bytes_to_Fr: (scalar, is_zero) *)
Definition map_bytes_to_Fr (inp : list N) : Z * bool :=
  let a := Fr_from_be_bytes inp in (a, a =? 0).

(* Go mapToFr: &src[0] panics on an empty slice *)
Definition mapToFr (src : list N) : kres (Z * bool) :=
  match src with
  | [] => KPanic
  | _ => KOk (map_bytes_to_Fr src)
  end.

(* ---- BLS generatePrivateKey ---- *)
(* "BLS-SIG-KEYGEN-SALT-" *)
Definition saltString : list N :=
  [66;76;83;45;83;73;71;45;75;69;89;71;69;78;45;83;65;76;84;45]%N.

Definition bls_okmLength : nat := ((3 * frBytesLen) / 2)%nat.

Definition byte_of_nat (n : nat) : N := (N.of_nat n mod 256)%N.

(* the for { } loop; one unit of fuel per iteration *)
Fixpoint bls_loop (fuel : nat) (secret info salt : list N) : kres Z :=
  match fuel with
  | O => KOutOfFuel
  | S f =>
      match hkdf secret salt info bls_okmLength with
      | None => KErr E_UNEXPECTED
      | Some okm =>
          match mapToFr okm with
          | KOk (sk, isZero) =>
              if isZero then bls_loop f secret info (sha256 salt) else KOk sk
          | KErr e => KErr e
          | KPanic => KPanic
          | KOutOfFuel => KOutOfFuel
          end
      end
  end.

Definition bls_generatePrivateKey (fuel : nat) (ikm : list N) : kres Z :=
  if seed_len_bad (length ikm) then KErr E_INVALID_INPUT
  else
    let salt := sha256 saltString in
    let secret := ikm ++ [0%N] in
    let info := [byte_of_nat (bls_okmLength / 256); byte_of_nat bls_okmLength] in
    bls_loop fuel secret info salt.

(* Fr_write_bytes *)
Definition bls_encode_sk (sk : Z) : list N := i2osp Fr_BYTES sk.

(* ---- ECDSA ---- *)
Definition bitLen (n : Z) : Z := if n <=? 0 then 0 else Z.log2 n + 1.
Definition bitsToBytes (bits : Z) : nat := Z.to_nat ((bits + 7) / 8).

(* affine public key (X, Y) of crypto/ecdsa *)
Definition ec_pub : Type := (Z * Z)%type.

(* what the model needs from a curve object: the order and base-point multiplication *)
Record ec_curve := { ec_n : Z; ec_basemul : Z -> ec_pub }.

(* prKeyECDSA: scalar, goPrKey.PublicKey (computed at construction), cached pubKey wrapper *)
Record prKeyECDSA := { sk_d : Z; sk_goPub : ec_pub; sk_pubKey : option ec_pub }.

Definition goecdsaPrivateKey (c : ec_curve) (d : Z) : prKeyECDSA :=
  {| sk_d := d; sk_goPub := ec_basemul c d; sk_pubKey := None |}.

(* d = SetBytes(seed) mod (n-1) + 1 *)
Definition goecdsaMapKey (c : ec_curve) (seed : list N) : prKeyECDSA :=
  let d := os2ip seed in
  let n := ec_n c - 1 in
  goecdsaPrivateKey c (d mod n + 1).

Definition ecdsa_generatePrivateKey (c : ec_curve) (seed : list N) : kres prKeyECDSA :=
  if seed_len_bad (length seed) then KErr E_INVALID_INPUT
  else
    let nLen := bitsToBytes (bitLen (ec_n c)) in
    let okmLength := (nLen + securityBytes)%nat in
    match hkdf seed [] [] okmLength with
    | None => KErr E_UNEXPECTED
    | Some okm => KOk (goecdsaMapKey c okm)
    end.

(* rawEncode: copy(skEncoded[nLen-len(skBytes):], skBytes) panics if D needs more than nLen bytes *)
Definition ecdsa_encode_sk (c : ec_curve) (sk : prKeyECDSA) : kres (list N) :=
  let nLen := bitsToBytes (bitLen (ec_n c)) in
  if (0 <=? sk_d sk) && (sk_d sk <? 256 ^ Z.of_nat nLen) then KOk (i2osp nLen (sk_d sk)) else KPanic.

(* PublicKey(): returns the wrapper, constructing and caching it on first use *)
Definition ecdsa_PublicKey (sk : prKeyECDSA) : ec_pub * prKeyECDSA :=
  match sk_pubKey sk with
  | Some p => (p, sk)
  | None => (sk_goPub sk, {| sk_d := sk_d sk; sk_goPub := sk_goPub sk; sk_pubKey := Some (sk_goPub sk) |})
  end.

(* pubKeyECDSA.Equals on the same curve *)
Definition ecdsa_pub_equals (a b : ec_pub) : bool := (fst a =? fst b) && (snd a =? snd b).

(* curve orders (crypto/elliptic P-256, btcec secp256k1) *)
Definition p256_n : Z := 0xffffffff00000000ffffffffffffffffbce6faada7179e84f3b9cac2fc632551.
Definition secp256k1_n : Z := 0xfffffffffffffffffffffffffffffffebaaedce6af48a03bbfd25e8cd0364141.
