(* Model of /repo/dkg_jointfeldman.go: n Feldman-VSS-Qual instances (instance i has
   dealer i) driven in lock step.  All instances point to ONE dkgCommon, hence share the
   `running` flag ([j_run]); Joint-Feldman has its own [j_jrun] (jointRunning).
   No proofs here. *)
From Coq Require Import ZArith List Bool Arith.
From V Require Import Generated.Consts Model.DkgVss Model.DkgQual.
Import ListNotations.
Open Scope Z_scope.

Record jstate := mkJ {
  j_run : bool;             (* dkgCommon.running, shared by the n instances *)
  j_jrun : bool;            (* jointRunning *)
  j_insts : list qinst      (* fvss[i] *)
}.

Section Inst.
Variable cf : cfg.

Let n := c_n cf.
Let t := c_t cf.
Let my := c_my cf.

Definition joint_init : jstate := mkJ false false (repeat q_init n).

Fixpoint set_nth {A} (l : list A) (i : nat) (x : A) : list A :=
  match l, i with
  | [], _ => []
  | _ :: l', O => x :: l'
  | y :: l', S i' => y :: set_nth l' i' x
  end.

(* Start: for every i: running = false; fvss[i].Start(seed).  For i <> myIndex the call only
   sets the shared flag; for i = myIndex it runs generateShares and, if that fails, returns
   from inside the loop with the shared flag false. *)
Definition joint_start (s : jstate) (sd : seed) : jstate * result * list event :=
  if j_jrun s then (s, RStateErr, [])
  else
    match nth_error (j_insts s) my with
    | None => (s, RPanic, [])
    | Some q =>
        let '(run', q', res, ev) := q_start cf my false q sd in
        let insts := set_nth (j_insts s) my q' in
        match res with
        | ROk => (mkJ true true insts, ROk, ev)
        | _ => (mkJ false false insts, res, ev)
        end
    end.

(* a loop `for i { err := fvss[i].f(...); if err != nil { return err } }` over the instances,
   threading the shared running flag *)
Section Loop.
Variable f : nat -> bool -> qinst -> bool * qinst * result * list event.

Fixpoint jloop (i : nat) (run : bool) (qs : list qinst) : bool * list qinst * result * list event :=
  match qs with
  | [] => (run, [], ROk, [])
  | q :: qs' =>
      let '(run1, q1, res, ev) := f i run q in
      match res with
      | ROk =>
          let '(run2, qs2, res2, ev2) := jloop (S i) run1 qs' in
          (run2, q1 :: qs2, res2, ev ++ ev2)
      | _ => (run1, q1 :: qs', res, ev)
      end
  end.
End Loop.

Definition joint_next_timeout (s : jstate) : jstate * result * list event :=
  if negb (j_jrun s) then (s, RStateErr, [])
  else
    let '(run, qs, res, ev) := jloop (fun i run q => q_next_timeout cf i run q) 0 (j_run s) (j_insts s) in
    (mkJ run (j_jrun s) qs, res, ev).

Definition joint_broadcast (s : jstate) (orig : Z) (m : msg) : jstate * result * list event :=
  if negb (j_jrun s) then (s, RStateErr, [])
  else
    let '(run, qs, res, ev) := jloop (fun i run q => q_broadcast cf i run q orig m) 0 (j_run s) (j_insts s) in
    (mkJ run (j_jrun s) qs, res, ev).

Definition joint_private (s : jstate) (orig : Z) (m : msg) : jstate * result * list event :=
  if negb (j_jrun s) then (s, RStateErr, [])
  else
    let '(run, qs, res, ev) := jloop (fun i run q => q_private cf i run q orig m) 0 (j_run s) (j_insts s) in
    (mkJ run (j_jrun s) qs, res, ev).

Definition joint_force (s : jstate) (j : Z) : jstate * result * list event :=
  if negb (j_jrun s) then (s, RStateErr, [])
  else if negb (in_range cf j) then (s, RInvalidInput, [])
  else
    let p := Z.to_nat j in
    match nth_error (j_insts s) p with
    | None => (s, RPanic, [])
    | Some q =>
        let '(run, q', res, ev) := q_force cf p (j_run s) q j in
        (mkJ run (j_jrun s) (set_nth (j_insts s) p q'), res, ev)
    end.

(* the first loop of End: timeouts check, unanswered complaints, count of disqualified dealers.
   Returns None in the last component when the state-transition error is returned. *)
Fixpoint jend_loop (i : nat) (qs : list qinst) : list qinst * list event * option nat :=
  match qs with
  | [] => ([], [], Some O)
  | q :: qs' =>
      if negb (q_st q) || negb (q_ct q) then (q :: qs', [], None)
      else
        let '(q1, ev1, k) :=
          if negb (q_disq q) then
            if unanswered cf (q_compl q) then (qset_disq q true, [EvDisq i], 1%nat) else (q, [], 0%nat)
          else (q, [], 1%nat) in
        let '(qs2, ev2, tot) := jend_loop (S i) qs' in
        (q1 :: qs2, ev1 ++ ev2, match tot with Some m => Some (k + m)%nat | None => None end)
  end.

(* getQualifiedKeys / sumUpQualifiedKeys; None = nil dereference / index out of range *)
Definition qualified (qs : list qinst) : list qinst := filter (fun q => negb (q_disq q)) qs.

Definition sum_mod (l : list Z) : Z := fold_left (fun acc z => (acc + z) mod r) l 0.

Fixpoint opt_all {A} (l : list (option A)) : option (list A) :=
  match l with
  | [] => Some []
  | None :: _ => None
  | Some a :: l' => match opt_all l' with Some r => Some (a :: r) | None => None end
  end.

Definition vA0 (q : qinst) : option Z :=
  match v_vA (q_v q) with VAFull (a0 :: _) => Some a0 | _ => None end.

Definition yj (j : nat) (q : qinst) : option Z :=
  match v_y (q_v q) with Some ys => nth_error ys j | None => None end.

Definition sum_up (qs : list qinst) : option (Z * Z * list Z) :=
  let ql := qualified qs in
  match ql with
  | [] => None                                            (* &qualifiedx[0] *)
  | _ =>
    match opt_all (map vA0 ql), opt_all (map (fun j => opt_all (map (yj j) ql)) (seq 0 n)) with
    | Some pks, Some yss =>
        Some (sum_mod (map (fun q => v_x (q_v q)) ql), sum_mod pks, map sum_mod yss)
    | _, _ => None
    end
  end.

Definition joint_end (s : jstate) : jstate * result * list event :=
  if negb (j_jrun s) then (s, RStateErr, [])
  else
    let '(qs, ev, tot) := jend_loop 0 (j_insts s) in
    match tot with
    | None => (mkJ (j_run s) (j_jrun s) qs, RStateErr, ev)
    | Some dq =>
        let s1 := mkJ (j_run s) false qs in
        if (t <? dq)%nat || (n - dq <=? t)%nat then (s1, RFailure, ev)
        else
          match sum_up qs with
          | None => (s1, RPanic, ev)
          | Some (x, Y, ys) =>
              if x =? 0 then (s1, RFailure, ev)
              else if Y =? 0 then (s1, RFailure, ev)
              else (s1, RKeys x Y ys, ev)
          end
    end.

Definition joint_step (s : jstate) (c : call) : jstate * result * list event :=
  match c with
  | CStart sd => joint_start s sd
  | CNextTimeout => joint_next_timeout s
  | CEnd => joint_end s
  | CRunning => (s, RBool (j_jrun s), [])
  | CBroadcast o m => joint_broadcast s o m
  | CPrivate o m => joint_private s o m
  | CForce j => joint_force s j
  end.

End Inst.
