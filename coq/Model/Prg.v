(* Model of /repo/random/chacha20.go : the ChaCha20-based PRG core, Store and
   RestoreChacha20PRG.  The x/crypto chacha20.Cipher object is modelled by its
   specification: (key, nonce, byte position in the RFC 8439 keystream). *)
From Coq Require Import ZArith NArith List Bool.
From V Require Import Prim.ChaCha Generated.Consts.
Import ListNotations.
Open Scope N_scope.

(* ---- specification side: the RFC 8439 keystream as a byte range ---- *)

(* blocks b, b+1, ..., b+k-1 concatenated *)
Fixpoint ks_blocks (key nonce : list N) (b : N) (k : nat) : list N :=
  match k with
  | O => []
  | S k' => chacha_block key nonce b ++ ks_blocks key nonce (N.succ b) k'
  end.

(* keystream bytes [pos, pos+n) *)
Definition ks_range (key nonce : list N) (pos : N) (n : nat) : list N :=
  firstn n (skipn (N.to_nat (pos mod 64))
                  (ks_blocks key nonce (pos / 64) (N.to_nat ((pos mod 64 + N.of_nat n + 63) / 64)))).

(* ---- x/crypto chacha20.Cipher by its spec ---- *)
Record cipher := { ck : list N; cn : list N; cpos : N }.

Definition xor_key_stream (c : cipher) (msg : list N) : list N * cipher :=
  (map2 N.lxor msg (ks_range (ck c) (cn c) (cpos c) (length msg)),
   {| ck := ck c; cn := cn c; cpos := cpos c + N.of_nat (length msg) |}).

Definition set_counter (c : cipher) (blk : N) : cipher :=
  {| ck := ck c; cn := cn c; cpos := 64 * blk |}.

(* ---- constants of the Go file, regenerated from the source on every run ---- *)
Definition keySize : nat := Z.to_nat random_keySize.
Definition nonceSize : nat := Z.to_nat random_nonceSize.
Definition counterBytesLen : nat := Z.to_nat random_counterBytesLen.
Definition lenEmptyMessage : nat := Z.to_nat random_lenEmptyMessage.
Definition bytesPerBlock : N := Z.to_N random_RestoreChacha20PRG__bytesPerBlock.
Definition expectedLen : nat := Z.to_nat random_RestoreChacha20PRG__expectedLen.
Definition w64 : N := 18446744073709551616.

(* ---- chachaCore ---- *)
Record core := { cipher_ : cipher; bytesCounter : N; seed_ : list N; customizer_ : list N }.

Definition zeros (n : nat) : list N := repeat 0 n.

(* copy(dst[:k], src) on a zeroed array of size k *)
Definition copy_into (k : nat) (src : list N) : list N :=
  firstn k src ++ zeros (k - length src).

Inductive res (A : Type) := ROk (a : A) | RErr (cls : N).
Arguments ROk {A}. Arguments RErr {A}.

Definition E_SEEDLEN : N := 1.
Definition E_CUSTLEN : N := 2.
Definition E_STATELEN : N := 3.

Definition new_prg (seed customizer : list N) : res core :=
  if negb (Nat.eqb (length seed) keySize) then RErr E_SEEDLEN
  else if Nat.ltb nonceSize (length customizer) then RErr E_CUSTLEN
  else
    let s := copy_into keySize seed in
    let c := copy_into nonceSize customizer in
    ROk {| cipher_ := {| ck := s; cn := c; cpos := 0 |}; bytesCounter := 0; seed_ := s; customizer_ := c |}.

(* (c *chachaCore) Read(buffer): both paths written out *)
Definition read (c : core) (n : nat) : list N * core :=
  let message :=
    if Nat.leb n lenEmptyMessage then firstn n (zeros lenEmptyMessage)   (* emptyMessage[:len] *)
    else zeros n                                                          (* buffer cleared in place *)
  in
  let '(out, ci) := xor_key_stream (cipher_ c) message in
  (out, {| cipher_ := ci; bytesCounter := (bytesCounter c + N.of_nat n) mod w64;
           seed_ := seed_ c; customizer_ := customizer_ c |}).

Fixpoint le_bytes (k : nat) (v : N) : list N :=
  match k with O => [] | S k' => v mod 256 :: le_bytes k' (v / 256) end.
Fixpoint le_val (b : list N) : N :=
  match b with [] => 0 | x :: r => x + 256 * le_val r end.

Definition store (c : core) : list N :=
  seed_ c ++ customizer_ c ++ le_bytes counterBytesLen (bytesCounter c).

Definition restore (st : list N) : res core :=
  if negb (Nat.eqb (length st) expectedLen) then RErr E_STATELEN
  else
    let seed := firstn keySize st in
    let streamID := firstn nonceSize (skipn keySize st) in
    let bc := le_val (skipn (keySize + nonceSize) st) in
    let blockCount := (bc / bytesPerBlock) mod w32 in      (* uint32(bytesCounter / bytesPerBlock) *)
    let remaining := N.to_nat (bc mod bytesPerBlock) in
    let ch := set_counter {| ck := seed; cn := streamID; cpos := 0 |} blockCount in
    let '(_, ch) := xor_key_stream ch (zeros remaining) in
    ROk {| cipher_ := ch; bytesCounter := bc; seed_ := seed; customizer_ := streamID |}.

(* a run: constructor, then reads of the given sizes *)
Fixpoint reads (c : core) (sizes : list nat) : list (list N) * core :=
  match sizes with
  | [] => ([], c)
  | n :: r => let '(o, c1) := read c n in let '(os, c2) := reads c1 r in (o :: os, c2)
  end.
