(* Model of /repo/ecdsa.go and the ECDSA entries of /repo/sign.go (property C11):
     signHash / Sign, verifyHash / Verify, signatureFormatCheck,
     rawDecodePrivateKey, rawDecodePublicKey, decodePublicKeyCompressed,
     rawEncode (private / public), EncodeCompressed.
   Executable Gallina, no proofs.  The curve arithmetic of crypto/elliptic, crypto/ecdh,
   nistec and btcec and Go's ecdsa.Verify are modelled by their specification: a group
   interface [ecops] and the FIPS 186-4 verification equation of Spec/EcdsaSpec.v.
   The concrete instances (BigZ Jacobian arithmetic of Prim/EcdsaCurve.v) are at the end. *)
From Coq Require Import ZArith NArith List Bool.
From V Require Import Lib.BytesZ Spec.EcdsaSpec Prim.EcdsaCurve Generated.Consts.
Import ListNotations.
Open Scope Z_scope.

Inductive res (A : Type) := ROk (a : A) | RErr (cls : N) | RPanic.
Arguments ROk {A}. Arguments RErr {A}. Arguments RPanic {A}.

Definition E_INVALID_INPUT : N := 1.   (* invalidInputsError *)
Definition E_NIL_HASHER : N := 3.      (* errNilHasher *)
Definition E_HASHER_SIZE : N := 4.     (* invalidHasherSizeError *)

(* what the model needs from a curve object *)
Record ecops (G : Type) := mkOps {
  eo_n : Z;                       (* curve.Params().N *)
  eo_p : Z;                       (* curve.Params().P *)
  eo_bitsize : Z;                 (* curve.Params().BitSize *)
  eo_add : G -> G -> G;
  eo_neg : G -> G;
  eo_zero : G;
  eo_smul : Z -> G -> G;
  eo_base : G;
  eo_xr : G -> Z;                 (* affine x mod n, 0 at infinity *)
  eo_inv : Z -> Z;                (* inverse mod n *)
  eo_of_affine : Z * Z -> G;
  eo_to_affine : G -> option (Z * Z);
  eo_rhs : Z -> Z;                (* x^3 + a x + b mod p *)
  eo_sqrt_cand : Z -> Z;          (* c^((p+1)/4) mod p *)
}.
Arguments eo_n {G}. Arguments eo_p {G}. Arguments eo_bitsize {G}. Arguments eo_add {G}.
Arguments eo_neg {G}. Arguments eo_zero {G}. Arguments eo_smul {G}. Arguments eo_base {G}.
Arguments eo_xr {G}. Arguments eo_inv {G}. Arguments eo_of_affine {G}. Arguments eo_to_affine {G}.
Arguments eo_rhs {G}. Arguments eo_sqrt_cand {G}.

Definition bitLen (n : Z) : Z := if n <=? 0 then 0 else Z.log2 n + 1.
Definition bitsToBytes (bits : Z) : nat := Z.to_nat ((bits + 7) / 8).

Section Model.
  Context {G : Type} (O : ecops G).

  Definition nLen : nat := bitsToBytes (bitLen (eo_n O)).
  Definition pLen : nat := bitsToBytes (bitLen (eo_p O)).

  (* ---------- signatures: fixed-width r || s ---------- *)

  (* r.SetBytes(sig[:nLen]); s.SetBytes(sig[nLen:]) after the length check *)
  Definition parse_sig (sig : list N) : option (Z * Z) :=
    if Nat.eqb (length sig) (2 * nLen) then Some (os2ip (firstn nLen sig), os2ip (skipn nLen sig))
    else None.

  (* signHash: copy(signature[nLen-len(rBytes):], rBytes) panics if r or s need more than nLen bytes *)
  Definition fits (x : Z) : bool := (0 <=? x) && (x <? 256 ^ Z.of_nat nLen).
  Definition serialise_sig (r s : Z) : res (list N) :=
    if fits r && fits s then ROk (i2osp nLen r ++ i2osp nLen s) else RPanic.

  Definition signatureFormatCheck (sig : list N) : bool :=
    match parse_sig sig with
    | None => false
    | Some (r, s) =>
        if (r =? 0) || (s =? 0) then false
        else if (eo_n O <=? r) || (eo_n O <=? s) then false
        else true
    end.

  (* ---------- hashers ---------- *)
  Record hasher := mkHasher { h_size : nat; h_compute : list N -> list N }.

  (* hashToInt / hashToNat of crypto/ecdsa: leftmost bits of the hash up to the bit length of n *)
  Definition hash_to_int (h : list N) : Z :=
    let orderBits := bitLen (eo_n O) in
    let orderBytes := bitsToBytes orderBits in
    let h' := firstn orderBytes h in
    let excess := Z.of_nat (length h') * 8 - orderBits in
    if 0 <? excess then Z.shiftr (os2ip h') excess else os2ip h'.

  (* ---------- Verify ---------- *)
  (* ecdsa.Verify(pub, h, r, s) by its specification *)
  Definition go_ecdsa_verify (Q : Z * Z) (h : list N) (r s : Z) : bool :=
    ecdsa_verify G (eo_n O) (eo_add O) (eo_smul O) (eo_base O) (eo_xr O) (eo_inv O)
                 (eo_of_affine O Q) (hash_to_int h) r s.

  Definition verifyHash (Q : Z * Z) (sig h : list N) : bool :=
    match parse_sig sig with
    | None => false
    | Some (r, s) => go_ecdsa_verify Q h r s
    end.

  Definition Verify (Q : Z * Z) (sig data : list N) (alg : option hasher) : res bool :=
    match alg with
    | None => RErr E_NIL_HASHER
    | Some a =>
        if Nat.ltb (h_size a) nLen then RErr E_HASHER_SIZE
        else ROk (verifyHash Q sig (h_compute a data))
    end.

  (* ---------- Sign ---------- *)
  (* ecdsa.Sign draws a nonce; the model exposes it.  None = the library retries. *)
  Definition signHash (d k : Z) (h : list N) : option (res (list N)) :=
    match sign_with G (eo_n O) (eo_smul O) (eo_base O) (eo_xr O) (eo_inv O) d k (hash_to_int h) with
    | None => None
    | Some (r, s) => Some (serialise_sig r s)
    end.

  Definition Sign (d k : Z) (data : list N) (alg : option hasher) : option (res (list N)) :=
    match alg with
    | None => Some (RErr E_NIL_HASHER)
    | Some a =>
        if Nat.ltb (h_size a) nLen then Some (RErr E_HASHER_SIZE)
        else signHash d k (h_compute a data)
    end.

  (* ---------- key codecs ---------- *)
  Definition decodePrivateKey (der : list N) : res Z :=
    if negb (Nat.eqb (length der) nLen) then RErr E_INVALID_INPUT
    else
      let d := os2ip der in
      if eo_n O <=? d then RErr E_INVALID_INPUT
      else if d =? 0 then RErr E_INVALID_INPUT
      else ROk d.

  Definition encodePrivateKey (d : Z) : res (list N) :=
    if fits d then ROk (i2osp nLen d) else RPanic.

  Definition on_curve_xy (x y : Z) : bool := (y * y) mod eo_p O =? eo_rhs O x.

  (* rawDecodePublicKey: x || y, both < p, on the curve *)
  Definition decodePublicKey (der : list N) : res (Z * Z) :=
    if negb (Nat.eqb (length der) (2 * pLen)) then RErr E_INVALID_INPUT
    else
      let x := os2ip (firstn pLen der) in
      let y := os2ip (skipn pLen der) in
      if (eo_p O <=? x) || (eo_p O <=? y) then RErr E_INVALID_INPUT
      else if on_curve_xy x y then ROk (x, y) else RErr E_INVALID_INPUT.

  Definition fitsp (x : Z) : bool := (0 <=? x) && (x <? 256 ^ Z.of_nat pLen).
  Definition encodePublicKey (Q : Z * Z) : res (list N) :=
    if fitsp (fst Q) && fitsp (snd Q) then ROk (i2osp pLen (fst Q) ++ i2osp pLen (snd Q)) else RPanic.

  (* decodePublicKeyCompressed: X9.62 4.3.6, prefix 2 / 3 || x; y by a checked square root *)
  Definition compLen : nat := S (bitsToBytes (eo_bitsize O)).
  Definition decodePublicKeyCompressed (b : list N) : res (Z * Z) :=
    if negb (Nat.eqb (length b) compLen) then RErr E_INVALID_INPUT
    else
      match b with
      | [] => RErr E_INVALID_INPUT
      | pre :: xb =>
          if negb ((pre =? 2)%N || (pre =? 3)%N) then RErr E_INVALID_INPUT
          else
            let x := os2ip xb in
            if eo_p O <=? x then RErr E_INVALID_INPUT
            else
              let c := eo_rhs O x in
              let y0 := eo_sqrt_cand O c in
              if negb ((y0 * y0) mod eo_p O =? c) then RErr E_INVALID_INPUT
              else
                let y := if Bool.eqb (Z.odd y0) (N.odd pre) then y0 else (eo_p O - y0) mod eo_p O in
                ROk (x, y)
      end.

  Definition encodePublicKeyCompressed (Q : Z * Z) : res (list N) :=
    if fitsp (fst Q) then ROk ((if Z.odd (snd Q) then 3%N else 2%N) :: i2osp pLen (fst Q)) else RPanic.

  (* public key of a private scalar; (0,0) for infinity as in crypto/elliptic *)
  Definition publicKey (d : Z) : Z * Z :=
    match eo_to_affine O (eo_smul O d (eo_base O)) with Some xy => xy | None => (0, 0) end.
End Model.

(* ---------- concrete instances over Prim/EcdsaCurve.v ---------- *)
Definition ops_of (C : curve) : ecops pt :=
  {| eo_n := curve_n C; eo_p := curve_p C; eo_bitsize := 256;
     eo_add := add C; eo_neg := neg C; eo_zero := inf; eo_smul := smul C; eo_base := base C;
     eo_xr := xr C; eo_inv := inv_n C;
     eo_of_affine := of_affine; eo_to_affine := to_affine C;
     eo_rhs := rhsZ C; eo_sqrt_cand := sqrt_candZ C |}.

Definition p256_ops : ecops pt := ops_of P256.
Definition secp256k1_ops : ecops pt := ops_of Secp256k1.
