(* The places where onflow/crypto has two sources for one function, chosen by build tags:
   hash/xor_generic.go vs hash/xor_unaligned.go (xorIn is in Model/Hashers.v; copyOut here), and
   the byte <-> limb conversions of the C glue, whose limb width depends on the platform. *)
From Coq Require Import ZArith NArith List Bool.
From V Require Import Prim.Keccak Model.Hashers.
Import ListNotations.

(* xor_generic.go copyOut: while at least 8 bytes remain, write lane i little-endian; a ragged
   tail of the (zeroed) buffer is left untouched *)
Definition copyOut_generic (n : nat) (a : list N) : list N :=
  flat_map (fun i => le_bytes8 (lane a i)) (seq 0 (n / 8)) ++ repeat 0%N (n mod 8).

(* limbs_from_be_bytes / be_bytes_from_limbs (blst bytes.h) for a limb of [w] bytes:
   limb k (least significant first) holds bytes len-1-w*k ... len-w*(k+1) of the big-endian string *)
Open Scope Z_scope.
Definition be_val (b : list N) : Z := fold_left (fun acc x => acc * 256 + Z.of_N x) b 0.
Fixpoint limbs_of_be (w : nat) (fuel : nat) (b : list N) : list Z :=
  match fuel with
  | O => []
  | S f =>
    match b with
    | [] => []
    | _ => let k := (length b - w)%nat in
           be_val (skipn k b) :: limbs_of_be w f (firstn k b)
    end
  end.
Definition limbs_val (w : nat) (l : list Z) : Z :=
  fold_right (fun x acc => x + 256 ^ Z.of_nat w * acc) 0 l.
