(* Model of /repo/random/rand.go : genericPRG (UintN, Permutation, SubPermutation,
   Shuffle, Samples) over an abstract randCore.

   The core is a TAPE: a finite list of bytes (N < 256); randCore.Read(buf[:k])
   consumes the next k bytes.  A tape that is too short gives the explicit result
   [OutOfTape].  The unbounded rejection loop of UintN takes a fuel argument and
   gives [OutOfFuel] when it is exhausted.  Go panics are [Panic], returned errors
   are [Err cls] (the generator state is unchanged on every error path).

   rand.go declares no constants (Generated/Consts.v has nothing for it): the 8 of
   [8]byte, the shifts by 8 and 1 and the 64-bit word size are part of the code
   structure modelled below.  No proofs in this file. *)
From Coq Require Import ZArith NArith List Bool.
Import ListNotations.
Open Scope N_scope.

Definition w64 : N := 18446744073709551616.      (* 2^64 : uint64 arithmetic *)
Definition w63 : N := 9223372036854775808.       (* 2^63 : int is 64 bits *)

(* genericPRG: the core (remaining tape) and uintnBuffer [8]byte, which persists
   across calls *)
Record prg := mkPrg { tape : list N; ubuf : list N }.

Definition prg0 (t : list N) : prg := mkPrg t (repeat 0 8).

Inductive res (A : Type) :=
| Ok (a : A) (s : prg)
| Err (cls : N)
| Panic
| OutOfTape
| OutOfFuel.
Arguments Ok {A}. Arguments Err {A}. Arguments Panic {A}.
Arguments OutOfTape {A}. Arguments OutOfFuel {A}.

Definition bind {A B} (r : res A) (f : A -> prg -> res B) : res B :=
  match r with
  | Ok a s => f a s
  | Err e => Err e
  | Panic => Panic
  | OutOfTape => OutOfTape
  | OutOfFuel => OutOfFuel
  end.

Definition E_NEG_POPULATION : N := 1.   (* "population size cannot be negative" *)
Definition E_NEG_SAMPLE : N := 2.       (* "sample size cannot be negative" *)
Definition E_SAMPLE_GT_POP : N := 3.    (* "sample size (m) cannot be larger than entire population (n)" *)

(* randCore.Read(buf) with len(buf) = k *)
Definition core_read (k : nat) (t : list N) : option (list N * list N) :=
  if Nat.leb k (length t) then Some (firstn k t, skipn k t) else None.

(* Rand.Read(buf): the embedded core's Read, buffer untouched *)
Definition read (k : nat) (s : prg) : res (list N) :=
  match core_read k (tape s) with
  | Some (b, t') => Ok b (mkPrg t' (ubuf s))
  | None => OutOfTape
  end.

(* binary.LittleEndian.Uint64 over the 8 buffer bytes (bytes are < 256) *)
Fixpoint le_val (b : list N) : N :=
  match b with [] => 0 | x :: r => x + 256 * le_val r end.

(* for tmp := max; tmp != 0; tmp >>= 8 { size++ } *)
Fixpoint size_loop (fuel : nat) (tmp : N) (size : nat) : option nat :=
  match fuel with
  | O => None
  | S f => if tmp =? 0 then Some size else size_loop f (N.shiftr tmp 8) (S size)
  end.

(* mask := uint64(0); for max&mask != max { mask = (mask << 1) | 1 }   (uint64 shift wraps) *)
Fixpoint mask_loop (fuel : nat) (max mask : N) : option N :=
  match fuel with
  | O => None
  | S f => if N.land max mask =? max then Some mask
           else mask_loop f max (N.lor ((N.shiftl mask 1) mod w64) 1)
  end.

(* for random > max { p.Read(p.uintnBuffer[:size]); random = LE64(p.uintnBuffer[:]); random &= mask }
   fuel = number of loop bodies that may still be executed *)
Fixpoint uintn_loop (fuel : nat) (max mask : N) (size : nat) (random : N) (s : prg) : res N :=
  if max <? random then
    match fuel with
    | O => OutOfFuel
    | S f =>
      if Nat.ltb (length (ubuf s)) size then Panic            (* p.uintnBuffer[:size] out of range *)
      else
        match core_read size (tape s) with
        | None => OutOfTape
        | Some (chunk, t') =>
          let buf := chunk ++ skipn size (ubuf s) in            (* only the first size bytes are overwritten *)
          uintn_loop f max mask size (N.land (le_val buf) mask) (mkPrg t' buf)
        end
    end
  else Ok random s.

(* the two bounded loops run at most 8 resp. 64 times on a uint64; more fuel than that *)
Definition uintn_fuel (fuel : nat) (n : N) (s : prg) : res N :=
  if n =? 0 then Panic
  else
    let max := n - 1 in
    match size_loop 9 max 0, mask_loop 65 max 0 with
    | Some size, Some mask => uintn_loop fuel max mask size n s
    | _, _ => OutOfFuel
    end.

(* On a finite tape every executed loop body either consumes at least one byte or
   (size = 0, i.e. n = 1) ends the loop, so this fuel is never exhausted
   (Proofs/RandUintN.v, uintn_never_out_of_fuel). *)
Definition uintn (n : N) (s : prg) : res N := uintn_fuel (S (length (tape s))) n s.

(* conversions between int (64-bit two's complement, as Z) and uint64 *)
Definition u64_of_int (x : Z) : N := Z.to_N (x mod (Z.of_N w64)).
Definition int_of_u64 (x : N) : Z := if x <? w63 then Z.of_N x else (Z.of_N x - Z.of_N w64)%Z.

(* slice write items[k] = v ; None = index out of range *)
Fixpoint set_nth {A} (k : nat) (v : A) (l : list A) : option (list A) :=
  match l, k with
  | [], _ => None
  | _ :: r, O => Some (v :: r)
  | x :: r, S k' => match set_nth k' v r with Some r' => Some (x :: r') | None => None end
  end.

(* for i := range n { j := p.UintN(uint64(i + 1)); items[i] = items[j]; items[j] = i } *)
Fixpoint perm_loop (cnt : nat) (i : nat) (items : list Z) (s : prg) : res (list Z) :=
  match cnt with
  | O => Ok items s
  | S c =>
    bind (uintn (u64_of_int (Z.of_nat i + 1)) s) (fun j s' =>
      match nth_error items (N.to_nat j) with
      | None => Panic
      | Some x =>
        match set_nth i x items with
        | None => Panic
        | Some it1 =>
          match set_nth (N.to_nat j) (Z.of_nat i) it1 with
          | None => Panic
          | Some it2 => perm_loop c (S i) it2 s'
          end
        end
      end)
  end.

(* make([]int, n) for huge n is an allocation failure of the Go runtime; not modelled *)
Definition permutation (n : Z) (s : prg) : res (list Z) :=
  if (n <? 0)%Z then Err E_NEG_POPULATION
  else perm_loop (Z.to_nat n) 0 (repeat 0%Z (Z.to_nat n)) s.

Definition subpermutation (n m : Z) (s : prg) : res (list Z) :=
  if (m <? 0)%Z then Err E_NEG_SAMPLE
  else if (n <? m)%Z then Err E_SAMPLE_GT_POP
  else
    match permutation n s with           (* items, _ := p.Permutation(n) *)
    | Ok items s' =>
        if Nat.leb (Z.to_nat m) (length items) then Ok (firstn (Z.to_nat m) items) s'
        else Panic                                               (* items[:m] out of range *)
    | Err _ => if (m =? 0)%Z then Ok [] s else Panic              (* nil[:m] *)
    | Panic => Panic | OutOfTape => OutOfTape | OutOfFuel => OutOfFuel
    end.

(* for i := range m { j := p.UintN(uint64(n - i)); swap(i, i+int(j)) }
   The callback is modelled by the list of its calls, in order (the callback is
   assumed not to touch the generator). *)
Fixpoint samples_loop (cnt : nat) (n : Z) (i : nat) (s : prg) : res (list (Z * Z)) :=
  match cnt with
  | O => Ok [] s
  | S c =>
    bind (uintn (u64_of_int (n - Z.of_nat i)) s) (fun j s' =>
      bind (samples_loop c n (S i) s') (fun sw s'' =>
        Ok ((Z.of_nat i, (Z.of_nat i + int_of_u64 j)%Z) :: sw) s''))
  end.

Definition samples (n m : Z) (s : prg) : res (list (Z * Z)) :=
  if (m <? 0)%Z then Err E_NEG_SAMPLE
  else if (n <? m)%Z then Err E_SAMPLE_GT_POP
  else samples_loop (Z.to_nat m) n 0 s.

Definition shuffle (n : Z) (s : prg) : res (list (Z * Z)) :=
  if (n <? 0)%Z then Err E_NEG_POPULATION
  else samples n n s.

(* what a slice-swapping callback does: data[a], data[b] = data[b], data[a];
   None = index out of range (a Go panic inside the callback) *)
Definition swapo {A} (a b : nat) (l : list A) : option (list A) :=
  match nth_error l a, nth_error l b with
  | Some x, Some y =>
      match set_nth a y l with
      | Some l1 => set_nth b x l1
      | None => None
      end
  | _, _ => None
  end.

Definition swap_list {A} (a b : Z) (l : list A) : option (list A) :=
  if (a <? 0)%Z || (b <? 0)%Z then None else swapo (Z.to_nat a) (Z.to_nat b) l.

Fixpoint apply_swaps {A} (sw : list (Z * Z)) (l : list A) : option (list A) :=
  match sw with
  | [] => Some l
  | (a, b) :: r => match swap_list a b l with Some l' => apply_swaps r l' | None => None end
  end.
