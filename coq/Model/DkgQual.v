(* Model of /repo/dkg_feldmanvssq.go (Feldman VSS with the complaint / qualification
   mechanism), handler by handler.  No proofs here.

   The complaints map is a function from participant index to an optional entry; all keys
   the code inserts are validated to be < size, so len(s.complaints) is the number of
   defined entries below n.  Iteration over the map (`range s.complaints`) only decides
   which complainer is named in a log string; the emitted events do not depend on it. *)
From Coq Require Import ZArith List Bool Arith.
From V Require Import Generated.Consts Model.DkgVss.
Import ListNotations.
Open Scope Z_scope.

Record complaint := mkC { c_recv : bool; c_ans : bool; c_val : Z }.

Record qinst := mkQ {
  q_v : vinst;
  q_compl : nat -> option complaint;
  q_disq : bool;
  q_st : bool;       (* sharesTimeout *)
  q_ct : bool        (* complaintsTimeout *)
}.

Definition q_init : qinst := mkQ v_init (fun _ => None) false false false.

Definition qset_v q v := mkQ v (q_compl q) (q_disq q) (q_st q) (q_ct q).
Definition qset_compl q m := mkQ (q_v q) m (q_disq q) (q_st q) (q_ct q).
Definition qset_disq q b := mkQ (q_v q) (q_compl q) b (q_st q) (q_ct q).
Definition qset_st q b := mkQ (q_v q) (q_compl q) (q_disq q) b (q_ct q).
Definition qset_ct q b := mkQ (q_v q) (q_compl q) (q_disq q) (q_st q) b.

Definition upd (m : nat -> option complaint) (k : nat) (c : complaint) : nat -> option complaint :=
  fun i => if Nat.eqb i k then Some c else m i.

Section Inst.
Variable cf : cfg.
Variable d : nat.

Let n := c_n cf.
Let t := c_t cf.
Let my := c_my cf.

(* len(s.complaints) *)
Definition ncompl (m : nat -> option complaint) : nat :=
  length (filter (fun i => match m i with Some _ => true | None => false end) (seq 0 n)).

(* checkComplaint(complainer, c): true = the answer is NOT the log of y[complainer];
   None = s.y[complainer] panics *)
Definition check_complaint (v : vinst) (c : nat) (ans : Z) : option bool :=
  match v_y v with
  | None => None
  | Some ys => match nth_error ys c with
               | None => None
               | Some yv => Some (negb (ans =? yv))
               end
  end.

(* buildAndBroadcastComplaint *)
Definition build_complaint (q : qinst) : option (qinst * list event) :=
  let go (old : option complaint) :=
    let v := q_v q in
    (* the log message formats &s.y[s.myIndex] *)
    if v_vArecv v && v_xrecv v && (match verify_share cf v with None => true | Some _ => false end)
    then None
    else
      let entry := match old with
                   | None => mkC true false 0
                   | Some c => mkC true (c_ans c) (c_val c)
                   end in
      let q1 := qset_compl q (upd (q_compl q) my entry) in
      let ev := [EvFlag d; EvBcast (MComplaint (CIdx (Z.of_nat d)))] in
      match old with
      | Some c =>
          if c_ans c then
            if v_vArecv v then
              match check_complaint v my (c_val c) with
              | None => None
              | Some bad =>
                  let q2 := qset_disq q1 bad in
                  if bad then Some (q2, ev ++ [EvDisq d])
                  else Some (qset_v q2 (set_x (q_v q2) (c_val c)), ev)
              end
            else
              if q_disq q1 then Some (q1, ev)
              else Some (qset_v q1 (set_x (q_v q1) (c_val c)), ev)
          else Some (q1, ev)
      | None => Some (q1, ev)
      end
  in
  match q_compl q my with
  | Some c => if c_recv c then Some (q, []) else go (Some c)
  | None => go None
  end.

(* buildAndBroadcastComplaintAnswer(complainee); the entry exists (just inserted) *)
Definition build_answer (q : qinst) (o : nat) : option (qinst * list event) :=
  match v_a (q_v q) with
  | None => None                                   (* &a[0] on a nil slice *)
  | Some [] => None
  | Some a =>
      match q_compl q o with
      | None => None                               (* s.complaints[complainee] is nil *)
      | Some c =>
          Some (qset_compl q (upd (q_compl q) o (mkC (c_recv c) true (c_val c))),
                [EvBcast (MAnswer (AVal (Z.of_nat o) (peval a (Z.of_nat o + 1))))])
      end
  end.

(* receiveShare *)
Definition q_receive_share (o : nat) (m : msg) (q : qinst) : option (qinst * list event) :=
  let v := q_v q in
  if negb (Nat.eqb o d) then Some (q, [])
  else if q_st q then Some (q, [EvFlag o])
  else if v_xrecv v then Some (q, [EvFlag o])
  else
    let q1 := qset_v q (set_xrecv v true) in
    let complain_and_flag (q' : qinst) :=
      match build_complaint q' with
      | None => None
      | Some (q2, ev) => Some (q2, ev ++ [EvFlag o])
      end in
    match m with
    | MShare (SVal z) =>
        let '(ok, x') := read_star z (v_x (q_v q1)) in
        let q2 := qset_v q1 (set_x (q_v q1) x') in
        if negb ok then complain_and_flag q2
        else if v_vArecv (q_v q2) then
          match verify_share cf (q_v q2) with
          | None => None
          | Some true => Some (q2, [])
          | Some false => build_complaint q2
          end
        else Some (q2, [])
    | _ => complain_and_flag q1
    end.

(* is there a registered complaint with an answer that fails the check?  None = panic *)
Fixpoint bad_answer_in (v : vinst) (m : nat -> option complaint) (js : list nat) : option bool :=
  match js with
  | [] => Some false
  | j :: js' =>
      match m j with
      | Some c =>
          if c_recv c && c_ans c then
            match check_complaint v j (c_val c) with
            | None => None
            | Some true => Some true
            | Some false => bad_answer_in v m js'
            end
          else bad_answer_in v m js'
      | None => bad_answer_in v m js'
      end
  end.

(* receiveVerifVector *)
Definition q_receive_vector (o : nat) (vb : vbody) (q : qinst) : option (qinst * list event) :=
  let v := q_v q in
  if negb (Nat.eqb o d) then Some (q, [])
  else if q_st q then Some (q, [EvFlag o])
  else if v_vArecv v then Some (q, [EvFlag o])
  else
    let v1 := set_vArecv v true in
    match vb with
    | VBadLen => Some (qset_disq (qset_v q v1) true, [EvDisq o])
    | VBad _ => Some (qset_disq (qset_v q (set_vA v1 VAPartial)) true, [EvDisq o])
    | VOk l =>
        let a := fixpoly t l in
        let v2 := set_y (set_vA v1 (VAFull a)) (Some (pubkeys cf a)) in
        let q1 := qset_v q v2 in
        match bad_answer_in v2 (q_compl q1) (seq 0 n) with
        | None => None
        | Some true => Some (qset_disq q1 true, [EvDisq d])
        | Some false =>
            if v_xrecv v2 then
              match verify_share cf v2 with
              | None => None
              | Some true => Some (q1, [])
              | Some false => build_complaint q1
              end
            else Some (q1, [])
        end
    end.

(* receiveComplaint *)
Definition q_receive_complaint (o : nat) (cb : cbody) (q : qinst) : option (qinst * list event) :=
  if q_ct q then Some (q, [EvFlag o])
  else
    let dealer_only :=
      if Nat.eqb o d then Some (qset_disq q true, [EvDisq o]) else Some (q, []) in
    match cb with
    | CBadLen => dealer_only
    | CIdx b =>
        if Z.of_nat n <=? b then dealer_only
        else if Nat.eqb o d then Some (q, [])
        else if negb (Nat.eqb (Z.to_nat b) d) then Some (q, [])
        else
          match q_compl q o with
          | None =>
              let q1 := qset_compl q (upd (q_compl q) o (mkC true false 0)) in
              if Nat.eqb my d then build_answer q1 o else Some (q1, [])
          | Some c =>
              if c_recv c then Some (q, [EvFlag o])
              else
                let q1 := qset_compl q (upd (q_compl q) o (mkC true (c_ans c) (c_val c))) in
                if v_vArecv (q_v q1) && c_ans c && negb (Nat.eqb my d) then
                  match check_complaint (q_v q1) o (c_val c) with
                  | None => None
                  | Some bad => Some (qset_disq q1 bad, if bad then [EvDisq d] else [])
                  end
                else Some (q1, [])
          end
    end.

(* receiveComplaintAnswer *)
Definition q_receive_answer (o : nat) (ab : abody) (q : qinst) : option (qinst * list event) :=
  if negb (Nat.eqb o d) then Some (q, [])
  else
    match ab with
    | ABadLen => Some (qset_disq q true, [EvDisq d])
    | AVal b z =>
        if Z.of_nat n <=? b then Some (qset_disq q true, [EvDisq o])
        else
          let c := Z.to_nat b in
          match q_compl q c with
          | None =>
              let '(ok, val) := read_star z 0 in
              let q1 := qset_compl q (upd (q_compl q) c (mkC false true val)) in
              if ok then Some (q1, []) else Some (qset_disq q1 true, [EvDisq d])
          | Some k =>
              if c_ans k then Some (q, [EvFlag o])
              else if c_recv k then
                let '(ok, val) := read_star z (c_val k) in
                let q1 := qset_compl q (upd (q_compl q) c (mkC true true val)) in
                if negb ok then Some (qset_disq q1 true, [EvDisq d])
                else
                  let adopt (q' : qinst) :=
                    if negb (q_disq q') && Nat.eqb c my
                    then qset_v q' (set_x (q_v q') val) else q' in
                  if v_vArecv (q_v q1) then
                    match check_complaint (q_v q1) c val with
                    | None => None
                    | Some bad =>
                        let q2 := qset_disq q1 bad in
                        Some (adopt q2, if bad then [EvDisq d] else [])
                    end
                  else Some (adopt q1, [])
              else Some (qset_compl q (upd (q_compl q) c (mkC false true (c_val k))), [])
          end
    end.

Definition qlift (run : bool) (q : qinst) (h : option (qinst * list event)) : bool * qinst * result * list event :=
  match h with
  | None => (run, q, RPanic, [])
  | Some (q', ev) => (run, q', ROk, ev)
  end.

(* HandleBroadcastMsg *)
Definition q_broadcast (run : bool) (q : qinst) (orig : Z) (m : msg) : bool * qinst * result * list event :=
  if negb run then (run, q, RStateErr, [])
  else if negb (in_range cf orig) then (run, q, RInvalidInput, [])
  else
    let o := Z.to_nat orig in
    if Nat.eqb my o then (run, q, ROk, [])
    else if q_disq q then (run, q, ROk, [])
    else
      let bad_header :=
        (run, (if Nat.eqb o d then qset_disq q true else q), ROk, [EvDisq o]) in
      match m with
      | MEmpty => bad_header
      | MVec vb => qlift run q (q_receive_vector o vb q)
      | MComplaint cb => qlift run q (q_receive_complaint o cb q)
      | MAnswer ab => qlift run q (q_receive_answer o ab q)
      | MShare _ => bad_header
      | MOther _ => bad_header
      end.

(* HandlePrivateMsg *)
Definition q_private (run : bool) (q : qinst) (orig : Z) (m : msg) : bool * qinst * result * list event :=
  if negb run then (run, q, RStateErr, [])
  else if negb (in_range cf orig) then (run, q, RInvalidInput, [])
  else
    let o := Z.to_nat orig in
    if Nat.eqb my o then (run, q, ROk, [])
    else if q_disq q then (run, q, ROk, [])
    else qlift run q (q_receive_share o m q).

(* ForceDisqualify *)
Definition q_force (run : bool) (q : qinst) (j : Z) : bool * qinst * result * list event :=
  if negb run then (run, q, RStateErr, [])
  else if negb (in_range cf j) then (run, q, RInvalidInput, [])
  else if Nat.eqb (Z.to_nat j) d then (run, qset_disq q true, ROk, [])
  else (run, q, ROk, []).

(* setSharesTimeout / setComplaintsTimeout *)
Definition set_shares_timeout (q : qinst) : option (qinst * list event) :=
  let q1 := qset_st q true in
  if negb (v_vArecv (q_v q1)) then Some (qset_disq q1 true, [EvDisq d])
  else if negb (v_xrecv (q_v q1)) then build_complaint q1
  else Some (q1, []).

Definition set_complaints_timeout (q : qinst) : qinst * list event :=
  let q1 := qset_ct q true in
  if (t <? ncompl (q_compl q1))%nat then (qset_disq q1 true, [EvDisq d]) else (q1, []).

(* NextTimeout *)
Definition q_next_timeout (run : bool) (q : qinst) : bool * qinst * result * list event :=
  if negb run then (run, q, RStateErr, [])
  else if q_ct q then (run, q, RStateErr, [])
  else if q_disq q then
    (if negb (q_st q) then (run, qset_st q true, ROk, []) else (run, qset_ct q true, ROk, []))
  else if negb (q_st q) then qlift run q (set_shares_timeout q)
  else let '(q', ev) := set_complaints_timeout q in (run, q', ROk, ev).

(* a complaint that was received and never answered *)
Definition unanswered (m : nat -> option complaint) : bool :=
  existsb (fun j => match m j with Some c => c_recv c && negb (c_ans c) | None => false end) (seq 0 n).

(* End *)
Definition q_end (run : bool) (q : qinst) : bool * qinst * result * list event :=
  if negb run then (run, q, RStateErr, [])
  else if negb (q_st q) || negb (q_ct q) then (run, q, RStateErr, [])
  else
    let '(q1, ev) :=
      if negb (q_disq q) && unanswered (q_compl q) then (qset_disq q true, [EvDisq d]) else (q, []) in
    if q_disq q1 then (false, q1, RFailure, ev)
    else
      let res := end_keys cf (v_x (q_v q1)) (v_vA (q_v q1)) (v_y (q_v q1)) in
      match res with
      | RFailure => (false, qset_disq q1 true, res, ev)
      | _ => (false, q1, res, ev)
      end.

Record qstate := mkQS { qs_run : bool; qs_q : qinst }.

Definition qual_init : qstate := mkQS false q_init.

Definition qpack (p : bool * qinst * result * list event) : qstate * result * list event :=
  let '(run, q, res, ev) := p in (mkQS run q, res, ev).

(* Start is the embedded feldmanVSSstate.Start: the timeouts and the complaints are kept *)
Definition q_start (run : bool) (q : qinst) (sd : seed) : bool * qinst * result * list event :=
  let '(run', v', res, ev) := vss_start cf d run (q_v q) sd in
  (run', qset_v q v', res, ev).

Definition qual_step (s : qstate) (c : call) : qstate * result * list event :=
  match c with
  | CStart sd => qpack (q_start (qs_run s) (qs_q s) sd)
  | CNextTimeout => qpack (q_next_timeout (qs_run s) (qs_q s))
  | CEnd => qpack (q_end (qs_run s) (qs_q s))
  | CRunning => (s, RBool (qs_run s), [])
  | CBroadcast o m => qpack (q_broadcast (qs_run s) (qs_q s) o m)
  | CPrivate o m => qpack (q_private (qs_run s) (qs_q s) o m)
  | CForce j => qpack (q_force (qs_run s) (qs_q s) j)
  end.

End Inst.
