(* Batch verification (bls_multisig.go:462-562, bls_core.c:276-486).
   [tree] is the recursion of bls_batch_verify_tree over the node test [node_ok],
   written once: the theorems instantiate [node_ok] with the pairing check over the
   bilinear algebra, the correspondence run with arithmetic modulo r on known
   discrete logs. *)
From Coq Require Import ZArith NArith List Bool.
From V Require Import Spec.Bilinear Generated.Consts Model.BlsAbs Model.AggAbs.
Import ListNotations.

Inductive st := Undefined | Valid | Invalid.
Definition st_eqb (a b : st) : bool :=
  match a, b with Undefined, Undefined | Valid, Valid | Invalid, Invalid => true | _, _ => false end.
Definition fill (r : st) : st := match r with Undefined => Valid | x => x end.

Section Tree.
Variable L : Type.
Variable node_ok : list L -> bool.

(* build_tree splits [len] into left = len - len/2 (first) and right = len/2;
   bls_batch_verify_tree: valid root => fill the UNDEFINED results; leaf => INVALID; else recurse *)
Fixpoint tree (fuel : nat) (l : list L) (res : list st) : list st :=
  match fuel with
  | O => res
  | S f =>
    if node_ok l then map fill res
    else match l with
         | [] => res
         | [_] => match res with _ :: t => Invalid :: t | [] => [] end
         | _ => let rl := Nat.div (length l) 2 in let ll := (length l - rl)%nat in
                tree f (firstn ll l) (firstn ll res) ++ tree f (skipn ll l) (skipn ll res)
         end
  end.
End Tree.
Arguments tree {L}.

Section Batch.
Context {B : bilinear} {C : codecs}.

(* bls_batch_verify: per signature read + membership (failure => both set to infinity, INVALID),
   otherwise both multiplied by rho_i = seed_i + 1 *)
Definition c_leaf (pk : E2) (b : list N) (rho : F) : (E1 * E2) * st :=
  match dec1 b with
  | Some s => if inG1 s then ((smul1 rho s, smul2 rho pk), Undefined) else ((O1, O2), Invalid)
  | None => ((O1, O2), Invalid)
  end.
Fixpoint c_leaves (pks : list E2) (sigs : list (list N)) (rhos : list F) : list ((E1 * E2) * st) :=
  match pks, sigs, rhos with
  | pk :: pr, b :: br, rho :: rr => c_leaf pk b rho :: c_leaves pr br rr
  | _, _, _ => []
  end.
Definition node_check (h : E1) (l : list (E1 * E2)) : bool :=
  verify_E1 (sum2 (map snd l)) (sum1 (map fst l)) h.
Definition c_batch (pks : list E2) (sigs : list (list N)) (h : E1) (rhos : list F) : list st :=
  let lv := c_leaves pks sigs rhos in
  tree (node_check h) (S (length lv)) (map fst lv) (map snd lv).

(* the Go wrapper: wrong length or identity key => result false, pair replaced by identities *)
Inductive bres := BOk (v : list bool) | BErrEmptyList (v : list bool) | BErrInvalidInputs (v : list bool)
                | BErrHasher (e : herr) (v : list bool) | BErrNotBLSKey (v : list bool).
Definition premark (pk : pubkey) (b : list N) : bool :=
  negb (Nat.eqb (List.length b) (Z.to_nat crypto_SignatureLenBLSBLS12381)) || pk_is_identity pk.
Definition go_batch (pks : list (option pubkey)) (sigs : list (list N)) (hs : hasher) (h : E1) (rhos : list F) : bres :=
  let falses := repeat false (List.length sigs) in
  if Nat.eqb (List.length pks) 0 then BErrEmptyList falses
  else if negb (Nat.eqb (List.length pks) (List.length sigs)) then BErrInvalidInputs falses
  else match check_hasher hs with
       | Some e => BErrHasher e falses
       | None =>
         match all_bls pks with
         | None => BErrNotBLSKey falses
         | Some ks =>
             let marks := map (fun p => premark (fst p) (snd p)) (combine ks sigs) in
             let pts := map (fun p => if premark (fst p) (snd p) then O2 else pk_point (fst p)) (combine ks sigs) in
             let bs := map (fun p => if premark (fst p) (snd p) then enc1 O1 else snd p) (combine ks sigs) in
             let cres := c_batch pts bs h rhos in
             BOk (map (fun p => negb (fst p) && st_eqb (snd p) Valid) (combine marks cres))
         end
       end.
End Batch.
