(* Aggregate verification (bls_multisig.go:272-460, bls_core.c:76-250) over the bilinear
   algebra.  Go maps are association lists in insertion order; their iteration order is a
   parameter (any permutation of the groups), quantified universally in the theorems. *)
From Coq Require Import ZArith NArith List Bool String.
From V Require Import Lib.Hex Spec.Bilinear Generated.Consts Model.BlsAbs Model.AggAbs.
Import ListNotations.

Inductive mres := MBool (v : bool) | MErrEmptyList | MErrInvalidInputs | MErrHasher (e : herr) | MErrNotBLSKey.

Section Multisig.
Context {B : bilinear} {C : codecs}.
Variable Hc : list N -> E1.                 (* map_to_G1 of a hasher output *)

(* VerifyBLSSignatureOneMessage = aggregate the keys, then Verify *)
Definition verify_one_message (pks : list (option pubkey)) (b : list N) (hs : hasher) (hpt : E1) : option vres :=
  match agg_pks pks with
  | AOk k => Some (verify k b hs hpt)
  | AErr _ => None
  end.

(* a key object as seen by the map keyed by the point STRUCT: the point and a tag for its
   in-memory representation (equal points held in distinct representations are distinct keys) *)
Definition pkrep : Type := (E2 * N)%type.
Definition pkrep_eqb (a b : pkrep) : bool := eq2 (fst a) (fst b) && N.eqb (snd a) (snd b).

Fixpoint insert_hash (h : list N) (P : E2) (m : list (list N * list E2)) : list (list N * list E2) :=
  match m with
  | [] => [(h, [P])]
  | (h', l) :: r => if bytes_eqb h h' then (h', l ++ [P]) :: r else (h', l) :: insert_hash h P r
  end.
Fixpoint insert_pk (k : pkrep) (h : list N) (m : list (pkrep * list (list N))) : list (pkrep * list (list N)) :=
  match m with
  | [] => [(k, [h])]
  | (k', l) :: r => if pkrep_eqb k k' then (k', l ++ [h]) :: r else (k', l) :: insert_pk k h r
  end.

(* bls_verifyPerDistinctMessage / bls_verifyPerDistinctKey *)
Definition c_read_sig (b : list N) : option E1 :=
  match dec1 b with Some P => if inG1 P then Some P else None | None => None end.
Definition per_distinct_message (b : list N) (groups : list (list N * list E2)) : bool :=
  match c_read_sig b with
  | None => false
  | Some s => multi_pairing_is_one ((s, neg_g2) :: map (fun g => (Hc (fst g), sum2 (snd g))) groups)
  end.
Definition per_distinct_key (b : list N) (groups : list (pkrep * list (list N))) : bool :=
  match c_read_sig b with
  | None => false
  | Some s => multi_pairing_is_one ((s, neg_g2) :: map (fun g => (sum1 (map Hc (snd g)), fst (fst g))) groups)
  end.

(* one input triple: key (None = not a BLS key) with its representation tag, hasher, and the
   hasher's output on the message *)
Record triple := { t_pk : option (pubkey * N); t_hasher : hasher; t_hash : list N }.

Fixpoint check_hashers (ts : list triple) : option herr :=
  match ts with
  | [] => None
  | t :: r => match check_hasher (t_hasher t) with Some e => Some e | None => check_hashers r end
  end.

(* the loop over the keys: Some (Some maps) = ok, Some None = early (false, nil), None = errNotBLSKey *)
Fixpoint build_maps (ts : list triple) (mh : list (list N * list E2)) (mk : list (pkrep * list (list N)))
  : option (option (list (list N * list E2) * list (pkrep * list (list N)))) :=
  match ts with
  | [] => Some (Some (mh, mk))
  | t :: r =>
    match t_pk t with
    | None => None
    | Some (k, rep) =>
        if pk_is_identity k then Some None
        else build_maps r (insert_hash (t_hash t) (pk_point k) mh) (insert_pk (pk_point k, rep) (t_hash t) mk)
    end
  end.

(* [n_pks], [n_msgs], [n_hashers]: lengths of the three input lists (they may differ);
   [ts] zips them when they agree.  [sigma_h], [sigma_k]: map iteration orders. *)
Definition verify_many_messages (n_pks n_msgs n_hashers : nat) (ts : list triple) (b : list N)
    (sigma_h : list (list N * list E2) -> list (list N * list E2))
    (sigma_k : list (pkrep * list (list N)) -> list (pkrep * list (list N))) : mres :=
  if negb (Nat.eqb (List.length b) (Z.to_nat crypto_SignatureLenBLSBLS12381)) then MBool false
  else if Nat.eqb n_pks 0 then MErrEmptyList
  else if negb (Nat.eqb n_pks n_msgs) || negb (Nat.eqb n_hashers n_msgs) then MErrInvalidInputs
  else match check_hashers ts with
       | Some e => MErrHasher e
       | None =>
         match build_maps ts [] [] with
         | None => MErrNotBLSKey
         | Some None => MBool false
         | Some (Some (mh, mk)) =>
             if Nat.ltb (List.length mh) (List.length mk)
             then MBool (per_distinct_message b (sigma_h mh))
             else MBool (per_distinct_key b (sigma_k mk))
         end
       end.
End Multisig.
