(* A checker for small concurrent histories: a history is a list of completed
   operations (thread, operation, observed result, invocation stamp, response
   stamp; stamps are drawn from one atomic counter).  [search] looks for a
   linearization: an order of all the operations that respects real time (an
   operation that responded before another was invoked comes first) and in which
   the sequential specification [step] returns exactly the observed results.
   No proofs here (Proofs/LinCheckProofs.v). *)
From Coq Require Import NArith List Bool Permutation.
Import ListNotations.
Open Scope N_scope.

Section Lin.
  Variables state op result : Type.
  Variable step : state -> op -> state * result.
  Variable res_eqb : result -> result -> bool.

  Record event := mkEv { ev_thread : N; ev_op : op; ev_res : result; ev_inv : N; ev_resp : N }.

  Fixpoint remove_nth {A} (i : nat) (l : list A) : list A :=
    match l, i with
    | [], _ => []
    | _ :: r, O => r
    | x :: r, S j => x :: remove_nth j r
    end.

  (* e can be linearized before all of [others]: none of them responded before e was invoked *)
  Fixpoint minimal (e : event) (others : list event) : bool :=
    match others with
    | [] => true
    | p :: r => if ev_resp p <? ev_inv e then false else minimal e r
    end.

  (* explicit conditionals: under vm_compute (call by value) [andb]/[orb]/[existsb] would
     evaluate both sides and explore the whole tree *)
  Definition try_event (search : state -> list event -> bool) (st : state) (pending : list event) (i : nat) : bool :=
    match nth_error pending i with
    | Some e =>
        let rest := remove_nth i pending in
        let sr := step st (ev_op e) in
        if minimal e rest then
          if res_eqb (snd sr) (ev_res e) then search (fst sr) rest else false
        else false
    | None => false
    end.

  Fixpoint first_ok (f : nat -> bool) (l : list nat) : bool :=
    match l with
    | [] => false
    | i :: r => if f i then true else first_ok f r
    end.

  Fixpoint search (fuel : nat) (st : state) (pending : list event) : bool :=
    match pending with
    | [] => true
    | _ :: _ =>
        match fuel with
        | O => false
        | S f => first_ok (try_event (search f) st pending) (seq 0 (length pending))
        end
    end.

  Definition lin_check (st : state) (h : list event) : bool := search (length h) st h.

  (* ---- specification ---- *)
  Fixpoint legal (st : state) (l : list event) : Prop :=
    match l with
    | [] => True
    | e :: r => snd (step st (ev_op e)) = ev_res e /\ legal (fst (step st (ev_op e))) r
    end.

  (* real-time order: whoever is placed later did not respond before an earlier-placed one was invoked *)
  Fixpoint rt_order (l : list event) : Prop :=
    match l with
    | [] => True
    | e :: r => (forall p, In p r -> ~ (ev_resp p < ev_inv e)) /\ rt_order r
    end.

  Definition linearizable (st : state) (h : list event) : Prop :=
    exists l, Permutation h l /\ legal st l /\ rt_order l.
End Lin.

Arguments mkEv {op result}.
Arguments ev_thread {op result}.
Arguments ev_op {op result}.
Arguments ev_res {op result}.
Arguments ev_inv {op result}.
Arguments ev_resp {op result}.
