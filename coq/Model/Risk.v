(* C09 - control skeletons of the Go code with the operations that can panic, and their
   executable semantics.  The skeleton VALUES are regenerated from /repo by
   harness/cmd/extract/risk.go into Generated/RiskSkel.v; this file only fixes the types
   and what a skeleton means.  No proofs here (Proofs/RiskProofs.v).

   An environment maps NAMES to integers.  A name is the source text of a Go expression:
   for a slice / array / string it stands for its LENGTH, for an integer or boolean
   variable or field for its VALUE (false = 0), for anything the translator could not
   interpret (result of a foreign call, element of an untrusted slice ...) it is an
   ORACLE entry: theorems quantify over all environments, hence over all such values. *)
From Coq Require Import ZArith List String Bool.
Import ListNotations.
Open Scope string_scope.
Open Scope Z_scope.

Definition env := string -> Z.
Definition upd (e : env) (x : string) (v : Z) : env :=
  fun y => if String.eqb y x then v else e y.

(* integer terms *)
Inductive term :=
| TLen (x : string)            (* len(x) *)
| TVar (x : string)            (* integer / boolean variable or field, e.g. "orig", "s.size" *)
| TConst (z : Z)               (* Go constant folded by the translator *)
| TAdd (a b : term) | TSub (a b : term) | TMul (a b : term)
| TByte (a : term)             (* conversion to a byte-sized type: value mod 256 *)
| TOpaque (s : string).        (* uninterpreted integer expression: oracle entry *)

Fixpoint teval (t : term) (e : env) : Z :=
  match t with
  | TLen x | TVar x | TOpaque x => e x
  | TConst z => z
  | TAdd a b => teval a e + teval b e
  | TSub a b => teval a e - teval b e
  | TMul a b => teval a e * teval b e
  | TByte a => teval a e mod 256
  end.

(* conditions; three-valued evaluation: [None] = the skeleton does not determine it *)
Inductive cond :=
| CLt (a b : term) | CLe (a b : term) | CEq (a b : term) | CNe (a b : term)
| CGt (a b : term) | CGe (a b : term)
| COr (a b : cond) | CAnd (a b : cond) | CNot (a : cond)
| CNil (x : string)            (* x == nil for a slice x: needs len(x) = 0 and the oracle "nil?x" *)
| CTrue | CFalse
| CUnknown (s : string).

Definition nil_oracle (x : string) : string := "nil?" ++ x.

Fixpoint ceval (c : cond) (e : env) : option bool :=
  match c with
  | CLt a b => Some (teval a e <? teval b e)
  | CLe a b => Some (teval a e <=? teval b e)
  | CEq a b => Some (teval a e =? teval b e)
  | CNe a b => Some (negb (teval a e =? teval b e))
  | CGt a b => Some (teval b e <? teval a e)
  | CGe a b => Some (teval b e <=? teval a e)
  | COr a b =>
      match ceval a e, ceval b e with
      | Some true, _ | _, Some true => Some true
      | Some false, Some false => Some false
      | _, _ => None
      end
  | CAnd a b =>
      match ceval a e, ceval b e with
      | Some false, _ | _, Some false => Some false
      | Some true, Some true => Some true
      | _, _ => None
      end
  | CNot a => option_map negb (ceval a e)
  | CNil x => Some ((e x <=? 0) && (e (nil_oracle x) =? 1))
  | CTrue => Some true
  | CFalse => Some false
  | CUnknown _ => None
  end.

(* operations that panic on some operands *)
Inductive risk :=
| RIdx (x : string) (i : term)            (* x[i], &x[i] *)
| RSlice (x : string) (lo hi : term)      (* x[lo:hi]   (hi <= len, not cap: conservative) *)
| RMake (n : term)                        (* make([]T, n): n < 0 panics *)
| RAssert (s : string)                    (* type assertion without comma-ok *)
| RDeref (s : string)                     (* field access through a map lookup result *)
| RDiv (d : term)                         (* integer division / remainder by d *)
| RPanic (s : string).                    (* explicit panic(...) *)

Definition ok_oracle (s : string) : string := "ok?" ++ s.

Definition risk_okb (r : risk) (e : env) : bool :=
  match r with
  | RIdx x i => (0 <=? teval i e) && (teval i e <? e x)
  | RSlice x lo hi => (0 <=? teval lo e) && (teval lo e <=? teval hi e) && (teval hi e <=? e x)
  | RMake n => 0 <=? teval n e
  | RAssert s | RDeref s => e (ok_oracle s) =? 1
  | RDiv d => negb (teval d e =? 0)
  | RPanic _ => false
  end.

Definition risk_text (r : risk) : string :=
  match r with
  | RIdx x _ => "index out of range: " ++ x
  | RSlice x _ _ => "slice bounds out of range: " ++ x
  | RMake _ => "makeslice: len out of range"
  | RAssert s => "interface conversion: " ++ s
  | RDeref s => "nil pointer dereference: " ++ s
  | RDiv _ => "integer divide by zero"
  | RPanic s => s
  end.

(* events *)
Inductive ev :=
| ERisk (r : risk)
| EIf (c : cond) (a b : list ev)
| ERet (tag : string) (vs : list term)    (* return; tag = how the results are built (heads of the result
                                             expressions), vs = their values: length for a slice, 0 = nil
                                             and 1 = non-nil for an error, value for an integer / boolean *)
| ELoopRange (i x : string) (body : list ev)     (* for i := range x / for i, v := range x *)
| ELoopN (i : string) (lo hi : term) (body : list ev)   (* for i := lo; i < hi; i++ *)
| ELoopWhile (c : cond) (body : list ev)         (* any other for loop *)
| EBreak                                          (* break / continue: ends the iteration *)
| EAssume (c : cond)                      (* emitted only right after a loop that can only be left through
                                             its condition: paths on which c is false do not exist *)
| ESetLen (x : string) (t : term)         (* x := make([]T, t) / fixed-size array / integer assignment *)
| EReslice (x : string) (k : term)        (* x = x[k:] *)
| EHavoc (x : string) (o : string)        (* any other assignment: x := oracle entry o *)
| ECall (f : string) (binds : list (string * term)) (rfrom rto : string) (res : list string)
    (* call of another skeletonised function: parameters bound to terms of the caller;
       names of the callee that start with rfrom (its receiver) are read as rto ++ rest in
       the caller's environment; res receive the callee's return values ("" = ignored) *)
| EDyn (s : string)                       (* interface method / callback call: no effect here *)
| EExt (s : string)                       (* call into another package (stdlib, cgo): no effect here *)
| ENote (s : string)                      (* DKGProcessor callback: counted in the entry note_name s *)
| EUnknown (s : string).                  (* not understood by the translator: counts as a panic *)

Inductive outcome :=
| Cont (e : env)
| Returned (tag : string) (vs : list Z) (e : env)   (* e: environment at the return (notes) *)
| Broke
| Panicked (t : string).

Definition loop_oracle (i : string) : string := i ++ "@".
(* number of calls of the DKGProcessor callback s so far on this path *)
Definition note_name (s : string) : string := "note:" ++ s.

Fixpoint assoc (k : string) (l : list (string * Z)) : option Z :=
  match l with
  | [] => None
  | (k', v) :: r => if String.eqb k k' then Some v else assoc k r
  end.

Definition rename (from to n : string) : string :=
  if String.eqb from "" then n
  else if String.prefix from n
       then to ++ String.substring (String.length from) (String.length n - String.length from) n
       else n.

Definition call_env (e : env) (binds : list (string * term)) (rfrom rto : string) : env :=
  let bs := map (fun p => (fst p, teval (snd p) e)) binds in
  fun n => match assoc n bs with Some v => v | None => e (rename rfrom rto n) end.

Definition seq (os : list outcome) (k : env -> list outcome) : list outcome :=
  flat_map (fun o => match o with Cont e => k e | _ => [o] end) os.

Definition run_list (one : ev -> env -> list outcome) : list ev -> env -> list outcome :=
  fix run (l : list ev) (e : env) : list outcome :=
    match l with
    | [] => [Cont e]
    | x :: r => seq (one x e) (run r)
    end.

(* outcome of a loop body seen from after the loop: the translator havocs every variable
   the body assigns, at the head of the body and after the loop, so the environment of
   the loop's continuation is the one before the loop *)
Definition loop_out (e : env) (os : list outcome) : list outcome :=
  map (fun o => match o with Cont _ | Broke => Cont e | _ => o end) os.

Fixpoint bind_res (e : env) (res : list string) (vs : list Z) : env :=
  match res with
  | [] => e
  | r :: rs =>
      let v := match vs with v :: _ => v | [] => 0 end in
      let e' := if String.eqb r "" then e else upd e r v in
      bind_res e' rs (tl vs)
  end.

Definition call_out (e : env) (res : list string) (os : list outcome) : list outcome :=
  map (fun o => match o with
                | Cont _ | Broke => Cont (bind_res e res [])
                | Returned _ vs _ => Cont (bind_res e res vs)
                | Panicked t => Panicked t
                end) os.

Section Exec.
  Variable prog : string -> option (list ev).

  Fixpoint one (call : list ev -> env -> list outcome) (x : ev) (e : env) {struct x} : list outcome :=
    match x with
    | ERisk r => if risk_okb r e then [Cont e] else [Panicked (risk_text r)]
    | EIf c a b =>
        match ceval c e with
        | Some true => run_list (one call) a e
        | Some false => run_list (one call) b e
        | None => (run_list (one call) a e ++ run_list (one call) b e)%list
        end
    | ERet tag vs => [Returned tag (map (fun t => teval t e) vs) e]
    | ELoopRange i x body =>
        let iv := e (loop_oracle i) in
        Cont e :: (if (0 <=? iv) && (iv <? e x)
                   then loop_out e (run_list (one call) body (upd e i iv)) else [])
    | ELoopN i lo hi body =>
        let iv := e (loop_oracle i) in
        Cont e :: (if (teval lo e <=? iv) && (iv <? teval hi e)
                   then loop_out e (run_list (one call) body (upd e i iv)) else [])
    | ELoopWhile c body =>
        Cont e :: (match ceval c e with
                   | Some false => []
                   | _ => loop_out e (run_list (one call) body e)
                   end)
    | EBreak => [Broke]
    | EAssume c => match ceval c e with Some false => [] | _ => [Cont e] end
    | ESetLen x t => [Cont (upd e x (teval t e))]
    | EReslice x k =>
        if (0 <=? teval k e) && (teval k e <=? e x)
        then [Cont (upd e x (e x - teval k e))]
        else [Panicked ("slice bounds out of range: " ++ x)]
    | EHavoc x o => [Cont (upd e x (e o))]
    | ECall f binds rfrom rto res =>
        match prog f with
        | Some body => call_out e res (call body (call_env e binds rfrom rto))
        | None => [Panicked ("unknown function " ++ f)]
        end
    | EDyn _ | EExt _ => [Cont e]
    | ENote s => [Cont (upd e (note_name s) (e (note_name s) + 1))]
    | EUnknown s => [Panicked ("not understood: " ++ s)]
    end.

  Fixpoint exec (fuel : nat) : list ev -> env -> list outcome :=
    match fuel with
    | O => fun _ _ => [Panicked "out of fuel"]
    | S n => run_list (one (exec n))
    end.
End Exec.

Definition no_panic (o : outcome) : Prop := forall t, o <> Panicked t.

(* program table from an association list (Generated/RiskSkel.v provides risk_table) *)
Fixpoint lookup (tbl : list (string * list ev)) (f : string) : option (list ev) :=
  match tbl with
  | [] => None
  | (g, b) :: r => if String.eqb f g then Some b else lookup r f
  end.

(* ---- partial evaluation used by the correspondence check: only some names are known ---- *)
Fixpoint tnames (t : term) : list string :=
  match t with
  | TLen x | TVar x | TOpaque x => [x]
  | TConst _ => []
  | TAdd a b | TSub a b | TMul a b => (tnames a ++ tnames b)%list
  | TByte a => tnames a
  end.

Fixpoint cnames (c : cond) : list string :=
  match c with
  | CLt a b | CLe a b | CEq a b | CNe a b | CGt a b | CGe a b => (tnames a ++ tnames b)%list
  | COr a b | CAnd a b => (cnames a ++ cnames b)%list
  | CNot a => cnames a
  | CNil x => [x; nil_oracle x]
  | CTrue | CFalse | CUnknown _ => []
  end.
