(* Model of /repo/hash : keccak.go (sponge buffer machine), sha3.go,
   legacy_keccak.go, xor_unaligned.go / xor_generic.go, kmac.go, sha2.go.
   Executable Gallina, no proofs.  Bytes are N < 256, Go ints are Z.

   - [sp_a] models the Go array [25]uint64: every Go access a[i] has i < 25.
   - [sp_storage] models storageBuf viewed through asBytes(): *[maxRate]byte.
   - Go slicing / indexing out of range is an explicit [Panic].
   - keccakF1600 is the parameter [f] (instantiated with Prim.Keccak.keccakf when
     the model is executed against the implementation).
   - External packages are modelled by their SPECIFICATION as objects with ghost
     state (the absorbed byte list): golang.org/x/crypto/sha3 cSHAKE128,
     crypto/sha256, crypto/sha512 (New384). *)
From Coq Require Import ZArith NArith List Bool.
From V Require Import Prim.Keccak Prim.Sha2 Spec.HashSpec Generated.Consts.
Import ListNotations.
Local Open Scope Z_scope.

Inductive res (A : Type) := Ok (a : A) | Panic | OutOfFuel.
Arguments Ok {A}. Arguments Panic {A}. Arguments OutOfFuel {A}.
Definition bind {A B} (r : res A) (k : A -> res B) : res B :=
  match r with Ok a => k a | Panic => Panic | OutOfFuel => OutOfFuel end.
Notation "x <- e ;; k" := (bind e (fun x => k)) (at level 61, e at next level, right associativity).

(* ---- constants of the Go files, regenerated from the source on every run ---- *)
Definition rateSHA3_256 : nat := Z.to_nat hash_rateSHA3_256.
Definition rateSHA3_384 : nat := Z.to_nat hash_rateSHA3_384.
Definition rateKeccak_256 : nat := Z.to_nat hash_rateKeccak_256.
Definition maxRate : nat := Z.to_nat hash_maxRate.
Definition dsByteSHA3 : N := Z.to_N hash_dsByteSHA3.
Definition dsByteKeccak : N := Z.to_N hash_dsByteKeccak.
Definition bufNilValue : Z := hash_bufNilValue.
Definition HashLenSHA3_256 : nat := Z.to_nat hash_HashLenSHA3_256.
Definition HashLenSHA3_384 : nat := Z.to_nat hash_HashLenSHA3_384.
Definition HashLenKeccak_256 : nat := Z.to_nat hash_HashLenKeccak_256.
Definition HashLenSHA2_256 : nat := Z.to_nat hash_HashLenSHA2_256.
Definition HashLenSHA2_384 : nat := Z.to_nat hash_HashLenSHA2_384.
Definition KmacMinKeyLen : nat := Z.to_nat hash_KmacMinKeyLen.
Definition cSHAKE128BlockSize : nat := Z.to_nat hash_cSHAKE128BlockSize.
Definition maxEncodeLen : nat := Z.to_nat hash_maxEncodeLen.

Definition zlen (l : list N) : Z := Z.of_nat (length l).

(* Go l[lo:hi] on a slice/array of length = capacity = length l *)
Definition go_slice (l : list N) (lo hi : Z) : res (list N) :=
  if (0 <=? lo) && (lo <=? hi) && (hi <=? zlen l)
  then Ok (firstn (Z.to_nat (hi - lo)) (skipn (Z.to_nat lo) l))
  else Panic.

(* copy(l[off:], src): overwrites min(len src, len l - off) bytes *)
Definition splice (l : list N) (off : nat) (src : list N) : list N :=
  let k := Nat.min (length src) (length l - off) in
  firstn off l ++ firstn k src ++ skipn (off + k) l.

(* ================= keccak.go ================= *)
Record sponge := mkSponge {
  sp_a : list N;          (* [25]uint64 *)
  sp_storage : list N;    (* [maxRate]byte *)
  sp_bufIndex : Z;
  sp_bufSize : Z;
  sp_rate : nat;
  sp_ds : N;
  sp_outLen : nat
}.

Definition with_a (d : sponge) (a : list N) : sponge :=
  mkSponge a (sp_storage d) (sp_bufIndex d) (sp_bufSize d) (sp_rate d) (sp_ds d) (sp_outLen d).
Definition with_storage (d : sponge) (s : list N) : sponge :=
  mkSponge (sp_a d) s (sp_bufIndex d) (sp_bufSize d) (sp_rate d) (sp_ds d) (sp_outLen d).

(* func (d *spongeState) buf() []byte *)
Definition buf (d : sponge) : res (list N) :=
  go_slice (sp_storage d) (sp_bufIndex d) (sp_bufIndex d + sp_bufSize d).

(* func (d *spongeState) setBuf(start, size int) *)
Definition setBuf (d : sponge) (start size : Z) : sponge :=
  mkSponge (sp_a d) (sp_storage d) start size (sp_rate d) (sp_ds d) (sp_outLen d).

Definition bufIsNil (d : sponge) : bool := sp_bufSize d =? bufNilValue.

(* func (d *spongeState) appendBuf(slice []byte):
     copy(d.storage.asBytes()[d.bufIndex+d.bufSize:], slice); d.bufSize += len(slice) *)
Definition appendBuf (d : sponge) (sl : list N) : res sponge :=
  let off := sp_bufIndex d + sp_bufSize d in
  if (0 <=? off) && (off <=? zlen (sp_storage d)) then
    Ok (mkSponge (sp_a d) (splice (sp_storage d) (Z.to_nat off) sl)
                 (sp_bufIndex d) (sp_bufSize d + zlen sl) (sp_rate d) (sp_ds d) (sp_outLen d))
  else Panic.

(* xor_unaligned.go (amd64, 386, ppc64le): &buf[0] needs len > 0; bw = words[: n/8 : n/8]
   of a [maxRate/8]uint64 view; bw[0..12] always read, bw[13..16] when n >= 136 *)
Definition xorIn_unaligned (a : list N) (b : list N) : res (list N) :=
  let n := length b in
  if Nat.eqb n 0 then Panic
  else if Nat.ltb (maxRate / 8) (n / 8) then Panic
  else if Nat.ltb (n / 8) 13 then Panic
  else
    let bw := firstn (n / 8) (chunks8 b) in
    Ok (xor_lanes a (firstn 13 bw ++ (if Nat.leb 136 n then firstn 4 (skipn 13 bw) else []))).

(* xor_generic.go (other platforms / purego): len(buf)/8 little-endian words *)
Definition xorIn_generic (a : list N) (b : list N) : res (list N) :=
  Ok (xor_lanes a (firstn (length b / 8) (chunks8 b))).

(* the build this harness runs is amd64 *)
Definition xorIn := xorIn_unaligned.

(* xor_unaligned.go copyOut: copy(buf, ab[:]) with ab the first maxRate bytes of d.a, on a zeroed buf *)
Definition copyOut (n : nat) (a : list N) : list N :=
  let src := firstn maxRate (state_bytes a) in
  firstn n src ++ repeat 0%N (n - length src).

Section WithPermutation.
  Variable f : list N -> list N.   (* keccakF1600 *)

  (* func (d *spongeState) Reset(): for i := range d.a { d.a[i] = 0 } over the 25-element
     array, then setBuf(0, 0) *)
  Definition reset (d : sponge) : sponge :=
    setBuf (with_a d zero_state) 0 0.

  (* func (d *spongeState) permute() *)
  Definition permute (d : sponge) : res sponge :=
    b <- buf d ;;
    a' <- xorIn (sp_a d) b ;;
    Ok (with_a (setBuf d 0 0) (f a')).

  (* one iteration of the loop of write: returns the state and the rest of p *)
  Definition write_iter (d : sponge) (p : list N) : res (sponge * list N) :=
    if (sp_bufSize d =? 0) && (Z.of_nat (sp_rate d) <=? zlen p) then
      (* xorIn(d, p[:d.rate]); p = p[d.rate:]; keccakF1600(&d.a) *)
      a' <- xorIn (sp_a d) (firstn (sp_rate d) p) ;;
      Ok (with_a d (f a'), skipn (sp_rate d) p)
    else
      let todo := Z.min (Z.of_nat (sp_rate d) - sp_bufSize d) (zlen p) in
      if todo <? 0 then Panic (* p[:todo] *) else
      d1 <- appendBuf d (firstn (Z.to_nat todo) p) ;;
      d2 <- (if sp_bufSize d1 =? Z.of_nat (sp_rate d1) then permute d1 else Ok d1) ;;
      Ok (d2, skipn (Z.to_nat todo) p).

  Fixpoint write_loop (fuel : nat) (d : sponge) (p : list N) : res sponge :=
    match p with
    | [] => Ok d
    | _ => match fuel with
           | O => OutOfFuel
           | S k => dp <- write_iter d p ;; write_loop k (fst dp) (snd dp)
           end
    end.

  (* func (d *spongeState) write(p []byte) *)
  Definition write (d : sponge) (p : list N) : res sponge :=
    let d0 := if bufIsNil d then setBuf d 0 0 else d in
    write_loop (2 * length p + 2) d0 p.

  (* for i := zs; i < rate; i++ { buf[i] = 0 } with buf = storage[0:rate] *)
  Definition zero_range (st : list N) (zs : Z) (rate : nat) : res (list N) :=
    if zs <? Z.of_nat rate then
      if zs <? 0 then Panic
      else Ok (firstn (Z.to_nat zs) st ++ repeat 0%N (rate - Z.to_nat zs) ++ skipn rate st)
    else Ok st.

  (* buf[rate-1] ^= 0x80 with buf = storage[0:rate] *)
  Definition flip_last (st : list N) (rate : nat) : res (list N) :=
    match rate with
    | O => Panic
    | S r => if Nat.ltb r (length st)
             then Ok (firstn r st ++ [N.lxor (nth r st 0%N) 128] ++ skipn (S r) st)
             else Panic
    end.

  (* func (d *spongeState) padAndPermute() *)
  Definition padAndPermute (d : sponge) : res sponge :=
    let d0 := if bufIsNil d then setBuf d 0 0 else d in
    d1 <- appendBuf d0 [sp_ds d0] ;;
    let zs := sp_bufSize d1 in
    let d2 := setBuf d1 0 (Z.of_nat (sp_rate d1)) in
    _ <- buf d2 ;;
    st1 <- zero_range (sp_storage d2) zs (sp_rate d2) ;;
    st2 <- flip_last st1 (sp_rate d2) ;;
    d3 <- permute (with_storage d2 st2) ;;
    Ok (setBuf d3 0 (Z.of_nat (sp_rate d3))).

  (* func (d *spongeState) sum() []byte *)
  Definition sum (d : sponge) : res (list N * sponge) :=
    d' <- padAndPermute d ;;
    Ok (copyOut (sp_outLen d') (sp_a d'), d').

  (* func (s *spongeState) ComputeHash(data []byte) Hash *)
  Definition computeHash (d : sponge) (x : list N) : res (list N * sponge) :=
    d1 <- write (reset d) x ;; sum d1.

  Fixpoint writes (d : sponge) (chunks : list (list N)) : res sponge :=
    match chunks with
    | [] => Ok d
    | c :: r => d' <- write d c ;; writes d' r
    end.

  (* any sequence of API calls on one object; outputs of SumHash / ComputeHash in order *)
  Inductive hop := HWrite (p : list N) | HSum | HReset | HCompute (x : list N).
  Fixpoint run_ops (d : sponge) (ops : list hop) : res (list (list N) * sponge) :=
    match ops with
    | [] => Ok ([], d)
    | HWrite p :: r => d' <- write d p ;; run_ops d' r
    | HSum :: r => hd <- sum d ;; od <- run_ops (snd hd) r ;; Ok (fst hd :: fst od, snd od)
    | HReset :: r => run_ops (reset d) r
    | HCompute x :: r => hd <- computeHash d x ;; od <- run_ops (snd hd) r ;; Ok (fst hd :: fst od, snd od)
    end.
End WithPermutation.

(* ---- sha3.go / legacy_keccak.go constructors: zeroed struct, both indexes bufNilValue ---- *)
Definition new_sponge (rate : nat) (ds : N) (outLen : nat) : sponge :=
  mkSponge zero_state (repeat 0%N maxRate) bufNilValue bufNilValue rate ds outLen.
Definition NewSHA3_256 : sponge := new_sponge rateSHA3_256 dsByteSHA3 HashLenSHA3_256.
Definition NewSHA3_384 : sponge := new_sponge rateSHA3_384 dsByteSHA3 HashLenSHA3_384.
Definition NewKeccak_256 : sponge := new_sponge rateKeccak_256 dsByteKeccak HashLenKeccak_256.

(* func ComputeSHA3_256(result *[HashLenSHA3_256]byte, data []byte) *)
Definition ComputeSHA3_256 (f : list N -> list N) (data : list N) : res (list N) :=
  let state := new_sponge rateSHA3_256 dsByteSHA3 HashLenSHA3_256 in
  d1 <- write f state data ;;
  d2 <- padAndPermute f d1 ;;
  Ok (copyOut HashLenSHA3_256 (sp_a d2)).

(* ================= kmac.go ================= *)

(* binary.BigEndian.PutUint64 *)
Definition be8 (v : N) : list N := be_n 8 v.

(* number of leading zero bytes of l, at most cap: for i < cap && b[i] == 0 { i++ } *)
Fixpoint lead0 (cap : nat) (l : list N) : nat :=
  match cap, l with
  | S c, x :: r => if (x =? 0)%N then S (lead0 c r) else O
  | _, _ => O
  end.

Definition u64 (z : Z) : N := Z.to_N (z mod 18446744073709551616).

(* func leftEncode(value uint64) []byte : b[1:9] = BE(value); i from 1 while i < 8 && b[i]==0;
   b[i-1] = 9 - i; return b[i-1:] *)
Definition leftEncode (value : N) : list N :=
  let be := be8 value in
  let z := lead0 7 be in
  N.of_nat (maxEncodeLen - 1 - z) :: skipn z be.

(* func rightEncode(value uint64) []byte : b[0:8] = BE(value); i from 0 while i < 7 && b[i]==0;
   b[8] = 8 - i; return b[i:] *)
Definition rightEncode (value : N) : list N :=
  let be := be8 value in
  let z := lead0 7 be in
  skipn z be ++ [N.of_nat (maxEncodeLen - 1 - z)].

(* func encodeString(s []byte) []byte : leftEncode(uint64(len(s)*8)) ++ s *)
Definition encodeString (s : list N) : list N :=
  leftEncode (u64 (zlen s * 8)) ++ s.

(* func bytepad(input []byte, w int) []byte : len(buf) % w panics for w = 0 *)
Definition go_bytepad (input : list N) (w : nat) : res (list N) :=
  match w with
  | O => Panic
  | _ =>
    let b := leftEncode (N.of_nat w) ++ input in
    let padlen := (w - Nat.modulo (length b) w)%nat in
    Ok (if Nat.ltb padlen w then b ++ repeat 0%N padlen else b)
  end.

(* x/crypto/sha3 cSHAKE128 object, by specification: function name N, customizer S and the
   bytes absorbed since the last Reset.  Read(n) on an object that has absorbed X returns the
   first n bytes of cSHAKE128(X, _, N, S).  kmac.go only ever Reads from clones. *)
Record cshake := mkCshake { cs_N : list N; cs_S : list N; cs_abs : list N }.
Definition cs_new (Nm S : list N) : cshake := mkCshake Nm S [].
Definition cs_write (c : cshake) (p : list N) : cshake := mkCshake (cs_N c) (cs_S c) (cs_abs c ++ p).
Definition cs_reset (c : cshake) : cshake := mkCshake (cs_N c) (cs_S c) [].
Definition cs_clone (c : cshake) : cshake := c.
Definition cs_read (c : cshake) (n : nat) : list N := cSHAKE128 (cs_abs c) n (cs_N c) (cs_S c).

Record kmac := mkKmac { k_outputSize : Z; k_shake : cshake; k_initBlock : list N }.

Inductive kerr := EOutputSize | EKeyLen | EPanic.

(* func NewKMAC_128(key []byte, customizer []byte, outputSize int) (Hasher, error) *)
Definition NewKMAC_128 (key cust : list N) (outputSize : Z) : kmac + kerr :=
  if outputSize <? 0 then inr EOutputSize
  else if Nat.ltb (length key) KmacMinKeyLen then inr EKeyLen
  else
    match go_bytepad (encodeString key) cSHAKE128BlockSize with
    | Ok ib => inl (mkKmac outputSize (cs_write (cs_new kmac_name cust) ib) ib)
    | _ => inr EPanic
    end.

Definition k_write (k : kmac) (p : list N) : kmac :=
  mkKmac (k_outputSize k) (cs_write (k_shake k) p) (k_initBlock k).

(* func (k *kmac128) Reset() *)
Definition k_reset (k : kmac) : kmac :=
  mkKmac (k_outputSize k) (cs_write (cs_reset (k_shake k)) (k_initBlock k)) (k_initBlock k).

(* func (k *kmac128) SumHash() Hash : works on a clone *)
Definition k_sum (k : kmac) : list N * kmac :=
  let c := cs_write (cs_clone (k_shake k)) (rightEncode (u64 (k_outputSize k * 8))) in
  (cs_read c (Z.to_nat (k_outputSize k)), k).

(* func (k *kmac128) ComputeHash(data []byte) Hash : works on a clone *)
Definition k_computeHash (k : kmac) (data : list N) : list N * kmac :=
  let c := cs_reset (cs_clone (k_shake k)) in
  let c := cs_write c (k_initBlock k) in
  let c := cs_write c data in
  let c := cs_write c (rightEncode (u64 (k_outputSize k * 8))) in
  (cs_read c (Z.to_nat (k_outputSize k)), k).

Fixpoint k_writes (k : kmac) (chunks : list (list N)) : kmac :=
  match chunks with [] => k | c :: r => k_writes (k_write k c) r end.

(* ================= sha2.go ================= *)
(* crypto/sha256 and crypto/sha512 (New384) digest objects, by specification: the bytes
   written since the last Reset; Sum(nil) returns the FIPS 180-4 digest of those bytes and
   does not change the object. *)
Inductive sha2alg := S256 | S384.
Record sha2 := mkSha2 { s_alg : sha2alg; s_abs : list N }.
Definition sha2_digest (alg : sha2alg) (m : list N) : list N :=
  match alg with S256 => sha256 m | S384 => sha384 m end.
Definition NewSHA2_256 : sha2 := mkSha2 S256 [].
Definition NewSHA2_384 : sha2 := mkSha2 S384 [].
Definition s_write (s : sha2) (p : list N) : sha2 := mkSha2 (s_alg s) (s_abs s ++ p).
Definition s_reset (s : sha2) : sha2 := mkSha2 (s_alg s) [].
Definition s_sum (s : sha2) : list N * sha2 := (sha2_digest (s_alg s) (s_abs s), s).
(* ComputeHash: s.Reset(); s.Write(data); return s.Sum(nil) *)
Definition s_computeHash (s : sha2) (data : list N) : list N * sha2 :=
  s_sum (s_write (s_reset s) data).
Fixpoint s_writes (s : sha2) (chunks : list (list N)) : sha2 :=
  match chunks with [] => s | c :: r => s_writes (s_write s c) r end.
(* func ComputeSHA2_256: sha256.Sum256(data) *)
Definition ComputeSHA2_256 (data : list N) : list N := sha256 data.
