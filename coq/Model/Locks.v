(* C18: lock discipline.
   Level 1 - from the structured skeletons (Model/Skel.v, Generated/LockSkel.v) to
             straight-line action traces: [exec] enumerates the paths of a method
             body (branches, loops, calls of methods of the same receiver, deferred
             unlocks run at return); [chk] is the boolean well-lockedness checker.
   Level 2 - a small-step interleaving semantics of any number of threads running
             action traces over a shared memory and one sync.RWMutex (writer
             exclusive, readers shared), and the atomic semantics in which a whole
             critical section is one step.
   No proofs here (Proofs/LocksProofs.v). *)
From Coq Require Import List String Bool Arith.
From V Require Import Model.Skel.
Import ListNotations.
Open Scope string_scope.
Open Scope list_scope.

Inductive mode := MNone | MR | MW.

Definition mode_eqb (a b : mode) : bool :=
  match a, b with MNone, MNone | MR, MR | MW, MW => true | _, _ => false end.

Definition act_eqb (a b : act) : bool :=
  match a, b with
  | ALock, ALock | ARLock, ARLock | AUnlock, AUnlock | ARUnlock, ARUnlock => true
  | ARead f, ARead g | AWrite f, AWrite g => String.eqb f g
  | _, _ => false
  end.

Fixpoint acts_eqb (a b : list act) : bool :=
  match a, b with
  | [], [] => true
  | x :: a', y :: b' => act_eqb x y && acts_eqb a' b'
  | _, _ => false
  end.

Definition mem_str (s : string) (l : list string) : bool := existsb (String.eqb s) l.

Fixpoint lookup {A} (m : string) (P : list (string * A)) : option A :=
  match P with
  | [] => None
  | (n, b) :: r => if String.eqb m n then Some b else lookup m r
  end.

(* ------------------------------------------------------------------ *)
(* Level 1                                                             *)
(* ------------------------------------------------------------------ *)
Section Discipline.
  (* fields guarded by the mutex / fields never written after construction;
     a field in neither list makes every checker fail *)
  Variables guarded immutable : list string.

  (* one action performed while holding the mutex in mode h: the new mode, or None
     if the action breaks the discipline:
     - Lock/RLock only when not holding it (sync.RWMutex is not reentrant),
     - Unlock/RUnlock only by the holder in the matching mode,
     - a guarded field is read only while holding it (either mode) and written only
       in write mode, an immutable field is only read, any other field: reject. *)
  Definition act_ok (h : mode) (a : act) : option mode :=
    match a with
    | ALock => match h with MNone => Some MW | _ => None end
    | ARLock => match h with MNone => Some MR | _ => None end
    | AUnlock => match h with MW => Some MNone | _ => None end
    | ARUnlock => match h with MR => Some MNone | _ => None end
    | ARead f =>
        if mem_str f guarded then match h with MNone => None | _ => Some h end
        else if mem_str f immutable then Some h else None
    | AWrite f =>
        if mem_str f guarded then match h with MW => Some h | _ => None end else None
    end.

  Fixpoint run_tr (h : mode) (t : list act) : option mode :=
    match t with
    | [] => Some h
    | a :: r => match act_ok h a with Some h' => run_tr h' r | None => None end
    end.

  (* a complete, well-locked trace: starts and ends without the lock *)
  Definition wl_trace (t : list act) : Prop := run_tr MNone t = Some MNone.

  (* at a return: the pending deferred actions (most recent first) run from mode h
     and must bring the method back to its entry mode h0 *)
  Definition return_ok (h0 h : mode) (ds : list act) : bool :=
    match run_tr h ds with Some h' => mode_eqb h' h0 | None => false end.

  Inductive exit := Falls (h : mode) (ds : list act) | Rets.

  Definition join_exit (x y : exit) : option exit :=
    match x, y with
    | Rets, e | e, Rets => Some e
    | Falls h1 d1, Falls h2 d2 => if mode_eqb h1 h2 && acts_eqb d1 d2 then Some x else None
    end.

  Variable P : list (string * stmt).

  (* abstract interpretation of a body entered in mode h0, currently in mode h with
     deferred actions ds (most recent first) *)
  Fixpoint chk (fuel : nat) : mode -> stmt -> mode -> list act -> option exit :=
    fix go (h0 : mode) (s : stmt) (h : mode) (ds : list act) {struct s} : option exit :=
    match s with
    | SSkip => Some (Falls h ds)
    | SAct a => match act_ok h a with Some h' => Some (Falls h' ds) | None => None end
    | SDefer a => Some (Falls h (a :: ds))
    | SReturn => if return_ok h0 h ds then Some Rets else None
    | SSeq a b =>
        match go h0 a h ds with
        | Some (Falls h' ds') => go h0 b h' ds'
        | r => r
        end
    | SIf a b =>
        match go h0 a h ds, go h0 b h ds with
        | Some x, Some y => join_exit x y
        | _, _ => None
        end
    | SLoop b =>
        match go h0 b h ds with
        | Some (Falls h' ds') => if mode_eqb h' h && acts_eqb ds' ds then Some (Falls h ds) else None
        | Some Rets => Some (Falls h ds)
        | None => None
        end
    | SCall m =>
        match fuel with
        | O => None
        | S f =>
            match lookup m P with
            | None => None
            | Some body =>
                match chk f h body h [] with
                | Some Rets => Some (Falls h ds)
                | Some (Falls h' ds') => if return_ok h h' ds' then Some (Falls h ds) else None
                | None => None
                end
            end
        end
    | SUnknown _ => None
    end.

  Definition chk_method (fuel : nat) (body : stmt) : bool :=
    match chk fuel MNone body MNone [] with
    | Some Rets => true
    | Some (Falls h ds) => return_ok MNone h ds
    | None => false
    end.

  (* every entry point (method callable from any goroutine), called without the lock *)
  Definition chk_prog (fuel : nat) (entries : list string) : bool :=
    forallb (fun m => match lookup m P with Some body => chk_method fuel body | None => false end) entries.

  (* paths: exec s t d r - the body s can perform the actions t, register the deferred
     actions d (most recent first), and then has returned (r = true) or fallen
     through (r = false) *)
  Inductive exec : stmt -> list act -> list act -> bool -> Prop :=
  | ESkip : exec SSkip [] [] false
  | EAct a : exec (SAct a) [a] [] false
  | EDefer a : exec (SDefer a) [] [a] false
  | EReturn : exec SReturn [] [] true
  | ESeqN s1 s2 t1 d1 t2 d2 r :
      exec s1 t1 d1 false -> exec s2 t2 d2 r -> exec (SSeq s1 s2) (t1 ++ t2) (d2 ++ d1) r
  | ESeqR s1 s2 t1 d1 : exec s1 t1 d1 true -> exec (SSeq s1 s2) t1 d1 true
  | EIfL s1 s2 t d r : exec s1 t d r -> exec (SIf s1 s2) t d r
  | EIfR s1 s2 t d r : exec s2 t d r -> exec (SIf s1 s2) t d r
  | ELoop0 s : exec (SLoop s) [] [] false
  | ELoopS s t1 d1 t2 d2 r :
      exec s t1 d1 false -> exec (SLoop s) t2 d2 r -> exec (SLoop s) (t1 ++ t2) (d2 ++ d1) r
  | ELoopR s t d : exec s t d true -> exec (SLoop s) t d true
  | ECall m body t d r :
      lookup m P = Some body -> exec body t d r -> exec (SCall m) (t ++ d) [] false.

  (* the complete trace of one invocation of method m: body, then the deferred actions *)
  Definition mtrace (m : string) (tr : list act) : Prop :=
    exists body t d r, lookup m P = Some body /\ exec body t d r /\ tr = t ++ d.

  (* a thread program: any sequence of invocations of entry points *)
  Inductive ttrace (entries : list string) : list act -> Prop :=
  | TNil : ttrace entries []
  | TCons m tr rest : In m entries -> mtrace m tr -> ttrace entries rest -> ttrace entries (tr ++ rest).
End Discipline.

(* ------------------------------------------------------------------ *)
(* Level 2                                                             *)
(* ------------------------------------------------------------------ *)
Section Semantics.
  Variables V L : Type.              (* field values, thread-local state (everything a thread has read) *)
  Variable rd : string -> V -> L -> L.   (* effect of reading field f on the local state *)
  Variable wr : string -> L -> V.        (* value written to field f, from the local state *)

  Definition mem := string -> V.
  Definition upd (m : mem) (f : string) (v : V) : mem := fun g => if String.eqb g f then v else m g.

  Record thread := mkThread { md : mode; loc : L; code : list act }.
  Record cfg := mkCfg { cmem : mem; thr : list thread }.

  Definition eff (a : act) (m : mem) (l : L) : mem * L :=
    match a with
    | ARead f => (m, rd f (m f) l)
    | AWrite f => (upd m f (wr f l), l)
    | _ => (m, l)
    end.

  Definition is_none (t : thread) : bool := mode_eqb (md t) MNone.
  Definition is_w (t : thread) : bool := mode_eqb (md t) MW.

  (* sync.RWMutex: the state of the mutex is the set of holders.
     Lock succeeds when nobody holds it, RLock when no writer holds it;
     Unlock / RUnlock by a holder of the matching mode. *)
  Definition next_mode (ths : list thread) (t : thread) (a : act) : option mode :=
    match a with
    | ALock => if forallb is_none ths then Some MW else None
    | ARLock => if is_none t && forallb (fun u => negb (is_w u)) ths then Some MR else None
    | AUnlock => if is_w t then Some MNone else None
    | ARUnlock => if mode_eqb (md t) MR then Some MNone else None
    | ARead _ | AWrite _ => Some (md t)
    end.

  Fixpoint set_nth {A} (i : nat) (x : A) (l : list A) : list A :=
    match l, i with
    | [], _ => []
    | _ :: r, O => x :: r
    | y :: r, S j => y :: set_nth j x r
    end.

  (* label: thread, action, mode of the thread before the action *)
  Definition label := (nat * act * mode)%type.

  Inductive step : cfg -> label -> cfg -> Prop :=
  | Step C i t a k m' :
      nth_error (thr C) i = Some t -> code t = a :: k -> next_mode (thr C) t a = Some m' ->
      step C (i, a, md t)
           (mkCfg (fst (eff a (cmem C) (loc t)))
                  (set_nth i (mkThread m' (snd (eff a (cmem C) (loc t))) k) (thr C))).

  Inductive reach : cfg -> list label -> cfg -> Prop :=
  | RNil C : reach C [] C
  | RSnoc C tr C1 lb C2 : reach C tr C1 -> step C1 lb C2 -> reach C (tr ++ [lb]) C2.

  Definition is_unlock (a : act) : bool := match a with AUnlock | ARUnlock => true | _ => false end.
  Definition is_acquire (a : act) : bool := match a with ALock | ARLock => true | _ => false end.

  (* run the rest of the current critical section, up to and including its unlock *)
  Fixpoint finish (m : mem) (l : L) (k : list act) : mem * L * list act :=
    match k with
    | [] => (m, l, [])
    | a :: k' => if is_unlock a then (m, l, k')
                 else finish (fst (eff a m l)) (snd (eff a m l)) k'
    end.

  (* atomic semantics: a thread outside any critical section performs either one
     action that is not an acquire, or a whole critical section at once *)
  Definition block (m : mem) (l : L) (a : act) (k : list act) : mem * L * list act :=
    if is_acquire a then finish m l k else (fst (eff a m l), snd (eff a m l), k).

  Inductive astep : cfg -> nat -> cfg -> Prop :=
  | AStep C i t a k :
      nth_error (thr C) i = Some t -> md t = MNone -> code t = a :: k ->
      is_unlock a = false ->
      astep C i
            (mkCfg (fst (fst (block (cmem C) (loc t) a k)))
                   (set_nth i (mkThread MNone (snd (fst (block (cmem C) (loc t) a k)))
                                        (snd (block (cmem C) (loc t) a k))) (thr C))).

  Inductive areach : cfg -> list nat -> cfg -> Prop :=
  | ARNil C : areach C [] C
  | ARSnoc C tr C1 i C2 : areach C tr C1 -> astep C1 i C2 -> areach C (tr ++ [i]) C2.

  (* abstraction: complete every critical section that is in progress *)
  Definition fin_thread (m : mem) (t : thread) : thread :=
    if is_none t then t
    else mkThread MNone (snd (fst (finish m (loc t) (code t)))) (snd (finish m (loc t) (code t))).

  Definition abs_mem (C : cfg) : mem :=
    match find is_w (thr C) with
    | Some t => fst (fst (finish (cmem C) (loc t) (code t)))
    | None => cmem C
    end.

  Definition abs (C : cfg) : cfg := mkCfg (abs_mem C) (map (fin_thread (cmem C)) (thr C)).

  (* the atomic steps an interleaved trace corresponds to: the steps taken outside
     critical sections (acquires and unguarded actions), in the same order *)
  Definition outside (lb : label) : bool := mode_eqb (snd lb) MNone.
  Definition atomic_trace (tr : list label) : list nat := map (fun lb => fst (fst lb)) (filter outside tr).

  Definition init_cfg (m : mem) (progs : list (L * list act)) : cfg :=
    mkCfg m (map (fun p => mkThread MNone (fst p) (snd p)) progs).
End Semantics.
