(* BLS threshold signature: key generation by a dealer polynomial and reconstruction by
   Lagrange interpolation at zero.
   - generateFrPolynomial (dkg_feldmanvss.go): SHA3-256(seed) seeds the ChaCha20 PRG with the
     customizer "gen_poly"; every coefficient is a 48-byte read reduced mod r; a_0 and a_t are
     re-drawn until non-zero.
   - Fr_polynomial_image (dkg_core.c): Horner evaluation at the byte-typed index.
   - Fr_lagrange_coeff_at_zero (bls_thresholdsign_core.c:25-73): numerator and denominator
     accumulated in uint64 limbs, [loops] = 64 / MAX_IND_BITS factors per limb, sign tracked apart.
   - stateless reconstruction (bls_thresholdsign.go:498-556). *)
From Coq Require Import ZArith NArith List Bool.
From Bignums Require Import BigZ.
From V Require Import Lib.Num Prim.ChaCha Prim.Bls12 Model.Prg Spec.HashSpec Spec.ZcashCodec Generated.Consts.
Import ListNotations.
Open Scope Z_scope.

Definition r := rZ.
Definition w64Z : Z := 18446744073709551616.

(* ---- polynomial from the seed ---- *)
Definition frStarBytes : nat := Z.to_nat (crypto_frBytesLen + crypto_securityBits / 8).  (* 48 *)
Definition gen_poly_customizer : list N := [103; 101; 110; 95; 112; 111; 108; 121]%N.        (* "gen_poly" *)

(* randFr: one read, value mod r, and whether it is zero *)
Definition rand_fr (c : core) : Z * core :=
  let '(b, c') := read c frStarBytes in (be2z b mod r, c').
(* randFrStar: repeat until non-zero (fuelled; None = fuel exhausted) *)
Fixpoint rand_fr_star (fuel : nat) (c : core) : option (Z * core) :=
  match fuel with
  | O => None
  | S f => let '(v, c') := rand_fr c in if v =? 0 then rand_fr_star f c' else Some (v, c')
  end.
Fixpoint rand_frs (n : nat) (c : core) : list Z * core :=
  match n with
  | O => ([], c)
  | S n' => let '(v, c') := rand_fr c in let '(vs, c'') := rand_frs n' c' in (v :: vs, c'')
  end.

Inductive pres (A : Type) := POk (a : A) | PErrSeed | POutOfFuel.
Arguments POk {A}. Arguments PErrSeed {A}. Arguments POutOfFuel {A}.

Definition generate_poly (fuel : nat) (seed : list N) (degree : nat) : pres (list Z) :=
  if Nat.ltb (length seed) (Z.to_nat crypto_KeyGenSeedMinLen) then PErrSeed else
  match new_prg (SHA3_256 seed) gen_poly_customizer with
  | RErr _ => PErrSeed
  | ROk c =>
    match rand_fr_star fuel c with
    | None => POutOfFuel
    | Some (a0, c1) =>
      match degree with
      | O => POk [a0]
      | S d =>
        let '(mid, c2) := rand_frs d c1 in
        match rand_fr_star fuel c2 with
        | None => POutOfFuel
        | Some (at_, _) => POk (a0 :: mid ++ [at_])
        end
      end
    end
  end.

(* Horner evaluation mod r *)
Definition poly_eval (a : list Z) (x : Z) : Z := fold_right (fun c acc => (c + x * acc) mod r) 0 a.

(* shares of participants 0..n-1 are P(1)..P(n); the index is a byte *)
Definition shares_of (a : list Z) (n : nat) : list Z :=
  map (fun i => poly_eval a (Z.of_nat (S i) mod 256)) (seq 0 n).

(* ---- Lagrange coefficient at zero, as the C code computes it ---- *)
Definition loops : nat := Z.to_nat (64 / C_MAX_IND_BITS).

(* one batch: factors j in [k, min(len, k+loops)) except j = i; products in uint64 *)
Fixpoint batch (idx : list Z) (xi : Z) (i : nat) (j : nat) (cnt : nat) (num den : Z) (sign : bool)
  : Z * Z * bool :=
  match cnt with
  | O => (num, den, sign)
  | S c =>
    let xj := nth j idx 0 in
    if Nat.eqb j i then batch idx xi i (S j) c num den sign
    else if xj <? xi
         then batch idx xi i (S j) c ((num * xj) mod w64Z) ((den * (xi - xj)) mod w64Z) (negb sign)
         else batch idx xi i (S j) c ((num * xj) mod w64Z) ((den * (xj - xi)) mod w64Z) sign
  end.

Fixpoint batches (fuel : nat) (idx : list Z) (xi : Z) (i : nat) (j : nat) (N D : Z) (sign : bool) : Z * Z * bool :=
  match fuel with
  | O => (N, D, sign)
  | S f =>
    if Nat.leb (length idx) j then (N, D, sign) else
    let cnt := Nat.min loops (length idx - j) in
    let '(ln, ld, s') := batch idx xi i j cnt 1 1 sign in
    batches f idx xi i (j + cnt)%nat ((N * ln) mod r) ((D * ld) mod r) s'
  end.

(* modular inverse by Fermat (r prime): what Fr_inv_montg_eucl computes for non-zero input *)
Definition inv_r (a : Z) : Z := mpow ZNum r (a mod r) (r - 2).
Definition inv_r_fast (a : Z) : Z := BigZ.to_Z (mpow BNum (BigZ.of_Z r) (BigZ.of_Z (a mod r)) (r - 2)).

(* [inv] is a parameter only so that the correspondence run can execute the inversion on BigZ
   ([inv_r_fast] below, proved equal to [inv_r]) *)
Definition lagrange_coeff_with (inv : Z -> Z) (idx : list Z) (i : nat) : Z :=
  let xi := nth i idx 0 in
  let '(N, D, sign) := batches (S (length idx)) idx xi i 0 1 1 false in
  let D' := if sign then (r - D) mod r else D in
  (N * inv D') mod r.
Definition lagrange_coeff := lagrange_coeff_with inv_r.

(* the mathematical coefficient: prod_{j<>i} x_j / prod_{j<>i} (x_j - x_i) *)
Definition lagrange_spec (idx : list Z) (i : nat) : Z :=
  let xi := nth i idx 0 in
  let others := firstn i idx ++ skipn (S i) idx in
  let num := fold_left (fun acc x => (acc * x) mod r) others 1 in
  let den := fold_left (fun acc x => (acc * (x - xi)) mod r) others 1 in
  (num * inv_r den) mod r.

(* ---- stateless reconstruction: validation (bls_thresholdsign.go:498-545) ---- *)
Inductive rerr := RInvalidInputs | RNotEnoughShares | RDuplicatedSigner | RInvalidSignature.

Definition reconstruct_checks (size threshold : Z) (share_lens : list nat) (signers : list Z) : option rerr :=
  if (size <? crypto_ThresholdSignMinSize) || (crypto_ThresholdSignMaxSize <? size) then Some RInvalidInputs
  else if (size <=? threshold) || (threshold <? crypto_MinimumThreshold) then Some RInvalidInputs
  else if negb (Nat.eqb (length share_lens) (length signers)) then Some RInvalidInputs
  else if Z.of_nat (length share_lens) <? threshold + 1 then Some RNotEnoughShares
  else
    (fix go (i : Z) (lens : list nat) (sg : list Z) (seen : list Z) : option rerr :=
       match lens, sg with
       | l :: lr, s :: sr =>
           if (i <=? threshold) && negb (Nat.eqb l (Z.to_nat crypto_SignatureLenBLSBLS12381)) then Some RInvalidSignature
           else if (size <=? s) || (s <? 0) then Some RInvalidInputs
           else if existsb (Z.eqb s) seen then Some RDuplicatedSigner
           else go (i + 1) lr sr (s :: seen)
       | _, _ => None
       end) 0 share_lens signers [].
