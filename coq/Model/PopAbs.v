(* Proof of possession (bls_multisig.go:57-94) over the bilinear algebra.
   Hash-to-curve is a function of the KMAC key string (domain tag ++ ciphersuite) and
   the message; its image is in G1. *)
From Coq Require Import ZArith NArith List Bool String.
From V Require Import Spec.Bilinear Generated.Guards Generated.Consts Model.BlsAbs.
Import ListNotations.

Section Pop.
Context {B : bilinear} {C : codecs}.
Variable H : list N -> list N -> E1.       (* KMAC key -> message -> point *)

(* NewExpandMsgXOFKMAC128(tag): key = tag ++ blsSigCipherSuite; PoP: key = blsPOPCipherSuite *)
Definition sig_key (tag : list N) : list N := tag ++ crypto_blsSigCipherSuite.
Definition pop_key : list N := crypto_blsPOPCipherSuite.

(* BLSGeneratePOP / BLSVerifyPOP: type assertion, then Sign / Verify of the public key's
   own encoding with the PoP hasher *)
Definition generate_pop (sk : option F) : option (list N) :=
  match sk with
  | Some k => Some (snd (sign k (HSize crypto_expandMsgOutput) (H pop_key (enc2 (pk_of k)))))
  | None => None
  end.
Definition verify_pop (pk : option pubkey) (b : list N) : option vres :=
  match pk with
  | Some k => Some (verify k b (HSize crypto_expandMsgOutput) (H pop_key (enc2 (pk_point k))))
  | None => None
  end.
(* an ordinary signature / verification with an application tag *)
Definition sign_tag (sk : F) (tag msg : list N) : list N :=
  snd (sign sk (HSize crypto_expandMsgOutput) (H (sig_key tag) msg)).
Definition verify_tag (pk : pubkey) (b : list N) (tag msg : list N) : vres :=
  verify pk b (HSize crypto_expandMsgOutput) (H (sig_key tag) msg).
End Pop.
