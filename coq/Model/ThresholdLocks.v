(* The lock discipline of the threshold-signature object, stated over the
   regenerated skeletons (Generated/LockSkel.v).  No proofs here. *)
From Coq Require Import List String Bool.
From V Require Import Model.Skel Model.Locks Generated.LockSkel.
Import ListNotations.
Open Scope string_scope.

(* mutable state, guarded by [lock] (property record C18, anchors.state) *)
Definition guarded_fields : list string := ["shares"; "thresholdSignature"].
(* set by the constructors, never written by a method *)
Definition immutable_fields : list string :=
  ["size"; "threshold"; "groupPublicKey"; "publicKeyShares"; "hasher"; "message"; "myIndex"; "myPrivateKey"].

(* every data field of the two structs is classified (a new field breaks the check) *)
Definition fields_classified : bool :=
  forallb (fun f => mem_str f guarded_fields || mem_str f immutable_fields) lock_fields
  && forallb (fun f => mem_str f lock_fields) (guarded_fields ++ immutable_fields)
  && forallb (fun f => negb (mem_str f immutable_fields)) guarded_fields.

(* the documented thread-safe entry points *)
Definition public_methods : list string :=
  ["TrustedAdd"; "VerifyAndAdd"; "HasShare"; "EnoughShares"; "VerifyShare";
   "VerifyThresholdSignature"; "SignShare"; "ThresholdSignature"].

Definition lookup_skel (m : string) : option stmt := lookup m lock_skels.

(* call depth bound for the checker: more than the number of methods *)
Definition lock_fuel : nat := 16.

Definition skeletons_check : bool :=
  fields_classified
  && forallb (fun m => match lookup_skel m with Some _ => true | None => false end) public_methods
  && forallb (fun m => mem_str m lock_exported) public_methods
  && match lock_helper_calls_outside with [] => true | _ => false end
  && chk_prog guarded_fields immutable_fields lock_skels lock_fuel lock_exported.

(* methods that never touch a guarded field nor the lock ("stateless helpers") *)
Fixpoint touches_nothing_guarded (fuel : nat) : stmt -> bool :=
  fix go (s : stmt) : bool :=
  match s with
  | SSkip | SReturn => true
  | SAct (ARead f) => negb (mem_str f guarded_fields)
  | SAct _ | SDefer _ | SUnknown _ => false
  | SSeq a b | SIf a b => go a && go b
  | SLoop a => go a
  | SCall m => match fuel with
               | O => false
               | S f => match lookup_skel m with Some b => touches_nothing_guarded f b | None => false end
               end
  end.

Definition stateless_methods : list string := ["VerifyShare"; "VerifyThresholdSignature"; "SignShare"; "validIndex"].
Definition stateless_check : bool :=
  forallb (fun m => match lookup_skel m with Some b => touches_nothing_guarded lock_fuel b | None => false end) stateless_methods.
