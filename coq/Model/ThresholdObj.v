(* Sequential specification of the stateful BLS threshold-signature object
   (/repo/bls_thresholdsign.go: blsThresholdSignatureInspector / Participant),
   written from the method bodies and the documented return classes of
   /repo/thresholdsign.go.  The cryptography is abstract:
     share_len     length in bytes of a share
     verify_share  publicKeyShares[i].Verify(share, message, hasher)
     reconstruct   E1_lagrange_interpolate_at_zero_write on the collected shares
                   (None = some share does not deserialize to a G1 point)
     verify_group  groupPublicKey.Verify(sig, message, hasher)
     my_share      myPrivateKey.Sign(message, hasher)      (participant only)
   No proofs here. *)
From Coq Require Import ZArith List Bool.
From V Require Import Generated.Consts.
Import ListNotations.
Open Scope Z_scope.

Inductive err :=
| ENone              (* nil *)
| EInvalidInputs     (* invalidInputsError *)
| EDuplicated        (* duplicatedSignerError *)
| ENotEnough         (* notEnoughSharesError *)
| EInvalidSig        (* errInvalidSignature *)
| EOther.

Definition err_eqb (a b : err) : bool :=
  match a, b with
  | ENone, ENone | EInvalidInputs, EInvalidInputs | EDuplicated, EDuplicated
  | ENotEnough, ENotEnough | EInvalidSig, EInvalidSig | EOther, EOther => true
  | _, _ => false
  end.

Section Obj.
  Variables share sig : Type.
  Variable size threshold : Z.               (* n and t, fixed at construction *)
  Variable share_len : share -> Z.
  Variable verify_share : Z -> share -> bool.
  Variable reconstruct : list (Z * share) -> option sig.
  Variable verify_group : sig -> bool.
  Variable my_share : share.

  Inductive op :=
  | OpTrustedAdd (i : Z) (s : share)
  | OpVerifyAndAdd (i : Z) (s : share)
  | OpHasShare (i : Z)
  | OpEnoughShares
  | OpVerifyShare (i : Z) (s : share)
  | OpVerifyThresholdSignature (g : sig)
  | OpSignShare
  | OpThresholdSignature.

  Inductive result :=
  | RBool (b : bool) (e : err)                  (* (bool, error); EnoughShares: RBool b ENone *)
  | RBool2 (valid enough : bool) (e : err)      (* VerifyAndAdd *)
  | RShare (s : share) (e : err)                (* SignShare *)
  | RSig (g : option sig) (e : err).            (* ThresholdSignature *)

  (* shares: the map index -> Signature as an association list (newest first);
     cached: the field thresholdSignature (None = nil) *)
  Record state := mkState { shares : list (Z * share); cached : option sig }.

  Definition init : state := mkState [] None.

  Definition valid_index (i : Z) : bool := (0 <=? i) && (i <? size).

  Fixpoint has_share (l : list (Z * share)) (i : Z) : bool :=
    match l with
    | [] => false
    | (j, _) :: r => (j =? i) || has_share r i
    end.

  (* len(s.shares) == s.threshold + 1 *)
  Definition enough (st : state) : bool :=
    Z.of_nat (length (shares st)) =? threshold + 1.

  Definition len_ok (s : share) : bool := share_len s =? crypto_SignatureLenBLSBLS12381.

  (* pk.Verify returns (false, nil) on a share of the wrong length before any group operation *)
  Definition verify_share' (i : Z) (s : share) : bool := len_ok s && verify_share i s.

  Definition reconstruct_sig (st : state) : result :=
    if negb (enough st) then RSig None ENotEnough
    else if negb (forallb (fun p => len_ok (snd p)) (shares st)) then RSig None EInvalidSig
    else match reconstruct (shares st) with
         | None => RSig None EInvalidSig
         | Some g => if verify_group g then RSig (Some g) ENone else RSig None EInvalidInputs
         end.

  Definition step (st : state) (o : op) : state * result :=
    match o with
    | OpTrustedAdd i s =>
        if negb (valid_index i) then (st, RBool false EInvalidInputs)
        else if has_share (shares st) i then (st, RBool false EDuplicated)
        else if enough st then (st, RBool true ENone)
        else let st' := mkState ((i, s) :: shares st) (cached st) in (st', RBool (enough st') ENone)
    | OpVerifyAndAdd i s =>
        if negb (valid_index i) then (st, RBool2 false false EInvalidInputs)
        else if has_share (shares st) i then (st, RBool2 false false EDuplicated)
        else let v := verify_share' i s in
             let st' := if v && negb (enough st) then mkState ((i, s) :: shares st) (cached st) else st in
             (st', RBool2 v (enough st') ENone)
    | OpHasShare i =>
        if negb (valid_index i) then (st, RBool false EInvalidInputs)
        else (st, RBool (has_share (shares st) i) ENone)
    | OpEnoughShares => (st, RBool (enough st) ENone)
    | OpVerifyShare i s =>
        if negb (valid_index i) then (st, RBool false EInvalidInputs)
        else (st, RBool (verify_share' i s) ENone)
    | OpVerifyThresholdSignature g => (st, RBool (verify_group g) ENone)
    | OpSignShare => (st, RShare my_share ENone)
    | OpThresholdSignature =>
        match cached st with
        | Some g => (st, RSig (Some g) ENone)
        | None =>
            match reconstruct_sig st with
            | RSig (Some g) ENone => (mkState (shares st) (Some g), RSig (Some g) ENone)
            | r => (st, r)
            end
        end
    end.

  (* run a sequence, collecting the results *)
  Fixpoint run (st : state) (ops : list op) : state * list result :=
    match ops with
    | [] => (st, [])
    | o :: r => let '(st1, x) := step st o in
                let '(st2, xs) := run st1 r in (st2, x :: xs)
    end.

  Definition final (st : state) (ops : list op) : state := fst (run st ops).
End Obj.

Arguments OpTrustedAdd {share sig}.
Arguments OpVerifyAndAdd {share sig}.
Arguments OpHasShare {share sig}.
Arguments OpEnoughShares {share sig}.
Arguments OpVerifyShare {share sig}.
Arguments OpVerifyThresholdSignature {share sig}.
Arguments OpSignShare {share sig}.
Arguments OpThresholdSignature {share sig}.
Arguments RBool {share sig}.
Arguments RBool2 {share sig}.
Arguments RShare {share sig}.
Arguments RSig {share sig}.
Arguments mkState {share sig}.
Arguments shares {share sig}.
Arguments cached {share sig}.
Arguments init {share sig}.
