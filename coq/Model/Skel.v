(* Constructor types of the skeletons the translator (harness/cmd/extract/skeleton.go)
   regenerates from /repo on every run:
     Generated/LockSkel.v   - lock/field-access skeletons of the threshold-signature object (C18)
     Generated/EffectSkel.v - effect skeletons of the read-only operations (C19)
     Generated/CProtos.v    - C prototypes with const-ness (C19)
   No proofs here. *)
From Coq Require Import List String.
Import ListNotations.
Open Scope string_scope.

(* ---------- C18: lock skeletons ---------- *)

(* basic actions; fields are the names of the receiver's struct fields *)
Inductive act :=
| ALock | ARLock | AUnlock | ARUnlock
| ARead (f : string)
| AWrite (f : string).

(* structured skeleton of a method body, in source order.
   SIf is a nondeterministic choice (the condition's reads come before it),
   SLoop any number of iterations, SDefer registers an action run at return,
   SCall a method of the same receiver (referenced, see lock_skels),
   SUnknown syntax the translator does not understand (rejected by every checker). *)
Inductive stmt :=
| SSkip
| SAct (a : act)
| SDefer (a : act)
| SCall (m : string)
| SReturn
| SSeq (s1 s2 : stmt)
| SIf (s1 s2 : stmt)
| SLoop (s : stmt)
| SUnknown (what : string).

Notation "a ;; b" := (SSeq a b) (at level 61, right associativity).
Notation Lock := (SAct ALock).
Notation RLock := (SAct ARLock).
Notation Unlock := (SAct AUnlock).
Notation RUnlock := (SAct ARUnlock).
Notation DeferUnlock := (SDefer AUnlock).
Notation DeferRUnlock := (SDefer ARUnlock).
Notation Read f := (SAct (ARead f)).
Notation Write f := (SAct (AWrite f)).
Notation Call m := (SCall m).
Notation Return := SReturn.
Notation Unknown s := (SUnknown s).

(* ---------- C19: effect skeletons ---------- *)

(* where a pointer/slice/value comes from *)
Inductive prov :=
| PFresh                           (* allocated in this call: make, composite literal, var decl, Clone() *)
| PShared (root : string) (path : string)
     (* (derived from) the receiver, an argument or a package-level variable
        ("global:<name>"); [path] is the source text, for the report only *)
| PScalar                          (* passed by value to C: (C.int)(..) *)
| PUnknown (what : string).

Inductive eev :=
| EWrite (p : prov) (what : string)
     (* assignment / copy / delete / inc-dec through p *)
| ECallM (recv : prov) (cands : list string) (m : string) (args : list prov)
     (* method call; cands = the in-package methods it may dispatch to (their skeletons
        are in the same file), [] for external/embedded ones *)
| ECallF (f : string) (args : list prov)      (* function of the package *)
| EExt (f : string) (args : list prov)        (* pkg.Fn of another package *)
| ECgo (f : string) (args : list prov)        (* C.f(args) *)
| EUnknown (what : string).

Record efn := mkEfn { ef_name : string; ef_params : list string (* receiver first *); ef_body : list eev }.

(* C parameter *)
Record cparam := mkCParam { cp_const : bool; cp_ptr : bool; cp_type : string }.
