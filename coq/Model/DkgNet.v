(* Executions of Feldman-VSS-Qual / Joint-Feldman over a network: honest machines,
   Byzantine scripts, admissible interleavings.  No proofs here.

   A participant i is described by the list of inputs its instance processed between Start
   and End ([item]s of Spec/DkgQualFacts.v: broadcasts and private messages with their
   origin, the two timeouts, ForceDisqualify).  Byzantine participants are not machines:
   whatever they send simply appears in the input lists of the honest participants, so a
   Byzantine script is any family of messages; the only constraints are those of the
   network (authenticated channels, reliable broadcast, round synchrony), stated as the
   predicate [admissible] on the input lists of the honest participants:

   - per-sender FIFO and reliable broadcast: every honest participant sees the same
     sequence of broadcasts of a sender, each in the same phase (0 before the shares
     timeout, 1 before the complaints timeout, 2 after it);
   - an honest participant's own broadcasts reach every other honest participant (the own
     complaint, at the latest in phase 1);
   - both timeouts elapsed at every honest participant before End;
   - ForceDisqualify is called for the same participants everywhere (the interface
     contract: "the caller should make sure all honest participants call this function"). *)
From Coq Require Import ZArith List Bool Arith.
From V Require Import Model.DkgVss Model.DkgQual Spec.DkgQualFacts.
Import ListNotations.

(* the phase-tagged broadcasts of sender o as received in an annotated input list *)
Fixpoint bview (o : nat) (A : list (nat * item)) : list (nat * msg) :=
  match A with
  | [] => []
  | (k, IB o' m) :: A' => if Nat.eqb o' o then (k, m) :: bview o A' else bview o A'
  | _ :: A' => bview o A'
  end.

(* the phase-tagged ForceDisqualify calls *)
Fixpoint fview (A : list (nat * item)) : list nat :=
  match A with
  | [] => []
  | (_, IForce j) :: A' => j :: fview A'
  | _ :: A' => fview A'
  end.

Section Net.
Variable n t : nat.
Variable d : nat.                      (* the dealer of the instance under consideration *)

(* the input lists of the honest participants other than the dealer *)
Variable honest : list nat.
Variable inputs : nat -> list item.

Definition cfg_of (i : nat) : cfg := mkCfg n t i.

(* did participant i build (and broadcast) its complaint: declaratively, see [ownc] *)
Definition own_complaint (i : nat) : bool := ownc (cfg_of i) d (annot (inputs i)).

(* a valid complaint of c against d, in phase < 2, as received by i *)
Definition got_complaint (i c : nat) : bool := compF (cfg_of i) d (annot (inputs i)) c.

Definition admissible : Prop :=
  (forall i, In i honest -> i <> d /\ (i < n)%nat /\ ph (inputs i) = 2%nat) /\
  (* the dealer's broadcasts: same sequence, same phases *)
  (forall i j, In i honest -> In j honest ->
     bview d (annot (inputs i)) = bview d (annot (inputs j))) /\
  (* complaints of third parties *)
  (forall i j c, In i honest -> In j honest -> c <> i -> c <> j ->
     got_complaint i c = got_complaint j c) /\
  (* an honest participant's own complaint is what the others receive from it *)
  (forall i j, In i honest -> In j honest -> i <> j ->
     got_complaint j i = own_complaint i) /\
  (* ForceDisqualify(d) everywhere or nowhere *)
  (forall i j, In i honest -> In j honest ->
     forced d (annot (inputs i)) = forced d (annot (inputs j))).

End Net.
