(* C09 - proof engine for the risk skeletons (Model/Risk.v):
   a weakest-precondition calculus [wp] that computes, for a skeleton and an environment,
   a proposition made of the arithmetic side conditions of every risky operation on every
   path, and its soundness with respect to the executable semantics [exec]:
     wp ... -> no outcome of exec is a panic.
   Per-function theorems (Proofs/RiskTheorems.v) reduce to linear arithmetic by [risk_auto]. *)
From Coq Require Import ZArith List String Bool Lia.
From V Require Import Model.Risk.
Import ListNotations.
Open Scope string_scope.
Open Scope Z_scope.

(* ---- conditions as propositions: "c may evaluate to b" ---- *)
Fixpoint cmay (c : cond) (e : env) (b : bool) : Prop :=
  match c with
  | CLt x y => if b then teval x e < teval y e else teval y e <= teval x e
  | CLe x y => if b then teval x e <= teval y e else teval y e < teval x e
  | CEq x y => if b then teval x e = teval y e else teval x e <> teval y e
  | CNe x y => if b then teval x e <> teval y e else teval x e = teval y e
  | CGt x y => if b then teval y e < teval x e else teval x e <= teval y e
  | CGe x y => if b then teval y e <= teval x e else teval x e < teval y e
  | COr x y => if b then cmay x e true \/ cmay y e true else cmay x e false /\ cmay y e false
  | CAnd x y => if b then cmay x e true /\ cmay y e true else cmay x e false \/ cmay y e false
  | CNot x => cmay x e (negb b)
  | CNil x => if b then e x <= 0 /\ e (nil_oracle x) = 1 else 0 < e x \/ e (nil_oracle x) <> 1
  | CTrue => if b then True else False
  | CFalse => if b then False else True
  | CUnknown _ => True
  end.

Lemma cmay_complete : forall c e v, ceval c e <> Some (negb v) -> cmay c e v.
Proof.
  induction c; intros e v H; cbn [ceval cmay] in *.
  - destruct v; cbn in H; destruct (Z.ltb_spec (teval a e) (teval b e)); try lia; congruence.
  - destruct v; cbn in H; destruct (Z.leb_spec (teval a e) (teval b e)); try lia; congruence.
  - destruct v; cbn in H; destruct (Z.eqb_spec (teval a e) (teval b e)); try lia; congruence.
  - destruct v; cbn in H; destruct (Z.eqb_spec (teval a e) (teval b e)); cbn in H; try lia; congruence.
  - destruct v; cbn in H; destruct (Z.ltb_spec (teval b e) (teval a e)); try lia; congruence.
  - destruct v; cbn in H; destruct (Z.leb_spec (teval b e) (teval a e)); try lia; congruence.
  - specialize (IHc1 e); specialize (IHc2 e).
    destruct v; cbn in H.
    + destruct (ceval c1 e) as [[|]|] eqn:E1; destruct (ceval c2 e) as [[|]|] eqn:E2;
        try (left; apply IHc1; cbn; congruence); try (right; apply IHc2; cbn; congruence); congruence.
    + destruct (ceval c1 e) as [[|]|] eqn:E1; destruct (ceval c2 e) as [[|]|] eqn:E2;
        try congruence; split; (apply IHc1 || apply IHc2); cbn; congruence.
  - specialize (IHc1 e); specialize (IHc2 e).
    destruct v; cbn in H.
    + destruct (ceval c1 e) as [[|]|] eqn:E1; destruct (ceval c2 e) as [[|]|] eqn:E2;
        try congruence; split; (apply IHc1 || apply IHc2); cbn; congruence.
    + destruct (ceval c1 e) as [[|]|] eqn:E1; destruct (ceval c2 e) as [[|]|] eqn:E2;
        try (left; apply IHc1; cbn; congruence); try (right; apply IHc2; cbn; congruence); congruence.
  - apply IHc. destruct (ceval c e) as [[|]|]; destruct v; cbn in *; congruence.
  - revert H. destruct v;
      destruct (Z.leb_spec (e x) 0) as [H1|H1]; destruct (Z.eqb_spec (e (nil_oracle x)) 1) as [H2|H2];
      cbn [negb andb]; intro H3;
      try (exfalso; apply H3; reflexivity); lia.
  - destruct v; cbn in *; auto; congruence.
  - destruct v; cbn in *; auto; congruence.
  - exact I.
Qed.

(* ---- risky operations ---- *)
Definition risk_ok (r : risk) (e : env) : Prop :=
  match r with
  | RIdx x i => 0 <= teval i e < e x
  | RSlice x lo hi => 0 <= teval lo e <= teval hi e /\ teval hi e <= e x
  | RMake n => 0 <= teval n e
  | RAssert s | RDeref s => e (ok_oracle s) = 1
  | RDiv d => teval d e <> 0
  | RPanic _ => False
  end.

Lemma risk_okb_ok : forall r e, risk_ok r e -> risk_okb r e = true.
Proof.
  destruct r; cbn; intros e H.
  - apply andb_true_intro; split; [apply Z.leb_le | apply Z.ltb_lt]; lia.
  - repeat (apply andb_true_intro; split); apply Z.leb_le; lia.
  - apply Z.leb_le; lia.
  - apply Z.eqb_eq; exact H.
  - apply Z.eqb_eq; exact H.
  - apply negb_true_iff, Z.eqb_neq; exact H.
  - contradiction.
Qed.

(* ---- postconditions and wp ---- *)
Record post := mkPost { pc : env -> Prop; pr : string -> list Z -> env -> Prop; pb : Prop }.

Definition sat (Q : post) (o : outcome) : Prop :=
  match o with
  | Cont e => pc Q e
  | Returned tag vs e => pr Q tag vs e
  | Broke => pb Q
  | Panicked _ => False
  end.

Definition wp_list (one : ev -> env -> post -> Prop) : list ev -> env -> post -> Prop :=
  fix run (l : list ev) (e : env) (Q : post) : Prop :=
    match l with
    | [] => pc Q e
    | x :: r => one x e (mkPost (fun e' => run r e' Q) (pr Q) (pb Q))
    end.

Definition body_post (Q : post) : post := mkPost (fun _ => True) (pr Q) True.

Section WP.
  Variable prog : string -> option (list ev).

  Fixpoint wp_one (wcall : list ev -> env -> post -> Prop) (x : ev) (e : env) (Q : post) {struct x} : Prop :=
    match x with
    | ERisk r => risk_ok r e /\ pc Q e
    | EIf c a b =>
        (cmay c e true -> wp_list (wp_one wcall) a e Q) /\
        (cmay c e false -> wp_list (wp_one wcall) b e Q)
    | ERet tag vs => pr Q tag (map (fun t => teval t e) vs) e
    | ELoopRange i x body =>
        pc Q e /\
        (0 <= e (loop_oracle i) < e x ->
         wp_list (wp_one wcall) body (upd e i (e (loop_oracle i))) (body_post Q))
    | ELoopN i lo hi body =>
        pc Q e /\
        (teval lo e <= e (loop_oracle i) < teval hi e ->
         wp_list (wp_one wcall) body (upd e i (e (loop_oracle i))) (body_post Q))
    | ELoopWhile c body =>
        pc Q e /\ (cmay c e true -> wp_list (wp_one wcall) body e (body_post Q))
    | EBreak => pb Q
    | EAssume c => cmay c e true -> pc Q e
    | ESetLen x t => pc Q (upd e x (teval t e))
    | EReslice x k => 0 <= teval k e <= e x /\ pc Q (upd e x (e x - teval k e))
    | EHavoc x o => pc Q (upd e x (e o))
    | ECall f binds rfrom rto res =>
        match prog f with
        | Some body =>
            wcall body (call_env e binds rfrom rto)
              (mkPost (fun _ => pc Q (bind_res e res []))
                      (fun _ vs _ => pc Q (bind_res e res vs))
                      (pc Q (bind_res e res [])))
        | None => False
        end
    | EDyn _ | EExt _ => pc Q e
    | ENote s => pc Q (upd e (note_name s) (e (note_name s) + 1))
    | EUnknown _ => False
    end.

  Fixpoint wp (fuel : nat) : list ev -> env -> post -> Prop :=
    match fuel with
    | O => fun _ _ _ => False
    | S n => wp_list (wp_one (wp n))
    end.

  (* ---- soundness ---- *)
  Lemma sat_weaken_cont : forall (Q Q' : post) o,
      pr Q' = pr Q -> pb Q' = pb Q -> sat Q' o ->
      (forall e, pc Q' e -> pc Q e) -> sat Q o.
  Proof. intros Q Q' [e|t v| |t] Hr Hb H Hc; cbn in *; try rewrite <- ?Hr, <- ?Hb; auto. Qed.

  Lemma run_list_sound :
    forall (one : ev -> env -> list outcome) (wone : ev -> env -> post -> Prop) l,
      Forall (fun x => forall e Q, wone x e Q -> Forall (sat Q) (one x e)) l ->
      forall e Q, wp_list wone l e Q -> Forall (sat Q) (run_list one l e).
  Proof.
    intros one wone l HF. induction HF as [|x r Hx HF IH]; intros e Q H; cbn in *.
    - constructor; [exact H | constructor].
    - specialize (Hx _ _ H). unfold seq. apply Forall_flat_map.
      eapply Forall_impl; [|exact Hx]. intros o Ho.
      destruct o as [e'|t v| |t]; cbn in Ho.
      + apply IH. exact Ho.
      + constructor; [exact Ho | constructor].
      + constructor; [exact Ho | constructor].
      + contradiction.
  Qed.

  Lemma loop_out_sat : forall Q e os,
      pc Q e -> Forall (sat (body_post Q)) os -> Forall (sat Q) (loop_out e os).
  Proof.
    intros Q e os Hc H. unfold loop_out. apply Forall_map.
    eapply Forall_impl; [|exact H]. intros [e'|t v| |t] Ho; cbn in *; auto.
  Qed.

  Section EvInd.
    Variable P : ev -> Prop.
    Hypothesis Hrisk : forall r, P (ERisk r).
    Hypothesis Hif : forall c a b, Forall P a -> Forall P b -> P (EIf c a b).
    Hypothesis Hret : forall t v, P (ERet t v).
    Hypothesis Hlr : forall i x b, Forall P b -> P (ELoopRange i x b).
    Hypothesis Hln : forall i lo hi b, Forall P b -> P (ELoopN i lo hi b).
    Hypothesis Hlw : forall c b, Forall P b -> P (ELoopWhile c b).
    Hypothesis Hbrk : P EBreak.
    Hypothesis Hasm : forall c, P (EAssume c).
    Hypothesis Hset : forall x t, P (ESetLen x t).
    Hypothesis Hres : forall x k, P (EReslice x k).
    Hypothesis Hhav : forall x o, P (EHavoc x o).
    Hypothesis Hcall : forall f b rf rt res, P (ECall f b rf rt res).
    Hypothesis Hdyn : forall s, P (EDyn s).
    Hypothesis Hext : forall s, P (EExt s).
    Hypothesis Hnote : forall s, P (ENote s).
    Hypothesis Hunk : forall s, P (EUnknown s).

    Fixpoint ev_ind' (x : ev) : P x :=
      let lst := fix lst (l : list ev) : Forall P l :=
                   match l with
                   | [] => Forall_nil P
                   | y :: r => Forall_cons y (ev_ind' y) (lst r)
                   end in
      match x with
      | ERisk r => Hrisk r
      | EIf c a b => Hif c a b (lst a) (lst b)
      | ERet t v => Hret t v
      | ELoopRange i x b => Hlr i x b (lst b)
      | ELoopN i lo hi b => Hln i lo hi b (lst b)
      | ELoopWhile c b => Hlw c b (lst b)
      | EBreak => Hbrk
      | EAssume c => Hasm c
      | ESetLen x t => Hset x t
      | EReslice x k => Hres x k
      | EHavoc x o => Hhav x o
      | ECall f b rf rt res => Hcall f b rf rt res
      | EDyn s => Hdyn s
      | EExt s => Hext s
      | ENote s => Hnote s
      | EUnknown s => Hunk s
      end.
  End EvInd.

  Lemma wp_one_sound :
    forall (call : list ev -> env -> list outcome) (wcall : list ev -> env -> post -> Prop),
      (forall l e Q, wcall l e Q -> Forall (sat Q) (call l e)) ->
      forall x e Q, wp_one wcall x e Q -> Forall (sat Q) (one prog call x e).
  Proof.
    intros call wcall Hc.
    induction x using ev_ind'; intros e Q HW; cbn [wp_one one] in *.
    - destruct HW as [Hr Hq]. rewrite (risk_okb_ok _ _ Hr). constructor; [exact Hq|constructor].
    - destruct HW as [Ha Hb].
      destruct (ceval c e) as [[|]|] eqn:E.
      + eapply run_list_sound; [eassumption|]. apply Ha. apply cmay_complete. cbn. congruence.
      + eapply run_list_sound; [eassumption|]. apply Hb. apply cmay_complete. cbn. congruence.
      + apply Forall_app; split; (eapply run_list_sound; [eassumption|]);
          [apply Ha|apply Hb]; apply cmay_complete; cbn; congruence.
    - constructor; [exact HW|constructor].
    - destruct HW as [Hq Hb]. constructor; [exact Hq|].
      destruct (Z.leb_spec 0 (e (loop_oracle i))); cbn [andb]; [|constructor].
      destruct (Z.ltb_spec (e (loop_oracle i)) (e x)); [|constructor].
      apply loop_out_sat; [exact Hq|]. eapply run_list_sound; [eassumption|]. apply Hb. lia.
    - destruct HW as [Hq Hb]. constructor; [exact Hq|].
      destruct (Z.leb_spec (teval lo e) (e (loop_oracle i))); cbn [andb]; [|constructor].
      destruct (Z.ltb_spec (e (loop_oracle i)) (teval hi e)); [|constructor].
      apply loop_out_sat; [exact Hq|]. eapply run_list_sound; [eassumption|]. apply Hb. lia.
    - destruct HW as [Hq Hb]. constructor; [exact Hq|].
      destruct (ceval c e) as [[|]|] eqn:E; try constructor;
        (apply loop_out_sat; [exact Hq|]; eapply run_list_sound; [eassumption|];
         apply Hb; apply cmay_complete; cbn; congruence).
    - constructor; [exact HW|constructor].
    - destruct (ceval c e) as [[|]|] eqn:E; try constructor; try constructor;
        apply HW; apply cmay_complete; cbn; congruence.
    - constructor; [exact HW|constructor].
    - destruct HW as [Hk Hq].
      destruct (Z.leb_spec 0 (teval k e)); [|lia]. cbn [andb].
      destruct (Z.leb_spec (teval k e) (e x)); [|lia].
      constructor; [exact Hq|constructor].
    - constructor; [exact HW|constructor].
    - destruct (prog f) as [body|]; [|contradiction].
      specialize (Hc _ _ _ HW). unfold call_out. apply Forall_map.
      eapply Forall_impl; [|exact Hc]. intros [e'|t v| |t] Ho; cbn in *; auto.
    - constructor; [exact HW|constructor].
    - constructor; [exact HW|constructor].
    - constructor; [exact HW|constructor].
    - contradiction.
  Qed.

  Lemma wp_sound : forall fuel l e Q, wp fuel l e Q -> Forall (sat Q) (exec prog fuel l e).
  Proof.
    induction fuel as [|n IH]; intros l e Q H; cbn [wp exec] in *; [contradiction|].
    eapply run_list_sound; [|exact H].
    apply Forall_forall. intros x _ e' Q' Hx. eapply wp_one_sound; [|exact Hx]. exact IH.
  Qed.

  Definition top_post : post := mkPost (fun _ => True) (fun _ _ _ => True) True.

  Theorem wp_no_panic : forall fuel l e,
      wp fuel l e top_post -> Forall no_panic (exec prog fuel l e).
  Proof.
    intros fuel l e H. eapply Forall_impl; [|apply (wp_sound _ _ _ _ H)].
    intros [e'|t v| |t] Ho; cbn in Ho; try contradiction; intros t' Ht; discriminate.
  Qed.

  (* every outcome is a return whose tag satisfies R (used for the rejection theorems) *)
  Definition ret_post (R : string -> list Z -> env -> Prop) : post := mkPost (fun _ => False) R False.

  Theorem wp_returns : forall fuel l e R,
      wp fuel l e (ret_post R) ->
      Forall (fun o => exists tag vs e', o = Returned tag vs e' /\ R tag vs e') (exec prog fuel l e).
  Proof.
    intros fuel l e R H. eapply Forall_impl; [|apply (wp_sound _ _ _ _ H)].
    intros [e'|t v| |t] Ho; cbn in Ho; try contradiction. eauto.
  Qed.
End WP.

(* ---- the tactic ---- *)
Ltac risk_simpl :=
  lazy -[Z.add Z.sub Z.mul Z.modulo Z.le Z.lt Z.ge Z.gt Z.div Z.opp].

Ltac risk_split :=
  repeat match goal with
         | |- _ /\ _ => split
         | |- _ -> _ => intro
         | |- True => exact I
         | H : _ /\ _ |- _ => destruct H
         | H : _ \/ _ |- _ => destruct H
         | H : False |- _ => contradiction
         end.

Ltac risk_arith :=
  try exact I; try (subst; lia);
  try (Zify.zify; Z.div_mod_to_equations; lia).

Ltac risk_auto :=
  intros; first [apply wp_no_panic | apply wp_returns];
  risk_simpl; risk_split; risk_arith.
