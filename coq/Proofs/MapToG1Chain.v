(* The point operations of the hash-to-curve model preserve the curve equations, for ALL inputs:
   POINTonE1_dadd (with a4 = A' on E1', with a4 = NULL on E1), the a = 0 doubling used by the
   cofactor clearing, the addition chain for 1 - z.  Together with the simplified SWU theorem
   (Proofs/MapToG1Proofs.v) and the isogeny theorem (Proofs/IsoG1Proofs.v): for every pair of
   field elements the model of map_to_g1 returns Jacobian coordinates satisfying the equation of
   E1, Y^2 = X^3 + 4 Z^6.  (Membership in the subgroup G1 is NOT proved here.)
   The identities are polynomial identities over Z checked by [ring]; for the addition the
   cofactor is  Y3^2 - X3^3 - a X3 Z3^4 - c1 H^6 = (c2 - c1) H^3 (X3 - H^2 U1)  with
   ci = Si^2 - Ui^3 - a (Z1 Z2)^4 Ui  (both equal to b (Z1 Z2)^6 when the inputs are on the curve). *)
From Coq Require Import ZArith NArith List Bool Lia Zdiv Morphisms Setoid.
From V Require Import Lib.Num Lib.FermatZ Prim.Bls12 Generated.IsoG1 Model.MapToG1
  Proofs.MapToG1Proofs Proofs.IsoG1Proofs.
Import ListNotations.
Open Scope Z_scope.

Definition a_of (a4 : option Z) : Z := match a4 with Some a => a | None => 0 end.

Section Ops.
Variable p : Z.
#[local] Instance eqm_c_equiv : Equivalence (eqm p) := eqm_setoid p.
#[local] Instance eqm_c_add : Proper (eqm p ==> eqm p ==> eqm p) Z.add := Zplus_eqm p.
#[local] Instance eqm_c_mul : Proper (eqm p ==> eqm p ==> eqm p) Z.mul := Zmult_eqm p.
#[local] Instance eqm_c_sub : Proper (eqm p ==> eqm p ==> eqm p) Z.sub := Zminus_eqm p.
Local Notation "a == b" := (eqm p a b) (at level 70).

(* ---- algebra over plain integers ---- *)
Lemma add_algebra a b X1 Y1 Z1 X2 Y2 Z2 U1 U2 S1 S2 zz H R sx X3 Y3 Z3 :
  Y1 * Y1 == X1 * X1 * X1 + a * X1 * (Z1 * Z1 * Z1 * Z1) + b * (Z1 * Z1 * Z1 * Z1 * Z1 * Z1) ->
  Y2 * Y2 == X2 * X2 * X2 + a * X2 * (Z2 * Z2 * Z2 * Z2) + b * (Z2 * Z2 * Z2 * Z2 * Z2 * Z2) ->
  U1 == (Z2 * Z2) * X1 -> U2 == (Z1 * Z1) * X2 ->
  S1 == Y1 * Z2 * (Z2 * Z2) -> S2 == Y2 * Z1 * (Z1 * Z1) -> zz == Z1 * Z2 ->
  H == U2 - U1 -> R == S2 - S1 -> sx == U2 + U1 ->
  Z3 == zz * H -> X3 == R * R - (H * H) * sx -> Y3 == ((H * H) * U1 - X3) * R - ((H * H) * H) * S1 ->
  Y3 * Y3 == X3 * X3 * X3 + a * X3 * (Z3 * Z3 * Z3 * Z3) + b * (Z3 * Z3 * Z3 * Z3 * Z3 * Z3).
Proof.
  intros E1 E2 HU1 HU2 HS1 HS2 Hzz HH HR Hsx HZ3 HX3 HY3.
  assert (F1 : S1 * S1 - U1 * U1 * U1 - a * (zz * zz * zz * zz) * U1 == b * (zz * zz * zz * zz * zz * zz)).
  { rewrite HS1, HU1, Hzz.
    transitivity ((Z2 * Z2 * Z2 * Z2 * Z2 * Z2) * ((Y1 * Y1) - X1 * X1 * X1 - a * X1 * (Z1 * Z1 * Z1 * Z1))); [apply eq_eqm; ring|].
    rewrite E1. apply eq_eqm. ring. }
  assert (F2 : S2 * S2 - U2 * U2 * U2 - a * (zz * zz * zz * zz) * U2 == b * (zz * zz * zz * zz * zz * zz)).
  { rewrite HS2, HU2, Hzz.
    transitivity ((Z1 * Z1 * Z1 * Z1 * Z1 * Z1) * ((Y2 * Y2) - X2 * X2 * X2 - a * X2 * (Z2 * Z2 * Z2 * Z2))); [apply eq_eqm; ring|].
    rewrite E2. apply eq_eqm. ring. }
  clear E1 E2 HU1 HU2 HS1 HS2 Hzz.
  rewrite HY3, HX3, HZ3, HH, HR, Hsx. clear HY3 HX3 HZ3 HH HR Hsx H R sx X3 Y3 Z3.
  set (h := U2 - U1). set (r := S2 - S1).
  set (x3 := r * r - h * h * (U2 + U1)).
  transitivity (x3 * x3 * x3 + a * x3 * (zz * h * (zz * h) * (zz * h) * (zz * h))
                + (S1 * S1 - U1 * U1 * U1 - a * (zz * zz * zz * zz) * U1) * (h * h * h * h * h * h)
                + ((S2 * S2 - U2 * U2 * U2 - a * (zz * zz * zz * zz) * U2)
                   - (S1 * S1 - U1 * U1 * U1 - a * (zz * zz * zz * zz) * U1)) * ((h * h * h) * (x3 - h * h * U1))).
  { apply eq_eqm. unfold x3, r, h. ring. }
  rewrite F2, F1. apply eq_eqm. ring.
Qed.

Lemma dbl_algebra a b X1 Y1 Z1 ZZ H R sx X3 Y3 Z3 :
  Y1 * Y1 == X1 * X1 * X1 + a * X1 * (Z1 * Z1 * Z1 * Z1) + b * (Z1 * Z1 * Z1 * Z1 * Z1 * Z1) ->
  ZZ == Z1 * Z1 ->
  H == Y1 + Y1 -> R == (X1 * X1 + X1 * X1 + X1 * X1) + (ZZ * ZZ) * a -> sx == X1 + X1 ->
  Z3 == Z1 * H -> X3 == R * R - (H * H) * sx -> Y3 == ((H * H) * X1 - X3) * R - ((H * H) * H) * Y1 ->
  Y3 * Y3 == X3 * X3 * X3 + a * X3 * (Z3 * Z3 * Z3 * Z3) + b * (Z3 * Z3 * Z3 * Z3 * Z3 * Z3).
Proof.
  intros E1 HZZ HH HR Hsx HZ3 HX3 HY3.
  assert (F1 : b * (Z1 * Z1 * Z1 * Z1 * Z1 * Z1) == Y1 * Y1 - X1 * X1 * X1 - a * X1 * (Z1 * Z1 * Z1 * Z1)).
  { rewrite E1. apply eq_eqm. ring. }
  clear E1.
  rewrite HY3, HX3, HZ3, HR, HH, Hsx, HZZ. clear HY3 HX3 HZ3 HH HR Hsx HZZ H R sx X3 Y3 Z3 ZZ.
  set (h := Y1 + Y1). set (r := X1 * X1 + X1 * X1 + X1 * X1 + Z1 * Z1 * (Z1 * Z1) * a).
  set (x3 := r * r - h * h * (X1 + X1)).
  transitivity (x3 * x3 * x3 + a * x3 * (Z1 * h * (Z1 * h) * (Z1 * h) * (Z1 * h))
                + (b * (Z1 * Z1 * Z1 * Z1 * Z1 * Z1)) * (h * h * h * h * h * h)).
  { rewrite F1. apply eq_eqm. unfold x3, r, h. ring. }
  apply eq_eqm. ring.
Qed.

(* dbl-2009-l (a = 0), the doubling of Prim/Bls12.v used for POINTonE1_double *)
Lemma jdbl_algebra b X Y Zc A Bq C t D E F X3 Y3 Z3 :
  Y * Y == X * X * X + b * (Zc * Zc * Zc * Zc * Zc * Zc) ->
  A == X * X -> Bq == Y * Y -> C == Bq * Bq -> t == X + Bq ->
  D == (t * t - A - C) + (t * t - A - C) -> E == (A + A) + A -> F == E * E ->
  X3 == F - (D + D) -> Y3 == E * (D - X3) - (((C + C) + (C + C)) + ((C + C) + (C + C))) ->
  Z3 == (Y * Zc) + (Y * Zc) ->
  Y3 * Y3 == X3 * X3 * X3 + b * (Z3 * Z3 * Z3 * Z3 * Z3 * Z3).
Proof.
  intros E1 HA HB HC Ht HD HE HF HX3 HY3 HZ3.
  assert (F1 : b * (Zc * Zc * Zc * Zc * Zc * Zc) == Y * Y - X * X * X).
  { rewrite E1. apply eq_eqm. ring. }
  clear E1.
  rewrite HY3, HX3, HZ3, HF, HE, HD, Ht, HC, HB, HA.
  clear HY3 HX3 HZ3 HF HE HD Ht HC HB HA A Bq C t D E F X3 Y3 Z3.
  set (d := (X + Y * Y) * (X + Y * Y) - X * X - Y * Y * (Y * Y) + ((X + Y * Y) * (X + Y * Y) - X * X - Y * Y * (Y * Y))).
  set (e := X * X + X * X + X * X).
  set (x3 := e * e - (d + d)).
  transitivity (x3 * x3 * x3 + (b * (Zc * Zc * Zc * Zc * Zc * Zc)) * (64 * (Y * Y * Y * Y * Y * Y))).
  { rewrite F1. apply eq_eqm. unfold x3, e, d. ring. }
  apply eq_eqm. ring.
Qed.
End Ops.

(* ================= the model's operations ================= *)
Section Model.
Variable p : Z.
Hypothesis Hp1 : 1 < p.
#[local] Instance eqm_m_equiv : Equivalence (eqm p) := eqm_setoid p.
#[local] Instance eqm_m_add : Proper (eqm p ==> eqm p ==> eqm p) Z.add := Zplus_eqm p.
#[local] Instance eqm_m_mul : Proper (eqm p ==> eqm p ==> eqm p) Z.mul := Zmult_eqm p.
#[local] Instance eqm_m_sub : Proper (eqm p ==> eqm p ==> eqm p) Z.sub := Zminus_eqm p.
Local Notation "a == b" := (eqm p a b) (at level 70).

#[local] Instance fmul_m_proper : Proper (eqm p ==> eqm p ==> eqm p) (fmul ZNum p).
Proof.
  intros a a' Ha b b' Hb. change (fmul ZNum p a b) with ((a * b) mod p).
  change (fmul ZNum p a' b') with ((a' * b') mod p). rewrite !(Zmod_eqm p), Ha, Hb. reflexivity.
Qed.
#[local] Instance fadd_m_proper : Proper (eqm p ==> eqm p ==> eqm p) (fadd ZNum p).
Proof.
  intros a a' Ha b b' Hb. change (fadd ZNum p a b) with ((a + b) mod p).
  change (fadd ZNum p a' b') with ((a' + b') mod p). rewrite !(Zmod_eqm p), Ha, Hb. reflexivity.
Qed.
#[local] Instance fsub_m_proper : Proper (eqm p ==> eqm p ==> eqm p) (fsub ZNum p).
Proof.
  intros a a' Ha b b' Hb. change (fsub ZNum p a b) with ((a - b) mod p).
  change (fsub ZNum p a' b') with ((a' - b') mod p). rewrite !(Zmod_eqm p), Ha, Hb. reflexivity.
Qed.
Ltac strip := repeat (rewrite ?fadd_eqm, ?fsub_eqm, ?fmul_eqm).

Lemma jac_eq_iff a b P :
  jac_eq p a b P <->
  jy P * jy P == jx P * jx P * jx P + a * jx P * (jz P * jz P * jz P * jz P)
                 + b * (jz P * jz P * jz P * jz P * jz P * jz P).
Proof. reflexivity. Qed.

Lemma dadd_tail_eqm a b c d e f :
  jz (dadd_tail ZNum p a b c d e f) == c * d /\
  jx (dadd_tail ZNum p a b c d e f) == e * e - (d * d) * f /\
  jy (dadd_tail ZNum p a b c d e f) ==
    ((d * d) * a - jx (dadd_tail ZNum p a b c d e f)) * e - ((d * d) * d) * b.
Proof.
  unfold dadd_tail. cbv zeta. cbn [jx jy jz]. repeat split; strip; reflexivity.
Qed.

Lemma dbl_R_eqm a4 X1 ZZ :
  dadd_dbl_R ZNum p a4 X1 ZZ == (X1 * X1 + X1 * X1 + X1 * X1) + (ZZ * ZZ) * a_of a4.
Proof.
  unfold dadd_dbl_R. cbv zeta. destruct a4 as [a|]; cbn [a_of]; strip; [reflexivity|].
  apply eq_eqm. ring.
Qed.

(* POINTonE1_dadd keeps the Jacobian equation of y^2 = x^3 + a x + b, a = a4 (0 if NULL) *)
Theorem dadd_on_curve a4 b P Q :
  jac_eq p (a_of a4) b P -> jac_eq p (a_of a4) b Q -> jac_eq p (a_of a4) b (dadd ZNum p a4 P Q).
Proof.
  intros HP HQ. unfold dadd. cbv zeta.
  destruct (feqb ZNum (jz P) (n_of_Z ZNum 0)); [exact HQ|].
  destruct (feqb ZNum (jz Q) (n_of_Z ZNum 0)); [exact HP|].
  apply jac_eq_iff in HP. apply jac_eq_iff in HQ.
  match goal with |- context [if ?c then dadd_tail _ _ _ _ _ _ _ _ else _] => destruct c end.
  - (* doubling *)
    apply jac_eq_iff.
    match goal with |- context [dadd_tail ZNum p ?a ?b ?c ?d ?e ?f] =>
      destruct (dadd_tail_eqm a b c d e f) as (HZ3 & HX3 & HY3);
      set (T := dadd_tail ZNum p a b c d e f) in * end.
    apply (dbl_algebra p (a_of a4) b (jx P) (jy P) (jz P) (fmul ZNum p (jz P) (jz P))
             (fadd ZNum p (jy P) (jy P))
             (dadd_dbl_R ZNum p a4 (jx P) (fmul ZNum p (jz P) (jz P)))
             (fadd ZNum p (jx P) (jx P)) (jx T) (jy T) (jz T)); try assumption.
    + apply fmul_eqm.
    + apply fadd_eqm.
    + apply dbl_R_eqm.
    + apply fadd_eqm.
  - (* addition *)
    apply jac_eq_iff.
    match goal with |- context [dadd_tail ZNum p ?a ?b ?c ?d ?e ?f] =>
      destruct (dadd_tail_eqm a b c d e f) as (HZ3 & HX3 & HY3);
      set (T := dadd_tail ZNum p a b c d e f) in * end.
    apply (add_algebra p (a_of a4) b (jx P) (jy P) (jz P) (jx Q) (jy Q) (jz Q)
             (fmul ZNum p (fmul ZNum p (jz Q) (jz Q)) (jx P))
             (fmul ZNum p (fmul ZNum p (jz P) (jz P)) (jx Q))
             (fmul ZNum p (fmul ZNum p (jy P) (jz Q)) (fmul ZNum p (jz Q) (jz Q)))
             (fmul ZNum p (fmul ZNum p (jy Q) (jz P)) (fmul ZNum p (jz P) (jz P)))
             (fmul ZNum p (jz P) (jz Q))
             (fsub ZNum p (fmul ZNum p (fmul ZNum p (jz P) (jz P)) (jx Q)) (fmul ZNum p (fmul ZNum p (jz Q) (jz Q)) (jx P)))
             (fsub ZNum p (fmul ZNum p (fmul ZNum p (jy Q) (jz P)) (fmul ZNum p (jz P) (jz P)))
                          (fmul ZNum p (fmul ZNum p (jy P) (jz Q)) (fmul ZNum p (jz Q) (jz Q))))
             (fadd ZNum p (fmul ZNum p (fmul ZNum p (jz P) (jz P)) (jx Q)) (fmul ZNum p (fmul ZNum p (jz Q) (jz Q)) (jx P)))
             (jx T) (jy T) (jz T)); try assumption.
    + strip. reflexivity.
    + strip. reflexivity.
    + strip. reflexivity.
    + strip. reflexivity.
    + apply fmul_eqm.
    + apply fsub_eqm.
    + apply fsub_eqm.
    + apply fadd_eqm.
Qed.

(* the a = 0 doubling (POINTonE1_double) keeps y^2 = x^3 + b *)
Theorem jdbl_on_curve b P : jac_eq p 0 b P -> jac_eq p 0 b (jdbl (FpOps ZNum p) P).
Proof.
  intro HP. unfold jdbl, jis_inf, dbl2. cbn [FpOps o_eqb o_zero o_add o_sub o_mul]. cbv zeta.
  destruct (feqb ZNum (jz P) (n_of_Z ZNum 0)); [exact HP|].
  unfold jac_eq in HP. apply jac_eq_iff. cbn [jx jy jz].
  match type of HP with ?l mod p = ?r mod p => change (l == r) in HP end.
  set (X := jx P) in *. set (Y := jy P) in *. set (Zc := jz P) in *.
  set (A := fmul ZNum p X X). set (Bq := fmul ZNum p Y Y). set (C := fmul ZNum p Bq Bq).
  set (t := fadd ZNum p X Bq).
  set (D := fadd ZNum p (fsub ZNum p (fsub ZNum p (fmul ZNum p t t) A) C) (fsub ZNum p (fsub ZNum p (fmul ZNum p t t) A) C)).
  set (E := fadd ZNum p (fadd ZNum p A A) A). set (F := fmul ZNum p E E).
  set (X3 := fsub ZNum p F (fadd ZNum p D D)).
  set (Y3 := fsub ZNum p (fmul ZNum p E (fsub ZNum p D X3)) _).
  set (Z3 := fadd ZNum p (fmul ZNum p Y Zc) (fmul ZNum p Y Zc)).
  transitivity (X3 * X3 * X3 + b * (Z3 * Z3 * Z3 * Z3 * Z3 * Z3)); [|apply eq_eqm; ring].
  apply (jdbl_algebra p b X Y Zc A Bq C t D E F X3 Y3 Z3).
  - etransitivity; [exact HP|apply eq_eqm; ring].
  - apply fmul_eqm.
  - apply fmul_eqm.
  - apply fmul_eqm.
  - apply fadd_eqm.
  - unfold D. strip. reflexivity.
  - unfold E. strip. reflexivity.
  - apply fmul_eqm.
  - unfold X3. strip. reflexivity.
  - unfold Y3. strip. reflexivity.
  - unfold Z3. strip. reflexivity.
Qed.

Lemma dbl_n_on_curve b n P : jac_eq p 0 b P -> jac_eq p 0 b (dbl_n ZNum p n P).
Proof. revert P; induction n as [|n IH]; intros P HP; cbn [dbl_n]; [exact HP|]. apply IH, jdbl_on_curve, HP. Qed.

Theorem times_minus_z_on_curve b chain P :
  jac_eq p 0 b P -> jac_eq p 0 b (times_minus_z ZNum p chain P).
Proof.
  intro HP. unfold times_minus_z.
  assert (H0 : jac_eq p 0 b (jdbl (FpOps ZNum p) P)) by (apply jdbl_on_curve, HP).
  revert H0. generalize (jdbl (FpOps ZNum p) P) as acc.
  induction chain as [|n chain IH]; intros acc Hacc; cbn [fold_left]; [exact Hacc|].
  apply IH. apply dbl_n_on_curve. apply (dadd_on_curve None b); assumption.
Qed.
End Model.

(* ---- Z coordinates stay canonical representatives (needed to read "Z <> 0" off the test) ---- *)
Definition zred (p : Z) (P : @jpt Z) : Prop := 0 <= jz P < p.

Section Zred.
Variable p : Z.
Hypothesis Hp1 : 1 < p.
Lemma fmul_rng a b : 0 <= fmul ZNum p a b < p. Proof. apply Z.mod_pos_bound. lia. Qed.
Lemma fadd_rng a b : 0 <= fadd ZNum p a b < p. Proof. apply Z.mod_pos_bound. lia. Qed.
Lemma dadd_zred a4 P Q : zred p P -> zred p Q -> zred p (dadd ZNum p a4 P Q).
Proof.
  intros HP HQ. unfold dadd. cbv zeta.
  destruct (feqb ZNum (jz P) (n_of_Z ZNum 0)); [exact HQ|].
  destruct (feqb ZNum (jz Q) (n_of_Z ZNum 0)); [exact HP|].
  match goal with |- context [if ?c then dadd_tail _ _ _ _ _ _ _ _ else _] => destruct c end;
    unfold zred, dadd_tail; cbv zeta; cbn [jz]; apply fmul_rng.
Qed.
Lemma jdbl_zred P : zred p P -> zred p (jdbl (FpOps ZNum p) P).
Proof.
  intro HP. unfold jdbl, jis_inf, dbl2. cbn [FpOps o_eqb o_zero o_add o_sub o_mul]. cbv zeta.
  destruct (feqb ZNum (jz P) (n_of_Z ZNum 0)); [exact HP|]. unfold zred. cbn [jz]. apply fadd_rng.
Qed.
Lemma dbl_n_zred n P : zred p P -> zred p (dbl_n ZNum p n P).
Proof. revert P; induction n as [|n IH]; intros P HP; cbn [dbl_n]; [exact HP|]. apply IH, jdbl_zred, HP. Qed.
Lemma times_minus_z_zred chain P : zred p P -> zred p (times_minus_z ZNum p chain P).
Proof.
  intro HP. unfold times_minus_z.
  assert (H0 : zred p (jdbl (FpOps ZNum p) P)) by (apply jdbl_zred, HP).
  revert H0. generalize (jdbl (FpOps ZNum p) P) as acc.
  induction chain as [|n chain IH]; intros acc Hacc; cbn [fold_left]; [exact Hacc|].
  apply IH, dbl_n_zred, dadd_zred; assumption.
Qed.
Lemma iso_map_zred tb P : zred p (iso_map ZNum p tb P).
Proof. unfold iso_map, zred. cbv zeta. cbn [jz]. apply fmul_rng. Qed.
Lemma map_to_g1_zred prm tb chain u v : zred p (map_to_g1 ZNum p prm tb chain u v).
Proof.
  unfold map_to_g1. cbv zeta. apply dadd_zred; [apply times_minus_z_zred|]; apply iso_map_zred.
Qed.
End Zred.

(* ================= the chain, modulus of BLS12-381 ================= *)
Section Chain.
Hypothesis Hpr : primeZ pZ.
Let Hp1 : 1 < pZ := primeZ_gt1 pZ Hpr.
#[local] Instance eqm_z_equiv : Equivalence (eqm pZ) := eqm_setoid pZ.
#[local] Instance eqm_z_add : Proper (eqm pZ ==> eqm pZ ==> eqm pZ) Z.add := Zplus_eqm pZ.
#[local] Instance eqm_z_mul : Proper (eqm pZ ==> eqm pZ ==> eqm pZ) Z.mul := Zmult_eqm pZ.
#[local] Instance eqm_z_sub : Proper (eqm pZ ==> eqm pZ ==> eqm pZ) Z.sub := Zminus_eqm pZ.
Local Notation "a == b" := (eqm pZ a b) (at level 70).

(* for EVERY pair of field elements and every doubling chain, the model of blst's map_to_g1
   (SSWU twice, addition on E1', 11-isogeny, cofactor clearing) returns Jacobian coordinates
   that satisfy the equation of E1 *)
Theorem map_to_g1_on_E1 chain u v :
  jac_eq pZ 0 4 (map_to_g1 ZNum pZ (iso_params ZNum) (iso_tabs ZNum) chain u v).
Proof.
  unfold map_to_g1. cbv zeta.
  pose proof (proj1 (sswu_on_E1prime Hpr u)) as HP.
  pose proof (proj1 (sswu_on_E1prime Hpr v)) as HQ.
  set (P := sswu ZNum pZ (iso_params ZNum) u) in *. set (Q := sswu ZNum pZ (iso_params ZNum) v) in *.
  change (jac_eq pZ iso_Aprime iso_Bprime P) in HP. change (jac_eq pZ iso_Aprime iso_Bprime Q) in HQ.
  pose proof (dadd_on_curve pZ (Some iso_Aprime) iso_Bprime P Q HP HQ) as HS.
  change (Some iso_Aprime) with (Some (sp_A (iso_params ZNum))) in HS.
  set (S := dadd ZNum pZ (Some (sp_A (iso_params ZNum))) P Q) in *.
  change (jac_eq pZ iso_Aprime iso_Bprime S) in HS.
  pose proof (iso_map_on_E1 S HS) as HI.
  set (I := iso_map ZNum pZ (iso_tabs ZNum) S) in *.
  apply (dadd_on_curve pZ None 4); [apply times_minus_z_on_curve|]; exact HI.
Qed.

Lemma affine_algebra b X Y Zc zi x y :
  Y * Y == X * X * X + 0 * X * (Zc * Zc * Zc * Zc) + b * (Zc * Zc * Zc * Zc * Zc * Zc) ->
  Zc * zi == 1 -> x == X * (zi * zi) -> y == Y * ((zi * zi) * zi) ->
  y * y == x * x * x + b.
Proof.
  intros HY Hzi Hx Hy. rewrite Hx, Hy.
  transitivity ((Y * Y) * (zi * zi * zi * zi * zi * zi)); [apply eq_eqm; ring|].
  rewrite HY.
  transitivity (X * X * X * (zi * zi * zi * zi * zi * zi)
                + b * ((Zc * zi) * (Zc * zi) * (Zc * zi) * (Zc * zi) * (Zc * zi) * (Zc * zi))); [apply eq_eqm; ring|].
  rewrite Hzi. apply eq_eqm. ring.
Qed.

Lemma some_pair_inj (a b c d : Z) : Some (a, b) = Some (c, d) -> a = c /\ b = d.
Proof. intro H. injection H. auto. Qed.

(* the affine point read off finite Jacobian coordinates on E1 is on y^2 = x^3 + b *)
Theorem to_affine_on_curve b P x y :
  zred pZ P -> jac_eq pZ 0 b P -> to_affine (FpOps ZNum pZ) P = Some (x, y) ->
  (y * y) mod pZ = (x * x * x + b) mod pZ.
Proof.
  intros HZ HP. unfold to_affine, jis_inf. cbn [FpOps o_eqb o_zero o_inv o_mul].
  change (feqb ZNum (jz P) (n_of_Z ZNum 0)) with (jz P =? 0).
  destruct (Z.eqb_spec (jz P) 0) as [|Nz]; [discriminate|]. cbv zeta.
  pose proof (finv_is_inverse Hpr (jz P) HZ Nz) as Hzi.
  set (zi := finv ZNum pZ (jz P)) in *. clearbody zi.
  intro E. destruct (some_pair_inj _ _ _ _ E) as [Ex Ey]. clear E.
  change (y * y == x * x * x + b).
  apply (affine_algebra b (jx P) (jy P) (jz P) zi).
  - exact HP.
  - exact Hzi.
  - rewrite <- Ex. rewrite !fmul_eqm. reflexivity.
  - rewrite <- Ey. rewrite !fmul_eqm. reflexivity.
Qed.

Theorem map_to_G1_ints_affine_on_E1 u0 u1 x y :
  to_affine (FpOps ZNum pZ) (map_to_G1_ints ZNum pZ u0 u1) = Some (x, y) ->
  (y * y) mod pZ = (x * x * x + 4) mod pZ.
Proof.
  apply to_affine_on_curve.
  - apply map_to_g1_zred. exact Hp1.
  - apply map_to_g1_on_E1.
Qed.
End Chain.

(* ================= the executed model (BigZ) and the byte-level entry point ================= *)
From Bignums Require Import BigZ.
From V Require Import Spec.ZcashCodec Proofs.NumRefine Proofs.MapToG1Refine.

Section AffineRefine.
Context {T : Type} (M : num T) (OK : num_ok M) (p : T).
Lemma to_affine_r P :
  option_map (fun xy : T * T => (n_to_Z M (fst xy), n_to_Z M (snd xy))) (to_affine (FpOps M p) P) =
  to_affine (FpOps ZNum (n_to_Z M p)) (jmapZ M P).
Proof.
  unfold to_affine, jis_inf. cbn [FpOps o_eqb o_zero o_inv o_mul]. cbv zeta.
  rewrite (feqb_r M OK). cbn [jmapZ jx jy jz]. rewrite (zero_r M OK).
  destruct (feqb ZNum (n_to_Z M (jz P)) (n_of_Z ZNum 0)); [reflexivity|].
  cbn [option_map fst snd]. unfold finv.
  repeat (rewrite ?(fmul_r M OK), ?(fpow_r M OK)). reflexivity.
Qed.
End AffineRefine.

Section Bytes.
Hypothesis Hpr : primeZ pZ.

(* what the correspondence runs compute: the affine point of the BigZ execution *)
Theorem map_to_G1_ints_bigZ_on_E1 u0 u1 x y :
  jac_to_pt1 (map_to_G1_ints BNum pB u0 u1) = Aff1 x y ->
  (y * y) mod pZ = (x * x * x + 4) mod pZ.
Proof.
  unfold jac_to_pt1. intro H.
  pose proof (to_affine_r BNum BNum_ok pB (map_to_G1_ints BNum pB u0 u1)) as R.
  rewrite map_to_G1_ints_bigZ in R. cbn [n_to_Z BNum] in R. rewrite pB_ok in R.
  destruct (to_affine (FpOps BNum pB) (map_to_G1_ints BNum pB u0 u1)) as [[bx by_]|]; [|discriminate].
  cbn [option_map fst snd] in R. injection H as Hx Hy. rewrite Hx, Hy in R.
  apply (map_to_G1_ints_affine_on_E1 Hpr u0 u1). symmetry. exact R.
Qed.

(* H(m) as predicted by the model from the 128 hasher bytes is the point at infinity or a point
   of E1: y^2 = x^3 + 4 - for EVERY input *)
Theorem map_to_G1_pt_on_E1 hash x y :
  map_to_G1_pt hash = Some (Aff1 x y) -> (y * y) mod pZ = (x * x * x + 4) mod pZ.
Proof.
  unfold map_to_G1_pt. rewrite map_to_G1_spec_bytes.
  destruct (Nat.eqb (List.length hash) 128); [|discriminate].
  intro H. injection H as H. apply (map_to_G1_ints_bigZ_on_E1 _ _ _ _ H).
Qed.
End Bytes.
