(* C09 - no-panic theorems for the DKG entry points (dkg*.go) and BLSThresholdKeyGen.
   Hypotheses: the parameters validated by the constructor (newDKGCommon), and the state
   invariants of the instance, i.e. facts about fields only the library writes:
     - s.y is nil or has s.size entries; s.vA has s.threshold+1 entries whenever a
       verification vector was accepted (vAReceived and not disqualified / validKey);
     - the dealer's polynomial s.a has s.threshold+1 coefficients while it is running;
     - the keys of the complaints map are indices below s.size (inserted after a range check).
   Nothing is assumed about orig, msg, participant or seed beyond "a length is >= 0".
   The Keccak sponge called by the dealer's seed expansion is cut (sponge_cut): C13. *)
From Coq Require Import ZArith List String Bool Lia.
From V Require Import Model.Risk Generated.RiskSkel Proofs.RiskProofs Proofs.RiskBase.
Import ListNotations.
Open Scope string_scope.
Open Scope Z_scope.

(* constructor-validated parameters of the instance whose fields are read under prefix p *)
Definition dkg_params (e : env) (p : string) : Prop :=
  2 <= e (p ++ "size") <= 254 /\
  1 <= e (p ++ "threshold") < e (p ++ "size") /\
  0 <= e (p ++ "myIndex") < e (p ++ "size").

Ltac dkg_auto :=
  unfold safe, safe_cut, risk_fuel, dkg_params; intros;
  repeat match goal with H : _ /\ _ |- _ => destruct H end;
  lazy [String.append] in *;
  first [apply wp_no_panic | apply wp_returns]; risk_simpl; risk_split; risk_arith.

Theorem np_BLSThresholdKeyGen : forall e,
  safe_cut sponge_cut skel_BLSThresholdKeyGen e.
Proof. dkg_auto. Qed.

(* ---- plain Feldman VSS ---- *)
Theorem np_vss_Start : forall e,
  safe_cut sponge_cut skel_feldmanVSSstate_Start e.
Proof. dkg_auto. Qed.

Theorem np_vss_HandleBroadcastMsg : forall e,
  dkg_params e "s." -> 0 <= e "msg" ->
  safe skel_feldmanVSSstate_HandleBroadcastMsg e.
Proof. dkg_auto. Qed.

Theorem np_vss_HandlePrivateMsg : forall e,
  dkg_params e "s." -> 0 <= e "msg" ->
  (e "s.y" = e "s.size" \/ (e "s.y" = 0 /\ e "nil?s.y" = 1)) ->
  safe skel_feldmanVSSstate_HandlePrivateMsg e.
Proof. dkg_auto. Qed.

Theorem np_vss_End : forall e,
  dkg_params e "s." ->
  (e "s.validKey" <> 0 -> e "s.vA" = e "s.threshold" + 1 /\ e "s.y" = e "s.size") ->
  safe skel_feldmanVSSstate_End e.
Proof. dkg_auto. Qed.

(* ---- Feldman VSS with complaints (Qual) ---- *)
(* an accepted verification vector: s.y and s.vA have their full sizes (fields read under
   prefix p, with the oracle suffix sfx of the program point) *)
Definition qual_vectors (e : env) (p sfx : string) : Prop :=
  e (p ++ "vAReceived" ++ sfx) <> 0 -> e (p ++ "disqualified" ++ sfx) = 0 ->
  e (p ++ "y" ++ sfx) = e (p ++ "size") /\ e (p ++ "vA" ++ sfx) = e (p ++ "threshold") + 1.

Theorem np_qual_HandleBroadcastMsg : forall e,
  dkg_params e "s." -> 0 <= e "msg" -> 0 <= e "s.dealerIndex" < e "s.size" ->
  qual_vectors e "s." "" ->
  (e "s.myIndex" = e "s.dealerIndex" -> e "s.a" = e "s.threshold" + 1) ->
  0 <= e "complainer@key1" < e "s.size" ->
  e "ok?s.complaints[complainee]" = 1 ->
  safe skel_feldmanVSSQualState_HandleBroadcastMsg e.
Proof. unfold qual_vectors. dkg_auto. Qed.

Theorem np_qual_HandlePrivateMsg : forall e,
  dkg_params e "s." -> 0 <= e "msg" -> 0 <= e "s.dealerIndex" < e "s.size" ->
  qual_vectors e "s." "" ->
  safe skel_feldmanVSSQualState_HandlePrivateMsg e.
Proof. unfold qual_vectors. dkg_auto. Qed.

Theorem np_qual_NextTimeout : forall e,
  dkg_params e "s." -> qual_vectors e "s." "" ->
  safe skel_feldmanVSSQualState_NextTimeout e.
Proof. unfold qual_vectors. dkg_auto. Qed.

(* End is only passed with both timeouts set; a dealer that is still not disqualified then
   (value of the flag after the unanswered-complaint loop) has delivered a valid vector *)
Theorem np_qual_End : forall e,
  dkg_params e "s." ->
  (e "s.disqualified@E1" = 0 -> e "s.vA" = e "s.threshold" + 1 /\ e "s.y" = e "s.size") ->
  safe skel_feldmanVSSQualState_End e.
Proof. dkg_auto. Qed.
