(* Big-endian byte strings <-> integers, over the Z instance of Model/BlsCodec.v. *)
From Coq Require Import ZArith NArith List Bool Lia.
From V Require Import Lib.Num Lib.ListX Prim.Bls12 Model.BlsCodec.
Import ListNotations.
Open Scope Z_scope.

Definition wf (b : list N) : Prop := Forall (fun x => (x < 256)%N) b.

Lemma wf_app a b : wf (a ++ b) <-> wf a /\ wf b.
Proof. apply Forall_app. Qed.

Definition osZ := os2ip ZNum.
Definition i2Z := i2osp ZNum.

Lemma osZ_snoc b x : osZ (b ++ [x]) = osZ b * 256 + Z.of_N x.
Proof. unfold osZ, os2ip. rewrite fold_left_app. reflexivity. Qed.

Lemma osZ_nil : osZ [] = 0. Proof. reflexivity. Qed.

Lemma osZ_bound b : wf b -> 0 <= osZ b < 256 ^ Z.of_nat (length b).
Proof.
  induction b as [|x b IH] using rev_ind; intro H.
  - cbn. lia.
  - apply wf_app in H as [H1 H2]. inversion H2 as [|? ? Hx _]; subst.
    rewrite osZ_snoc, app_length. cbn [length].
    replace (Z.of_nat (length b + 1)) with (Z.succ (Z.of_nat (length b))) by lia.
    rewrite Z.pow_succ_r by lia. specialize (IH H1). lia.
Qed.

Lemma i2Z_S k v : i2Z (S k) v = i2Z k (v / 256) ++ [Z.to_N (v mod 256)].
Proof. unfold i2Z, i2osp. cbn [i2osp_rev rev]. reflexivity. Qed.

Lemma i2Z_length k v : length (i2Z k v) = k.
Proof.
  revert v; induction k as [|k IH]; intro v; [reflexivity|].
  rewrite i2Z_S, app_length, IH. cbn. lia.
Qed.

Lemma i2Z_wf k v : wf (i2Z k v).
Proof.
  revert v; induction k as [|k IH]; intro v; [constructor|].
  rewrite i2Z_S. apply wf_app. split; [apply IH|]. constructor; [|constructor].
  pose proof (Z.mod_pos_bound v 256 ltac:(lia)). lia.
Qed.

Lemma i2Z_osZ b : wf b -> i2Z (length b) (osZ b) = b.
Proof.
  induction b as [|x b IH] using rev_ind; intro H; [reflexivity|].
  apply wf_app in H as [H1 H2]. inversion H2 as [|? ? Hx _]; subst.
  rewrite app_length. cbn [length]. replace (length b + 1)%nat with (S (length b)) by lia.
  rewrite i2Z_S, osZ_snoc.
  assert (Hx' : 0 <= Z.of_N x < 256) by lia.
  assert (E1 : (osZ b * 256 + Z.of_N x) / 256 = osZ b).
  { rewrite Z.div_add_l by lia. rewrite Z.div_small by lia. lia. }
  assert (E2 : (osZ b * 256 + Z.of_N x) mod 256 = Z.of_N x).
  { rewrite Z.add_comm, Z.mod_add by lia. apply Z.mod_small; lia. }
  rewrite E1, E2.
  rewrite IH by exact H1. now rewrite N2Z.id.
Qed.

Lemma osZ_i2Z k : forall v, 0 <= v < 256 ^ Z.of_nat k -> osZ (i2Z k v) = v.
Proof.
  induction k as [|k IH]; intros v Hv.
  - cbn in *. lia.
  - rewrite i2Z_S, osZ_snoc. rewrite IH.
    + rewrite Z2N.id by (apply Z.mod_pos_bound; lia). pose proof (Z.div_mod v 256). lia.
    + replace (Z.of_nat (S k)) with (Z.succ (Z.of_nat k)) in Hv by lia.
      rewrite Z.pow_succ_r in Hv by lia. split; [apply Z.div_pos; lia|].
      apply Z.div_lt_upper_bound; lia.
Qed.

(* header byte helpers *)
Lemma set_hd_hd0 b : b <> [] -> set_hd b (hd0 b) = b.
Proof. destruct b; [congruence|reflexivity]. Qed.
Lemma set_hd_set_hd b x y : set_hd (set_hd b x) y = set_hd b y.
Proof. destruct b; reflexivity. Qed.
Lemma hd0_set_hd b x : b <> [] -> hd0 (set_hd b x) = x.
Proof. destruct b; [congruence|reflexivity]. Qed.
Lemma set_hd_length b x : length (set_hd b x) = length b.
Proof. destruct b; reflexivity. Qed.
Lemma set_hd_wf b x : wf b -> (x < 256)%N -> wf (set_hd b x).
Proof. destruct b; intros H Hx; [constructor|]. inversion H; subst. constructor; assumption. Qed.

Lemma all_zero_repeat l : all_zero l = true -> l = repeat 0%N (length l).
Proof.
  induction l as [|x l IH]; intro H; [reflexivity|]. cbn in H.
  apply andb_prop in H as [H1 H2]. apply N.eqb_eq in H1. subst x. cbn. f_equal. apply IH; exact H2.
Qed.

(* finite sweep over one byte *)
Lemma byte_sweep (P : N -> bool) :
  forallb P (map N.of_nat (seq 0 256)) = true -> forall h, (h < 256)%N -> P h = true.
Proof.
  intros H h Hh. rewrite forallb_forall in H. apply H.
  apply in_map_iff. exists (N.to_nat h). split; [apply N2Nat.id|]. apply in_seq. lia.
Qed.
