(* C08, Feldman-VSS-Qual at an honest non-dealer: consequences of the refinement for fairness. *)
From Coq Require Import ZArith List Bool Arith Lia.
From V Require Import Model.DkgVss Model.DkgQual Spec.DkgApiSpec Spec.DkgQualFacts
  Proofs.DkgTactics Proofs.DkgC10Proofs Proofs.DkgQualRefine Proofs.DkgAgree Proofs.DkgQualEvents.
Import ListNotations.
Open Scope Z_scope.

Local Opaque peval fixpoly r.
Arguments nph : simpl never.

Section Fair.
Variable cf : cfg.
Variable d : nat.
Hypothesis Hp : (c_my cf < c_n cf)%nat.
Hypothesis Hd : (d < c_n cf)%nat.
Hypothesis Hpd : c_my cf <> d.
Let n := c_n cf.
Let t := c_t cf.
Let p := c_my cf.

Definition end_result (L : list item) : result :=
  let '(_, _, res, _) := q_end cf d true (irun cf d q_init L) in res.

(* ---------------- a bad dealer is disqualified ---------------- *)
Definition bad_dealing (A : alist) : Prop :=
  vecF d A = None                                   (* no vector before the shares timeout: missing or late *)
  \/ badVec d A = true                               (* malformed vector (wrong size / unreadable point) *)
  \/ Nat.ltb t (nkeys cf d A) = true                 (* more than t complaints at the complaints timeout *)
  \/ (exists c, (c < n)%nat /\ complained cf d A c = true /\ ansF cf d A c = None)      (* unanswered *)
  \/ (exists c a z, (c < n)%nat /\ complained cf d A c = true /\ vecOk cf d A = Some a /\
                    ansF cf d A c = Some z /\ (readable z = false \/ z <> peval a (Z.of_nat c + 1))).

Lemma existsb_true_in {X} (f : X -> bool) l x : In x l -> f x = true -> existsb f l = true.
Proof. intros. apply existsb_exists. eauto. Qed.

Theorem bad_dealer_disqualified L :
  ph L = 2%nat -> bad_dealing (annot L) -> end_result L = RFailure.
Proof.
  intros Hph HB. unfold end_result.
  pose proof (qual_end_result cf d Hp Hd Hpd L Hph) as HR. cbn zeta in HR.
  destruct (q_end cf d true (irun cf d q_init L)) as [[[r1 q1] res] ev]. destruct HR as [H1 _]. apply H1.
  set (A := annot L) in *. assert (Hn : nph A = 2%nat) by (unfold A; rewrite nph_annot; exact Hph).
  unfold PhiEnd. destruct HB as [HB|[HB|[HB|[HB|HB]]]].
  - assert (E : Phi cf d A = true); [|rewrite E; reflexivity].
    apply Phi_of_noVec. unfold noVec. rewrite Hn, HB. reflexivity.
  - assert (E : Phi cf d A = true); [|rewrite E; reflexivity]. apply Phi_of_badVec. exact HB.
  - assert (E : Phi cf d A = true); [|rewrite E; reflexivity].
    apply Phi_of_tooMany. unfold tooMany. rewrite Hn. exact HB.
  - destruct HB as (c & Hc & Hcm & Ha). apply orb_true_iff. right. unfold unansweredF.
    apply (existsb_true_in _ _ c); [apply in_seq; unfold n in Hc; lia|]. rewrite Hcm, Ha. reflexivity.
  - destruct HB as (c & a & z & Hc & Hcm & Ea & Ez & Hw).
    assert (E : Phi cf d A = true); [|rewrite E; reflexivity].
    destruct (readable z) eqn:Hr.
    + apply Phi_of_wrongAns. unfold wrongAns. rewrite Ea.
      apply (existsb_true_in _ _ c); [apply in_seq; unfold n in Hc; lia|]. rewrite Hcm, Ez, Hr. cbn.
      destruct Hw as [Hw|Hw]; [discriminate Hw|]. apply negb_true_iff. apply Z.eqb_neq. exact Hw.
    + unfold Phi. assert (E3 : badFirst cf d A = true).
      { unfold badFirst. apply (existsb_true_in _ _ c); [apply in_seq; unfold n in Hc; lia|]. rewrite Ez, Hr. reflexivity. }
      rewrite E3. rewrite !orb_true_r. reflexivity.
Qed.

(* ---------------- an honest dealer is never disqualified ---------------- *)
(* the dealer's polynomial a (t+1 coefficients in [0,r)); what an honest dealer sends: its
   vector (phase 0), to p the share P(p+1) (phase 0), and for complainers c their share
   P(c+1); nothing else *)
Definition honest_bcast (a : list Z) (k : nat) (m : msg) : Prop :=
  (m = MVec (VOk a) /\ k = 0%nat) \/
  (exists c, (c < n)%nat /\ m = MAnswer (AVal (Z.of_nat c) (peval a (Z.of_nat c + 1)))).

Definition honest_dealer_log (a : list Z) (A : alist) : Prop :=
  fixpoly t a = a /\
  (forall k m, In (k, IB d m) A -> honest_bcast a k m) /\
  In (0%nat, IB d (MVec (VOk a))) A /\
  (forall k m, In (k, IP d m) A -> m = MShare (SVal (peval a (Z.of_nat p + 1))) /\ k = 0%nat) /\
  (exists k, In (k, IP d (MShare (SVal (peval a (Z.of_nat p + 1))))) A) /\
  forced d A = false /\
  (forall c, (c < n)%nat -> readable (peval a (Z.of_nat c + 1)) = true).

Section HonestDealer.
Variables (a : list Z) (A : alist).
Hypothesis HL : honest_dealer_log a A.

Lemma hd_vecF_some : forall A0, (forall k m, In (k, IB d m) A0 -> honest_bcast a k m) ->
  vecF d A0 = None \/ vecF d A0 = Some (VOk a).
Proof.
  induction A0 as [|[k x] A0 IH]; intro H; cbn; [left; reflexivity|].
  assert (IH' : vecF d A0 = None \/ vecF d A0 = Some (VOk a)) by (apply IH; intros; apply H; right; assumption).
  destruct x as [o m| | |]; try exact IH'. destruct m; try exact IH'.
  destruct (Nat.eqb_spec o d) as [->|]; cbn; [|exact IH'].
  destruct (H k (MVec v) (or_introl eq_refl)) as [[E Ek]|[c [_ E]]]; [|discriminate E].
  inversion E; subst. cbn. right. reflexivity.
Qed.

Lemma hd_vecF_in : forall A0, (forall k m, In (k, IB d m) A0 -> honest_bcast a k m) ->
  In (0%nat, IB d (MVec (VOk a))) A0 -> vecF d A0 = Some (VOk a).
Proof.
  induction A0 as [|[k x] A0 IH]; intros H Hin; [contradiction|]. cbn.
  assert (Hrest : forall k m, In (k, IB d m) A0 -> honest_bcast a k m) by (intros; apply H; right; assumption).
  destruct Hin as [E|Hin].
  - inversion E; subst. rewrite !Nat.eqb_refl. reflexivity.
  - specialize (IH Hrest Hin). destruct x as [o m| | |]; try exact IH. destruct m; try exact IH.
    destruct (Nat.eqb_spec o d) as [->|]; cbn; [|exact IH].
    destruct (H k (MVec v) (or_introl eq_refl)) as [[E Ek]|[c [_ E]]]; [|discriminate E].
    inversion E; subst. reflexivity.
Qed.

Lemma hd_vecOk : vecOk cf d A = Some a.
Proof.
  destruct HL as (Hfix & Hb & Hv & _). unfold vecOk. rewrite (hd_vecF_in A Hb Hv). fold t. rewrite Hfix. reflexivity.
Qed.

Lemma hd_fatal : forall A0, (forall k m, In (k, IB d m) A0 -> honest_bcast a k m) -> fatal cf d A0 = false.
Proof.
  induction A0 as [|[k x] A0 IH]; intro H; cbn; [reflexivity|].
  assert (IH' : fatal cf d A0 = false) by (apply IH; intros; apply H; right; assumption).
  destruct x as [o m| | |]; try exact IH'. rewrite IH', orb_false_r.
  destruct (Nat.eqb_spec o d) as [->|]; cbn; [|reflexivity].
  destruct (H k m (or_introl eq_refl)) as [[E Ek]|[c [Hc E]]]; subst m; cbn; [reflexivity|].
  apply Z.leb_gt. unfold n in Hc. lia.
Qed.

Lemma hd_ansF : forall A0 c z, (forall k m, In (k, IB d m) A0 -> honest_bcast a k m) ->
  ansF cf d A0 c = Some z -> z = peval a (Z.of_nat c + 1).
Proof.
  induction A0 as [|[k x] A0 IH]; intros c z H E; cbn in E; [discriminate E|].
  assert (Hrest : forall k m, In (k, IB d m) A0 -> honest_bcast a k m) by (intros; apply H; right; assumption).
  destruct x as [o m| | |]; try (apply (IH c z Hrest E)).
  destruct (answer_for cf d c o m) as [z0|] eqn:Ea; [|apply (IH c z Hrest E)].
  inversion E; subst z0. destruct (answer_for_lt cf d Hp Hd Hpd c o m z Ea) as [_ ->].
  destruct (H k m (or_introl eq_refl)) as [[Em _]|[c' [Hc' Em]]]; subst m; cbn in Ea; [discriminate Ea|].
  rewrite Nat.eqb_refl, Nat2Z.id in Ea. cbn in Ea.
  destruct (Z.of_nat (c_n cf) <=? Z.of_nat c'); cbn in Ea; [discriminate Ea|].
  destruct (Nat.eqb_spec c' c) as [->|]; [inversion Ea; reflexivity|discriminate Ea].
Qed.

Lemma hd_shF : forall A0,
  (forall k m, In (k, IP d m) A0 -> m = MShare (SVal (peval a (Z.of_nat p + 1))) /\ k = 0%nat) ->
  (exists k, In (k, IP d (MShare (SVal (peval a (Z.of_nat p + 1))))) A0) ->
  shF d A0 = Some (MShare (SVal (peval a (Z.of_nat p + 1)))).
Proof.
  induction A0 as [|[k x] A0 IH]; intros H [k0 Hin]; [contradiction|]. cbn.
  assert (Hrest : forall k m, In (k, IP d m) A0 -> m = MShare (SVal (peval a (Z.of_nat p + 1))) /\ k = 0%nat)
    by (intros; apply H; right; assumption).
  destruct x as [o m|o m| |].
  - apply IH; auto. destruct Hin as [E|Hin]; [discriminate E|eauto].
  - destruct (Nat.eqb_spec o d) as [->|Ho]; cbn.
    + destruct (H k m (or_introl eq_refl)) as [-> ->]. reflexivity.
    + apply IH; auto. destruct Hin as [E|Hin]; [inversion E; subst; contradiction|eauto].
  - apply IH; auto. destruct Hin as [E|Hin]; [discriminate E|eauto].
  - apply IH; auto. destruct Hin as [E|Hin]; [discriminate E|eauto].
Qed.

Lemma hd_ownc : ownc cf d A = false.
Proof.
  destruct HL as (Hfix & Hb & Hv & Hs & Hse & Hf & Hr).
  unfold ownc. rewrite (hd_shF A Hs Hse), hd_vecOk. fold p. rewrite (Hr p Hp), Z.eqb_refl. reflexivity.
Qed.

(* with at most t complainers, all of them answered, the verdict is clean *)
Theorem honest_dealer_clean :
  tooMany cf d A = false -> unansweredF cf d A = false -> PhiEnd cf d A = false.
Proof.
  intros HT HU. pose proof HL as (Hfix & Hb & Hv & Hs & Hse & Hf & Hr).
  unfold PhiEnd. rewrite HU, orb_false_r.
  apply Phi_false_intro; auto.
  - apply hd_fatal. exact Hb.
  - unfold badFirst. destruct (existsb _ (seq 0 (c_n cf))) eqn:E; [|reflexivity].
    apply existsb_exists in E as (c & Hin & Hc). destruct (ansF cf d A c) as [z|] eqn:Ez; [|discriminate Hc].
    rewrite (hd_ansF A c z Hb Ez) in Hc. apply in_seq in Hin. rewrite (Hr c) in Hc by (unfold n; lia). discriminate Hc.
  - unfold badVec. rewrite (hd_vecF_in A Hb Hv). reflexivity.
  - unfold noVec. rewrite (hd_vecF_in A Hb Hv). apply andb_false_r.
  - unfold wrongAns. rewrite hd_vecOk. destruct (existsb _ (seq 0 (c_n cf))) eqn:E; [|reflexivity].
    apply existsb_exists in E as (c & Hin & Hc). apply andb_prop in Hc as [_ Hc].
    destruct (ansF cf d A c) as [z|] eqn:Ez; [|discriminate Hc].
    rewrite (hd_ansF A c z Hb Ez), Z.eqb_refl in Hc. rewrite andb_false_r in Hc. discriminate Hc.
Qed.

End HonestDealer.

(* C08 honest_dealer_never_disqualified: End returns the keys of the honest dealer *)
Theorem honest_dealer_never_disqualified L a0 al :
  ph L = 2%nat -> honest_dealer_log (a0 :: al) (annot L) -> a0 <> 0 ->
  tooMany cf d (annot L) = false -> unansweredF cf d (annot L) = false ->
  end_result L = RKeys (peval (a0 :: al) (Z.of_nat p + 1)) a0 (pubkeys cf (a0 :: al)).
Proof.
  intros Hph HL Ha0 HT HU. unfold end_result.
  pose proof (qual_end_result cf d Hp Hd Hpd L Hph) as HR. cbn zeta in HR.
  destruct (q_end cf d true (irun cf d q_init L)) as [[[r1 q1] res] ev]. destruct HR as [_ H2].
  destruct (H2 (honest_dealer_clean (a0 :: al) (annot L) HL HT HU)) as (b0 & bl & Eb & Er).
  rewrite (hd_vecOk (a0 :: al) (annot L) HL) in Eb. inversion Eb; subst b0 bl.
  rewrite Er. destruct (a0 =? 0) eqn:E0; [apply Z.eqb_eq in E0; contradiction|reflexivity].
Qed.

(* ---------------- an honest dealer is never flagged ---------------- *)
Lemma Phi_extends : forall L2 L1, Phi cf d (annot L1) = true -> Phi cf d (annot (L1 ++ L2)) = true.
Proof.
  induction L2 as [|x L2 IH]; intros L1 H; [rewrite app_nil_r; exact H|].
  replace (L1 ++ x :: L2) with ((L1 ++ [x]) ++ L2) by (rewrite <- app_assoc; reflexivity).
  apply IH. rewrite (annot_app). apply (Phi_mono cf d Hp Hd Hpd). exact H.
Qed.

Lemma ownc_extends : forall L2 L1, ownc cf d (annot L1) = true -> ownc cf d (annot (L1 ++ L2)) = true.
Proof.
  induction L2 as [|x L2 IH]; intros L1 H; [rewrite app_nil_r; exact H|].
  replace (L1 ++ x :: L2) with ((L1 ++ [x]) ++ L2) by (rewrite <- app_assoc; reflexivity).
  apply IH. rewrite (annot_app). apply (ownc_mono cf d Hp Hd Hpd). exact H.
Qed.

Lemma own_recv_abs A q : StateAbs cf d A q -> own_recv cf q = ownc cf d A.
Proof.
  intro S. unfold own_recv. rewrite (sa_compl _ _ _ _ S (c_my cf)). unfold complained. rewrite Nat.eqb_refl.
  destruct (ownc cf d A), (ansF cf d A (c_my cf)); reflexivity.
Qed.

(* L: a complete input list with a clean verdict and no own complaint; the dealer's private
   message and vector are its first ones, arrive in phase 0, the share is readable; the dealer
   never repeats an answer and sends no complaint after the complaints timeout *)
Definition dealer_on_time (L : list item) : Prop :=
  (forall L1 m L2, L = L1 ++ IP d m :: L2 ->
     ph L1 = 0%nat /\ shF d (annot L1) = None /\ ~ share_malformed m) /\
  (forall L1 vb L2, L = L1 ++ IB d (MVec vb) :: L2 -> ph L1 = 0%nat /\ vecF d (annot L1) = None) /\
  (forall L1 b z L2, L = L1 ++ IB d (MAnswer (AVal b z)) :: L2 -> ansF cf d (annot L1) (Z.to_nat b) = None) /\
  (forall L1 cb L2, L = L1 ++ IB d (MComplaint cb) :: L2 -> (ph L1 < 2)%nat).

(* an executable criterion for [dealer_on_time] *)
Fixpoint all_splits (L : list item) : list (list item * item * list item) :=
  match L with
  | [] => []
  | x :: L' => ([], x, L') :: map (fun s => let '(a, y, b) := s in (x :: a, y, b)) (all_splits L')
  end.

Lemma all_splits_complete : forall L L1 x L2, L = L1 ++ x :: L2 -> In (L1, x, L2) (all_splits L).
Proof.
  induction L as [|y L IH]; intros L1 x L2 E; [destruct L1; discriminate E|].
  destruct L1 as [|z L1]; cbn in E; inversion E; subst; cbn [all_splits].
  - left. reflexivity.
  - right. apply in_map_iff. exists (L1, x, L2). split; [reflexivity|]. apply IH. reflexivity.
Qed.

Definition is_noneb {X} (o : option X) : bool := match o with None => true | Some _ => false end.

Definition on_time_split (s : list item * item * list item) : bool :=
  let '(L1, x, _) := s in
  match x with
  | IP o m => if Nat.eqb o d then
                Nat.eqb (ph L1) 0 && is_noneb (shF d (annot L1)) &&
                match m with MShare (SVal z) => readable z | _ => false end
              else true
  | IB o (MVec _) => if Nat.eqb o d then Nat.eqb (ph L1) 0 && is_noneb (vecF d (annot L1)) else true
  | IB o (MAnswer (AVal b _)) => if Nat.eqb o d then is_noneb (ansF cf d (annot L1) (Z.to_nat b)) else true
  | IB o (MComplaint _) => if Nat.eqb o d then Nat.ltb (ph L1) 2 else true
  | _ => true
  end.

Lemma dealer_on_time_check L : forallb on_time_split (all_splits L) = true -> dealer_on_time L.
Proof.
  intro H. rewrite forallb_forall in H.
  assert (Hs : forall L1 x L2, L = L1 ++ x :: L2 -> on_time_split (L1, x, L2) = true)
    by (intros; apply H; apply all_splits_complete; assumption).
  unfold dealer_on_time. split; [|split; [|split]].
  - intros L1 m L2 E. specialize (Hs _ _ _ E). cbn in Hs. rewrite Nat.eqb_refl in Hs.
    apply andb_prop in Hs as [Hs H3]. apply andb_prop in Hs as [H1 H2]. apply Nat.eqb_eq in H1.
    split; [exact H1|]. split; [destruct (shF d (annot L1)); [discriminate H2|reflexivity]|].
    destruct m as [|sb|vb|cb|ab|tg]; try discriminate H3. destruct sb as [|z]; [discriminate H3|].
    cbn. rewrite H3. discriminate.
  - intros L1 vb L2 E. specialize (Hs _ _ _ E). cbn in Hs. rewrite Nat.eqb_refl in Hs.
    apply andb_prop in Hs as [H1 H2]. apply Nat.eqb_eq in H1.
    split; [exact H1|destruct (vecF d (annot L1)); [discriminate H2|reflexivity]].
  - intros L1 b z L2 E. specialize (Hs _ _ _ E). cbn in Hs. rewrite Nat.eqb_refl in Hs.
    destruct (ansF cf d (annot L1) (Z.to_nat b)); [discriminate Hs|reflexivity].
  - intros L1 cb L2 E. specialize (Hs _ _ _ E). cbn in Hs. rewrite Nat.eqb_refl in Hs.
    apply Nat.ltb_lt. exact Hs.
Qed.

Theorem honest_dealer_never_flagged L :
  Phi cf d (annot L) = false -> ownc cf d (annot L) = false -> dealer_on_time L ->
  ~ In (EvFlag d) (irun_events cf d q_init L).
Proof.
  intros HP HO (U1 & U2 & U3 & U4) Hin.
  destruct (irun_events_split cf d L q_init _ Hin) as (L1 & x & L2 & EL & Hx).
  apply istep_flag_cause in Hx.
  (* the state before and after the step is clean *)
  assert (P1 : Phi cf d (annot L1) = false).
  { destruct (Phi cf d (annot L1)) eqn:E; [|reflexivity]. rewrite EL in HP. rewrite (Phi_extends (x :: L2) L1 E) in HP. discriminate HP. }
  assert (P2 : Phi cf d (annot (L1 ++ [x])) = false).
  { destruct (Phi cf d (annot (L1 ++ [x]))) eqn:E; [|reflexivity]. rewrite EL in HP.
    replace (L1 ++ x :: L2) with ((L1 ++ [x]) ++ L2) in HP by (rewrite <- app_assoc; reflexivity).
    rewrite (Phi_extends L2 _ E) in HP. discriminate HP. }
  assert (O2 : ownc cf d (annot (L1 ++ [x])) = false).
  { destruct (ownc cf d (annot (L1 ++ [x]))) eqn:E; [|reflexivity]. rewrite EL in HO.
    replace (L1 ++ x :: L2) with ((L1 ++ [x]) ++ L2) in HO by (rewrite <- app_assoc; reflexivity).
    rewrite (ownc_extends L2 _ E) in HO. discriminate HO. }
  pose proof (qual_refines_factset cf d Hp Hd Hpd L1) as [R1 R1'].
  pose proof (qual_refines_factset cf d Hp Hd Hpd (L1 ++ [x])) as [R2 R2'].
  set (q := irun cf d q_init L1) in *.
  assert (Eq' : irun cf d q_init (L1 ++ [x]) = fst (istep cf d q x)).
  { unfold irun. rewrite fold_left_app. reflexivity. }
  rewrite Eq' in R2, R2'. set (q' := fst (istep cf d q x)) in *.
  assert (D1 : q_disq q = false) by (destruct (q_disq q); [rewrite (R1' eq_refl) in P1; discriminate P1|reflexivity]).
  assert (D2 : q_disq q' = false) by (destruct (q_disq q'); [rewrite (R2' eq_refl) in P2; discriminate P2|reflexivity]).
  destruct (R1 D1) as [S1 _]. destruct (R2 D2) as [S2 _].
  assert (W2 : own_recv cf q' = false) by (rewrite (own_recv_abs _ _ S2); exact O2).
  pose proof (sa_st _ _ _ _ S1) as Hst. pose proof (sa_ct _ _ _ _ S1) as Hct. rewrite nph_annot in Hst, Hct.
  destruct x as [o m|o m| |j]; cbn [flag_cause] in Hx.
  - destruct m as [|sb|vb|cb|ab|tg]; try contradiction.
    + destruct Hx as [-> Hx]. destruct (U2 L1 vb L2 EL) as [Hph Hv].
      rewrite Hst, Hph, (sa_vr _ _ _ _ S1), Hv, D2, W2 in Hx. cbn in Hx. intuition discriminate.
    + destruct Hx as [-> Hx]. pose proof (U4 L1 cb L2 EL) as Hph.
      rewrite Hct in Hx. apply Nat.leb_le in Hx. lia.
    + destruct Hx as [-> Hx]. destruct ab as [|b z]; [contradiction|]. cbn in Hx.
      rewrite (sa_compl _ _ _ _ S1 (Z.to_nat b)), (U3 L1 b z L2 EL) in Hx.
      destruct (complained cf d (annot L1) (Z.to_nat b)); cbn in Hx; [discriminate Hx|contradiction].
  - destruct Hx as [-> Hx]. destruct (U1 L1 m L2 EL) as (Hph & Hs & Hm).
    rewrite Hst, Hph, (sa_xr _ _ _ _ S1), Hs, D2, W2 in Hx. cbn in Hx. intuition discriminate.
  - rewrite D2, W2 in Hx. intuition discriminate.
  - contradiction.
Qed.

(* C08 honest_dealer_never_disqualified + honest_never_flagged for the dealer: no callback ever
   names an honest dealer *)
Theorem honest_dealer_never_blamed L a :
  ph L = 2%nat -> honest_dealer_log a (annot L) ->
  tooMany cf d (annot L) = false -> unansweredF cf d (annot L) = false -> dealer_on_time L ->
  ~ In (EvDisq d) (irun_events cf d q_init L) /\ ~ In (EvFlag d) (irun_events cf d q_init L).
Proof.
  intros Hph HL HT HU HD.
  pose proof (honest_dealer_clean a (annot L) HL HT HU) as HPE.
  assert (HP : Phi cf d (annot L) = false) by (unfold PhiEnd in HPE; apply orb_false_iff in HPE as [HP _]; exact HP).
  split.
  - apply no_disq_event. pose proof (qual_refines_factset cf d Hp Hd Hpd L) as [_ R2].
    destruct (q_disq (irun cf d q_init L)); [rewrite (R2 eq_refl) in HP; discriminate HP|reflexivity].
  - apply honest_dealer_never_flagged; auto. apply (hd_ownc a (annot L) HL).
Qed.

(* ---------------- the own complaint is broadcast exactly when it is registered ---------------- *)
Definition emits_complaint (L : list item) : Prop := In (cmp d) (irun_events cf d q_init L).

Lemma ownc_nil : ownc cf d (annot []) = false.
Proof. reflexivity. Qed.

Lemma ownc_flip : forall L, ownc cf d (annot L) = true ->
  exists L1 x L2, L = L1 ++ x :: L2 /\ ownc cf d (annot L1) = false /\ ownc cf d (annot (L1 ++ [x])) = true.
Proof.
  intro L. rewrite <- (rev_involutive L). induction (rev L) as [|x K IH]; cbn [rev]; intro H.
  - rewrite ownc_nil in H. discriminate H.
  - destruct (ownc cf d (annot (rev K))) eqn:E.
    + destruct (IH eq_refl) as (L1 & y & L2 & EL & E1 & E2).
      exists L1, y, (L2 ++ [x]). split; [rewrite EL, <- app_assoc; reflexivity|auto].
    + exists (rev K), x, []. auto.
Qed.

(* as long as the participant does not disqualify the dealer, it broadcasts its complaint if
   and only if [ownc] holds: the declarative own complaint of Model/DkgNet.v is the one the other
   participants receive *)
Theorem own_complaint_emitted_iff L :
  Phi cf d (annot L) = false -> (emits_complaint L <-> ownc cf d (annot L) = true).
Proof.
  intro HP. unfold emits_complaint.
  assert (Hclean : forall L1 L2, L = L1 ++ L2 -> q_disq (irun cf d q_init L1) = false /\ StateAbs cf d (annot L1) (irun cf d q_init L1)).
  { intros L1 L2 EL. pose proof (qual_refines_factset cf d Hp Hd Hpd L1) as [R1 R2].
    assert (P1 : Phi cf d (annot L1) = false).
    { destruct (Phi cf d (annot L1)) eqn:E; [|reflexivity]. rewrite EL, (Phi_extends L2 L1 E) in HP. discriminate HP. }
    assert (D1 : q_disq (irun cf d q_init L1) = false).
    { destruct (q_disq (irun cf d q_init L1)); [rewrite (R2 eq_refl) in P1; discriminate P1|reflexivity]. }
    split; [exact D1|apply R1; exact D1]. }
  split.
  - intro Hin. destruct (irun_events_split cf d L q_init _ Hin) as (L1 & x & L2 & EL & Hx).
    apply istep_cmp_cause in Hx.
    destruct (Hclean (L1 ++ [x]) L2) as [D2 S2]; [rewrite EL, <- app_assoc; reflexivity|].
    assert (Eq' : irun cf d q_init (L1 ++ [x]) = fst (istep cf d (irun cf d q_init L1) x)).
    { unfold irun. rewrite fold_left_app. reflexivity. }
    rewrite <- Eq' in Hx. destruct Hx as [Hx|Hx]; [congruence|].
    rewrite (own_recv_abs _ _ S2) in Hx.
    rewrite EL. replace (L1 ++ x :: L2) with ((L1 ++ [x]) ++ L2) by (rewrite <- app_assoc; reflexivity).
    apply ownc_extends. exact Hx.
  - intro HO. destruct (ownc_flip L HO) as (L1 & x & L2 & EL & E1 & E2).
    destruct (Hclean L1 (x :: L2) EL) as [D1 S1].
    destruct (Hclean (L1 ++ [x]) L2) as [D2 S2]; [rewrite EL, <- app_assoc; reflexivity|].
    assert (Eq' : irun cf d q_init (L1 ++ [x]) = fst (istep cf d (irun cf d q_init L1) x)).
    { unfold irun. rewrite fold_left_app. reflexivity. }
    rewrite Eq' in S2.
    pose proof (istep_recv cf d (irun cf d q_init L1) x) as HR.
    rewrite (own_recv_abs _ _ S1), (own_recv_abs _ _ S2) in HR. specialize (HR E1 E2).
    rewrite EL, irun_events_app. apply in_or_app. right. cbn [irun_events]. apply in_or_app. left. exact HR.
Qed.

End Fair.
