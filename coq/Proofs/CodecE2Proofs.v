(* C05, G2 side (Z instance): E2_read_bytes accepts only strings that E2_write_bytes reproduces,
   every accepted finite point has reduced coordinates and satisfies y^2 = x^3 + 4(1+u), and the
   curve has no point with y = 0 (so the sign bit is always meaningful).
   The last fact goes through the norm F_p^2 -> F_p: x^3 = -4(1+u) would give N(x)^3 = 32 in F_p,
   and 32 is not a cube there (computed power, Fermat for the prime p). *)
From Coq Require Import ZArith NArith List Bool Lia Zpow_facts.
From V Require Import Lib.Num Lib.ListX Lib.FermatZ Prim.Bls12 Model.BlsCodec Proofs.ModArith
  Proofs.BytesZ Proofs.CodecProofs.
Import ListNotations.
Open Scope Z_scope.

Definition inF (a : Z) : Prop := 0 <= a < pZ.
Definition inF2 (a : Z * Z) : Prop := inF (fst a) /\ inF (snd a).

Local Notation f2m := (f2mul ZNum pZ).
Local Notation f2a := (f2add ZNum pZ).
Local Notation f2n := (f2neg ZNum pZ).

Lemma pZ_gt : 1000 < pZ. Proof. exact (proj1 pZ_lt). Qed.

(* ---- explicit forms over Z ---- *)
Lemma f2mul_Z a b :
  f2m a b = (((fst a * fst b) mod pZ - (snd a * snd b) mod pZ) mod pZ,
             ((fst a * snd b) mod pZ + (snd a * fst b) mod pZ) mod pZ).
Proof. reflexivity. Qed.
Lemma f2add_Z a b : f2a a b = ((fst a + fst b) mod pZ, (snd a + snd b) mod pZ).
Proof. reflexivity. Qed.
Lemma f2neg_Z a : f2n a = ((pZ - fst a) mod pZ, (pZ - snd a) mod pZ).
Proof. reflexivity. Qed.

Lemma f2mul_in a b : inF2 (f2m a b).
Proof. pose proof pZ_gt. rewrite f2mul_Z. split; cbn [fst snd]; apply Z.mod_pos_bound; lia. Qed.
Lemma f2add_in a b : inF2 (f2a a b).
Proof. pose proof pZ_gt. rewrite f2add_Z. split; cbn [fst snd]; apply Z.mod_pos_bound; lia. Qed.
Lemma f2neg_in a : inF2 (f2n a).
Proof. pose proof pZ_gt. rewrite f2neg_Z. split; cbn [fst snd]; apply Z.mod_pos_bound; lia. Qed.

(* ---- the norm ---- *)
Definition norm (a : Z * Z) : Z := (fst a * fst a + snd a * snd a) mod pZ.

Lemma norm_mul a b : norm (f2m a b) = (norm a * norm b) mod pZ.
Proof.
  pose proof pZ_gt as Hp. destruct a as [a0 a1], b as [b0 b1].
  unfold norm. rewrite f2mul_Z. cbn [fst snd].
  rewrite <- Z.mul_mod by lia.
  set (u := (a0 * b0) mod pZ - (a1 * b1) mod pZ).
  set (v := (a0 * b1) mod pZ + (a1 * b0) mod pZ).
  rewrite Z.add_mod by lia. rewrite <- !Z.mul_mod by lia. rewrite <- Z.add_mod by lia.
  assert (Eu : u mod pZ = (a0 * b0 - a1 * b1) mod pZ) by (unfold u; rewrite <- Zminus_mod; reflexivity).
  assert (Ev : v mod pZ = (a0 * b1 + a1 * b0) mod pZ) by (unfold v; rewrite <- Z.add_mod by lia; reflexivity).
  rewrite (Z.add_mod (u * u)) by lia. rewrite (Z.mul_mod u u), (Z.mul_mod v v) by lia.
  rewrite Eu, Ev. rewrite <- !Z.mul_mod by lia. rewrite <- Z.add_mod by lia.
  f_equal. ring.
Qed.

Lemma norm_add_zero a c : inF2 a -> inF2 c -> f2a a c = (0, 0) -> norm a = norm c.
Proof.
  pose proof pZ_gt as Hp. destruct a as [a0 a1], c as [c0 c1]. unfold inF2, inF. cbn [fst snd].
  intros [Ha0 Ha1] [Hc0 Hc1]. rewrite f2add_Z. cbn [fst snd]. intro H. assert (H0 : (a0 + c0) mod pZ = 0) by congruence. assert (H1 : (a1 + c1) mod pZ = 0) by congruence.
  (* a_i + c_i = 0 or p *)
  assert (E0 : a0 + c0 = 0 \/ a0 + c0 = pZ).
  { destruct (Z.eq_dec (a0 + c0) 0); [left; assumption|right].
    assert (Hd : (a0 + c0) mod pZ = 0) by exact H0.
    apply Z.mod_divide in Hd; [|lia]. destruct Hd as [k Hk].
    assert (0 < k) by nia. assert (k < 2) by nia. assert (k = 1) by lia. subst k. lia. }
  assert (E1 : a1 + c1 = 0 \/ a1 + c1 = pZ).
  { destruct (Z.eq_dec (a1 + c1) 0); [left; assumption|right].
    assert (Hd : (a1 + c1) mod pZ = 0) by exact H1.
    apply Z.mod_divide in Hd; [|lia]. destruct Hd as [k Hk].
    assert (0 < k) by nia. assert (k < 2) by nia. assert (k = 1) by lia. subst k. lia. }
  unfold norm. cbn [fst snd].
  assert (S0 : (a0 * a0) mod pZ = (c0 * c0) mod pZ).
  { destruct E0 as [E|E].
    - assert (a0 = 0) by lia. assert (c0 = 0) by lia. subst. reflexivity.
    - replace a0 with (pZ - c0) by lia.
      replace ((pZ - c0) * (pZ - c0)) with (c0 * c0 + (pZ - 2 * c0) * pZ) by ring.
      apply Z.mod_add. lia. }
  assert (S1 : (a1 * a1) mod pZ = (c1 * c1) mod pZ).
  { destruct E1 as [E|E].
    - assert (a1 = 0) by lia. assert (c1 = 0) by lia. subst. reflexivity.
    - replace a1 with (pZ - c1) by lia.
      replace ((pZ - c1) * (pZ - c1)) with (c1 * c1 + (pZ - 2 * c1) * pZ) by ring.
      apply Z.mod_add. lia. }
  rewrite Z.add_mod by lia. rewrite S0, S1. rewrite <- Z.add_mod by lia. reflexivity.
Qed.

(* ---- 32 is not a cube in F_p ---- *)
Lemma thirtytwo_not_cube : mpow ZNum pZ 32 ((pZ - 1) / 3) <> 1.
Proof. vm_compute. discriminate. Qed.

Lemma norm_b2 : norm (b2 ZNum) = 32.
Proof. vm_compute. reflexivity. Qed.

Section NoTwoTorsion2.
Hypothesis Hpr : primeZ pZ.

Definition rhs2 (x : Z * Z) : Z * Z := f2a (f2m (f2m x x) x) (b2 ZNum).

Lemma b2_in : inF2 (b2 ZNum).
Proof. unfold inF2, inF. vm_compute. repeat split; discriminate. Qed.

Theorem rhs2_nonzero x : rhs2 x <> (0, 0).
Proof.
  intro H0. pose proof pZ_gt as Hp. pose proof pZ_mod3 as H3.
  assert (Hm : 1 < pZ) by lia.
  unfold rhs2 in H0.
  pose proof (norm_add_zero _ _ (f2mul_in (f2m x x) x) b2_in H0) as HN.
  rewrite norm_b2 in HN. rewrite !norm_mul in HN.
  set (n := norm x) in *.
  assert (Hn : 0 <= n < pZ) by (unfold n, norm; apply Z.mod_pos_bound; lia).
  assert (Hc : (n ^ 3) mod pZ = 32).
  { rewrite <- HN. rewrite Z.mul_mod_idemp_l by lia. f_equal. ring. }
  assert (Hnz : n mod pZ <> 0).
  { intro Hz. rewrite Z.mod_small in Hz by lia. rewrite Hz in Hc. change (0 ^ 3) with 0 in Hc.
    rewrite Z.mod_0_l in Hc by lia. discriminate. }
  set (k := (pZ - 1) / 3).
  assert (Hk : pZ - 1 = 3 * k).
  { unfold k. pose proof (Z.div_mod (pZ - 1) 3 ltac:(lia)). lia. }
  assert (Hk0 : 0 < k) by lia.
  pose proof (fermat_unit pZ Hm Hpr n ltac:(lia) Hnz) as F.
  rewrite Hk in F. rewrite Z.pow_mul_r in F by lia.
  rewrite Zpower_mod in F by lia. rewrite Hc in F.
  apply thirtytwo_not_cube. rewrite mpow_Z by lia. exact F.
Qed.
End NoTwoTorsion2.

(* ---- sign of an F_p^2 element ---- *)
Lemma f2sign_Z y : f2sign ZNum y = if (snd y =? 0) then fsign ZNum (fst y) else fsign ZNum (snd y).
Proof. reflexivity. Qed.

Lemma f2sign_neg y : inF2 y -> y <> (0, 0) -> f2sign ZNum (f2n y) = negb (f2sign ZNum y).
Proof.
  pose proof pZ_gt as Hp. destruct y as [y0 y1]. unfold inF2, inF. cbn [fst snd]. intros [H0 H1] Hnz.
  rewrite !f2sign_Z, f2neg_Z. cbn [fst snd].
  destruct (Z.eqb_spec y1 0) as [E1|E1].
  - subst y1. replace ((pZ - 0) mod pZ) with 0 by (rewrite Z.sub_0_r, Z.mod_same; lia).
    cbn [Z.eqb]. assert (y0 <> 0) by (intro; subst; apply Hnz; reflexivity).
    change ((pZ - y0) mod pZ) with (fneg ZNum pZ y0). apply fsign_neg. lia.
  - assert (E : ((pZ - y1) mod pZ =? 0) = false).
    { apply Z.eqb_neq. rewrite Z.mod_small by lia. lia. }
    rewrite E. change ((pZ - y1) mod pZ) with (fneg ZNum pZ y1). apply fsign_neg. lia.
Qed.

(* ---- the checked square root ---- *)
Lemma fsqrt_range a y : inF a -> fsqrt ZNum pZ a = Some y -> inF y.
Proof.
  unfold inF. intros Ha H. apply fsqrt_Z in H; [tauto|exact Ha].
Qed.

Lemma f2eqb_eq a b : f2eqb ZNum a b = true -> a = b.
Proof.
  destruct a, b. unfold f2eqb, feqb. cbn [fst snd n_eqb ZNum]. intro H.
  apply andb_prop in H as [A B]. apply Z.eqb_eq in A, B. subst. reflexivity.
Qed.

Lemma fmul_in a b : inF (fmul ZNum pZ a b).
Proof. pose proof pZ_gt. unfold fmul. rewrite mmul_Z. apply Z.mod_pos_bound. lia. Qed.
Lemma fadd_in a b : inF (fadd ZNum pZ a b).
Proof. pose proof pZ_gt. unfold fadd. rewrite madd_Z. apply Z.mod_pos_bound. lia. Qed.
Lemma fsub_in a b : inF (fsub ZNum pZ a b).
Proof. pose proof pZ_gt. unfold fsub. rewrite msub_Z. apply Z.mod_pos_bound. lia. Qed.
Lemma fneg_in a : inF (fneg ZNum pZ a).
Proof. pose proof pZ_gt. rewrite fneg_Z. apply Z.mod_pos_bound. lia. Qed.

Lemma zero_in : inF 0. Proof. pose proof pZ_gt. unfold inF. lia. Qed.

Theorem f2sqrt_sound a y : inF2 a -> f2sqrt ZNum pZ a = Some y -> inF2 y /\ f2m y y = a.
Proof.
  intros [Ha0 Ha1]. unfold f2sqrt.
  match goal with |- match ?c with _ => _ end = _ -> _ => set (cand := c) end.
  assert (Hc : forall c, cand = Some c -> inF2 c).
  { unfold cand. intros c.
    destruct (feqb ZNum (snd a) (n_of_Z ZNum 0)).
    - destruct (fsqrt ZNum pZ (fst a)) as [s|] eqn:E1.
      + intro H; inversion H; subst c. split; cbn [fst snd]; [|exact zero_in].
        exact (fsqrt_range _ _ Ha0 E1).
      + destruct (fsqrt ZNum pZ (fneg ZNum pZ (fst a))) as [s|] eqn:E2; [|discriminate].
        intro H; inversion H; subst c. split; cbn [fst snd]; [exact zero_in|].
        exact (fsqrt_range _ _ (fneg_in _) E2).
    - destruct (fsqrt ZNum pZ _) as [s|]; [|discriminate].
      match goal with |- match fsqrt ZNum pZ ?t with _ => _ end = _ -> _ =>
        assert (Ht : inF t) by (destruct (fis_sq ZNum pZ _); apply fmul_in);
        destruct (fsqrt ZNum pZ t) as [x0|] eqn:E3 end; [|discriminate].
      intro H; inversion H; subst c. split; cbn [fst snd]; [|apply fmul_in].
      exact (fsqrt_range _ _ Ht E3). }
  destruct cand as [c|]; [|discriminate].
  destruct (f2eqb ZNum (f2m c c) a) eqn:E; [|discriminate].
  intro H; inversion H; subst y. split; [apply Hc; reflexivity|apply f2eqb_eq; exact E].
Qed.

(* (-y)^2 = y^2 *)
Lemma sq_neg_mod u : ((pZ - u) mod pZ * ((pZ - u) mod pZ)) mod pZ = (u * u) mod pZ.
Proof.
  pose proof pZ_gt as Hp. rewrite <- Z.mul_mod by lia.
  replace ((pZ - u) * (pZ - u)) with (u * u + (pZ - 2 * u) * pZ) by ring. apply Z.mod_add. lia.
Qed.
Lemma mul_neg_mod u v : ((pZ - u) mod pZ * ((pZ - v) mod pZ)) mod pZ = (u * v) mod pZ.
Proof.
  pose proof pZ_gt as Hp. rewrite <- Z.mul_mod by lia.
  replace ((pZ - u) * (pZ - v)) with (u * v + (pZ - u - v) * pZ) by ring. apply Z.mod_add. lia.
Qed.
Lemma f2neg_sq y : f2m (f2n y) (f2n y) = f2m y y.
Proof.
  destruct y as [u v]. rewrite f2neg_Z, !f2mul_Z. cbn [fst snd].
  rewrite !sq_neg_mod, !mul_neg_mod. reflexivity.
Qed.

Lemma osZ_ge0 b : 0 <= osZ b.
Proof.
  induction b as [|x t IH] using rev_ind; [rewrite osZ_nil; lia|rewrite osZ_snoc; lia].
Qed.

(* ------------------------------------------------------------------ E2 *)
Definition decode_e2 := e2_read_bytes ZNum pZ.
Definition encode_e2 := e2_write_bytes ZNum.

Lemma fp2_read_spec b :
  fp2_read_bytes ZNum pZ b =
    if negb (Nat.eqb (length b) 96) then (BAD_ENCODING, (0, 0))
    else match fp_read_bytes ZNum pZ (firstn 48 b) with
         | (VALID, c0) =>
             match fp_read_bytes ZNum pZ (skipn 48 b) with
             | (VALID, c1) => (VALID, (c0, c1))
             | (e, _) => (e, (0, 0))
             end
         | (e, _) => (e, (0, 0))
         end.
Proof. reflexivity. Qed.

Lemma wf_firstn n : forall b, wf b -> wf (firstn n b).
Proof.
  unfold wf. induction n as [|n IH]; intros b H; [constructor|].
  destruct b as [|x t]; [constructor|]. cbn [firstn]. inversion H; subst. constructor; [assumption|apply IH; assumption].
Qed.
Lemma wf_skipn n : forall b, wf b -> wf (skipn n b).
Proof.
  unfold wf. induction n as [|n IH]; intros b H; [exact H|].
  destruct b as [|x t]; [constructor|]. cbn [skipn]. inversion H; subst. apply IH; assumption.
Qed.

(* a decoded finite point: reduced coordinates, on the curve *)
Theorem e2_decode_on_curve b x y :
  decode_e2 b = (VALID, Aff x y) -> inF2 x /\ inF2 y /\ f2m y y = rhs2 x.
Proof.
  unfold decode_e2, e2_read_bytes.
  destruct (negb (Nat.eqb (length b) G2_SER_BYTES)); [discriminate|].
  destruct (negb (Bool.eqb _ _)); [discriminate|].
  destruct (negb (N.eqb (N.land (hd0 b) 64) 0)).
  { destruct (negb _); [discriminate|]. destruct (all_zero _); discriminate. }
  rewrite fp2_read_spec.
  destruct (negb (Nat.eqb _ 96)); [discriminate|].
  rewrite !fp_read_spec.
  destruct (negb (Nat.eqb (length (firstn 48 _)) 48)); [discriminate|].
  destruct (Z.ltb_spec (osZ (firstn 48 (set_hd b (N.land (hd0 b) 31)))) pZ) as [Hx0|]; [|discriminate].
  destruct (negb (Nat.eqb (length (skipn 48 _)) 48)); [discriminate|].
  destruct (Z.ltb_spec (osZ (skipn 48 (set_hd b (N.land (hd0 b) 31)))) pZ) as [Hx1|]; [|discriminate].
  set (x0 := osZ (firstn 48 _)) in *. set (x1 := osZ (skipn 48 _)) in *.
  fold (rhs2 (x0, x1)).
  destruct (f2sqrt ZNum pZ (rhs2 (x0, x1))) as [y0|] eqn:Es; [|discriminate].
  assert (Hin : inF2 (rhs2 (x0, x1))) by apply f2add_in.
  destruct (f2sqrt_sound _ _ Hin Es) as [Hy Hyy].
  intro H. inversion H; subst x y. clear H.
  assert (Hx : inF2 (x0, x1)).
  { split; cbn [fst snd]; unfold inF; split; try assumption; apply osZ_ge0. }
  split; [exact Hx|].
  destruct (Bool.eqb _ _); [split; assumption|].
  split; [apply f2neg_in|].
  rewrite <- Hyy. apply f2neg_sq.
Qed.

Lemma firstn_skipn_len {A} (l : list A) n : length l = (n + n)%nat -> length (firstn n l) = n /\ length (skipn n l) = n.
Proof. intro H. split; [rewrite firstn_length; lia|rewrite skipn_length; lia]. Qed.

Theorem e2_decode_canonical : primeZ pZ ->
  forall b P, wf b -> decode_e2 b = (VALID, P) -> encode_e2 P = b.
Proof.
  intros Hpr b P Hw. unfold decode_e2, e2_read_bytes.
  change G2_SER_BYTES with 96%nat.
  change (Z.eqb Generated.Consts.C_G2_SERIALIZATION Generated.Consts.C_COMPRESSED) with true.
  destruct (Nat.eqb_spec (length b) 96) as [El|El]; cbn [negb]; [|discriminate].
  destruct b as [|h t]; [discriminate|]. cbn [hd0 tl].
  assert (Hh : (h < 256)%N) by (inversion Hw; assumption).
  assert (Ht : wf t) by (inversion Hw; assumption).
  destruct (N.eqb_spec (N.shiftr h 7) 1) as [E7|E7]; cbn [Bool.eqb negb]; [|discriminate].
  destruct (N.eqb_spec (N.land h 0x40) 0) as [E6|E6]; cbn [negb].
  - (* finite point *)
    pose proof (hdr_aff_sweep h Hh) as Hs. unfold hdr_aff_ok in Hs.
    rewrite E7, E6 in Hs. change ((1 =? 1)%N) with true in Hs. change ((0 =? 0)%N) with true in Hs.
    cbn [andb implb] in Hs.
    apply andb_prop in Hs as [Hs1 Hs2]. apply N.eqb_eq in Hs1. apply N.ltb_lt in Hs2.
    cbn [set_hd].
    set (h' := N.land h 31) in *.
    assert (Hw' : wf (h' :: t)) by (constructor; assumption).
    assert (El' : length (h' :: t) = 96%nat) by (cbn [length] in El |- *; exact El).
    destruct (firstn_skipn_len (h' :: t) 48 El') as [L0 L1].
    rewrite fp2_read_spec. rewrite (proj2 (Nat.eqb_eq _ _) El'). cbn [negb].
    rewrite !fp_read_spec. rewrite L0, L1. cbn [Nat.eqb negb].
    set (B0 := firstn 48 (h' :: t)) in *. set (B1 := skipn 48 (h' :: t)) in *.
    assert (W0 : wf B0) by (apply wf_firstn; exact Hw').
    assert (W1 : wf B1) by (apply wf_skipn; exact Hw').
    destruct (Z.ltb_spec (osZ B0) pZ) as [Hx0|]; [|discriminate].
    destruct (Z.ltb_spec (osZ B1) pZ) as [Hx1|]; [|discriminate].
    set (x0 := osZ B0) in *. set (x1 := osZ B1) in *.
    fold (rhs2 (x0, x1)).
    destruct (f2sqrt ZNum pZ (rhs2 (x0, x1))) as [y|] eqn:Es; [|discriminate].
    assert (Hin : inF2 (rhs2 (x0, x1))) by apply f2add_in.
    destruct (f2sqrt_sound _ _ Hin Es) as [Hy Hyy].
    assert (Hy0 : y <> (0, 0)).
    { intro; subst y. apply (rhs2_nonzero Hpr (x0, x1)). rewrite <- Hyy. vm_compute. reflexivity. }
    intro H. inversion H; subst P. clear H.
    unfold encode_e2, e2_write_bytes, fp2_write_bytes, fp_write_bytes. change Fp_BYTES with 48%nat.
    cbn [fst snd].
    assert (Ei0 : i2osp ZNum 48 x0 = B0).
    { change (i2osp ZNum 48 x0) with (i2Z 48 x0). unfold x0. rewrite <- L0 at 1. apply i2Z_osZ. exact W0. }
    assert (Ei1 : i2osp ZNum 48 x1 = B1).
    { change (i2osp ZNum 48 x1) with (i2Z 48 x1). unfold x1. rewrite <- L1 at 1. apply i2Z_osZ. exact W1. }
    rewrite Ei0, Ei1. unfold B0, B1. rewrite firstn_skipn.
    cbn [hd0 set_hd]. f_equal.
    set (s := (N.land (N.shiftr h 5) 1 =? 1)%N) in *.
    assert (Esg : f2sign ZNum (if Bool.eqb (f2sign ZNum y) s then y else f2n y) = s).
    { destruct (Bool.eqb (f2sign ZNum y) s) eqn:Eb.
      - apply eqb_prop in Eb. exact Eb.
      - rewrite f2sign_neg by assumption. apply eqb_false_iff in Eb.
        destruct (f2sign ZNum y), s; cbn; try reflexivity; congruence. }
    transitivity (N.lor (N.lor h' (if f2sign ZNum (if Bool.eqb (f2sign ZNum y) s then y else f2n y) then 32%N else 0%N)) 128); [reflexivity|].
    rewrite Esg. exact Hs1.
  - (* infinity *)
    pose proof (hdr_inf_sweep h Hh) as Hs. unfold hdr_inf_ok in Hs.
    rewrite E7 in Hs. change ((1 =? 1)%N) with true in Hs.
    destruct (N.eqb_spec (N.land h 0x3F) 0) as [E5|E5]; cbn [negb]; [|discriminate].
    rewrite (proj2 (N.eqb_neq _ _) E6) in Hs.
    cbn [andb negb implb] in Hs. apply N.eqb_eq in Hs. subst h.
    destruct (all_zero t) eqn:Ez; [|discriminate].
    intro H. inversion H; subst P. clear H.
    unfold encode_e2, e2_write_bytes. change G2_SER_BYTES with 96%nat.
    cbn [length] in El. f_equal. rewrite (all_zero_repeat t Ez). f_equal. lia.
Qed.

Theorem pk_decode_canonical : primeZ pZ ->
  forall b P, wf b -> decode_public_key ZNum pZ b = Some P ->
    length b = 96%nat /\ encode_e2 P = b /\ e2_in_G2 ZNum pZ (to_j2 ZNum pZ P) = true.
Proof.
  intros Hpr b P Hw. unfold decode_public_key.
  change (Z.to_nat Generated.Consts.crypto_PubKeyLenBLSBLS12381) with 96%nat.
  destruct (Nat.eqb_spec (length b) 96) as [El|El]; cbn [negb]; [|discriminate].
  destruct (e2_read_bytes ZNum pZ b) as [st Q] eqn:Ed.
  remember (e2_in_G2 ZNum pZ (to_j2 ZNum pZ Q)) as g eqn:Eg.
  destruct st; [|intro H; discriminate H ..].
  destruct g; [|intro H; discriminate H].
  intro H. assert (Q = P) by congruence. subst Q. split; [exact El|]. split; [|symmetry; exact Eg].
  apply (e2_decode_canonical Hpr b P Hw Ed).
Qed.
