(* C17: SPoCK verification. *)
From Coq Require Import ZArith NArith List Bool String Ring.
From V Require Import Spec.Bilinear Generated.Guards Generated.Consts Model.BlsAbs Model.SpockAbs Proofs.BlsProofs.
Import ListNotations.
Open Scope string_scope.

(* the sources still have the shape the model was written from *)
Lemma spock_go_skeleton :
  skel_spock_SPOCKVerify =
  [Call ".(*pubKeyBLSBLS12381)"; Call ".(*pubKeyBLSBLS12381)"; Guard "len(proof1) != g1BytesLen";
   Guard "len(proof2) != g1BytesLen"; Guard "isIdentity"; Guard "isIdentity"; Call "C.bls_spock_verify("].
Proof. reflexivity. Qed.
Lemma spock_c_skeleton :
  skel_bls_core_bls_spock_verify =
  [Guard "E1_read_bytes("; Guard "E1_in_G1("; Guard "E1_read_bytes("; Guard "E1_in_G1("; Call "E2_neg(";
   Call "Fp12_multi_pairing("; Guard "Fp12_is_one("].
Proof. reflexivity. Qed.
Lemma spock_prove_skeleton : skel_spock_SPOCKProve = [Call ".Sign("].
Proof. reflexivity. Qed.
Lemma spock_vad_skeleton : skel_spock_SPOCKVerifyAgainstData = [Call ".Verify("].
Proof. reflexivity. Qed.
Lemma return_counts_spock :
  (nret_spock_SPOCKVerify, nret_spock_SPOCKProve, nret_spock_SPOCKVerifyAgainstData, nret_bls_core_bls_spock_verify)
  = (6, 2, 2, 6)%nat.
Proof. reflexivity. Qed.
Lemma g1len_eq : Z.to_nat crypto_g1BytesLen = Z.to_nat C_G1_SER_BYTES.
Proof. reflexivity. Qed.

Section Proofs.
Context {B : bilinear} {C : codecs}.
Add Ring FRing3 : Fring.

Lemma neg2_pk sk : neg2 (pk_of sk) = (fopp sk, t2_0).
Proof. unfold neg2. rewrite pk_of_G, smul2_G. f_equal. ring. Qed.

Lemma pairing_eq_G s1 s2 k1 k2 :
  multi_pairing_is_one [((s1, t1_0), neg2 (pk_of k2)); ((s2, t1_0), pk_of k1)]
  = feqb (fmul s1 k2) (fmul s2 k1).
Proof.
  rewrite neg2_pk, pk_of_G.
  transitivity (feqb (fadd (fmul s1 (fopp k2)) (fmul s2 k1)) f0); [apply multi_pairing_2|].
  destruct (feqb_spec (fmul s1 k2) (fmul s2 k1)) as [E|E].
  - apply feqb_eq. transitivity (fsub (fmul s2 k1) (fmul s1 k2)); [ring|rewrite E; ring].
  - destruct (feqb_spec (fadd (fmul s1 (fopp k2)) (fmul s2 k1)) f0) as [E2|E2]; [|reflexivity].
    exfalso. apply E.
    assert (H : fmul s1 k2 = fadd (fmul s2 k1) (fopp (fadd (fmul s1 (fopp k2)) (fmul s2 k1)))) by ring.
    rewrite H, E2. ring.
Qed.

Definition keyof (sk : F) : option pubkey := Some (public_key sk).

(* THE statement: true exactly when both proofs are canonical encodings of G1 elements,
   neither key is the identity and e(p1, pk2) = e(p2, pk1) *)
Theorem spock_verify_iff sk1 sk2 b1 b2 :
  spock_verify (keyof sk1) b1 (keyof sk2) b2 = SBool true <->
  (sk1 <> f0 /\ sk2 <> f0 /\
   exists s1 s2, b1 = enc1 (s1, t1_0) /\ b2 = enc1 (s2, t1_0) /\ fmul s1 sk2 = fmul s2 sk1).
Proof.
  unfold spock_verify, keyof. rewrite !public_key_eq. unfold mk_pubkey. cbn [pk_is_identity pk_point].
  rewrite !is_O2_pk. split.
  - destruct (Nat.eqb (List.length b1) _) eqn:L1; cbn [negb orb]; [|discriminate].
    destruct (Nat.eqb (List.length b2) _) eqn:L2; cbn [negb orb]; [|discriminate].
    destruct (feqb_spec sk1 f0) as [|N1]; cbn [orb]; [discriminate|].
    destruct (feqb_spec sk2 f0) as [|N2]; cbn [orb]; [discriminate|].
    unfold c_spock_verify.
    destruct (dec1 b1) as [P1|] eqn:D1; [|discriminate].
    destruct (inG1 P1) eqn:G1; cbn [negb]; [|discriminate].
    destruct (dec1 b2) as [P2|] eqn:D2; [|discriminate].
    destruct (inG1 P2) eqn:G2; cbn [negb]; [|discriminate].
    apply inG1_iff in G1 as [s1 ->]. apply inG1_iff in G2 as [s2 ->].
    rewrite pairing_eq_G. intro H. injection H as H. apply feqb_eq in H.
    repeat split; try assumption. exists s1, s2. repeat split.
    + symmetry. now apply dec1_canonical.
    + symmetry. now apply dec1_canonical.
    + exact H.
  - intros (N1 & N2 & s1 & s2 & -> & -> & H).
    rewrite !enc1_len, g1len_eq, Nat.eqb_refl. cbn [negb orb].
    destruct (feqb_spec sk1 f0) as [|_]; [contradiction|].
    destruct (feqb_spec sk2 f0) as [|_]; [contradiction|]. cbn [orb].
    unfold c_spock_verify. rewrite !dec1_enc1.
    replace (inG1 (s1, t1_0)) with true by (symmetry; apply inG1_iff; eauto).
    replace (inG1 (s2, t1_0)) with true by (symmetry; apply inG1_iff; eauto). cbn [negb].
    rewrite pairing_eq_G. f_equal. now apply feqb_eq.
Qed.

Lemma spock_is_bool sk1 sk2 b1 b2 : exists v, spock_verify (keyof sk1) b1 (keyof sk2) b2 = SBool v.
Proof.
  unfold spock_verify, keyof. destruct (_ || _); [eauto|]. destruct (_ || _); eauto.
Qed.

(* two proofs over the same data always verify *)
Theorem same_data_verifies sk1 sk2 hpt :
  inG1 hpt = true -> sk1 <> f0 -> sk2 <> f0 ->
  spock_verify (keyof sk1) (enc1 (smul1 sk1 hpt)) (keyof sk2) (enc1 (smul1 sk2 hpt)) = SBool true.
Proof.
  intros Hh N1 N2. apply inG1_iff in Hh as [a ->]. rewrite !smul1_G.
  apply spock_verify_iff. repeat split; try assumption.
  exists (fmul sk1 a), (fmul sk2 a). repeat split. ring.
Qed.

(* proofs over different data do not *)
Theorem different_data_rejected sk1 sk2 hpt hpt' :
  inG1 hpt = true -> inG1 hpt' = true -> sk1 <> f0 -> sk2 <> f0 -> hpt <> hpt' ->
  spock_verify (keyof sk1) (enc1 (smul1 sk1 hpt)) (keyof sk2) (enc1 (smul1 sk2 hpt')) = SBool false.
Proof.
  intros H1 H2 N1 N2 Hne.
  destruct (spock_is_bool sk1 sk2 (enc1 (smul1 sk1 hpt)) (enc1 (smul1 sk2 hpt'))) as [[|] Hv]; [|exact Hv].
  exfalso. apply spock_verify_iff in Hv as (_ & _ & s1 & s2 & E1 & E2 & H).
  apply inG1_iff in H1 as [a ->]. apply inG1_iff in H2 as [a' ->]. rewrite !smul1_G in *.
  pose proof (enc1_inj _ _ E1) as Q1. pose proof (enc1_inj _ _ E2) as Q2.
  assert (S1 : s1 = fmul sk1 a) by congruence. assert (S2 : s2 = fmul sk2 a') by congruence. subst s1 s2.
  apply Hne. f_equal.
  assert (Z : fmul (fmul sk1 sk2) (fsub a a') = f0).
  { replace (fmul (fmul sk1 sk2) (fsub a a')) with (fsub (fmul (fmul sk1 a) sk2) (fmul (fmul sk2 a') sk1)) by ring.
    rewrite H. ring. }
  destruct (F_integral _ _ Z) as [Q|Q].
  - destruct (F_integral _ _ Q); contradiction.
  - replace a with (fadd (fsub a a') a') by ring. rewrite Q. ring.
Qed.

(* a proof attributed to another key is rejected *)
Theorem other_key_rejected_spock sk1 sk1' sk2 hpt :
  inG1 hpt = true -> hpt <> O1 -> sk1 <> f0 -> sk1' <> f0 -> sk2 <> f0 -> sk1 <> sk1' ->
  spock_verify (keyof sk1') (enc1 (smul1 sk1 hpt)) (keyof sk2) (enc1 (smul1 sk2 hpt)) = SBool false.
Proof.
  intros H1 Hnz N1 N1' N2 Hne.
  destruct (spock_is_bool sk1' sk2 (enc1 (smul1 sk1 hpt)) (enc1 (smul1 sk2 hpt))) as [[|] Hv]; [|exact Hv].
  exfalso. apply spock_verify_iff in Hv as (_ & _ & s1 & s2 & E1 & E2 & H).
  apply inG1_iff in H1 as [a ->]. rewrite !smul1_G in *.
  pose proof (enc1_inj _ _ E1) as Q1. pose proof (enc1_inj _ _ E2) as Q2.
  assert (S1 : s1 = fmul sk1 a) by congruence. assert (S2 : s2 = fmul sk2 a) by congruence. subst s1 s2.
  assert (Z : fmul (fmul sk2 a) (fsub sk1 sk1') = f0).
  { replace (fmul (fmul sk2 a) (fsub sk1 sk1')) with (fsub (fmul (fmul sk1 a) sk2) (fmul (fmul sk2 a) sk1')) by ring.
    rewrite H. ring. }
  destruct (F_integral _ _ Z) as [Q|Q].
  - destruct (F_integral _ _ Q) as [Q'|Q']; [contradiction|]. apply Hnz. unfold O1. now rewrite Q'.
  - apply Hne. replace sk1 with (fadd (fsub sk1 sk1') sk1') by ring. rewrite Q. ring.
Qed.

(* swapping the two (key, proof) pairs does not change the verdict *)
Theorem spock_symmetric sk1 sk2 b1 b2 :
  spock_verify (keyof sk1) b1 (keyof sk2) b2 = spock_verify (keyof sk2) b2 (keyof sk1) b1.
Proof.
  destruct (spock_is_bool sk1 sk2 b1 b2) as [v Hv]. destruct (spock_is_bool sk2 sk1 b2 b1) as [w Hw].
  rewrite Hv, Hw. f_equal.
  destruct v, w; try reflexivity.
  - apply spock_verify_iff in Hv as (N1 & N2 & s1 & s2 & E1 & E2 & H).
    assert (X : spock_verify (keyof sk2) b2 (keyof sk1) b1 = SBool true).
    { apply spock_verify_iff. repeat split; try assumption. exists s2, s1. repeat split; auto. }
    congruence.
  - apply spock_verify_iff in Hw as (N1 & N2 & s1 & s2 & E1 & E2 & H).
    assert (X : spock_verify (keyof sk1) b1 (keyof sk2) b2 = SBool true).
    { apply spock_verify_iff. repeat split; try assumption. exists s2, s1. repeat split; auto. }
    congruence.
Qed.

Theorem identity_key_rejected_spock sk b1 b2 :
  spock_verify (Some (mk_pubkey O2)) b1 (keyof sk) b2 = SBool false /\
  spock_verify (keyof sk) b1 (Some (mk_pubkey O2)) b2 = SBool false.
Proof.
  assert (I : is_O2 O2 = true).
  { unfold is_O2, O2. cbn [fst snd]. rewrite feqb_refl. now rewrite (proj2 (t2_eqb_eq t2_0 t2_0) eq_refl). }
  unfold spock_verify, keyof, mk_pubkey. cbn [pk_is_identity]. rewrite I. split.
  - destruct (_ || _); reflexivity.
  - rewrite orb_true_r. destruct (_ || _); reflexivity.
Qed.

Theorem not_bls_key_error b1 b2 k :
  spock_verify None b1 k b2 = SErrNotBLSKey /\ spock_verify k b1 None b2 = SErrNotBLSKey.
Proof. unfold spock_verify. split; [reflexivity|]. destruct k; reflexivity. Qed.

(* SPOCKProve and SPOCKVerifyAgainstData coincide with Sign and Verify *)
Theorem prove_is_sign sk hs hpt : spock_prove (Some sk) hs hpt = Some (sign sk hs hpt).
Proof. reflexivity. Qed.
Theorem verify_against_data_is_verify pk b hs hpt :
  spock_verify_against_data (Some pk) b hs hpt = Some (verify pk b hs hpt).
Proof. reflexivity. Qed.
End Proofs.
