(* Modular arithmetic facts over Z used by the codec proofs: the generic modular
   operations of Prim/Bls12.v instantiated at ZNum are the mathematical ones;
   consequences of Fermat's little theorem and Euclid's lemma for a prime modulus. *)
From Coq Require Import ZArith List Bool Lia.
From V Require Import Lib.Num Lib.FermatZ Prim.Bls12.
Open Scope Z_scope.

Section M.
Variable m : Z.
Hypothesis Hm : 1 < m.

Lemma madd_Z a b : madd ZNum m a b = (a + b) mod m. Proof. reflexivity. Qed.
Lemma msub_Z a b : msub ZNum m a b = (a - b) mod m. Proof. reflexivity. Qed.
Lemma mmul_Z a b : mmul ZNum m a b = (a * b) mod m. Proof. reflexivity. Qed.
Lemma mneg_Z a : mneg ZNum m a = (m - a) mod m. Proof. reflexivity. Qed.

Lemma pow_xO a e : a ^ Zpos e~0 = a ^ Zpos e * a ^ Zpos e.
Proof. rewrite Pos2Z.inj_xO. replace (2 * Zpos e) with (Zpos e + Zpos e) by lia. apply Z.pow_add_r; lia. Qed.
Lemma pow_xI a e : a ^ Zpos e~1 = a ^ Zpos e * a ^ Zpos e * a.
Proof.
  rewrite Pos2Z.inj_xI. replace (2 * Zpos e + 1) with (Zpos e + Zpos e + 1) by lia.
  rewrite !Z.pow_add_r by lia. now rewrite Z.pow_1_r.
Qed.

Lemma mpow_pos_Z a e : mpow_pos ZNum m a e mod m = (a ^ Zpos e) mod m.
Proof.
  induction e as [e IH|e IH|]; cbn [mpow_pos].
  - rewrite !mmul_Z. rewrite Z.mod_mod by lia. rewrite pow_xI.
    set (h := mpow_pos ZNum m a e) in *.
    rewrite Z.mul_mod_idemp_l by lia.
    rewrite (Z.mul_mod (h * h) a) by lia. rewrite (Z.mul_mod h h) by lia. rewrite IH.
    rewrite <- (Z.mul_mod (a ^ Z.pos e) (a ^ Z.pos e)) by lia.
    rewrite <- Z.mul_mod by lia. reflexivity.
  - rewrite mmul_Z. rewrite Z.mod_mod by lia. rewrite pow_xO.
    rewrite Z.mul_mod by lia. rewrite IH. rewrite <- Z.mul_mod by lia. reflexivity.
  - rewrite Z.pow_1_r. reflexivity.
Qed.

Lemma mpow_pos_range a e : 0 <= a < m -> 0 <= mpow_pos ZNum m a e < m.
Proof.
  intro Ha. destruct e; cbn [mpow_pos]; rewrite ?mmul_Z; try apply Z.mod_pos_bound; lia.
Qed.

Lemma mpow_Z a e : 0 < e -> 0 <= a < m -> mpow ZNum m a e = (a ^ e) mod m.
Proof.
  intros He Ha. destruct e as [|e|e]; try lia. cbn [mpow].
  rewrite <- mpow_pos_Z. symmetry. apply Z.mod_small. apply mpow_pos_range; exact Ha.
Qed.

Hypothesis Hpr : primeZ m.

(* a^(m-1) = 1 (mod m) for a not divisible by m *)
Lemma fermat_unit a : 0 <= a -> a mod m <> 0 -> (a ^ (m - 1)) mod m = 1.
Proof.
  intros Ha Hnz.
  pose proof (fermat_Z m a Hpr Ha) as F.
  assert (E : a ^ m = a * a ^ (m - 1)).
  { replace m with (1 + (m - 1)) at 1 by lia. rewrite Z.pow_add_r by lia. now rewrite Z.pow_1_r. }
  set (u := a ^ (m - 1)) in *.
  assert (Hu : 0 <= u) by (apply Z.pow_nonneg; lia).
  (* a * (u mod m) = a (mod m)  ==>  m | a * |u mod m - 1| *)
  assert (Hum : 0 <= u mod m < m) by (apply Z.mod_pos_bound; lia).
  destruct (Z.eq_dec (u mod m) 1) as [|Hne]; [assumption|exfalso].
  assert (D : (a * u - a) mod m = 0).
  { rewrite Zminus_mod. rewrite <- E, F. rewrite Z.sub_diag. reflexivity. }
  destruct (Z_le_gt_dec 1 (u mod m)) as [Hge|Hlt].
  - assert (D2 : (a * (u mod m - 1)) mod m = 0).
    { rewrite Z.mul_sub_distr_l, Z.mul_1_r. rewrite Zminus_mod. rewrite Z.mul_mod_idemp_r by lia.
      rewrite <- Zminus_mod. exact D. }
    destruct (euclid_Z m a (u mod m - 1) Hpr) as [Q|Q]; try lia.
    rewrite Z.mod_small in Q by lia. lia.
  - (* u mod m = 0: then a * u = 0 mod m and a = 0 mod m *)
    assert (Z0 : u mod m = 0) by lia.
    assert (D3 : a mod m = 0).
    { rewrite Zminus_mod in D. rewrite <- Z.mul_mod_idemp_r in D by lia. rewrite Z0, Z.mul_0_r in D.
      rewrite Z.mod_0_l in D by lia. rewrite Z.sub_0_l in D.
      pose proof (Z.mod_pos_bound a m ltac:(lia)) as B.
      destruct (Z.eq_dec (a mod m) 0) as [|Hn0]; [assumption|].
      rewrite Z.mod_opp_l_nz in D by (rewrite ?Z.mod_mod; lia).
      rewrite Z.mod_mod in D by lia. lia. }
    contradiction.
Qed.

(* no zero divisors: x^2 = y^2 -> x = y or x = -y, for residues *)
Lemma sq_eq_cases x y : 0 <= x < m -> 0 <= y < m -> (x * x) mod m = (y * y) mod m ->
  x = y \/ x = (m - y) mod m.
Proof.
  intros Hx Hy H.
  destruct (Z_le_gt_dec y x) as [Hle|Hgt].
  - assert (D : ((x - y) * (x + y)) mod m = 0).
    { replace ((x - y) * (x + y)) with (x * x - y * y) by ring. rewrite Zminus_mod, H, Z.sub_diag. reflexivity. }
    destruct (euclid_Z m (x - y) (x + y) Hpr) as [Q|Q]; try lia.
    + rewrite Z.mod_small in Q by lia. left. lia.
    + right. destruct (Z.eq_dec y 0) as [->|Hy0].
      * rewrite Z.add_0_r in Q. rewrite Z.mod_small in Q by lia. subst x. rewrite Z.sub_0_r, Z.mod_same; lia.
      * rewrite Z.mod_small by lia.
        assert (x + y = m \/ x + y = 0).
        { destruct (Z_lt_ge_dec (x + y) m) as [L|G].
          - rewrite Z.mod_small in Q by lia. right; lia.
          - left. replace (x + y) with ((x + y - m) + 1 * m) in Q by ring.
            rewrite Z.mod_add in Q by lia. rewrite Z.mod_small in Q by lia. lia. }
        lia.
  - assert (D : ((y - x) * (x + y)) mod m = 0).
    { replace ((y - x) * (x + y)) with (y * y - x * x) by ring. rewrite Zminus_mod, H, Z.sub_diag. reflexivity. }
    destruct (euclid_Z m (y - x) (x + y) Hpr) as [Q|Q]; try lia.
    + rewrite Z.mod_small in Q by lia. left. lia.
    + right. rewrite Z.mod_small by lia.
      assert (x + y = m \/ x + y = 0).
      { destruct (Z_lt_ge_dec (x + y) m) as [L|G].
        - rewrite Z.mod_small in Q by lia. right; lia.
        - left. replace (x + y) with ((x + y - m) + 1 * m) in Q by ring.
          rewrite Z.mod_add in Q by lia. rewrite Z.mod_small in Q by lia. lia. }
      lia.
Qed.
End M.
