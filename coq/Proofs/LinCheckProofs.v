(* Soundness of the history checker of Model/LinCheck.v. *)
From Coq Require Import NArith List Bool Permutation Lia.
From V Require Import Model.LinCheck.
Import ListNotations.
Open Scope N_scope.

Lemma remove_nth_perm {A} i (l : list A) e :
  nth_error l i = Some e -> Permutation l (e :: remove_nth i l).
Proof.
  revert i. induction l as [|x l IH]; intros [|i] H; cbn in *; try discriminate.
  - inversion H; subst. apply Permutation_refl.
  - eapply Permutation_trans; [apply perm_skip, (IH i H) | apply perm_swap].
Qed.

Section Lin.
  Variables state op result : Type.
  Variable step : state -> op -> state * result.
  Variable res_eqb : result -> result -> bool.
  Hypothesis res_eqb_sound : forall a b, res_eqb a b = true -> a = b.

  Notation event := (event op result).
  Notation search := (search state op result step res_eqb).
  Notation legal := (legal state op result step).
  Notation rt_order := (rt_order op result).
  Notation linearizable := (linearizable state op result step).

  Lemma minimal_spec (e : event) others :
    minimal op result e others = true -> forall p, In p others -> ~ (ev_resp p < ev_inv e).
  Proof.
    induction others as [|q r IH]; cbn; intros H p I L; [contradiction|].
    destruct (ev_resp q <? ev_inv e) eqn:Q; [discriminate|].
    destruct I as [->|I]; [apply N.ltb_ge in Q; lia | exact (IH H p I L)].
  Qed.

  Lemma first_ok_spec f l : first_ok f l = true -> exists i, f i = true.
  Proof.
    induction l as [|i r IH]; cbn; [discriminate|].
    destruct (f i) eqn:E; [exists i; exact E | exact IH].
  Qed.

  Lemma search_sound fuel : forall st pending,
    search fuel st pending = true -> linearizable st pending.
  Proof.
    induction fuel as [|f IH]; intros st pending H.
    - destruct pending; [|discriminate]. exists []. cbn. auto.
    - destruct pending as [|x r]; [exists []; cbn; auto|].
      cbn [LinCheck.search] in H. apply first_ok_spec in H as (i & T).
      unfold try_event in T.
      destruct (nth_error (x :: r) i) as [e|] eqn:N; [|discriminate].
      destruct (minimal op result e (remove_nth i (x :: r))) eqn:M; [|discriminate].
      destruct (res_eqb (snd (step st (ev_op e))) (ev_res e)) eqn:R; [|discriminate].
      rename T into S.
      apply res_eqb_sound in R. destruct (IH _ _ S) as (l & P & Lg & Rt).
      exists (e :: l). repeat split.
      + eapply Permutation_trans; [apply (remove_nth_perm i _ e N) | apply perm_skip, P].
      + exact R.
      + exact Lg.
      + intros p I. apply (minimal_spec _ _ M). eapply Permutation_in; [apply Permutation_sym, P | exact I].
      + exact Rt.
  Qed.

  Theorem lin_check_sound st h :
    lin_check state op result step res_eqb st h = true -> linearizable st h.
  Proof. apply search_sound. Qed.
End Lin.
