(* Proofs for C13, KMAC128 and SHA2 part: the encodings of /repo/hash/kmac.go equal
   those of NIST SP 800-185, the bytes fed to the cSHAKE128 object are the KMAC framing. *)
From Coq Require Import ZArith NArith List Bool Arith Lia ZifyN ZifyNat.
From V Require Import Lib.ListX Prim.Keccak Prim.Sha2 Spec.HashSpec Model.Hashers Proofs.SpongeFacts.
Import ListNotations.
Local Open Scope nat_scope.

(* ---------- n = "smallest positive integer with 2^(8n) > x" ---------- *)
Lemma pow256 (n : N) : (256 ^ n = 2 ^ (8 * n))%N.
Proof. change 256%N with (2 ^ 8)%N. now rewrite <- N.pow_mul_r. Qed.

Lemma nbytes_upper x : (x < 256 ^ N.of_nat (nbytes x))%N.
Proof.
  unfold nbytes. rewrite Nat2N.inj_succ, N2Nat.id, pow256.
  destruct (N.eq_dec x 0) as [->|Hx]; [reflexivity|].
  destruct (N.log2_spec x ltac:(lia)) as [_ Hup].
  eapply N.lt_le_trans; [exact Hup|]. apply N.pow_le_mono_r; [lia|].
  pose proof (N.div_mod (N.log2 x) 8 ltac:(lia)). pose proof (N.mod_lt (N.log2 x) 8 ltac:(lia)). lia.
Qed.

Lemma nbytes_lower x : 1 < nbytes x -> (256 ^ N.of_nat (nbytes x - 1) <= x)%N.
Proof.
  unfold nbytes. intro H. replace (S (N.to_nat (N.log2 x / 8)) - 1) with (N.to_nat (N.log2 x / 8)) by lia.
  rewrite N2Nat.id, pow256.
  assert (Hq : (1 <= N.log2 x / 8)%N) by lia.
  assert (Hx : (0 < x)%N).
  { destruct (N.eq_dec x 0) as [->|]; [cbn in Hq; lia|lia]. }
  destruct (N.log2_spec x Hx) as [Hlo _].
  eapply N.le_trans; [|exact Hlo]. apply N.pow_le_mono_r; [lia|].
  pose proof (N.div_mod (N.log2 x) 8 ltac:(lia)). lia.
Qed.

Lemma nbytes_pos x : 1 <= nbytes x.
Proof. unfold nbytes. lia. Qed.

Lemma nbytes_le8 x : (x < 256 ^ 8)%N -> nbytes x <= 8.
Proof.
  intro H. destruct (le_lt_dec (nbytes x) 8) as [|Hgt]; [assumption|exfalso].
  pose proof (nbytes_lower x ltac:(lia)) as Hlo.
  assert ((256 ^ 8 <= 256 ^ N.of_nat (nbytes x - 1))%N) by (apply N.pow_le_mono_r; lia).
  lia.
Qed.

(* ---------- base-256 digits ---------- *)
Lemma be_n_length n : forall x, length (be_n n x) = n.
Proof. induction n as [|n IH]; intro x; [reflexivity|]. cbn [be_n]. rewrite app_length, IH. cbn [length]. lia. Qed.

Lemma be_n_0 n : be_n n 0 = repeat 0%N n.
Proof.
  induction n as [|n IH]; [reflexivity|]. cbn [be_n].
  change (0 / 256)%N with 0%N. change (0 mod 256)%N with 0%N. rewrite IH. symmetry. apply repeat_snoc.
Qed.

Lemma be_n_zero_ext k : forall j x,
  (x < 256 ^ N.of_nat k)%N -> be_n (j + k) x = repeat 0%N j ++ be_n k x.
Proof.
  induction k as [|k IH]; intros j x Hx.
  - change (256 ^ N.of_nat 0)%N with 1%N in Hx. assert (x = 0%N) by lia. subst x.
    rewrite Nat.add_0_r, be_n_0. cbn [be_n]. now rewrite app_nil_r.
  - rewrite Nat.add_succ_r. cbn [be_n]. rewrite IH.
    + now rewrite app_assoc.
    + rewrite Nat2N.inj_succ, N.pow_succ_r' in Hx. apply N.div_lt_upper_bound; lia.
Qed.

Lemma be_n_cons k : forall x,
  be_n (S k) x = ((x / 256 ^ N.of_nat k) mod 256)%N :: be_n k x.
Proof.
  induction k as [|k IH]; intro x.
  - cbn [be_n app]. change (256 ^ N.of_nat 0)%N with 1%N. now rewrite N.div_1_r.
  - change (be_n (S (S k)) x) with (be_n (S k) (x / 256) ++ [(x mod 256)%N]).
    rewrite IH. cbn [app be_n]. f_equal.
    rewrite Nat2N.inj_succ, N.pow_succ_r'.
    rewrite N.div_div; [reflexivity|lia|]. apply N.pow_nonzero. lia.
Qed.

Lemma lead0_zeros_nz j : forall cap h t,
  h <> 0%N -> j <= cap -> lead0 cap (repeat 0%N j ++ h :: t) = j.
Proof.
  induction j as [|j IH]; intros cap h t Hh Hc.
  - cbn [repeat app]. destruct cap; [reflexivity|]. cbn [lead0].
    destruct (N.eqb_spec h 0); [contradiction|reflexivity].
  - destruct cap as [|cap]; [lia|]. cbn [repeat app lead0]. change (0 =? 0)%N with true. cbv iota.
    f_equal. apply IH; [exact Hh|lia].
Qed.

Lemma lead0_cap cap : forall t, lead0 cap (repeat 0%N cap ++ t) = cap.
Proof.
  induction cap as [|cap IH]; intro t; [reflexivity|].
  cbn [repeat app lead0]. change (0 =? 0)%N with true. cbv iota. f_equal. apply IH.
Qed.

(* BE8 with the leading zero bytes (all but the last) trimmed = the minimal encoding *)
Lemma trim_be8 v :
  (v < 256 ^ 8)%N ->
  let k := nbytes v in
  1 <= k <= 8 /\ lead0 7 (be8 v) = 8 - k /\ skipn (8 - k) (be8 v) = be_n k v.
Proof.
  intros Hv k. pose proof (nbytes_pos v) as H1. pose proof (nbytes_le8 v Hv) as H8. fold k in H1, H8.
  split; [lia|].
  assert (E : be8 v = repeat 0%N (8 - k) ++ be_n k v).
  { unfold be8. replace 8 with ((8 - k) + k) at 1 by lia. apply be_n_zero_ext. apply nbytes_upper. }
  rewrite E. split.
  - destruct (Nat.eq_dec k 1) as [K1|K1].
    + rewrite K1. change (8 - 1) with 7. apply lead0_cap.
    + destruct k as [|k'] eqn:Ek; [lia|]. rewrite be_n_cons. apply lead0_zeros_nz; [|lia].
      pose proof (nbytes_lower v ltac:(fold k; lia)) as Hlo. pose proof (nbytes_upper v) as Hup.
      fold k in Hlo, Hup. rewrite Ek in Hlo, Hup.
      replace (S k' - 1) with k' in Hlo by lia.
      rewrite Nat2N.inj_succ, N.pow_succ_r' in Hup.
      assert (Hp : (0 < 256 ^ N.of_nat k')%N) by (apply N.neq_0_lt_0, N.pow_nonzero; lia).
      assert ((1 <= v / 256 ^ N.of_nat k')%N) by (apply N.div_le_lower_bound; lia).
      assert ((v / 256 ^ N.of_nat k' < 256)%N) by (apply N.div_lt_upper_bound; lia).
      rewrite N.mod_small by lia. lia.
  - apply skipn_app_exact. apply repeat_length.
Qed.

Lemma leftEncode_spec v : (v < 2 ^ 64)%N -> leftEncode v = left_encode v.
Proof.
  intro Hv. change (2 ^ 64)%N with (256 ^ 8)%N in Hv.
  destruct (trim_be8 v Hv) as (Hk & Hz & Hs).
  unfold leftEncode, left_encode. rewrite Hz, Hs. change maxEncodeLen with 9.
  f_equal. f_equal. lia.
Qed.

Lemma rightEncode_spec v : (v < 2 ^ 64)%N -> rightEncode v = right_encode v.
Proof.
  intro Hv. change (2 ^ 64)%N with (256 ^ 8)%N in Hv.
  destruct (trim_be8 v Hv) as (Hk & Hz & Hs).
  unfold rightEncode, right_encode. rewrite Hz, Hs. change maxEncodeLen with 9.
  f_equal. f_equal. f_equal. lia.
Qed.

Lemma u64_small z : (0 <= z < 2 ^ 64)%Z -> u64 z = Z.to_N z.
Proof. intro H. unfold u64. change 18446744073709551616%Z with (2 ^ 64)%Z. now rewrite Z.mod_small. Qed.

Lemma encodeString_spec s : (zlen s * 8 < 2 ^ 64)%Z -> encodeString s = encode_string s.
Proof.
  intro H. unfold encodeString, encode_string. unfold zlen in *.
  rewrite u64_small by lia.
  replace (Z.to_N (Z.of_nat (length s) * 8)) with (8 * N.of_nat (length s))%N by lia.
  rewrite leftEncode_spec; [reflexivity|].
  change (2 ^ 64)%N with 18446744073709551616%N. change (2 ^ 64)%Z with 18446744073709551616%Z in H. lia.
Qed.

(* ---------- bytepad ---------- *)
Lemma Ok_inj {A} (a b : A) : Ok a = Ok b -> a = b.
Proof. intro H. injection H. auto. Qed.

Lemma go_bytepad_unfold x w :
  0 < w ->
  go_bytepad x w =
  Ok (if Nat.ltb (w - Nat.modulo (length (leftEncode (N.of_nat w) ++ x)) w) w
      then (leftEncode (N.of_nat w) ++ x) ++
           repeat 0%N (w - Nat.modulo (length (leftEncode (N.of_nat w) ++ x)) w)
      else leftEncode (N.of_nat w) ++ x).
Proof. intro H. destruct w; [lia|reflexivity]. Qed.

Lemma go_bytepad_spec x w :
  0 < w -> (N.of_nat w < 2 ^ 64)%N -> go_bytepad x w = Ok (bytepad x w).
Proof.
  intros Hw Hw64. rewrite go_bytepad_unfold by exact Hw. unfold bytepad.
  rewrite leftEncode_spec by exact Hw64.
  set (z := left_encode (N.of_nat w) ++ x).
  pose proof (Nat.mod_upper_bound (length z) w ltac:(lia)) as Hm.
  destruct (Nat.ltb_spec (w - Nat.modulo (length z) w) w) as [Hlt|Hge].
  - rewrite (Nat.mod_small (w - Nat.modulo (length z) w) w) by exact Hlt. reflexivity.
  - replace (w - Nat.modulo (length z) w) with w by lia. rewrite Nat.mod_same by lia.
    cbn [repeat]. now rewrite app_nil_r.
Qed.

(* the length of bytepad(x, w) is the least multiple of w that is >= len(left_encode(w) || x);
   this failed at aligned lengths before the fix of kmac.go (a full extra zero block) *)
Lemma go_bytepad_length x w out :
  0 < w -> go_bytepad x w = Ok out ->
  let n := length (leftEncode (N.of_nat w) ++ x) in
  Nat.modulo (length out) w = 0 /\ n <= length out /\
  (forall m, Nat.modulo m w = 0 -> n <= m -> length out <= m) /\
  firstn n out = leftEncode (N.of_nat w) ++ x /\ skipn n out = repeat 0%N (length out - n).
Proof.
  intros Hw H. rewrite go_bytepad_unfold in H by exact Hw. apply Ok_inj in H.
  generalize dependent (leftEncode (N.of_nat w) ++ x). intros b H n. subst n.
  pose proof (Nat.mod_upper_bound (length b) w ltac:(lia)) as Hm.
  pose proof (Nat.div_mod (length b) w ltac:(lia)) as Hdm.
  destruct (Nat.ltb_spec (w - Nat.modulo (length b) w) w) as [Hlt|Hge]; subst out.
  - rewrite app_length, repeat_length.
    assert (E : length b + (w - Nat.modulo (length b) w) = (length b / w + 1) * w) by nia.
    rewrite E. split; [apply Nat.mod_mul; lia|]. split; [nia|]. split.
    + intros m Hm0 Hnm. pose proof (Nat.div_mod m w ltac:(lia)) as Hdm'. rewrite Hm0 in Hdm'.
      assert (length b / w < m / w) by nia. nia.
    + split; [apply firstn_app_exact; reflexivity|].
      rewrite skipn_app_exact by reflexivity. f_equal. lia.
  - assert (E0 : Nat.modulo (length b) w = 0) by lia.
    split; [exact E0|]. split; [lia|]. split; [intros; lia|].
    split; [apply firstn_all|]. rewrite skipn_all. now rewrite Nat.sub_diag.
Qed.

(* ---------- the kmac128 object ---------- *)
Definition kmac_params_ok (key : list N) (out : Z) : Prop :=
  KmacMinKeyLen <= length key /\ (0 <= out)%Z /\ (zlen key * 8 < 2 ^ 64)%Z /\ (out * 8 < 2 ^ 64)%Z.

(* an object built by NewKMAC_128(key, cust, out), whatever has been written to it *)
Definition KInv (key cust : list N) (out : Z) (k : kmac) : Prop :=
  k_outputSize k = out /\ k_initBlock k = bytepad (encode_string key) 168 /\
  cs_N (k_shake k) = kmac_name /\ cs_S (k_shake k) = cust.

Lemma new_kmac_ok key cust out :
  kmac_params_ok key out ->
  exists k, NewKMAC_128 key cust out = inl k /\ KInv key cust out k /\
            cs_abs (k_shake k) = bytepad (encode_string key) 168.
Proof.
  intros (Hk & Ho & Hk64 & Ho64). unfold NewKMAC_128.
  replace (out <? 0)%Z with false by (symmetry; apply Z.ltb_ge; exact Ho).
  replace (Nat.ltb (length key) KmacMinKeyLen) with false by (symmetry; apply Nat.ltb_ge; exact Hk).
  rewrite encodeString_spec by exact Hk64.
  change cSHAKE128BlockSize with 168. rewrite go_bytepad_spec by (try reflexivity; lia).
  eexists. split; [reflexivity|]. split; [repeat split|reflexivity].
Qed.

Lemma new_kmac_rejects key cust out :
  ((out < 0)%Z -> NewKMAC_128 key cust out = inr EOutputSize) /\
  ((0 <= out)%Z -> length key < KmacMinKeyLen -> NewKMAC_128 key cust out = inr EKeyLen).
Proof.
  unfold NewKMAC_128. split.
  - intro H. now replace (out <? 0)%Z with true by (symmetry; apply Z.ltb_lt; exact H).
  - intros H1 H2. replace (out <? 0)%Z with false by (symmetry; apply Z.ltb_ge; exact H1).
    now replace (Nat.ltb (length key) KmacMinKeyLen) with true by (symmetry; apply Nat.ltb_lt; exact H2).
Qed.

Lemma kinv_write key cust out k p : KInv key cust out k -> KInv key cust out (k_write k p).
Proof. intros (A & B & C & D). repeat split; assumption. Qed.
Lemma kinv_reset key cust out k : KInv key cust out k -> KInv key cust out (k_reset k).
Proof. intros (A & B & C & D). repeat split; assumption. Qed.

Lemma k_writes_inv key cust out chunks : forall k,
  KInv key cust out k ->
  KInv key cust out (k_writes k chunks) /\
  cs_abs (k_shake (k_writes k chunks)) = cs_abs (k_shake k) ++ concat chunks.
Proof.
  induction chunks as [|c chunks IH]; intros k Hk.
  - cbn [k_writes concat]. now rewrite app_nil_r.
  - cbn [k_writes concat]. destruct (IH (k_write k c) (kinv_write _ _ _ _ c Hk)) as [I1 I2].
    split; [exact I1|]. rewrite I2. cbn [k_write k_shake cs_write cs_abs]. now rewrite app_assoc.
Qed.

Lemma rightEncode_out out : (0 <= out)%Z -> (out * 8 < 2 ^ 64)%Z ->
  rightEncode (u64 (out * 8)) = right_encode (8 * N.of_nat (Z.to_nat out)).
Proof.
  intros H0 H64. rewrite u64_small by lia.
  replace (Z.to_N (out * 8)) with (8 * N.of_nat (Z.to_nat out))%N by lia.
  apply rightEncode_spec.
  change (2 ^ 64)%N with 18446744073709551616%N. change (2 ^ 64)%Z with 18446744073709551616%Z in H64. lia.
Qed.

(* SumHash: read-only, and equal to SP 800-185 KMAC128 of what was written after the key block *)
Lemma k_sum_spec key cust out k m :
  kmac_params_ok key out -> KInv key cust out k ->
  cs_abs (k_shake k) = bytepad (encode_string key) 168 ++ m ->
  k_sum k = (KMAC128 key m (Z.to_nat out) cust, k).
Proof.
  intros (_ & Ho & _ & Ho64) (A & B & C & D) Habs.
  unfold k_sum. f_equal. unfold cs_read, cs_write, cs_clone. cbn [cs_abs cs_N cs_S].
  rewrite A, C, D, Habs. rewrite rightEncode_out by assumption.
  unfold KMAC128, kmac_newX. now rewrite <- app_assoc.
Qed.

Lemma k_compute_spec key cust out k x :
  kmac_params_ok key out -> KInv key cust out k ->
  k_computeHash k x = (KMAC128 key x (Z.to_nat out) cust, k).
Proof.
  intros (_ & Ho & _ & Ho64) (A & B & C & D).
  unfold k_computeHash. f_equal. unfold cs_read, cs_write, cs_reset, cs_clone. cbn [cs_abs cs_N cs_S app].
  rewrite A, B, C, D. rewrite rightEncode_out by assumption.
  unfold KMAC128, kmac_newX. now rewrite <- app_assoc.
Qed.

Lemma k_reset_abs key cust out k :
  KInv key cust out k -> cs_abs (k_shake (k_reset k)) = bytepad (encode_string key) 168.
Proof. intros (A & B & C & D). cbn. exact B. Qed.

(* ---------- SHA2 wrappers over the crypto/sha256, crypto/sha512 object specification ---------- *)
Lemma s_writes_abs chunks : forall s,
  s_alg (s_writes s chunks) = s_alg s /\ s_abs (s_writes s chunks) = s_abs s ++ concat chunks.
Proof.
  induction chunks as [|c chunks IH]; intro s.
  - cbn [s_writes concat]. now rewrite app_nil_r.
  - cbn [s_writes concat]. destruct (IH (s_write s c)) as [I1 I2]. rewrite I1, I2.
    cbn [s_write s_alg s_abs]. now rewrite app_assoc.
Qed.

(* ---------- statements used by Properties/C13.v ---------- *)
Lemma kmac_fresh_chunks key cust out chunks :
  kmac_params_ok key out ->
  exists k0, NewKMAC_128 key cust out = inl k0 /\ KInv key cust out k0 /\
    k_sum (k_writes k0 chunks) = (KMAC128 key (concat chunks) (Z.to_nat out) cust, k_writes k0 chunks).
Proof.
  intro Hp. destruct (new_kmac_ok key cust out Hp) as (k0 & Hn & Hk & Habs).
  exists k0. split; [exact Hn|]. split; [exact Hk|].
  destruct (k_writes_inv key cust out chunks k0 Hk) as [I1 I2].
  apply k_sum_spec; [exact Hp|exact I1|]. now rewrite I2, Habs.
Qed.

Lemma kmac_reset_chunks key cust out k chunks :
  kmac_params_ok key out -> KInv key cust out k ->
  k_sum (k_writes (k_reset k) chunks) =
    (KMAC128 key (concat chunks) (Z.to_nat out) cust, k_writes (k_reset k) chunks).
Proof.
  intros Hp Hk.
  destruct (k_writes_inv key cust out chunks (k_reset k) (kinv_reset _ _ _ _ Hk)) as [I1 I2].
  apply k_sum_spec; [exact Hp|exact I1|]. now rewrite I2, (k_reset_abs key cust out k Hk).
Qed.

(* the exact byte string handed to the cSHAKE128 object before Read *)
Lemma kmac_framing key cust out k chunks :
  kmac_params_ok key out -> KInv key cust out k ->
  cs_abs (k_shake (k_writes (k_reset k) chunks)) ++ rightEncode (u64 (out * 8)) =
    kmac_newX key (concat chunks) (Z.to_nat out).
Proof.
  intros (_ & Ho & _ & Ho64) Hk.
  destruct (k_writes_inv key cust out chunks (k_reset k) (kinv_reset _ _ _ _ Hk)) as [I1 I2].
  rewrite I2, (k_reset_abs key cust out k Hk), rightEncode_out by assumption.
  unfold kmac_newX. now rewrite <- app_assoc.
Qed.

Lemma kmac_write_after_sum key cust out k c1 c2 :
  kmac_params_ok key out -> KInv key cust out k ->
  let k1 := k_writes (k_reset k) c1 in
  snd (k_sum k1) = k1 /\
  fst (k_sum (k_writes (snd (k_sum k1)) c2)) = KMAC128 key (concat c1 ++ concat c2) (Z.to_nat out) cust.
Proof.
  intros Hp Hk k1.
  destruct (k_writes_inv key cust out c1 (k_reset k) (kinv_reset _ _ _ _ Hk)) as [I1 I2].
  fold k1 in I1, I2. rewrite (k_reset_abs key cust out k Hk) in I2.
  split; [reflexivity|]. cbn [k_sum snd].
  destruct (k_writes_inv key cust out c2 k1 I1) as [J1 J2].
  rewrite (k_sum_spec key cust out _ (concat c1 ++ concat c2) Hp J1); [reflexivity|].
  now rewrite J2, I2, <- app_assoc.
Qed.

Lemma kinv_ops key cust out k :
  KInv key cust out k ->
  (forall p, KInv key cust out (k_write k p)) /\ KInv key cust out (k_reset k) /\
  snd (k_sum k) = k /\ (forall x, snd (k_computeHash k x) = k).
Proof.
  intro Hk. split; [intro p; now apply kinv_write|]. split; [now apply kinv_reset|]. split; reflexivity.
Qed.

Lemma sha2_any_chunking s chunks :
  s_sum (s_writes (s_reset s) chunks) =
    (sha2_digest (s_alg s) (concat chunks), s_writes (s_reset s) chunks).
Proof.
  destruct (s_writes_abs chunks (s_reset s)) as [A B].
  unfold s_sum. rewrite A, B. reflexivity.
Qed.

Lemma sha2_write_after_sum s c1 c2 :
  let s1 := s_writes (s_reset s) c1 in
  snd (s_sum s1) = s1 /\
  fst (s_sum (s_writes (snd (s_sum s1)) c2)) = sha2_digest (s_alg s) (concat c1 ++ concat c2).
Proof.
  intro s1. split; [reflexivity|]. cbn [s_sum snd fst].
  destruct (s_writes_abs c1 (s_reset s)) as [A B]. fold s1 in A, B.
  destruct (s_writes_abs c2 s1) as [C D].
  rewrite C, D, A, B. reflexivity.
Qed.

Lemma sha2_compute_hash s x :
  fst (s_computeHash s x) = sha2_digest (s_alg s) x /\
  ComputeSHA2_256 x = fst (s_computeHash NewSHA2_256 x).
Proof. split; reflexivity. Qed.
