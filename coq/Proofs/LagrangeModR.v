(* Lagrange interpolation at zero for the modular arithmetic of Model/Threshold.v.
   The residues modulo a prime m form a field on the carrier {z | 0 <= z < m} (bounds kept as a
   boolean equation, so equality of residues is equality of the underlying integers by UIP on bool,
   a theorem).  Proofs/LagrangeField.v is instantiated with that field and the result is
   transported to the fold-based definitions [poly_eval] and [lagrange_spec] of the model. *)
From Coq Require Import ZArith List Bool Lia Field Ring Permutation Eqdep_dec.
From V Require Import Lib.Num Lib.FermatZ Prim.Bls12 Model.Threshold Proofs.ModArith Proofs.LagrangeField.
Import ListNotations.
Open Scope Z_scope.

(* the model's definitions with the modulus as a parameter *)
Definition poly_eval_m (m : Z) (a : list Z) (x : Z) : Z := fold_right (fun c acc => (c + x * acc) mod m) 0 a.
Definition inv_m (m : Z) (a : Z) : Z := mpow ZNum m (a mod m) (m - 2).
Definition lagrange_spec_m (m : Z) (idx : list Z) (i : nat) : Z :=
  let xi := nth i idx 0 in
  let others := firstn i idx ++ skipn (S i) idx in
  let num := fold_left (fun acc x => (acc * x) mod m) others 1 in
  let den := fold_left (fun acc x => (acc * (x - xi)) mod m) others 1 in
  (num * inv_m m den) mod m.

Lemma poly_eval_is_m a x : poly_eval a x = poly_eval_m rZ a x.
Proof. unfold poly_eval, poly_eval_m, r. reflexivity. Qed.
Lemma inv_r_is_m a : inv_r a = inv_m rZ a.
Proof. unfold inv_r, inv_m, r. reflexivity. Qed.
Lemma lagrange_spec_is_m idx i : lagrange_spec idx i = lagrange_spec_m rZ idx i.
Proof. unfold lagrange_spec, lagrange_spec_m. cbv zeta. unfold r. rewrite inv_r_is_m. reflexivity. Qed.

Lemma NoDup_map_inj {A B} (f : A -> B) (l : list A) :
  (forall x y, In x l -> In y l -> f x = f y -> x = y) -> NoDup l -> NoDup (map f l).
Proof.
  induction l as [|x l IH]; intros Hinj ND; cbn [map]. constructor.
  inversion ND as [|x' l' Hx ND']; subst. constructor.
  - intro Hi. apply in_map_iff in Hi. destruct Hi as [y [E Hy]].
    apply Hx. rewrite (Hinj x y); [exact Hy | left; reflexivity | right; exact Hy | symmetry; exact E].
  - apply IH. intros a b Ha Hb. apply Hinj; right; assumption. exact ND'.
Qed.

Lemma fold_left_ext2 {A B} (f g : A -> B -> A) : (forall a b, f a b = g a b) ->
  forall l a, fold_left f l a = fold_left g l a.
Proof. intros E l. induction l as [|b l IH]; intro a; cbn [fold_left]. reflexivity. rewrite E. apply IH. Qed.

Section ModField.
Variable m : Z.
Hypothesis Hm : 1 < m.

(* ---- the carrier ---- *)
Definition inR (z : Z) : bool := (0 <=? z) && (z <? m).
Definition F : Type := {z : Z | inR z = true}.
Definition val (a : F) : Z := proj1_sig a.

Lemma inR_iff z : inR z = true <-> 0 <= z < m.
Proof. unfold inR. rewrite andb_true_iff, Z.leb_le, Z.ltb_lt. reflexivity. Qed.

Lemma inR_mod z : inR (z mod m) = true.
Proof. apply inR_iff. apply Z.mod_pos_bound. lia. Qed.

Definition mk (z : Z) : F := exist _ (z mod m) (inR_mod z).

Lemma val_mk z : val (mk z) = z mod m. Proof. reflexivity. Qed.
Lemma val_range a : 0 <= val a < m. Proof. destruct a as [x Hx]. apply inR_iff. exact Hx. Qed.

Lemma F_eq a b : val a = val b -> a = b.
Proof.
  destruct a as [x Hx], b as [y Hy]. cbn [val proj1_sig]. intro E. subst y.
  f_equal. apply UIP_dec. apply bool_dec.
Qed.

Lemma val_small a : val a mod m = val a. Proof. apply Z.mod_small. apply val_range. Qed.

Definition f0 : F := mk 0.
Definition f1 : F := mk 1.
Definition fadd (a b : F) : F := mk (val a + val b).
Definition fmul (a b : F) : F := mk (val a * val b).
Definition fsub (a b : F) : F := mk (val a - val b).
Definition fopp (a : F) : F := mk (- val a).
Definition finv (a : F) : F := mk (inv_m m (val a)).
Definition fdiv (a b : F) : F := mk (val a * inv_m m (val b)).

Lemma val_f0 : val f0 = 0. Proof. unfold f0. rewrite val_mk. apply Z.mod_0_l. lia. Qed.
Lemma val_f1 : val f1 = 1. Proof. unfold f1. rewrite val_mk. apply Z.mod_1_l. lia. Qed.

Ltac modnorm :=
  repeat (rewrite ?Zmult_mod_idemp_l, ?Zmult_mod_idemp_r);
  repeat (rewrite ?Zminus_mod_idemp_l, ?Zminus_mod_idemp_r, ?Zplus_mod_idemp_l, ?Zplus_mod_idemp_r).
Ltac fstart := intros; apply F_eq; unfold fadd, fmul, fsub, fopp, fdiv, finv, f0, f1; rewrite ?val_mk; modnorm.

Lemma fadd_0_l x : fadd f0 x = x.
Proof. fstart. rewrite Z.add_0_l. apply val_small. Qed.
Lemma fadd_comm x y : fadd x y = fadd y x.
Proof. fstart. f_equal. ring. Qed.
Lemma fadd_assoc x y z : fadd x (fadd y z) = fadd (fadd x y) z.
Proof. fstart. f_equal. ring. Qed.
Lemma fmul_1_l x : fmul f1 x = x.
Proof. fstart. rewrite Z.mul_1_l. apply val_small. Qed.
Lemma fmul_comm x y : fmul x y = fmul y x.
Proof. fstart. f_equal. ring. Qed.
Lemma fmul_assoc x y z : fmul x (fmul y z) = fmul (fmul x y) z.
Proof. fstart. f_equal. ring. Qed.
Lemma fdistr_l x y z : fmul (fadd x y) z = fadd (fmul x z) (fmul y z).
Proof. fstart. f_equal. ring. Qed.
Lemma fsub_def x y : fsub x y = fadd x (fopp y).
Proof. fstart. reflexivity. Qed.
Lemma fopp_def x : fadd x (fopp x) = f0.
Proof. fstart. f_equal. ring. Qed.

Lemma F_ring : ring_theory f0 f1 fadd fmul fsub fopp (@eq F).
Proof.
  constructor.
  - exact fadd_0_l. - exact fadd_comm. - exact fadd_assoc.
  - exact fmul_1_l. - exact fmul_comm. - exact fmul_assoc.
  - exact fdistr_l. - exact fsub_def. - exact fopp_def.
Qed.

Hypothesis Hpr : primeZ m.

Lemma inv_m_correct v : 0 <= v < m -> v <> 0 -> (inv_m m v * v) mod m = 1.
Proof.
  intros Hv Hnz. unfold inv_m. rewrite (Z.mod_small v m) by exact Hv.
  destruct (Z.eq_dec m 2) as [E|NE].
  - (* m = 2: v = 1, exponent 0 *)
    assert (v = 1) by lia. subst v. rewrite E. reflexivity.
  - rewrite (mpow_Z m Hm v (m - 2)) by lia.
    rewrite Zmult_mod_idemp_l.
    replace (v ^ (m - 2) * v) with (v ^ (m - 1)).
    + apply (fermat_unit m Hm Hpr v). lia. rewrite Z.mod_small by exact Hv. exact Hnz.
    + replace (m - 1) with ((m - 2) + 1) by lia. rewrite Z.pow_add_r by lia. rewrite Z.pow_1_r. reflexivity.
Qed.

Lemma F_field : field_theory f0 f1 fadd fmul fsub fopp fdiv finv (@eq F).
Proof.
  constructor.
  - exact F_ring.
  - intro E. apply (f_equal val) in E. rewrite val_f1, val_f0 in E. discriminate.
  - fstart. reflexivity.
  - intros p Hp. fstart. rewrite (Z.mod_1_l m Hm).
    apply inv_m_correct. apply val_range.
    intro E. apply Hp. apply F_eq. rewrite val_f0. exact E.
Qed.

(* ---- transport to the fold-based definitions ---- *)
Notation pevalF := (peval F f0 fadd fmul).
Notation prodfF := (prodf F f1 fmul).
Notation lambdaF := (lambda F f0 f1 fmul fsub fdiv).

Lemma poly_eval_val x : forall a, val (pevalF (map mk a) (mk x)) = poly_eval_m m a x.
Proof.
  induction a as [|c t IH]. exact val_f0.
  cbn [map]. rewrite peval_cons. unfold poly_eval_m. cbn [fold_right]. fold (poly_eval_m m t x).
  rewrite <- IH. unfold fadd, fmul. rewrite !val_mk. modnorm. reflexivity.
Qed.

Lemma prod_transfer (g : Z -> Z) (gF : F -> F) : (forall x, val (gF (mk x)) = g x mod m) ->
  forall l acc, fold_left (fun acc x => (acc * g x) mod m) l (val acc) = val (fmul acc (prodfF gF (map mk l))).
Proof.
  intros Hg l. induction l as [|x l IH]; intro acc.
  - cbn [fold_left map prodf fold_right]. unfold fmul. rewrite val_mk, val_f1, Z.mul_1_r. symmetry. apply val_small.
  - cbn [fold_left map]. unfold prodf. cbn [fold_right]. fold (prodfF gF (map mk l)).
    replace ((val acc * g x) mod m) with (val (fmul acc (gF (mk x)))).
    + rewrite IH. rewrite fmul_assoc. reflexivity.
    + unfold fmul. rewrite val_mk, Hg. modnorm. reflexivity.
Qed.

Lemma prod_transfer_1 (g : Z -> Z) (gF : F -> F) : (forall x, val (gF (mk x)) = g x mod m) ->
  forall l, fold_left (fun acc x => (acc * g x) mod m) l 1 = val (prodfF gF (map mk l)).
Proof.
  intros Hg l. rewrite <- val_f1 at 1. rewrite (prod_transfer g gF Hg l f1). rewrite fmul_1_l. reflexivity.
Qed.

Lemma nth_mk i idx : nth i (map mk idx) f0 = mk (nth i idx 0).
Proof. unfold f0. apply map_nth. Qed.

Lemma lagrange_spec_val idx i : lagrange_spec_m m idx i = val (lambdaF (map mk idx) i).
Proof.
  unfold lagrange_spec_m, lambda, prod_except, others. cbv zeta.
  rewrite nth_mk, firstn_map, skipn_map, <- map_app.
  set (oth := firstn i idx ++ skipn (S i) idx). set (xi := nth i idx 0).
  rewrite (prod_transfer_1 (fun x => x) (fun y => y)) by (intro x; apply val_mk).
  rewrite (prod_transfer_1 (fun x => x - xi) (fun y => fsub y (mk xi))).
  - reflexivity.
  - intro x. unfold fsub. rewrite !val_mk. modnorm. reflexivity.
Qed.

Lemma sum_transfer (t : nat -> Z) (tF : nat -> F) : (forall i, val (tF i) = t i mod m) ->
  forall l acc, fold_left (fun acc i => (acc + t i) mod m) l (val acc)
                = val (fadd acc (fold_right fadd f0 (map tF l))).
Proof.
  intros Ht l. induction l as [|i l IH]; intro acc.
  - cbn [fold_left map fold_right]. unfold fadd. rewrite val_mk, val_f0, Z.add_0_r. symmetry. apply val_small.
  - cbn [fold_left map fold_right].
    replace ((val acc + t i) mod m) with (val (fadd acc (tF i))).
    + rewrite IH. rewrite fadd_assoc. reflexivity.
    + unfold fadd. rewrite val_mk, Ht. modnorm. reflexivity.
Qed.

Lemma poly_eval_m_zero a : poly_eval_m m a 0 = nth 0 a 0 mod m.
Proof.
  destruct a as [|c t]; cbn [nth]. symmetry; apply Z.mod_0_l; lia.
  unfold poly_eval_m. cbn [fold_right]. rewrite Z.mul_0_l, Z.add_0_r. reflexivity.
Qed.

Lemma mk_inj x y : 0 <= x < m -> 0 <= y < m -> mk x = mk y -> x = y.
Proof.
  intros Hx Hy E. apply (f_equal val) in E. rewrite !val_mk in E.
  rewrite !Z.mod_small in E by assumption. exact E.
Qed.

Theorem interpolation_mod_m_sec : forall (idx a : list Z),
  NoDup idx -> Forall (fun x => 0 <= x < m) idx -> (length a <= length idx)%nat ->
  fold_left (fun acc i => (acc + lagrange_spec_m m idx i * poly_eval_m m a (nth i idx 0)) mod m)
            (seq 0 (length idx)) 0
  = nth 0 a 0 mod m.
Proof.
  intros idx a ND Hr Hl.
  set (tF := fun i => fmul (lambdaF (map mk idx) i) (pevalF (map mk a) (nth i (map mk idx) f0))).
  rewrite <- val_f0 at 1.
  rewrite (sum_transfer _ tF).
  - rewrite fadd_0_l. unfold tF.
    rewrite <- (map_length mk idx).
    rewrite (interpolation_at_zero F f0 f1 fadd fmul fsub fopp fdiv finv F_field (map mk idx) (map mk a)).
    + change f0 with (mk 0) at 2. rewrite poly_eval_val. apply poly_eval_m_zero.
    + apply NoDup_map_inj; [|exact ND]. rewrite Forall_forall in Hr.
      intros x y Hx Hy. apply mk_inj; apply Hr; assumption.
    + rewrite !map_length. exact Hl.
  - intro i. unfold tF, fmul. rewrite val_mk, nth_mk, poly_eval_val, <- lagrange_spec_val. reflexivity.
Qed.

End ModField.

Theorem interpolation_mod_m : forall m, primeZ m -> forall (idx a : list Z),
  NoDup idx -> Forall (fun x => 0 <= x < m) idx -> (length a <= length idx)%nat ->
  fold_left (fun acc i => (acc + lagrange_spec_m m idx i * poly_eval_m m a (nth i idx 0)) mod m)
            (seq 0 (length idx)) 0
  = nth 0 a 0 mod m.
Proof. intros m Hpr. exact (interpolation_mod_m_sec m (primeZ_gt1 m Hpr) Hpr). Qed.

(* ---- the model of Model/Threshold.v ---- *)
Lemma rZ_gt_255 : 255 < rZ. Proof. vm_compute. reflexivity. Qed.

(* the coefficients need not be reduced: every Horner step reduces *)
Theorem interpolation_mod_r_gen : primeZ rZ -> forall (idx a : list Z),
  NoDup idx -> Forall (fun x => 0 <= x < rZ) idx -> (length a <= length idx)%nat ->
  fold_left (fun acc i => (acc + lagrange_spec idx i * poly_eval a (nth i idx 0)) mod rZ)
            (seq 0 (length idx)) 0
  = nth 0 a 0 mod rZ.
Proof.
  intros Hpr idx a ND Hr Hl.
  rewrite <- (interpolation_mod_m rZ Hpr idx a ND Hr Hl).
  apply fold_left_ext2. intros acc i. rewrite poly_eval_is_m, lagrange_spec_is_m. reflexivity.
Qed.

Theorem interpolation_mod_r : primeZ rZ -> forall (idx a : list Z),
  NoDup idx -> Forall (fun x => 1 <= x <= 255) idx -> (length a <= length idx)%nat ->
  Forall (fun c => 0 <= c < rZ) a ->
  fold_left (fun acc i => (acc + lagrange_spec idx i * poly_eval a (nth i idx 0)) mod rZ)
            (seq 0 (length idx)) 0
  = nth 0 a 0 mod rZ.
Proof.
  intros Hpr idx a ND Hr Hl _. apply interpolation_mod_r_gen; try assumption.
  pose proof rZ_gt_255 as B. revert Hr. apply Forall_impl. intros x Hx. lia.
Qed.

(* for reduced coefficients the right-hand side is the constant coefficient itself *)
Corollary interpolation_mod_r_secret : primeZ rZ -> forall (idx a : list Z),
  NoDup idx -> Forall (fun x => 1 <= x <= 255) idx -> (length a <= length idx)%nat ->
  Forall (fun c => 0 <= c < rZ) a -> a <> [] ->
  fold_left (fun acc i => (acc + lagrange_spec idx i * poly_eval a (nth i idx 0)) mod rZ)
            (seq 0 (length idx)) 0
  = nth 0 a 0.
Proof.
  intros Hpr idx a ND Hr Hl Ha Hne. rewrite (interpolation_mod_r Hpr idx a ND Hr Hl Ha).
  destruct a as [|c t]; [contradiction|]. cbn [nth]. inversion Ha; subst. apply Z.mod_small. assumption.
Qed.

(* ---- non-vacuity ---- *)
(* all hypotheses of the generic theorem hold for m = 7 (primality by computation) *)
Lemma prime7 : primeZ 7. Proof. reflexivity. Qed.
Example interpolation_mod_7 :
  fold_left (fun acc i => (acc + lagrange_spec_m 7 [1; 3; 5] i * poly_eval_m 7 [4; 2; 6] (nth i [1; 3; 5] 0)) mod 7)
            (seq 0 3) 0 = 4.
Proof.
  exact (interpolation_mod_m 7 prime7 [1; 3; 5] [4; 2; 6]
           ltac:(repeat constructor; cbn; intuition discriminate)
           ltac:(repeat constructor; lia) ltac:(cbn; lia)).
Qed.
(* the list hypotheses of [interpolation_mod_r] are satisfiable (primality of rZ is the
   mathematical hypothesis) *)
Example interpolation_mod_r_hyps :
  let idx := [1; 2; 3] in let a := [5; 7; 11] in
  NoDup idx /\ Forall (fun x => 1 <= x <= 255) idx /\ (length a <= length idx)%nat /\
  Forall (fun c => 0 <= c < rZ) a.
Proof.
  pose proof rZ_gt_255.
  repeat split; repeat constructor; cbn; try lia; intuition discriminate.
Qed.

Print Assumptions interpolation_mod_m.
Print Assumptions interpolation_mod_r.
Print Assumptions interpolation_mod_r_secret.
Print Assumptions interpolation_mod_7.
