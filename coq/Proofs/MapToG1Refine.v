(* Model/MapToG1.v run on any faithful carrier (Lib/Num.v [num_ok], in particular Bignums BigZ, on
   which the correspondence runs execute it) computes, coordinate by coordinate, what the same
   model computes on Z (on which the theorems of Proofs/MapToG1Proofs.v are stated). *)
From Coq Require Import ZArith NArith List Bool Lia.
From Bignums Require Import BigZ.
From V Require Import Lib.Num Lib.FermatZ Prim.Bls12 Spec.ZcashCodec Proofs.NumRefine
  Generated.Consts Generated.IsoG1 Model.MapToG1 Proofs.MapToG1Proofs.
Import ListNotations.
Open Scope Z_scope.

Section Refine.
Context {T : Type} (M : num T) (OK : num_ok M) (p : T).
Local Notation "[[ x ]]" := (n_to_Z M x).
Local Notation pz := (n_to_Z M p).

Definition jmapZ (P : @jpt T) : @jpt Z := mkJ [[jx P]] [[jy P]] [[jz P]].
Definition prm_mapZ (prm : sswu_params T) : sswu_params Z :=
  mkSP Z [[sp_A prm]] [[sp_B prm]] [[sp_Z prm]] [[sp_minus_A prm]] [[sp_ZxA prm]] [[sp_c2 prm]] (sp_exp prm).
Definition mid_mapZ (m : sswu_mid T) : sswu_mid Z :=
  mkMid Z [[m_x1n m]] [[m_xd m]] [[m_gxd m]] [[m_gx1 m]] [[m_tv4 m]] [[m_t0 m]] (m_e2 m) [[m_y1 m]].
Definition tabs_mapZ (tb : iso_tables T) : iso_tables Z :=
  mkIso Z (map (n_to_Z M) (it_xn tb)) (map (n_to_Z M) (it_xd tb))
          (map (n_to_Z M) (it_yn tb)) (map (n_to_Z M) (it_yd tb)).

Lemma ofZ_r z : [[n_of_Z M z]] = z. Proof. apply (ok_of_Z M OK). Qed.
Lemma fadd_r a b : [[fadd M p a b]] = fadd ZNum pz [[a]] [[b]]. Proof. apply madd_refine, OK. Qed.
Lemma fsub_r a b : [[fsub M p a b]] = fsub ZNum pz [[a]] [[b]]. Proof. apply msub_refine, OK. Qed.
Lemma fmul_r a b : [[fmul M p a b]] = fmul ZNum pz [[a]] [[b]]. Proof. apply mmul_refine, OK. Qed.
Lemma fneg_r a : [[fneg M p a]] = fneg ZNum pz [[a]]. Proof. apply mneg_refine, OK. Qed.
Lemma fpow_r a e : [[fpow M p a e]] = fpow ZNum pz [[a]] e. Proof. apply mpow_refine, OK. Qed.
Lemma feqb_r a b : feqb M a b = feqb ZNum [[a]] [[b]]. Proof. apply (ok_eqb M OK). Qed.
Lemma zero_r : [[n_of_Z M 0]] = n_of_Z ZNum 0. Proof. apply ofZ_r. Qed.
Lemma one_r : [[n_of_Z M 1]] = n_of_Z ZNum 1. Proof. apply ofZ_r. Qed.
Lemma if_r (b : bool) (x y : T) : [[if b then x else y]] = if b then [[x]] else [[y]].
Proof. destruct b; reflexivity. Qed.
Lemma jif_r (b : bool) (x y : @jpt T) : jmapZ (if b then x else y) = if b then jmapZ x else jmapZ y.
Proof. destruct b; reflexivity. Qed.

Lemma sgn0_r a : sgn0 M a = sgn0 ZNum [[a]].
Proof.
  unfold sgn0. rewrite (ok_eqb M OK), (ok_mod M OK), !ofZ_r. reflexivity.
Qed.

Ltac push :=
  repeat (rewrite ?fadd_r, ?fsub_r, ?fmul_r, ?fneg_r, ?fpow_r, ?if_r, ?zero_r, ?one_r).

(* ---- simplified SWU ---- *)
Section Sswu.
Variable prm : sswu_params T.
Local Notation prmz := (prm_mapZ prm).

Lemma mid_x1n_r tv2 : [[mid_x1n M p prm tv2]] = mid_x1n ZNum pz prmz [[tv2]].
Proof. unfold mid_x1n. push. reflexivity. Qed.
Lemma mid_xd_r tv2 : [[mid_xd M p prm tv2]] = mid_xd ZNum pz prmz [[tv2]].
Proof.
  unfold mid_xd. cbv zeta. push. rewrite feqb_r. push. reflexivity.
Qed.
Lemma mid_gxd_r a b : [[mid_gxd M p a b]] = mid_gxd ZNum pz [[a]] [[b]].
Proof. unfold mid_gxd. push. reflexivity. Qed.
Lemma mid_gx1_r a b c : [[mid_gx1 M p prm a b c]] = mid_gx1 ZNum pz prmz [[a]] [[b]] [[c]].
Proof. unfold mid_gx1. push. reflexivity. Qed.
Lemma mid_tv4_r a b : [[mid_tv4 M p a b]] = mid_tv4 ZNum pz [[a]] [[b]].
Proof. unfold mid_tv4. push. reflexivity. Qed.
Lemma recip_sqrt_r a :
  (fst (recip_sqrt M p prm a), [[snd (recip_sqrt M p prm a)]]) = recip_sqrt ZNum pz prmz [[a]].
Proof.
  unfold recip_sqrt. cbv zeta. cbn [fst snd]. rewrite feqb_r. push. reflexivity.
Qed.

Lemma sswu_mid_r tv2 : mid_mapZ (sswu_mid_of M p prm tv2) = sswu_mid_of ZNum pz prmz [[tv2]].
Proof.
  unfold sswu_mid_of. cbv zeta. unfold mid_mapZ.
  cbn [m_x1n m_xd m_gxd m_gx1 m_tv4 m_t0 m_e2 m_y1].
  set (tv4 := mid_tv4 M p _ _).
  pose proof (recip_sqrt_r tv4) as R.
  assert (Etv4 : [[tv4]] = mid_tv4 ZNum pz
            (mid_gxd ZNum pz (mid_xd ZNum pz prmz [[tv2]])
               (fmul ZNum pz (mid_xd ZNum pz prmz [[tv2]]) (mid_xd ZNum pz prmz [[tv2]])))
            (fmul ZNum pz
               (mid_gx1 ZNum pz prmz (mid_x1n ZNum pz prmz [[tv2]])
                  (fmul ZNum pz (mid_xd ZNum pz prmz [[tv2]]) (mid_xd ZNum pz prmz [[tv2]]))
                  (mid_gxd ZNum pz (mid_xd ZNum pz prmz [[tv2]])
                     (fmul ZNum pz (mid_xd ZNum pz prmz [[tv2]]) (mid_xd ZNum pz prmz [[tv2]]))))
               (mid_gxd ZNum pz (mid_xd ZNum pz prmz [[tv2]])
                  (fmul ZNum pz (mid_xd ZNum pz prmz [[tv2]]) (mid_xd ZNum pz prmz [[tv2]]))))).
  { unfold tv4. repeat (rewrite ?mid_tv4_r, ?mid_gx1_r, ?mid_gxd_r, ?mid_x1n_r, ?mid_xd_r, ?fmul_r). reflexivity. }
  rewrite Etv4 in R. clearbody tv4.
  destruct (recip_sqrt M p prm tv4) as [e2 t0]. cbn [fst snd] in *.
  rewrite <- R. cbn [fst snd].
  rewrite Etv4. repeat (rewrite ?mid_tv4_r, ?mid_gx1_r, ?mid_gxd_r, ?mid_x1n_r, ?mid_xd_r, ?fmul_r). reflexivity.
Qed.

Lemma proj_mid_r (m : sswu_mid T) :
  [[m_x1n m]] = m_x1n (mid_mapZ m) /\ [[m_xd m]] = m_xd (mid_mapZ m) /\
  [[m_gxd m]] = m_gxd (mid_mapZ m) /\ [[m_y1 m]] = m_y1 (mid_mapZ m) /\ m_e2 m = m_e2 (mid_mapZ m).
Proof. destruct m; cbn. repeat split. Qed.

Lemma sswu_r u : jmapZ (sswu M p prm u) = sswu ZNum pz prmz [[u]].
Proof.
  unfold sswu. cbv zeta.
  set (tv2 := fadd M p _ _).
  assert (Etv2 : [[tv2]] = fadd ZNum pz
            (fmul ZNum pz (fmul ZNum pz (sp_Z prmz) (fmul ZNum pz [[u]] [[u]]))
                          (fmul ZNum pz (sp_Z prmz) (fmul ZNum pz [[u]] [[u]])))
            (fmul ZNum pz (sp_Z prmz) (fmul ZNum pz [[u]] [[u]]))).
  { unfold tv2. push. reflexivity. }
  pose proof (sswu_mid_r tv2) as Rm. rewrite Etv2 in Rm. rewrite <- Rm. clear Rm Etv2.
  destruct (proj_mid_r (sswu_mid_of M p prm tv2)) as (E1 & E2 & E3 & E4 & E5).
  rewrite <- E1, <- E2, <- E3, <- E4, <- E5.
  set (m := sswu_mid_of M p prm tv2). clearbody m. clearbody tv2.
  unfold jmapZ. cbn [jx jy jz].
  rewrite !sgn0_r. push. reflexivity.
Qed.
End Sswu.

(* ---- point addition ---- *)
Lemma dadd_tail_r a b c d e f :
  jmapZ (dadd_tail M p a b c d e f) = dadd_tail ZNum pz [[a]] [[b]] [[c]] [[d]] [[e]] [[f]].
Proof. unfold dadd_tail. cbv zeta. unfold jmapZ. cbn [jx jy jz]. push. reflexivity. Qed.
Lemma dadd_dbl_R_r a4 x z :
  [[dadd_dbl_R M p a4 x z]] = dadd_dbl_R ZNum pz (option_map (n_to_Z M) a4) [[x]] [[z]].
Proof. unfold dadd_dbl_R. cbv zeta. destruct a4; cbn [option_map]; push; reflexivity. Qed.

Lemma dadd_r a4 P Q :
  jmapZ (dadd M p a4 P Q) = dadd ZNum pz (option_map (n_to_Z M) a4) (jmapZ P) (jmapZ Q).
Proof.
  unfold dadd. cbv zeta. rewrite !jif_r, !dadd_tail_r, dadd_dbl_R_r, !feqb_r.
  cbn [jmapZ jx jy jz]. push. reflexivity.
Qed.

Lemma jdbl_r P : jmapZ (jdbl (FpOps M p) P) = jdbl (FpOps ZNum pz) (jmapZ P).
Proof.
  unfold jdbl, jis_inf, dbl2. cbn [FpOps o_eqb o_zero o_add o_sub o_mul]. cbv zeta.
  rewrite jif_r, feqb_r. unfold jmapZ. cbn [jx jy jz]. push. reflexivity.
Qed.

Lemma dbl_n_r n P : jmapZ (dbl_n M p n P) = dbl_n ZNum pz n (jmapZ P).
Proof. revert P; induction n as [|n IH]; intro P; cbn [dbl_n]; [reflexivity|]. rewrite IH, jdbl_r. reflexivity. Qed.

Lemma times_minus_z_r chain P :
  jmapZ (times_minus_z M p chain P) = times_minus_z ZNum pz chain (jmapZ P).
Proof.
  unfold times_minus_z. rewrite <- jdbl_r. generalize (jdbl (FpOps M p) P) as acc.
  induction chain as [|n chain IH]; intro acc; cbn [fold_left]; [reflexivity|].
  rewrite IH, dbl_n_r, dadd_r. reflexivity.
Qed.

(* ---- isogeny ---- *)
Lemma hom_fold_r X Zz rest (st : T * T) :
  let r := fold_left (fun (st : T * T) k =>
             let pw := fmul M p (snd st) Zz in
             (fadd M p (fmul M p (fst st) X) (fmul M p k pw), pw)) rest st in
  ([[fst r]], [[snd r]]) =
  fold_left (fun (st : Z * Z) k =>
             let pw := fmul ZNum pz (snd st) [[Zz]] in
             (fadd ZNum pz (fmul ZNum pz (fst st) [[X]]) (fmul ZNum pz k pw), pw))
            (map (n_to_Z M) rest) ([[fst st]], [[snd st]]).
Proof.
  revert st. induction rest as [|k r IH]; intro st; cbn [fold_left map]; [reflexivity|].
  cbv zeta in IH. cbv zeta. rewrite IH. cbn [fst snd]. push. reflexivity.
Qed.

Lemma hom_eval_r ks X Zz :
  [[hom_eval M p ks X Zz]] = hom_eval ZNum pz (map (n_to_Z M) ks) [[X]] [[Zz]].
Proof.
  unfold hom_eval. rewrite <- map_rev. destruct (rev ks) as [|lead rest]; cbn [map].
  - apply ofZ_r.
  - pose proof (hom_fold_r X Zz rest (lead, n_of_Z M 1)) as G. cbv zeta in G. cbn [fst snd] in G.
    rewrite ofZ_r in G. apply (f_equal fst) in G. cbn [fst] in G. exact G.
Qed.

Lemma iso_map_r tb P : jmapZ (iso_map M p tb P) = iso_map ZNum pz (tabs_mapZ tb) (jmapZ P).
Proof.
  unfold iso_map. cbv zeta. unfold jmapZ. cbn [jx jy jz tabs_mapZ it_xn it_xd it_yn it_yd].
  push. rewrite !hom_eval_r. push. rewrite !map_app. cbn [map]. rewrite !ofZ_r. reflexivity.
Qed.

(* ---- the whole map ---- *)
Theorem map_to_g1_refines prm tb chain u v :
  jmapZ (map_to_g1 M p prm tb chain u v) =
  map_to_g1 ZNum pz (prm_mapZ prm) (tabs_mapZ tb) chain [[u]] [[v]].
Proof.
  unfold map_to_g1. cbv zeta.
  rewrite dadd_r, times_minus_z_r, !iso_map_r, dadd_r, !sswu_r. reflexivity.
Qed.

Lemma iso_params_r : prm_mapZ (iso_params M) = iso_params ZNum.
Proof. unfold prm_mapZ, iso_params. cbn [sp_A sp_B sp_Z sp_minus_A sp_ZxA sp_c2 sp_exp]. rewrite !ofZ_r. reflexivity. Qed.
Lemma map_ofZ_r l : map (n_to_Z M) (map (n_of_Z M) l) = map (n_of_Z ZNum) l.
Proof. induction l as [|x l IH]; cbn [map]; [reflexivity|]. rewrite ofZ_r, IH. reflexivity. Qed.
Lemma iso_tabs_r : tabs_mapZ (iso_tabs M) = iso_tabs ZNum.
Proof. unfold tabs_mapZ, iso_tabs. cbn [it_xn it_xd it_yn it_yd]. rewrite !map_ofZ_r. reflexivity. Qed.

Theorem map_to_G1_ints_refines u0 u1 :
  jmapZ (map_to_G1_ints M p u0 u1) = map_to_G1_ints ZNum pz u0 u1.
Proof.
  unfold map_to_G1_ints. rewrite map_to_g1_refines, iso_params_r, iso_tabs_r.
  rewrite !(ok_mod M OK), !ofZ_r. reflexivity.
Qed.
End Refine.

(* the BigZ instance the correspondence runs execute *)
Theorem map_to_G1_ints_bigZ u0 u1 :
  jmapZ BNum (map_to_G1_ints BNum pB u0 u1) = map_to_G1_ints ZNum pZ u0 u1.
Proof.
  rewrite (map_to_G1_ints_refines BNum BNum_ok pB). cbn [n_to_Z BNum]. rewrite pB_ok. reflexivity.
Qed.

Theorem map_to_G1_bigZ hash :
  match map_to_G1 BNum pB hash, map_to_G1 ZNum pZ hash with
  | G1Point P, G1Point Q => jmapZ BNum P = Q
  | G1Invalid, G1Invalid => True
  | _, _ => False
  end.
Proof.
  unfold map_to_G1. destruct (negb _); [exact I|]. apply map_to_G1_ints_bigZ.
Qed.

(* the SSWU stage as executed on BigZ returns points of E1' (for every BigZ input, reduced or not) *)
Theorem sswu_bigZ_on_E1prime :
  primeZ pZ -> forall u : bigZ,
    jac_on_curve pZ iso_Aprime iso_Bprime (jmapZ BNum (sswu BNum pB (iso_params BNum) u)).
Proof.
  intros Hpr u. rewrite (sswu_r BNum BNum_ok pB), (iso_params_r BNum BNum_ok).
  cbn [n_to_Z BNum]. rewrite pB_ok. apply sswu_on_E1prime. exact Hpr.
Qed.
