(* A small instance of the group interface of Model/Ecdsa.v that satisfies [ec_laws]:
   the additive group Z/3 with xr(P) = P^2 mod 3.  It only serves as the non-vacuity
   witness of the hypotheses of the C11 theorems. *)
From Coq Require Import ZArith NArith List Bool Lia Zdiv.
From V Require Import Lib.BytesZ Spec.EcdsaSpec Model.Ecdsa Proofs.EcdsaProofs.
Import ListNotations.
Open Scope Z_scope.

Inductive g3 := A0 | A1 | A2.
Definition to_z (P : g3) : Z := match P with A0 => 0 | A1 => 1 | A2 => 2 end.
Definition of_z (z : Z) : g3 := if z =? 0 then A0 else if z =? 1 then A1 else A2.

Definition toy_ops : ecops g3 :=
  {| eo_n := 3; eo_p := 5; eo_bitsize := 3;
     eo_add := fun P Q => of_z ((to_z P + to_z Q) mod 3);
     eo_neg := fun P => of_z ((- to_z P) mod 3);
     eo_zero := A0;
     eo_smul := fun a P => of_z ((a * to_z P) mod 3);
     eo_base := A1;
     eo_xr := fun P => (to_z P * to_z P) mod 3;
     eo_inv := fun a => a mod 3;
     eo_of_affine := fun xy => of_z (fst xy mod 3);
     eo_to_affine := fun P => Some (to_z P, 0);
     eo_rhs := fun x => x; eo_sqrt_cand := fun c => c |}.

Lemma to_of z : 0 <= z < 3 -> to_z (of_z z) = z.
Proof.
  intro H. assert (z = 0 \/ z = 1 \/ z = 2) as [-> | [-> | ->]] by lia; reflexivity.
Qed.
Lemma to_of_mod z : to_z (of_z (z mod 3)) = z mod 3.
Proof. apply to_of. apply Z.mod_pos_bound. lia. Qed.
Lemma of_to P : of_z (to_z P) = P.
Proof. destruct P; reflexivity. Qed.
Lemma to_z_range P : 0 <= to_z P < 3.
Proof. destruct P; cbn; lia. Qed.

Lemma sq_mod3 a : a mod 3 <> 0 -> (a * (a mod 3)) mod 3 = 1.
Proof.
  intro H. rewrite Zmult_mod_idemp_r.
  pose proof (Z.mod_pos_bound a 3 ltac:(lia)).
  rewrite Zmult_mod. assert (a mod 3 = 1 \/ a mod 3 = 2) as [-> | ->] by lia; reflexivity.
Qed.

Lemma toy_laws : ec_laws toy_ops.
Proof.
  constructor; cbn [toy_ops eo_n eo_add eo_neg eo_zero eo_smul eo_base eo_xr eo_inv].
  - lia.
  - exact sq_mod3.
  - intros a b P. rewrite !to_of_mod. f_equal. rewrite <- Zplus_mod. f_equal. ring.
  - intros a b P. rewrite to_of_mod. f_equal. rewrite Zmult_mod_idemp_r. f_equal. ring.
  - intros a P. f_equal. apply Zmult_mod_idemp_l.
  - intros P Q R. rewrite !to_of_mod. f_equal.
    rewrite Zplus_mod_idemp_r, Zplus_mod_idemp_l. f_equal. ring.
  - intros P Q. f_equal. f_equal. ring.
  - intros P. cbn [to_z]. rewrite Z.add_0_r, Z.mod_small by apply to_z_range. apply of_to.
  - intros P. rewrite to_of_mod. rewrite Zplus_mod_idemp_r.
    replace (to_z P + - to_z P) with 0 by ring. reflexivity.
  - intros P. rewrite to_of_mod. rewrite <- Zmult_mod.
    replace (- to_z P * - to_z P) with (to_z P * to_z P) by ring. reflexivity.
Qed.

(* a toy signature: d = 2, nonce k = 2, digest byte 0x01; Q = d*B is the affine pair (2, 0) *)
Example toy_sign : signHash toy_ops 2 2 [1%N] = Some (ROk [1%N; 1%N]).
Proof. vm_compute. reflexivity. Qed.
Example toy_pub : eo_of_affine toy_ops (2, 0) = eo_smul toy_ops 2 (eo_base toy_ops).
Proof. reflexivity. Qed.
Example toy_verify : verifyHash toy_ops (2, 0) [1%N; 1%N] [1%N] = true.
Proof. vm_compute. reflexivity. Qed.
Example toy_twin : verifyHash toy_ops (2, 0) [1%N; 2%N] [1%N] = true.
Proof. vm_compute. reflexivity. Qed.
