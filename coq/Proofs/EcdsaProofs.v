(* Lemmas for property C11 (Model/Ecdsa.v over Spec/EcdsaSpec.v). *)
From Coq Require Import ZArith NArith List Bool Lia.
From V Require Import Lib.ListX Lib.BytesZ Spec.EcdsaSpec Prim.EcdsaCurve Model.Ecdsa.
Import ListNotations.
Open Scope Z_scope.

(* ---------- byte lengths ---------- *)
Lemma lt_pow_bytes n : 0 <= n -> n < 256 ^ Z.of_nat (bitsToBytes (bitLen n)).
Proof.
  intro Hn. unfold bitLen, bitsToBytes.
  destruct (n <=? 0) eqn:E.
  - apply Z.leb_le in E. assert (n = 0) by lia. subst. cbn. lia.
  - apply Z.leb_gt in E.
    pose proof (Z.log2_spec n E) as [_ H].
    set (b := Z.log2 n) in *. assert (0 <= b) by apply Z.log2_nonneg.
    rewrite Z2Nat.id by (apply Z.div_pos; lia).
    change 256 with (2 ^ 8). rewrite <- Z.pow_mul_r by (try apply Z.div_pos; lia).
    eapply Z.lt_le_trans; [exact H|].
    apply Z.pow_le_mono_r; [lia|].
    pose proof (Z.div_mod (b + 1 + 7) 8 ltac:(lia)). pose proof (Z.mod_pos_bound (b + 1 + 7) 8 ltac:(lia)). lia.
Qed.

Lemma bitsToBytes_256 n : 2 ^ 255 <= n < 2 ^ 256 -> bitsToBytes (bitLen n) = 32%nat.
Proof.
  intro H. unfold bitLen. destruct (n <=? 0) eqn:E; [apply Z.leb_le in E; lia|].
  assert (Z.log2 n = 255).
  { apply Z.log2_unique; [lia|]. change (Z.succ 255) with 256. exact H. }
  rewrite H0. reflexivity.
Qed.

Section Proofs.
  Context {G : Type} (O : ecops G).
  Let n := eo_n O.
  Let p := eo_p O.

  Notation nLen := (nLen O).
  Notation pLen := (pLen O).

  Lemma n_lt_pow : 0 <= n -> n < 256 ^ Z.of_nat nLen.
  Proof. apply lt_pow_bytes. Qed.
  Lemma p_lt_pow : 0 <= p -> p < 256 ^ Z.of_nat pLen.
  Proof. apply lt_pow_bytes. Qed.

  (* ---------- generic fixed-width pair codec ---------- *)
  Lemma pair_parse k a b :
    0 <= a < 256 ^ Z.of_nat k -> 0 <= b < 256 ^ Z.of_nat k ->
    let s := i2osp k a ++ i2osp k b in
    length s = (2 * k)%nat /\ os2ip (firstn k s) = a /\ os2ip (skipn k s) = b.
  Proof.
    intros Ha Hb s. subst s. split.
    - rewrite app_length, !i2osp_length. lia.
    - rewrite firstn_app_exact by apply i2osp_length.
      rewrite skipn_app_exact by apply i2osp_length.
      split; apply os2ip_i2osp_small; assumption.
  Qed.

  Lemma pair_serialise k s :
    bytes_ok s -> length s = (2 * k)%nat ->
    i2osp k (os2ip (firstn k s)) ++ i2osp k (os2ip (skipn k s)) = s
    /\ 0 <= os2ip (firstn k s) < 256 ^ Z.of_nat k /\ 0 <= os2ip (skipn k s) < 256 ^ Z.of_nat k.
  Proof.
    intros Hb Hl.
    assert (L1 : length (firstn k s) = k) by (rewrite firstn_length; lia).
    assert (L2 : length (skipn k s) = k) by (rewrite skipn_length; lia).
    pose proof (os2ip_bound _ (bytes_ok_firstn k s Hb)) as B1. rewrite L1 in B1.
    pose proof (os2ip_bound _ (bytes_ok_skipn k s Hb)) as B2. rewrite L2 in B2.
    split; [|split; assumption].
    rewrite (i2osp_inj_len _ k (bytes_ok_firstn k s Hb) L1).
    rewrite (i2osp_inj_len _ k (bytes_ok_skipn k s Hb) L2).
    apply firstn_skipn.
  Qed.

  Lemma fits_iff x : fits O x = true <-> 0 <= x < 256 ^ Z.of_nat nLen.
  Proof. unfold fits. rewrite andb_true_iff, Z.leb_le, Z.ltb_lt. tauto. Qed.
  Lemma fitsp_iff x : fitsp O x = true <-> 0 <= x < 256 ^ Z.of_nat pLen.
  Proof. unfold fitsp. rewrite andb_true_iff, Z.leb_le, Z.ltb_lt. tauto. Qed.

  (* ---------- signatures ---------- *)
  Lemma parse_sig_some sig r s :
    parse_sig O sig = Some (r, s) <->
    length sig = (2 * nLen)%nat /\ r = os2ip (firstn nLen sig) /\ s = os2ip (skipn nLen sig).
  Proof.
    unfold parse_sig. destruct (Nat.eqb (length sig) (2 * nLen)) eqn:E.
    - apply Nat.eqb_eq in E. split.
      + intro H. inversion H. auto.
      + intros (_ & -> & ->). reflexivity.
    - apply Nat.eqb_neq in E. split; [discriminate|]. intros (H & _). contradiction.
  Qed.

  Lemma parse_sig_none sig : parse_sig O sig = None <-> length sig <> (2 * nLen)%nat.
  Proof.
    unfold parse_sig. destruct (Nat.eqb (length sig) (2 * nLen)) eqn:E.
    - apply Nat.eqb_eq in E. split; [discriminate|]. intro H. contradiction.
    - apply Nat.eqb_neq in E. tauto.
  Qed.

  Lemma serialise_then_parse r s :
    0 <= r < 256 ^ Z.of_nat nLen -> 0 <= s < 256 ^ Z.of_nat nLen ->
    exists sig, serialise_sig O r s = ROk sig /\ length sig = (2 * nLen)%nat /\ bytes_ok sig
                /\ parse_sig O sig = Some (r, s).
  Proof.
    intros Hr Hs. unfold serialise_sig.
    apply fits_iff in Hr as Fr. apply fits_iff in Hs as Fs. rewrite Fr, Fs. cbn [andb].
    eexists. split; [reflexivity|].
    destruct (pair_parse nLen r s Hr Hs) as (L & A & B).
    split; [exact L|]. split.
    - apply bytes_ok_app. split; apply i2osp_bytes_ok.
    - apply parse_sig_some. auto.
  Qed.

  Lemma parse_then_serialise sig r s :
    bytes_ok sig -> parse_sig O sig = Some (r, s) -> serialise_sig O r s = ROk sig.
  Proof.
    intros Hb H. apply parse_sig_some in H as (L & -> & ->).
    destruct (pair_serialise nLen sig Hb L) as (E & B1 & B2).
    unfold serialise_sig. apply fits_iff in B1. apply fits_iff in B2. rewrite B1, B2. cbn [andb].
    rewrite E. reflexivity.
  Qed.

  Lemma serialise_panics_iff r s :
    serialise_sig O r s = RPanic <-> ~ (0 <= r < 256 ^ Z.of_nat nLen /\ 0 <= s < 256 ^ Z.of_nat nLen).
  Proof.
    unfold serialise_sig. rewrite <- !fits_iff.
    destruct (fits O r), (fits O s); cbn [andb]; split; intro H;
      try discriminate; try reflexivity;
      try (exfalso; apply H; split; reflexivity);
      try (intros [A B]; discriminate).
  Qed.

  (* ---------- format check ---------- *)
  Lemma format_check_iff sig :
    signatureFormatCheck O sig = true <->
    length sig = (2 * nLen)%nat /\ 1 <= os2ip (firstn nLen sig) < n /\ 1 <= os2ip (skipn nLen sig) < n.
  Proof.
    unfold signatureFormatCheck. destruct (parse_sig O sig) as [[r s]|] eqn:E.
    - apply parse_sig_some in E as (L & -> & ->).
      set (r := os2ip (firstn nLen sig)). set (s := os2ip (skipn nLen sig)).
      pose proof (os2ip_nonneg (firstn nLen sig)). pose proof (os2ip_nonneg (skipn nLen sig)).
      fold n.
      destruct (r =? 0) eqn:E1; destruct (s =? 0) eqn:E2;
        destruct (n <=? r) eqn:E3; destruct (n <=? s) eqn:E4; cbn [orb];
        rewrite ?Z.eqb_eq, ?Z.eqb_neq, ?Z.leb_le, ?Z.leb_gt in *;
        (split; intro HH;
         [ try discriminate HH; repeat split; (assumption || lia)
         | try reflexivity; exfalso; destruct HH as (? & ? & ?); lia ]).
    - apply parse_sig_none in E. split; [discriminate|]. intros (L & _). contradiction.
  Qed.

  (* ---------- Verify ---------- *)
  Definition eq_holds (Q : Z * Z) (h : list N) (r s : Z) : Prop :=
    ecdsa_eq G n (eo_add O) (eo_smul O) (eo_base O) (eo_xr O) (eo_inv O) (eo_of_affine O Q) (hash_to_int O h) r s.

  Lemma verifyHash_iff Q sig h :
    verifyHash O Q sig h = true <->
    length sig = (2 * nLen)%nat /\
    eq_holds Q h (os2ip (firstn nLen sig)) (os2ip (skipn nLen sig)).
  Proof.
    unfold verifyHash, eq_holds. destruct (parse_sig O sig) as [[r s]|] eqn:E.
    - apply parse_sig_some in E as (L & -> & ->). unfold go_ecdsa_verify.
      rewrite ecdsa_verify_iff. fold n. tauto.
    - apply parse_sig_none in E. split; [discriminate|]. intros (L & _). contradiction.
  Qed.

  Lemma eq_holds_unfold Q h r s :
    eq_holds Q h r s <->
    1 <= r < n /\ 1 <= s < n /\
    r = eo_xr O (eo_add O (eo_smul O ((hash_to_int O h * eo_inv O s) mod n) (eo_base O))
                          (eo_smul O ((r * eo_inv O s) mod n) (eo_of_affine O Q))).
  Proof. reflexivity. Qed.

  Lemma format_false_verify_false Q sig h :
    signatureFormatCheck O sig = false -> verifyHash O Q sig h = false.
  Proof.
    intro F. destruct (verifyHash O Q sig h) eqn:V; [|reflexivity].
    apply verifyHash_iff in V as (L & Hr & Hs & _).
    assert (signatureFormatCheck O sig = true) by (apply format_check_iff; auto).
    congruence.
  Qed.

  Lemma format_false_Verify_not_true Q sig data alg :
    signatureFormatCheck O sig = false -> Verify O Q sig data alg <> ROk true.
  Proof.
    intros F. unfold Verify. destruct alg as [a|]; [|discriminate].
    destruct (Nat.ltb (h_size a) nLen); [discriminate|].
    rewrite (format_false_verify_false _ _ _ F). discriminate.
  Qed.

  Lemma Verify_ok_iff Q sig data a b :
    Verify O Q sig data (Some a) = ROk b <->
    (nLen <= h_size a)%nat /\ b = verifyHash O Q sig (h_compute a data).
  Proof.
    unfold Verify. destruct (Nat.ltb (h_size a) nLen) eqn:E.
    - apply Nat.ltb_lt in E. split; [discriminate|]. intros (H & _). lia.
    - apply Nat.ltb_ge in E. split.
      + intro H. inversion H. auto.
      + intros (_ & ->). reflexivity.
  Qed.

  Lemma nil_hasher_refused Q sig data d k :
    Verify O Q sig data None = RErr E_NIL_HASHER /\ Sign O d k data None = Some (RErr E_NIL_HASHER).
  Proof. split; reflexivity. Qed.

  Lemma short_hasher_refused Q sig data d k a :
    (h_size a < nLen)%nat ->
    Verify O Q sig data (Some a) = RErr E_HASHER_SIZE /\ Sign O d k data (Some a) = Some (RErr E_HASHER_SIZE).
  Proof.
    intro H. apply Nat.ltb_lt in H. unfold Verify, Sign. rewrite H. split; reflexivity.
  Qed.

  (* leftmost 256 bits of the hash *)
  Lemma hash_to_int_256 h : 2 ^ 255 <= n < 2 ^ 256 -> hash_to_int O h = os2ip (firstn 32 h).
  Proof.
    intro Hn. unfold hash_to_int. fold n. rewrite (bitsToBytes_256 n Hn).
    assert (Hb : bitLen n = 256).
    { unfold bitLen. destruct (n <=? 0) eqn:E; [apply Z.leb_le in E; lia|].
      assert (Z.log2 n = 255) by (apply Z.log2_unique; [lia|]; change (Z.succ 255) with 256; exact Hn).
      lia. }
    rewrite Hb.
    assert (length (firstn 32 h) <= 32)%nat by apply firstn_le_length.
    destruct (0 <? Z.of_nat (length (firstn 32 h)) * 8 - 256) eqn:E; [|reflexivity].
    apply Z.ltb_lt in E. lia.
  Qed.

  (* ---------- group-interface laws ---------- *)
  Record ec_laws : Prop := {
    l_n_pos : 1 < n;
    l_inv_ok : forall a, a mod n <> 0 -> (a * eo_inv O a) mod n = 1;
    l_smul_add : forall a b P, eo_smul O (a + b) P = eo_add O (eo_smul O a P) (eo_smul O b P);
    l_smul_mul : forall a b P, eo_smul O a (eo_smul O b P) = eo_smul O (a * b) P;
    l_smul_mod : forall a P, eo_smul O (a mod n) P = eo_smul O a P;
    l_add_assoc : forall P Q R, eo_add O P (eo_add O Q R) = eo_add O (eo_add O P Q) R;
    l_add_comm : forall P Q, eo_add O P Q = eo_add O Q P;
    l_add_zero : forall P, eo_add O P (eo_zero O) = P;
    l_add_neg : forall P, eo_add O P (eo_neg O P) = eo_zero O;
    l_xr_neg : forall P, eo_xr O (eo_neg O P) = eo_xr O P;
  }.

  Lemma sign_then_verify_model d k h sig Q :
    ec_laws ->
    eo_of_affine O Q = eo_smul O d (eo_base O) ->
    signHash O d k h = Some (ROk sig) ->
    verifyHash O Q sig h = true.
  Proof.
    intros L HQ HS. unfold signHash in HS.
    destruct (sign_with G (eo_n O) (eo_smul O) (eo_base O) (eo_xr O) (eo_inv O) d k (hash_to_int O h))
      as [[r s]|] eqn:E; [|discriminate].
    apply sign_with_eq in E.
    pose proof E as (_ & _ & _ & Hr & Hs).
    assert (Hn : 0 <= n) by (pose proof (l_n_pos L); lia).
    pose proof (n_lt_pow Hn) as Hp. fold n in Hr, Hs. unfold in_range in Hr, Hs.
    destruct (serialise_then_parse r s ltac:(lia) ltac:(lia)) as (sig' & S1 & L' & _ & P').
    injection HS as HS. rewrite S1 in HS. injection HS as <-.
    unfold verifyHash. rewrite P'. unfold go_ecdsa_verify. apply ecdsa_verify_iff.
    rewrite HQ.
    apply (sign_then_verify G (eo_n O) (eo_add O) (eo_smul O) (eo_base O) (eo_xr O) (eo_inv O)
             (l_n_pos L) (l_inv_ok L) (l_smul_add L) (l_smul_mul L) (l_smul_mod L) d k).
    exact E.
  Qed.

  Lemma Sign_then_Verify_model d k data a sig Q :
    ec_laws ->
    eo_of_affine O Q = eo_smul O d (eo_base O) ->
    Sign O d k data (Some a) = Some (ROk sig) ->
    Verify O Q sig data (Some a) = ROk true.
  Proof.
    intros L HQ HS. unfold Sign in HS. unfold Verify.
    destruct (Nat.ltb (h_size a) nLen); [discriminate|].
    rewrite (sign_then_verify_model d k _ sig Q L HQ HS). reflexivity.
  Qed.

  Lemma twin_verifies_model Q h sig sig' r s :
    ec_laws ->
    parse_sig O sig = Some (r, s) -> parse_sig O sig' = Some (r, n - s) ->
    verifyHash O Q sig h = verifyHash O Q sig' h.
  Proof.
    intros L P1 P2. unfold verifyHash. rewrite P1, P2. unfold go_ecdsa_verify.
    apply Bool.eq_true_iff_eq. rewrite !ecdsa_verify_iff.
    apply (twin_verifies G (eo_n O) (eo_add O) (eo_neg O) (eo_zero O) (eo_smul O) (eo_base O) (eo_xr O) (eo_inv O)
             (l_n_pos L) (l_inv_ok L) (l_smul_add L) (l_smul_mod L)
             (l_add_assoc L) (l_add_comm L) (l_add_zero L) (l_add_neg L) (l_xr_neg L)).
  Qed.

  (* the twin of a well-formed signature is a well-formed signature *)
  Lemma twin_serialises r s :
    1 <= r < n -> 1 <= s < n ->
    exists sig sig', serialise_sig O r s = ROk sig /\ serialise_sig O r (n - s) = ROk sig'
                     /\ parse_sig O sig = Some (r, s) /\ parse_sig O sig' = Some (r, n - s).
  Proof.
    intros Hr Hs. pose proof (n_lt_pow ltac:(lia)) as Hp.
    destruct (serialise_then_parse r s ltac:(lia) ltac:(lia)) as (sig & S1 & _ & _ & P1).
    destruct (serialise_then_parse r (n - s) ltac:(lia) ltac:(lia)) as (sig' & S2 & _ & _ & P2).
    exists sig, sig'. auto.
  Qed.

  (* ---------- private key codec ---------- *)
  Lemma decodePrivateKey_iff der d :
    decodePrivateKey O der = ROk d <-> length der = nLen /\ d = os2ip der /\ 1 <= d < n.
  Proof.
    unfold decodePrivateKey. fold n. pose proof (os2ip_nonneg der).
    destruct (Nat.eqb (length der) nLen) eqn:E; cbn [negb].
    - apply Nat.eqb_eq in E.
      destruct (n <=? os2ip der) eqn:E1; [apply Z.leb_le in E1|apply Z.leb_gt in E1].
      + split; [discriminate|]. intros (_ & -> & ?). lia.
      + destruct (os2ip der =? 0) eqn:E2; [apply Z.eqb_eq in E2|apply Z.eqb_neq in E2].
        * split; [discriminate|]. intros (_ & -> & ?). lia.
        * split; [intro H0; inversion H0; subst; repeat split; lia|]. intros (_ & -> & _). reflexivity.
    - apply Nat.eqb_neq in E. split; [discriminate|]. intros (L & _). contradiction.
  Qed.

  Lemma decodePrivateKey_rejects der :
    (forall d, decodePrivateKey O der <> ROk d) -> decodePrivateKey O der = RErr E_INVALID_INPUT.
  Proof.
    unfold decodePrivateKey. intro H.
    destruct (negb _); [reflexivity|]. destruct (_ <=? _); [reflexivity|].
    destruct (_ =? 0); [reflexivity|]. exfalso. eapply H. reflexivity.
  Qed.

  Lemma decode_encode_private der d :
    bytes_ok der -> decodePrivateKey O der = ROk d -> encodePrivateKey O d = ROk der.
  Proof.
    intros Hb H. apply decodePrivateKey_iff in H as (L & -> & Hd).
    unfold encodePrivateKey.
    pose proof (os2ip_bound der Hb) as B. rewrite L in B. apply fits_iff in B. rewrite B.
    rewrite (i2osp_inj_len der nLen Hb L). reflexivity.
  Qed.

  Lemma encode_decode_private d :
    1 <= d < n -> exists b, encodePrivateKey O d = ROk b /\ decodePrivateKey O b = ROk d /\ bytes_ok b.
  Proof.
    intro Hd. pose proof (n_lt_pow ltac:(lia)) as Hp.
    assert (B : 0 <= d < 256 ^ Z.of_nat nLen) by lia.
    unfold encodePrivateKey. apply fits_iff in B as F. rewrite F. eexists. split; [reflexivity|].
    split; [|apply i2osp_bytes_ok].
    apply decodePrivateKey_iff. rewrite i2osp_length, os2ip_i2osp_small by exact B. auto.
  Qed.

  (* ---------- raw public key codec ---------- *)
  Lemma decodePublicKey_iff der x y :
    decodePublicKey O der = ROk (x, y) <->
    length der = (2 * pLen)%nat /\ x = os2ip (firstn pLen der) /\ y = os2ip (skipn pLen der) /\
    x < p /\ y < p /\ on_curve_xy O x y = true.
  Proof.
    unfold decodePublicKey. fold p.
    destruct (Nat.eqb (length der) (2 * pLen)) eqn:E; cbn [negb].
    - apply Nat.eqb_eq in E.
      set (x0 := os2ip (firstn pLen der)). set (y0 := os2ip (skipn pLen der)).
      destruct (p <=? x0) eqn:E1; [apply Z.leb_le in E1|apply Z.leb_gt in E1]; cbn [orb].
      + split; [discriminate|]. intros (_ & -> & _ & ? & _). lia.
      + destruct (p <=? y0) eqn:E2; [apply Z.leb_le in E2|apply Z.leb_gt in E2].
        * split; [discriminate|]. intros (_ & _ & -> & _ & ? & _). lia.
        * destruct (on_curve_xy O x0 y0) eqn:E3.
          -- split; [intro H; inversion H; subst; auto 10|]. intros (_ & -> & -> & _). reflexivity.
          -- split; [discriminate|]. intros (_ & -> & -> & _ & _ & ?). fold x0 y0 in H. congruence.
    - apply Nat.eqb_neq in E. split; [discriminate|]. intros (L & _). contradiction.
  Qed.

  Lemma decode_encode_public der Q :
    bytes_ok der -> decodePublicKey O der = ROk Q -> encodePublicKey O Q = ROk der.
  Proof.
    intros Hb H. destruct Q as [x y]. apply decodePublicKey_iff in H as (L & -> & -> & _).
    destruct (pair_serialise pLen der Hb L) as (E & B1 & B2).
    unfold encodePublicKey. cbn [fst snd]. apply fitsp_iff in B1. apply fitsp_iff in B2.
    rewrite B1, B2. cbn [andb]. rewrite E. reflexivity.
  Qed.

  Lemma encode_decode_public x y :
    0 <= x < p -> 0 <= y < p -> on_curve_xy O x y = true ->
    exists b, encodePublicKey O (x, y) = ROk b /\ decodePublicKey O b = ROk (x, y) /\ bytes_ok b.
  Proof.
    intros Hx Hy Hc. pose proof (p_lt_pow ltac:(lia)) as Hp.
    assert (Bx : 0 <= x < 256 ^ Z.of_nat pLen) by lia.
    assert (By : 0 <= y < 256 ^ Z.of_nat pLen) by lia.
    unfold encodePublicKey. cbn [fst snd].
    apply fitsp_iff in Bx as Fx. apply fitsp_iff in By as Fy. rewrite Fx, Fy. cbn [andb].
    eexists. split; [reflexivity|].
    destruct (pair_parse pLen x y Bx By) as (L & A & B).
    split; [|apply bytes_ok_app; split; apply i2osp_bytes_ok].
    apply decodePublicKey_iff. rewrite A, B. repeat split; auto; lia.
  Qed.

  (* ---------- compressed public key codec ---------- *)
  Definition select_root (y0 : Z) (pre : N) : Z :=
    if Bool.eqb (Z.odd y0) (N.odd pre) then y0 else (p - y0) mod p.

  Lemma decodeCompressed_iff b x y :
    decodePublicKeyCompressed O b = ROk (x, y) <->
    exists pre xb, b = pre :: xb /\ length b = compLen O /\ (pre = 2%N \/ pre = 3%N) /\
      x = os2ip xb /\ x < p /\
      let y0 := eo_sqrt_cand O (eo_rhs O x) in
      (y0 * y0) mod p = eo_rhs O x /\ y = select_root y0 pre.
  Proof.
    unfold decodePublicKeyCompressed. fold p.
    destruct (Nat.eqb (length b) (compLen O)) eqn:E; cbn [negb].
    2:{ apply Nat.eqb_neq in E. split; [discriminate|]. intros (pre & xb & _ & L & _). contradiction. }
    apply Nat.eqb_eq in E.
    destruct b as [|pre xb].
    { split; [discriminate|]. intros (pre & xb & H & _). discriminate. }
    destruct ((pre =? 2)%N || (pre =? 3)%N) eqn:E1; cbn [negb].
    2:{ split; [discriminate|]. intros (pre' & xb' & H & _ & Hp & _). inversion H; subst.
        apply orb_false_iff in E1 as [A B]. apply N.eqb_neq in A, B. tauto. }
    apply orb_true_iff in E1. rewrite !N.eqb_eq in E1.
    destruct (p <=? os2ip xb) eqn:E2; [apply Z.leb_le in E2|apply Z.leb_gt in E2].
    { split; [discriminate|]. intros (pre' & xb' & H & _ & _ & -> & ? & _). inversion H; subst. lia. }
    set (x0 := os2ip xb). set (c := eo_rhs O x0). set (y0 := eo_sqrt_cand O c).
    destruct ((y0 * y0) mod p =? c) eqn:E3; cbn [negb].
    - apply Z.eqb_eq in E3. split.
      + intro H. inversion H; subst. exists pre, xb. repeat split; auto.
      + intros (pre' & xb' & H & _ & _ & -> & _ & _ & ->). inversion H; subst. reflexivity.
    - apply Z.eqb_neq in E3. split; [discriminate|].
      intros (pre' & xb' & H & _ & _ & -> & _ & Hsq & _). inversion H; subst. contradiction.
  Qed.

  (* decode then encode gives back the input, for points with y <> 0 (on the two curves no
     point has y = 0: the group order is odd) *)
  Lemma decode_encode_compressed b x y :
    bytes_ok b ->
    eo_bitsize O = bitLen p -> p mod 2 = 1 ->
    (forall c, 0 <= eo_sqrt_cand O c < p) ->
    decodePublicKeyCompressed O b = ROk (x, y) -> y <> 0 ->
    encodePublicKeyCompressed O (x, y) = ROk b.
  Proof.
    intros Hb Hbits Hodd Hrange H Hy.
    apply decodeCompressed_iff in H as (pre & xb & -> & L & Hpre & -> & Hx & Hsq & Hsel).
    unfold compLen in L. rewrite Hbits in L. cbn [length] in L. injection L as L. fold pLen in L.
    apply Forall_cons_iff in Hb as [Hpre_lt Hxb].
    pose proof (os2ip_bound xb Hxb) as B. rewrite L in B.
    unfold encodePublicKeyCompressed. cbn [fst snd].
    apply fitsp_iff in B as F. rewrite F. rewrite (i2osp_inj_len xb pLen Hxb L).
    f_equal. f_equal.
    set (y0 := eo_sqrt_cand O (eo_rhs O (os2ip xb))) in *.
    pose proof (Hrange (eo_rhs O (os2ip xb))) as R. fold y0 in R.
    assert (Hpar : Z.odd y = N.odd pre).
    { subst y. unfold select_root in *. destruct (Bool.eqb (Z.odd y0) (N.odd pre)) eqn:E.
      - apply Bool.eqb_prop in E. exact E.
      - assert (y0 <> 0).
        { intro Z0. rewrite Z0 in Hy. rewrite Z.sub_0_r, Z.mod_same in Hy by lia. contradiction. }
        rewrite Z.mod_small by lia.
        rewrite Z.odd_sub.
        assert (Z.odd p = true).
        { rewrite Zodd_mod. rewrite Hodd. reflexivity. }
        rewrite H0. destruct (Z.odd y0), (N.odd pre); cbn in *; congruence. }
    rewrite Hpar. destruct Hpre as [-> | ->]; reflexivity.
  Qed.
End Proofs.
