(* C06: the Lagrange-coefficient routine of bls_thresholdsign_core.c.
   (1) the uint64 limb products never wrap (indices <= 255, [loops] = 8 factors per limb);
   (2) the batched routine with its separate sign bit computes
       prod_{j<>i} x_j / prod_{j<>i} (x_j - x_i)  mod r. *)
From Coq Require Import ZArith NArith List Bool Lia.
From V Require Import Lib.Num Lib.ListX Prim.Bls12 Model.Threshold Generated.Consts.
Import ListNotations.
Open Scope Z_scope.

Lemma loops_is_8 : loops = 8%nat. Proof. reflexivity. Qed.
Lemma pow255_8 : 255 ^ 8 < w64Z. Proof. vm_compute. reflexivity. Qed.

Definition inrange (idx : list Z) : Prop := Forall (fun x => 1 <= x <= 255) idx.

Lemma nth_inrange idx j : inrange idx -> 0 <= nth j idx 0 <= 255.
Proof.
  intro H. destruct (Nat.ltb_spec j (length idx)) as [L|L].
  - pose proof (proj1 (Forall_forall _ _) H (nth j idx 0) (nth_In _ _ L)) as Q. cbv beta in Q. lia.
  - rewrite nth_overflow by exact L. lia.
Qed.

(* ---- (1) no wrap-around ---- *)
Fixpoint batch_nowrap (idx : list Z) (xi : Z) (i j cnt : nat) (num den : Z) (sign : bool) : Z * Z * bool :=
  match cnt with
  | O => (num, den, sign)
  | S c =>
    let xj := nth j idx 0 in
    if Nat.eqb j i then batch_nowrap idx xi i (S j) c num den sign
    else if xj <? xi
         then batch_nowrap idx xi i (S j) c (num * xj) (den * (xi - xj)) (negb sign)
         else batch_nowrap idx xi i (S j) c (num * xj) (den * (xj - xi)) sign
  end.

Lemma pow255_mono m : (m <= 8)%nat -> 255 ^ Z.of_nat m <= 255 ^ 8.
Proof. intro H. apply Z.pow_le_mono_r; lia. Qed.

Theorem limb_products_exact idx xi i :
  inrange idx -> 1 <= xi <= 255 ->
  forall cnt j m num den sign,
    (m + cnt <= 8)%nat -> 0 <= num <= 255 ^ Z.of_nat m -> 0 <= den <= 255 ^ Z.of_nat m ->
    batch idx xi i j cnt num den sign = batch_nowrap idx xi i j cnt num den sign.
Proof.
  intros Hr Hxi. induction cnt as [|c IH]; intros j m num den sign Hm Hn Hd; [reflexivity|].
  cbn [batch batch_nowrap]. destruct (Nat.eqb j i); [apply (IH (S j) m); [lia|assumption|assumption]|].
  pose proof (nth_inrange idx j Hr) as Hx. set (xj := nth j idx 0) in *.
  assert (P8 := pow255_8). assert (Pm := pow255_mono (S m) ltac:(lia)).
  assert (E : 255 ^ Z.of_nat (S m) = 255 * 255 ^ Z.of_nat m) by (rewrite Nat2Z.inj_succ, Z.pow_succ_r; lia).
  assert (Pp : 0 < 255 ^ Z.of_nat m) by (apply Z.pow_pos_nonneg; lia).
  destruct (Z.ltb_spec xj xi).
  - rewrite !Z.mod_small by nia. apply (IH (S j) (S m)); [lia|nia|nia].
  - rewrite !Z.mod_small by nia. apply (IH (S j) (S m)); [lia|nia|nia].
Qed.

(* ---- (2) the routine computes the formula ---- *)

(* pure products over the positions j, j+1, ..., j+cnt-1 other than i *)
Fixpoint prodN (idx : list Z) (i j cnt : nat) : Z :=
  match cnt with
  | O => 1
  | S c => (if Nat.eqb j i then 1 else nth j idx 0) * prodN idx i (S j) c
  end.
Fixpoint prodD (idx : list Z) (xi : Z) (i j cnt : nat) : Z :=      (* signed: prod (x_j - x_i) *)
  match cnt with
  | O => 1
  | S c => (if Nat.eqb j i then 1 else nth j idx 0 - xi) * prodD idx xi i (S j) c
  end.

Definition sgn (b : bool) : Z := if b then -1 else 1.

Lemma batch_nowrap_spec idx xi i : forall cnt j num den sign,
  let '(n', d', s') := batch_nowrap idx xi i j cnt num den sign in
  n' = num * prodN idx i j cnt /\ sgn s' * d' = sgn sign * den * prodD idx xi i j cnt.
Proof.
  induction cnt as [|c IH]; intros j num den sign; cbn [batch_nowrap prodN prodD].
  - split; ring.
  - destruct (Nat.eqb j i).
    + specialize (IH (S j) num den sign). destruct (batch_nowrap idx xi i (S j) c num den sign) as [[n' d'] s'].
      destruct IH as [A Bq]. split; [rewrite A; ring|rewrite Bq; ring].
    + destruct (Z.ltb_spec (nth j idx 0) xi).
      * specialize (IH (S j) (num * nth j idx 0) (den * (xi - nth j idx 0)) (negb sign)).
        destruct (batch_nowrap idx xi i (S j) c _ _ _) as [[n' d'] s'].
        destruct IH as [A Bq]. split; [rewrite A; ring|rewrite Bq; destruct sign; cbn [negb sgn]; ring].
      * specialize (IH (S j) (num * nth j idx 0) (den * (nth j idx 0 - xi)) sign).
        destruct (batch_nowrap idx xi i (S j) c _ _ _) as [[n' d'] s'].
        destruct IH as [A Bq]. split; [rewrite A; ring|rewrite Bq; ring].
Qed.

Lemma prodN_split idx i : forall c1 c2 j, prodN idx i j (c1 + c2) = prodN idx i j c1 * prodN idx i (j + c1) c2.
Proof.
  induction c1 as [|c IH]; intros c2 j; cbn [prodN Nat.add].
  - rewrite Nat.add_0_r. ring.
  - rewrite IH. replace (S j + c)%nat with (j + S c)%nat by lia. ring.
Qed.
Lemma prodD_split idx xi i : forall c1 c2 j, prodD idx xi i j (c1 + c2) = prodD idx xi i j c1 * prodD idx xi i (j + c1) c2.
Proof.
  induction c1 as [|c IH]; intros c2 j; cbn [prodD Nat.add].
  - rewrite Nat.add_0_r. ring.
  - rewrite IH. replace (S j + c)%nat with (j + S c)%nat by lia. ring.
Qed.

Lemma r_pos : 1 < r. Proof. vm_compute. reflexivity. Qed.

(* the outer loop: after it, (N, sign-corrected D) are the full products mod r *)
Lemma batches_spec idx xi i : inrange idx -> 1 <= xi <= 255 ->
  forall fuel j N D sign,
    (j <= length idx)%nat -> (length idx - j < fuel)%nat \/ (length idx <= j)%nat ->
    let '(N', D', s') := batches fuel idx xi i j N D sign in
    N' mod r = (N * prodN idx i j (length idx - j)) mod r /\
    (sgn s' * D') mod r = (sgn sign * D * prodD idx xi i j (length idx - j)) mod r.
Proof.
  intros Hr Hxi. pose proof r_pos as Rp.
  induction fuel as [|f IH]; intros j N D sign Hj Hf.
  - cbn [batches]. destruct Hf as [Hf|Hf]; [lia|].
    replace (length idx - j)%nat with 0%nat by lia. cbn [prodN prodD]. split; f_equal; ring.
  - cbn [batches]. destruct (Nat.leb_spec (length idx) j) as [L|L].
    + replace (length idx - j)%nat with 0%nat by lia. cbn [prodN prodD]. split; f_equal; ring.
    + set (cnt := Nat.min loops (length idx - j)).
      assert (Hc : (cnt <= 8)%nat) by (unfold cnt; rewrite loops_is_8; lia).
      assert (Hc1 : (1 <= cnt)%nat) by (unfold cnt; rewrite loops_is_8; lia).
      assert (Hc2 : (cnt <= length idx - j)%nat) by (unfold cnt; lia).
      rewrite (limb_products_exact idx xi i Hr Hxi cnt j 0 1 1 sign) by (cbn; lia).
      pose proof (batch_nowrap_spec idx xi i cnt j 1 1 sign) as Bs.
      destruct (batch_nowrap idx xi i j cnt 1 1 sign) as [[ln ld] s1]. destruct Bs as [Bn Bd].
      specialize (IH (j + cnt)%nat ((N * ln) mod r) ((D * ld) mod r) s1 ltac:(lia) ltac:(lia)).
      destruct (batches f idx xi i (j + cnt) ((N * ln) mod r) ((D * ld) mod r) s1) as [[N' D'] s'].
      destruct IH as [IN ID].
      replace (length idx - j)%nat with (cnt + (length idx - (j + cnt)))%nat by lia.
      rewrite prodN_split, prodD_split. split.
      * rewrite IN. rewrite Z.mul_mod_idemp_l by lia. f_equal. rewrite Bn. ring.
      * rewrite ID.
        set (P2 := prodD idx xi i (j + cnt) (length idx - (j + cnt))).
        replace (sgn s1 * ((D * ld) mod r) * P2) with (((D * ld) mod r) * (sgn s1 * P2)) by ring.
        rewrite Z.mul_mod_idemp_l by lia. f_equal.
        replace (D * ld * (sgn s1 * P2)) with (D * (sgn s1 * ld) * P2) by ring.
        rewrite Bd. ring.
Qed.

(* the textbook formula, positionally: prod_{j<>i} x_j * (prod_{j<>i} (x_j - x_i))^{-1} mod r *)
Definition lagrange_formula (idx : list Z) (i : nat) : Z :=
  ((prodN idx i 0 (length idx)) mod r * inv_r (prodD idx (nth i idx 0) i 0 (length idx))) mod r.

Lemma inv_r_mod a : inv_r (a mod r) = inv_r a.
Proof. unfold inv_r. pose proof r_pos. now rewrite Z.mod_mod by lia. Qed.
Global Opaque inv_r.

Theorem lagrange_code_eq_formula idx i :
  inrange idx -> (i < length idx)%nat -> lagrange_coeff idx i = lagrange_formula idx i.
Proof.
  intros Hr Hi. pose proof r_pos as Rp.
  unfold lagrange_coeff, lagrange_coeff_with, lagrange_formula.
  assert (Hxi : 1 <= nth i idx 0 <= 255).
  { pose proof (proj1 (Forall_forall _ _) Hr (nth i idx 0) (nth_In _ _ Hi)) as Q. cbv beta in Q. exact Q. }
  pose proof (batches_spec idx (nth i idx 0) i Hr Hxi (S (length idx)) 0 1 1 false ltac:(lia) ltac:(left; lia)) as Bs.
  destruct (batches (S (length idx)) idx (nth i idx 0) i 0 1 1 false) as [[N D] s]. destruct Bs as [BN BD].
  rewrite Nat.sub_0_r in BN, BD. cbn [sgn] in BD.
  rewrite !Z.mul_1_l in BN, BD.
  rewrite <- (Z.mul_mod_idemp_l N) by lia. rewrite BN. f_equal. f_equal.
  rewrite <- inv_r_mod. rewrite <- (inv_r_mod (prodD _ _ _ _ _)). f_equal.
  rewrite <- BD. destruct s; cbn [sgn].
  - rewrite Z.mod_mod by lia. replace (-1 * D) with (- D) by ring.
    rewrite <- (Z.mod_add (r - D) (-1) r) by lia. f_equal. ring.
  - now rewrite Z.mul_1_l.
Qed.

(* ---- the positional formula is the product over the other points, as written in
   [lagrange_spec] (Model/Threshold.v) ---- *)
Definition list_prod (l : list Z) : Z := fold_right Z.mul 1 l.

Lemma list_prod_nil : list_prod [] = 1. Proof. reflexivity. Qed.
Lemma list_prod_cons a l : list_prod (a :: l) = a * list_prod l. Proof. reflexivity. Qed.
Lemma list_prod_app l1 l2 : list_prod (l1 ++ l2) = list_prod l1 * list_prod l2.
Proof. induction l1 as [|a l IH]; cbn [app]; rewrite ?list_prod_cons, ?list_prod_nil; [ring|]. rewrite IH. ring. Qed.

Lemma prodN_skip idx i : forall cnt j, (j + cnt <= i)%nat \/ (i < j)%nat ->
  prodN idx i j cnt = list_prod (map (fun k => nth k idx 0) (seq j cnt)).
Proof.
  induction cnt as [|c IH]; intros j H; [reflexivity|].
  cbn [prodN seq map]. rewrite list_prod_cons. destruct (Nat.eqb_spec j i) as [E|E]; [lia|].
  rewrite IH by lia. reflexivity.
Qed.
Lemma prodD_skip idx xi i : forall cnt j, (j + cnt <= i)%nat \/ (i < j)%nat ->
  prodD idx xi i j cnt = list_prod (map (fun k => nth k idx 0 - xi) (seq j cnt)).
Proof.
  induction cnt as [|c IH]; intros j H; [reflexivity|].
  cbn [prodD seq map]. rewrite list_prod_cons. destruct (Nat.eqb_spec j i) as [E|E]; [lia|].
  rewrite IH by lia. reflexivity.
Qed.

Lemma map_nth_seq (l : list Z) : map (fun k => nth k l 0) (seq 0 (length l)) = l.
Proof.
  induction l as [|a l IH]; [reflexivity|]. cbn [length seq map nth]. f_equal.
  rewrite <- seq_shift, map_map. exact IH.
Qed.
Lemma map_nth_seq_from (l : list Z) j c : (j + c <= length l)%nat ->
  map (fun k => nth k l 0) (seq j c) = firstn c (skipn j l).
Proof.
  revert l; induction j as [|j IH]; intros l H.
  - cbn [skipn]. transitivity (map (fun k => nth k (firstn c l) 0) (seq 0 (length (firstn c l)))); [|apply map_nth_seq].
    rewrite firstn_length, Nat.min_l by lia.
    apply map_ext_in. intros k Hk. apply in_seq in Hk. symmetry. apply nth_firstn_lt. lia.
  - destruct l as [|a l]; [cbn in H; assert (c = 0%nat) by lia; subst; reflexivity|].
    cbn [skipn]. rewrite <- seq_shift, map_map. cbn [nth]. apply IH. cbn in H. lia.
Qed.

Lemma fold_mul_mod (f : Z -> Z) l : forall a,
  (fold_left (fun acc x => (acc * f x) mod r) l a) mod r = (a * list_prod (map f l)) mod r.
Proof.
  pose proof r_pos. induction l as [|x l IH]; intro a; cbn [fold_left map]; rewrite ?list_prod_cons, ?list_prod_nil.
  - f_equal. ring.
  - rewrite IH. rewrite Z.mul_mod_idemp_l by lia. f_equal. ring.
Qed.

Theorem lagrange_formula_eq_spec idx i : (i < length idx)%nat -> lagrange_formula idx i = lagrange_spec idx i.
Proof.
  intro Hi. pose proof r_pos as Rp. unfold lagrange_formula, lagrange_spec.
  set (others := firstn i idx ++ skipn (S i) idx).
  assert (EN : prodN idx i 0 (length idx) = list_prod others).
  { replace (length idx) with (i + (1 + (length idx - S i)))%nat by lia.
    rewrite prodN_split, prodN_split. cbn [prodN Nat.add]. rewrite Nat.eqb_refl.
    rewrite !prodN_skip by lia. unfold others. rewrite list_prod_app.
    rewrite (map_nth_seq_from idx 0 i) by lia. rewrite (map_nth_seq_from idx (i + 1) (length idx - S i)) by lia.
    change (skipn 0 idx) with idx. replace (i + 1)%nat with (S i) by lia.
    rewrite (firstn_all2 (skipn (S i) idx)) by (rewrite skipn_length; lia). ring. }
  assert (ED : prodD idx (nth i idx 0) i 0 (length idx) = list_prod (map (fun x => x - nth i idx 0) others)).
  { replace (length idx) with (i + (1 + (length idx - S i)))%nat by lia.
    rewrite prodD_split, prodD_split. cbn [prodD Nat.add]. rewrite Nat.eqb_refl.
    rewrite !prodD_skip by lia. unfold others. rewrite map_app, list_prod_app.
    rewrite <- (map_map (fun k => nth k idx 0) (fun x => x - nth i idx 0)).
    rewrite <- (map_map (fun k => nth k idx 0) (fun x => x - nth i idx 0) (seq (i + 1) _)).
    rewrite (map_nth_seq_from idx 0 i) by lia. rewrite (map_nth_seq_from idx (i + 1) (length idx - S i)) by lia.
    change (skipn 0 idx) with idx. replace (i + 1)%nat with (S i) by lia.
    rewrite (firstn_all2 (skipn (S i) idx)) by (rewrite skipn_length; lia). ring. }
  rewrite <- (Z.mul_mod_idemp_l (fold_left _ others 1)) by lia.
  rewrite (fold_mul_mod (fun x => x) others 1). rewrite map_id, Z.mul_1_l. rewrite <- EN.
  f_equal. f_equal.
  rewrite <- (inv_r_mod (fold_left _ others 1)).
  rewrite (fold_mul_mod (fun x => x - nth i idx 0) others 1). rewrite Z.mul_1_l, <- ED.
  rewrite inv_r_mod. reflexivity.
Qed.

(* ---- composition with Lagrange interpolation (Proofs/LagrangeModR.v): what the C routine
   computes on any list of distinct signer indices, in any order, interpolates the dealer
   polynomial at zero ---- *)
From V Require Import Lib.FermatZ Proofs.LagrangeModR.

Lemma fold_sum_ext (f g : nat -> Z) l : (forall i, In i l -> f i = g i) ->
  forall acc, fold_left (fun acc i => (acc + f i) mod rZ) l acc = fold_left (fun acc i => (acc + g i) mod rZ) l acc.
Proof.
  induction l as [|i l IH]; intros E acc; [reflexivity|].
  cbn [fold_left]. rewrite (E i (or_introl eq_refl)). apply IH. intros j Hj. apply E. now right.
Qed.

Theorem code_coefficients_interpolate : primeZ rZ -> forall (idx a : list Z),
  NoDup idx -> inrange idx -> (length a <= length idx)%nat -> Forall (fun c => 0 <= c < rZ) a -> a <> [] ->
  fold_left (fun acc i => (acc + lagrange_coeff idx i * poly_eval a (nth i idx 0)) mod rZ)
            (seq 0 (length idx)) 0
  = nth 0 a 0.
Proof.
  intros Hpr idx a ND Hr Hl Ha Hne.
  rewrite <- (interpolation_mod_r_secret Hpr idx a ND Hr Hl Ha Hne).
  apply (fold_sum_ext (fun i => lagrange_coeff idx i * poly_eval a (nth i idx 0))
                      (fun i => lagrange_spec idx i * poly_eval a (nth i idx 0))).
  intros i Hi. apply in_seq in Hi. f_equal.
  rewrite lagrange_code_eq_formula by (try assumption; lia).
  apply lagrange_formula_eq_spec. lia.
Qed.
