(* The byte codecs and the curve arithmetic are written once over Lib/Num.v.  The C05 theorems are
   about the Z instance; the correspondence runs execute the BigZ instance.  This file proves that
   any faithful carrier ([num_ok]) computes, through [n_to_Z], exactly what the Z instance computes:
   field operations, square roots, Jacobian arithmetic (as a homomorphism lemma over [fops]),
   F_r / F_p / F_p^2 / E1 / E2 readers and writers, DecodePublicKey and DecodePrivateKey. *)
From Coq Require Import ZArith NArith List Bool.
From Bignums Require Import BigZ.
From V Require Import Lib.Num Prim.Bls12 Model.BlsCodec Proofs.NumRefine.
Import ListNotations.
Open Scope Z_scope.
Local Arguments o_zero {F}. Local Arguments o_one {F}. Local Arguments o_add {F}. Local Arguments o_sub {F}.
Local Arguments o_mul {F}. Local Arguments o_neg {F}. Local Arguments o_inv {F}. Local Arguments o_eqb {F}.

(* ------------------------------------------------------------------ homomorphisms of [fops] *)
Section Hom.
Context {F1 F2 : Type} (O1 : fops F1) (O2 : fops F2) (f : F1 -> F2).
Record fhom : Prop := {
  h_zero : f (o_zero O1) = o_zero O2;
  h_one : f (o_one O1) = o_one O2;
  h_add : forall a b, f (o_add O1 a b) = o_add O2 (f a) (f b);
  h_sub : forall a b, f (o_sub O1 a b) = o_sub O2 (f a) (f b);
  h_mul : forall a b, f (o_mul O1 a b) = o_mul O2 (f a) (f b);
  h_neg : forall a, f (o_neg O1 a) = o_neg O2 (f a);
  h_inv : forall a, f (o_inv O1 a) = o_inv O2 (f a);
  h_eqb : forall a b, o_eqb O1 a b = o_eqb O2 (f a) (f b);
}.
Hypothesis H : fhom.

Definition jmap (P : jpt (F:=F1)) : jpt (F:=F2) := mkJ (f (jx P)) (f (jy P)) (f (jz P)).

Lemma jinf_hom : jmap (jinf O1) = jinf O2.
Proof. unfold jmap, jinf. cbn [jx jy jz]. now rewrite (h_one H), (h_zero H). Qed.

Lemma jis_inf_hom P : jis_inf O1 P = jis_inf O2 (jmap P).
Proof. unfold jis_inf, jmap. cbn [jz]. now rewrite (h_eqb H), (h_zero H). Qed.

Lemma dbl2_hom a : f (dbl2 O1 a) = dbl2 O2 (f a).
Proof. unfold dbl2. apply (h_add H). Qed.

Lemma jdbl_hom P : jmap (jdbl O1 P) = jdbl O2 (jmap P).
Proof.
  unfold jdbl. rewrite <- jis_inf_hom. destruct (jis_inf O1 P); [reflexivity|].
  unfold jmap at 1. cbn [jx jy jz].
  rewrite ?dbl2_hom, ?(h_sub H), ?(h_mul H), ?(h_add H), ?dbl2_hom, ?(h_sub H), ?(h_mul H), ?(h_add H), ?dbl2_hom.
  rewrite ?dbl2_hom, ?(h_sub H), ?(h_mul H), ?(h_add H), ?dbl2_hom, ?(h_sub H), ?(h_mul H), ?(h_add H), ?dbl2_hom.
  reflexivity.
Qed.

Ltac push :=
  repeat (rewrite ?dbl2_hom, ?(h_sub H), ?(h_mul H), ?(h_add H)).

Lemma jadd_hom P Q : jmap (jadd O1 P Q) = jadd O2 (jmap P) (jmap Q).
Proof.
  unfold jadd. rewrite <- !jis_inf_hom.
  destruct (jis_inf O1 P); [reflexivity|]. destruct (jis_inf O1 Q); [reflexivity|].
  cbn [jmap jx jy jz].
  rewrite (h_eqb H). push.
  destruct (o_eqb O2 _ _).
  - rewrite (h_eqb H). push. destruct (o_eqb O2 _ _); [apply jdbl_hom|apply jinf_hom].
  - unfold jmap at 1. cbn [jx jy jz]. push. reflexivity.
Qed.

Lemma jneg_hom P : jmap (jneg O1 P) = jneg O2 (jmap P).
Proof. unfold jneg, jmap. cbn [jx jy jz]. now rewrite (h_neg H). Qed.

Lemma jmul_pos_hom k P : jmap (jmul_pos O1 k P) = jmul_pos O2 k (jmap P).
Proof.
  induction k as [k IH|k IH|]; cbn [jmul_pos].
  - now rewrite jadd_hom, jdbl_hom, IH.
  - now rewrite jdbl_hom, IH.
  - reflexivity.
Qed.

Lemma jmul_hom k P : jmap (jmul O1 k P) = jmul O2 k (jmap P).
Proof.
  destruct k; cbn [jmul]; [apply jinf_hom|apply jmul_pos_hom|now rewrite jneg_hom, jmul_pos_hom].
Qed.

Lemma to_affine_hom P :
  option_map (fun xy => (f (fst xy), f (snd xy))) (to_affine O1 P) = to_affine O2 (jmap P).
Proof.
  unfold to_affine. rewrite <- jis_inf_hom. destruct (jis_inf O1 P); [reflexivity|].
  cbn [option_map fst snd jmap jx jy jz]. now rewrite !(h_mul H), !(h_inv H).
Qed.
End Hom.

(* ------------------------------------------------------------------ F_p and F_p^2 *)
Section Carrier.
Context {T : Type} (M : num T) (OK : num_ok M) (p : T).
Notation "[ x ]" := (n_to_Z M x).
Definition f2Z (a : fp2 (T:=T)) : Z * Z := ([fst a], [snd a]).

Lemma ofZ_refine z : [n_of_Z M z] = z.
Proof. apply (ok_of_Z M OK). Qed.

Lemma fadd_refine a b : [fadd M p a b] = fadd ZNum [p] [a] [b]. Proof. apply madd_refine, OK. Qed.
Lemma fsub_refine a b : [fsub M p a b] = fsub ZNum [p] [a] [b]. Proof. apply msub_refine, OK. Qed.
Lemma fmul_refine a b : [fmul M p a b] = fmul ZNum [p] [a] [b]. Proof. apply mmul_refine, OK. Qed.
Lemma fneg_refine a : [fneg M p a] = fneg ZNum [p] [a]. Proof. apply mneg_refine, OK. Qed.
Lemma fpow_refine a e : [fpow M p a e] = fpow ZNum [p] [a] e. Proof. apply mpow_refine, OK. Qed.
Lemma finv_refine a : [finv M p a] = finv ZNum [p] [a]. Proof. apply fpow_refine. Qed.
Lemma feqb_refine a b : feqb M a b = feqb ZNum [a] [b].
Proof. unfold feqb. cbn [n_eqb ZNum]. apply (ok_eqb M OK). Qed.

Lemma fp_hom : fhom (FpOps M p) (FpOps ZNum [p]) (n_to_Z M).
Proof.
  constructor; cbn [o_zero o_one o_add o_sub o_mul o_neg o_inv o_eqb FpOps].
  - apply ofZ_refine. - apply ofZ_refine. - apply fadd_refine. - apply fsub_refine.
  - apply fmul_refine. - apply fneg_refine. - apply finv_refine. - apply feqb_refine.
Qed.

Lemma fsqrt_refine a : option_map (n_to_Z M) (fsqrt M p a) = fsqrt ZNum [p] [a].
Proof.
  unfold fsqrt. rewrite feqb_refine, fmul_refine, !fpow_refine.
  destruct (feqb ZNum _ _); cbn [option_map]; [now rewrite fpow_refine|reflexivity].
Qed.

Lemma fsign_refine y : fsign M y = fsign ZNum [y].
Proof. unfold fsign. cbn [n_ltb n_of_Z ZNum]. rewrite (ok_ltb M OK), ofZ_refine. reflexivity. Qed.

Lemma fis_sq_refine a : fis_sq M p a = fis_sq ZNum [p] [a].
Proof.
  unfold fis_sq. rewrite !feqb_refine, fpow_refine, !ofZ_refine. reflexivity.
Qed.

Lemma f2add_refine a b : f2Z (f2add M p a b) = f2add ZNum [p] (f2Z a) (f2Z b).
Proof. unfold f2Z, f2add. cbn [fst snd]. now rewrite !fadd_refine. Qed.
Lemma f2sub_refine a b : f2Z (f2sub M p a b) = f2sub ZNum [p] (f2Z a) (f2Z b).
Proof. unfold f2Z, f2sub. cbn [fst snd]. now rewrite !fsub_refine. Qed.
Lemma f2neg_refine a : f2Z (f2neg M p a) = f2neg ZNum [p] (f2Z a).
Proof. unfold f2Z, f2neg. cbn [fst snd]. now rewrite !fneg_refine. Qed.
Lemma f2mul_refine a b : f2Z (f2mul M p a b) = f2mul ZNum [p] (f2Z a) (f2Z b).
Proof. unfold f2Z, f2mul. cbn [fst snd]. now rewrite fsub_refine, fadd_refine, !fmul_refine. Qed.
Lemma f2inv_refine a : f2Z (f2inv M p a) = f2inv ZNum [p] (f2Z a).
Proof.
  unfold f2Z, f2inv. cbn [fst snd].
  now rewrite fneg_refine, !fmul_refine, finv_refine, fadd_refine, !fmul_refine.
Qed.
Lemma f2eqb_refine a b : f2eqb M a b = f2eqb ZNum (f2Z a) (f2Z b).
Proof. unfold f2eqb, f2Z. cbn [fst snd]. now rewrite !feqb_refine. Qed.

Lemma fp2_hom : fhom (Fp2Ops M p) (Fp2Ops ZNum [p]) f2Z.
Proof.
  constructor; cbn [o_zero o_one o_add o_sub o_mul o_neg o_inv o_eqb Fp2Ops].
  - unfold f2Z, f2zero. cbn [fst snd]. now rewrite !ofZ_refine.
  - unfold f2Z, f2one. cbn [fst snd]. now rewrite !ofZ_refine.
  - apply f2add_refine. - apply f2sub_refine. - apply f2mul_refine. - apply f2neg_refine.
  - apply f2inv_refine. - apply f2eqb_refine.
Qed.

Lemma f2sign_refine y : f2sign M y = f2sign ZNum (f2Z y).
Proof.
  unfold f2sign, f2Z. cbn [fst snd]. rewrite feqb_refine, !fsign_refine, ofZ_refine. reflexivity.
Qed.

Definition opt2Z (o : option (fp2 (T:=T))) : option (Z * Z) := option_map f2Z o.

Lemma f2sqrt_refine a : opt2Z (f2sqrt M p a) = f2sqrt ZNum [p] (f2Z a).
Proof.
  unfold f2sqrt. cbn [f2Z fst snd].
  rewrite feqb_refine, ofZ_refine.
  change (n_of_Z ZNum 0) with 0.
  destruct (feqb ZNum [snd a] 0).
  - rewrite <- fsqrt_refine. destruct (fsqrt M p (fst a)) as [s|]; cbn [option_map].
    + rewrite f2eqb_refine, f2mul_refine. unfold f2Z at 1 2. cbn [fst snd]. rewrite ofZ_refine.
      change (n_of_Z ZNum 0) with 0.
      destruct (f2eqb ZNum _ _); unfold opt2Z, f2Z; cbn [option_map fst snd]; [rewrite ofZ_refine|]; reflexivity.
    + rewrite <- fneg_refine, <- fsqrt_refine. destruct (fsqrt M p (fneg M p (fst a))) as [s|]; cbn [option_map]; [|reflexivity].
      rewrite f2eqb_refine, f2mul_refine. unfold f2Z at 1 2. cbn [fst snd]. rewrite ofZ_refine.
      change (n_of_Z ZNum 0) with 0.
      destruct (f2eqb ZNum _ _); unfold opt2Z, f2Z; cbn [option_map fst snd]; [rewrite ofZ_refine|]; reflexivity.
  - set (half := finv M p (n_of_Z M 2)).
    assert (Eh : finv ZNum [p] (n_of_Z ZNum 2) = [half])
      by (unfold half; rewrite finv_refine, ofZ_refine; reflexivity).
    rewrite Eh.
    set (nrm := fadd M p (fmul M p (fst a) (fst a)) (fmul M p (snd a) (snd a))).
    assert (En : fadd ZNum [p] (fmul ZNum [p] [fst a] [fst a]) (fmul ZNum [p] [snd a] [snd a]) = [nrm])
      by (unfold nrm; now rewrite fadd_refine, !fmul_refine).
    rewrite En, <- fsqrt_refine. destruct (fsqrt M p nrm) as [s|]; cbn [option_map]; [|reflexivity].
    set (t1 := fmul M p (fadd M p (fst a) s) half).
    set (t2 := fmul M p (fsub M p (fst a) s) half).
    assert (E1 : fmul ZNum [p] (fadd ZNum [p] [fst a] [s]) [half] = [t1])
      by (unfold t1; now rewrite fmul_refine, fadd_refine).
    assert (E2 : fmul ZNum [p] (fsub ZNum [p] [fst a] [s]) [half] = [t2])
      by (unfold t2; now rewrite fmul_refine, fsub_refine).
    rewrite E1, E2, <- fis_sq_refine.
    assert (Et : (if fis_sq M p t1 then [t1] else [t2]) = [if fis_sq M p t1 then t1 else t2])
      by (destruct (fis_sq M p t1); reflexivity).
    rewrite Et, <- fsqrt_refine.
    destruct (fsqrt M p (if fis_sq M p t1 then t1 else t2)) as [x0|]; cbn [option_map]; [|reflexivity].
    set (y1 := fmul M p (snd a) (finv M p (fadd M p x0 x0))).
    assert (Ey : fmul ZNum [p] [snd a] (finv ZNum [p] (fadd ZNum [p] [x0] [x0])) = [y1])
      by (unfold y1; now rewrite fmul_refine, finv_refine, fadd_refine).
    rewrite Ey. rewrite f2eqb_refine, f2mul_refine.
    change (f2Z (x0, y1)) with ([x0], [y1]).
    destruct (f2eqb ZNum _ _); reflexivity.
Qed.
End Carrier.

(* ------------------------------------------------------------------ byte codecs *)
Section CodecRefine.
Context {T : Type} (M : num T) (OK : num_ok M) (p r : T).
Notation "[ x ]" := (n_to_Z M x).

Definition res_map {A B} (g : A -> B) (x : status * A) : status * B := (fst x, g (snd x)).
Definition apt_map {A B} (g : A -> B) (P : apt A) : apt B :=
  match P with Inf => Inf | Aff x y => Aff (g x) (g y) end.

Lemma os2ip_refine b : [os2ip M b] = os2ip ZNum b.
Proof.
  unfold os2ip. cbn [n_add n_mul n_of_Z ZNum].
  assert (G : forall acc, [fold_left (fun acc x => n_add M (n_mul M acc (n_of_Z M 256)) (n_of_Z M (Z.of_N x))) b acc]
              = fold_left (fun acc x => acc * 256 + Z.of_N x) b [acc]).
  { induction b as [|x t IH]; intro acc; cbn [fold_left]; [reflexivity|].
    rewrite IH. f_equal. now rewrite (ok_add M OK), (ok_mul M OK), !(ok_of_Z M OK). }
  rewrite G. now rewrite (ok_of_Z M OK).
Qed.

Lemma i2osp_rev_refine k : forall v, i2osp_rev M k v = i2osp_rev ZNum k [v].
Proof.
  induction k as [|k IH]; intro v; cbn [i2osp_rev]; [reflexivity|].
  cbn [n_to_Z n_mod n_div n_of_Z ZNum].
  rewrite IH. now rewrite (ok_mod M OK), (ok_div M OK), (ok_of_Z M OK).
Qed.
Lemma i2osp_refine k v : i2osp M k v = i2osp ZNum k [v].
Proof. unfold i2osp. now rewrite i2osp_rev_refine. Qed.

Lemma fr_read_refine b : res_map (n_to_Z M) (fr_read_bytes M r b) = fr_read_bytes ZNum [r] b.
Proof.
  unfold fr_read_bytes. destruct (negb _); [unfold res_map; cbn [fst snd]; now rewrite (ok_of_Z M OK)|].
  cbn [n_ltb ZNum]. rewrite (ok_ltb M OK), os2ip_refine.
  destruct (_ <? _); unfold res_map; cbn [fst snd]; [now rewrite os2ip_refine|now rewrite (ok_of_Z M OK)].
Qed.

Lemma fr_star_read_refine b :
  res_map (n_to_Z M) (fr_star_read_bytes M r b) = fr_star_read_bytes ZNum [r] b.
Proof.
  unfold fr_star_read_bytes. rewrite <- fr_read_refine.
  destruct (fr_read_bytes M r b) as [st v]. unfold res_map at 2. cbn [fst snd].
  destruct st; try reflexivity.
  cbn [n_eqb n_of_Z ZNum]. rewrite (ok_eqb M OK), (ok_of_Z M OK).
  destruct (_ =? _); unfold res_map; cbn [fst snd]; [now rewrite (ok_of_Z M OK)|reflexivity].
Qed.

Lemma fp_read_refine b : res_map (n_to_Z M) (fp_read_bytes M p b) = fp_read_bytes ZNum [p] b.
Proof.
  unfold fp_read_bytes. destruct (negb _); [unfold res_map; cbn [fst snd]; now rewrite (ok_of_Z M OK)|].
  cbn [n_ltb ZNum]. rewrite (ok_ltb M OK), os2ip_refine.
  destruct (_ <? _); unfold res_map; cbn [fst snd]; [now rewrite os2ip_refine|now rewrite (ok_of_Z M OK)].
Qed.

Lemma fp2_read_refine b : res_map (f2Z M) (fp2_read_bytes M p b) = fp2_read_bytes ZNum [p] b.
Proof.
  unfold fp2_read_bytes.
  destruct (negb _); [unfold res_map, f2Z; cbn [fst snd]; now rewrite (ok_of_Z M OK)|].
  rewrite <- !fp_read_refine.
  destruct (fp_read_bytes M p (firstn Fp_BYTES b)) as [s0 c0]. unfold res_map at 2. cbn [fst snd].
  destruct s0; try (unfold res_map, f2Z; cbn [fst snd]; now rewrite (ok_of_Z M OK)).
  destruct (fp_read_bytes M p (skipn Fp_BYTES b)) as [s1 c1]. unfold res_map at 2. cbn [fst snd].
  destruct s1; unfold res_map, f2Z; cbn [fst snd]; try reflexivity; now rewrite (ok_of_Z M OK).
Qed.

Lemma e1_read_refine b :
  res_map (apt_map (n_to_Z M)) (e1_read_bytes M p b) = e1_read_bytes ZNum [p] b.
Proof.
  unfold e1_read_bytes.
  destruct (negb (Nat.eqb _ _)); [reflexivity|].
  destruct (negb (Bool.eqb _ _)); [reflexivity|].
  destruct (negb (N.eqb (N.land (hd0 b) 64) 0)).
  { destruct (negb _); [reflexivity|]. destruct (all_zero _); reflexivity. }
  rewrite <- fp_read_refine.
  destruct (fp_read_bytes M p _) as [st x]. unfold res_map at 2. cbn [fst snd].
  destruct st; try reflexivity.
  assert (E : fadd ZNum [p] (fmul ZNum [p] (fmul ZNum [p] [x] [x]) [x]) (b1 ZNum)
              = [fadd M p (fmul M p (fmul M p x x) x) (b1 M)]).
  { rewrite (fadd_refine M OK), !(fmul_refine M OK). unfold b1. now rewrite (ok_of_Z M OK). }
  rewrite E, <- (fsqrt_refine M OK).
  destruct (fsqrt M p _) as [y|]; cbn [option_map]; [|reflexivity].
  rewrite <- (fsign_refine M OK). unfold res_map. cbn [fst snd apt_map].
  destruct (Bool.eqb _ _); [reflexivity|now rewrite (fneg_refine M OK)].
Qed.

Lemma set_hd_lor o h : set_hd o h = match o with _ :: t => h :: t | [] => [] end.
Proof. reflexivity. Qed.

Lemma e1_write_refine P : e1_write_bytes M P = e1_write_bytes ZNum (apt_map (n_to_Z M) P).
Proof.
  destruct P as [|x y]; [reflexivity|]. unfold e1_write_bytes. cbn [apt_map].
  unfold fp_write_bytes. now rewrite i2osp_refine, (fsign_refine M OK).
Qed.

Lemma e2_read_refine b :
  res_map (apt_map (f2Z M)) (e2_read_bytes M p b) = e2_read_bytes ZNum [p] b.
Proof.
  unfold e2_read_bytes.
  destruct (negb (Nat.eqb _ _)); [reflexivity|].
  destruct (negb (Bool.eqb _ _)); [reflexivity|].
  destruct (negb (N.eqb (N.land (hd0 b) 64) 0)).
  { destruct (negb _); [reflexivity|]. destruct (all_zero _); reflexivity. }
  rewrite <- fp2_read_refine.
  destruct (fp2_read_bytes M p _) as [st x]. unfold res_map at 2. cbn [fst snd].
  destruct st; try reflexivity.
  assert (E : f2add ZNum [p] (f2mul ZNum [p] (f2mul ZNum [p] (f2Z M x) (f2Z M x)) (f2Z M x)) (b2 ZNum)
              = f2Z M (f2add M p (f2mul M p (f2mul M p x x) x) (b2 M))).
  { rewrite (f2add_refine M OK), !(f2mul_refine M OK). unfold b2, f2Z. cbn [fst snd]. now rewrite (ok_of_Z M OK). }
  rewrite E, <- (f2sqrt_refine M OK).
  destruct (f2sqrt M p _) as [y|]; cbn [opt2Z option_map]; [|reflexivity].
  rewrite <- (f2sign_refine M OK). unfold res_map. cbn [fst snd apt_map].
  destruct (Bool.eqb _ _); [reflexivity|now rewrite (f2neg_refine M OK)].
Qed.

Lemma e2_write_refine P : e2_write_bytes M P = e2_write_bytes ZNum (apt_map (f2Z M) P).
Proof.
  destruct P as [|x y]; [reflexivity|]. unfold e2_write_bytes. cbn [apt_map].
  unfold fp2_write_bytes, fp_write_bytes, f2Z at 2 3. cbn [fst snd].
  now rewrite !i2osp_refine, (f2sign_refine M OK).
Qed.

(* membership tests and the two Go decoders *)
Lemma to_j2_refine P : jmap (f2Z M) (to_j2 M p P) = to_j2 ZNum [p] (apt_map (f2Z M) P).
Proof.
  destruct P as [|x y]; cbn [to_j2 apt_map].
  - apply (jinf_hom _ _ _ (fp2_hom M OK p)).
  - unfold of_affine, jmap. cbn [jx jy jz]. now rewrite (h_one _ _ _ (fp2_hom M OK p)).
Qed.

Lemma e2_in_G2_refine P : e2_in_G2 M p P = e2_in_G2 ZNum [p] (jmap (f2Z M) P).
Proof.
  unfold e2_in_G2. rewrite (jis_inf_hom _ _ _ (fp2_hom M OK p)).
  now rewrite (jmul_hom _ _ _ (fp2_hom M OK p)).
Qed.

Lemma e1_in_G1_refine P : e1_in_G1 M p P = e1_in_G1 ZNum [p] (jmap (n_to_Z M) P).
Proof.
  unfold e1_in_G1. rewrite (jis_inf_hom _ _ _ (fp_hom M OK p)).
  now rewrite (jmul_hom _ _ _ (fp_hom M OK p)).
Qed.

Theorem decode_public_key_refine b :
  option_map (apt_map (f2Z M)) (decode_public_key M p b) = decode_public_key ZNum [p] b.
Proof.
  unfold decode_public_key. destruct (negb _); [reflexivity|].
  rewrite <- e2_read_refine. destruct (e2_read_bytes M p b) as [st P]. unfold res_map. cbn [fst snd].
  destruct st; try reflexivity.
  rewrite <- to_j2_refine, <- e2_in_G2_refine. destruct (e2_in_G2 M p _); reflexivity.
Qed.

Theorem decode_private_key_refine b :
  option_map (n_to_Z M) (decode_private_key M r b) = decode_private_key ZNum [r] b.
Proof.
  unfold decode_private_key. destruct (negb _); [reflexivity|].
  rewrite <- fr_star_read_refine. destruct (fr_star_read_bytes M r b) as [st v]. unfold res_map. cbn [fst snd].
  destruct st; reflexivity.
Qed.
End CodecRefine.

(* ------------------------------------------------------------------ the executed instance *)
(* What the correspondence runs evaluate (BigZ carrier, [pB], [rB]) is, through BigZ.to_Z, what the
   theorems of Proofs/CodecProofs.v and CodecE2Proofs.v are about. *)
Lemma rB_ok : BigZ.to_Z rB = rZ.
Proof. vm_compute. reflexivity. Qed.

Theorem bigZ_decode_private_key b :
  option_map BigZ.to_Z (decode_private_key BNum rB b) = decode_private_key ZNum rZ b.
Proof. pose proof (decode_private_key_refine BNum BNum_ok rB b) as H. cbn [n_to_Z BNum] in H. rewrite rB_ok in H. exact H. Qed.

Theorem bigZ_decode_public_key b :
  option_map (apt_map (f2Z BNum)) (decode_public_key BNum pB b) = decode_public_key ZNum pZ b.
Proof. pose proof (decode_public_key_refine BNum BNum_ok pB b) as H. cbn [n_to_Z BNum] in H. rewrite pB_ok in H. exact H. Qed.

Theorem bigZ_e1_read b :
  res_map (apt_map BigZ.to_Z) (e1_read_bytes BNum pB b) = e1_read_bytes ZNum pZ b.
Proof. pose proof (e1_read_refine BNum BNum_ok pB b) as H. cbn [n_to_Z BNum] in H. rewrite pB_ok in H. exact H. Qed.

Theorem bigZ_e2_read b :
  res_map (apt_map (f2Z BNum)) (e2_read_bytes BNum pB b) = e2_read_bytes ZNum pZ b.
Proof. pose proof (e2_read_refine BNum BNum_ok pB b) as H. cbn [n_to_Z BNum] in H. rewrite pB_ok in H. exact H. Qed.

Theorem bigZ_e1_write P : e1_write_bytes BNum P = e1_write_bytes ZNum (apt_map BigZ.to_Z P).
Proof. exact (e1_write_refine BNum BNum_ok P). Qed.
Theorem bigZ_e2_write P : e2_write_bytes BNum P = e2_write_bytes ZNum (apt_map (f2Z BNum) P).
Proof. exact (e2_write_refine BNum BNum_ok P). Qed.

(* ---- the C05 statements on the executed (BigZ) model ---- *)
From V Require Import Lib.FermatZ Proofs.BytesZ Proofs.CodecProofs Proofs.CodecE2Proofs.

Theorem bigZ_public_key_canonical : primeZ pZ ->
  forall b P, wf b -> decode_public_key BNum pB b = Some P -> e2_write_bytes BNum P = b.
Proof.
  intros Hpr b P Hw H. pose proof (bigZ_decode_public_key b) as R. rewrite H in R. cbn [option_map] in R.
  rewrite bigZ_e2_write. symmetry in R.
  exact (proj1 (proj2 (pk_decode_canonical Hpr b _ Hw R))).
Qed.

Theorem bigZ_e1_canonical : primeZ pZ ->
  forall b P, wf b -> e1_read_bytes BNum pB b = (VALID, P) -> e1_write_bytes BNum P = b.
Proof.
  intros Hpr b P Hw H. pose proof (bigZ_e1_read b) as R. rewrite H in R. unfold res_map in R. cbn [fst snd] in R.
  rewrite bigZ_e1_write. symmetry in R. exact (e1_decode_canonical Hpr b _ Hw R).
Qed.

Theorem bigZ_private_key_accepts_iff :
  forall b v, wf b -> decode_private_key BNum rB b = Some v ->
    List.length b = 32%nat /\ BigZ.to_Z v = osZ b /\ 1 <= BigZ.to_Z v < rZ.
Proof.
  intros b v Hw H. pose proof (bigZ_decode_private_key b) as R. rewrite H in R. cbn [option_map] in R.
  symmetry in R. exact (proj1 (sk_accepts_iff b _ Hw) R).
Qed.
