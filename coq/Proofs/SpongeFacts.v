(* Generic facts used by the C13 proofs: byte/lane helpers, the FIPS 202 absorb
   function over an arbitrary permutation, Go slice/copy helpers of Model/Hashers.v. *)
From Coq Require Import ZArith NArith List Bool Arith Lia.
From V Require Import Lib.ListX Prim.Keccak Spec.HashSpec Model.Hashers.
Import ListNotations.
Local Open Scope nat_scope.

(* ---------- small list facts ---------- *)
Lemma repeat_snoc {A} (x : A) n : repeat x (S n) = repeat x n ++ [x].
Proof. induction n as [|n IH]; [reflexivity|]. cbn [repeat app] in *. now rewrite <- IH. Qed.

Lemma firstn_app_exact2 {A} (a b c : list A) n :
  length a + length b = n -> firstn n (a ++ b ++ c) = a ++ b.
Proof. intro H. rewrite app_assoc. apply firstn_app_exact. now rewrite app_length. Qed.

Lemma skipn_app_exact2 {A} (a b c : list A) n :
  length a + length b = n -> skipn n (a ++ b ++ c) = c.
Proof. intro H. rewrite app_assoc. apply skipn_app_exact. now rewrite app_length. Qed.

Lemma flat_map_length8 {A} (g : A -> list N) l :
  (forall x, length (g x) = 8) -> length (flat_map g l) = 8 * length l.
Proof.
  intro H. induction l as [|x l IH]; [reflexivity|].
  cbn [flat_map length]. rewrite app_length, H, IH. lia.
Qed.

Lemma state_bytes_length s : length (state_bytes s) = 200.
Proof.
  unfold state_bytes. rewrite flat_map_length8 by (intro; reflexivity).
  rewrite seq_length. reflexivity.
Qed.

(* ---------- chunks8 ---------- *)
Lemma chunks8_length_aux n : forall l, length l <= n -> length (chunks8 l) = length l / 8.
Proof.
  induction n as [|n IH]; intros l H.
  - destruct l; [reflexivity|cbn [length] in H; lia].
  - do 8 (destruct l as [|? l]; [reflexivity|]).
    cbn [chunks8 length] in *. rewrite IH by lia.
    replace (S (S (S (S (S (S (S (S (length l)))))))) ) with (1 * 8 + length l) by lia.
    rewrite Nat.div_add_l by lia. lia.
Qed.

Lemma chunks8_length l : length (chunks8 l) = length l / 8.
Proof. apply (chunks8_length_aux (length l)). lia. Qed.

(* ---------- xorIn on a full block ---------- *)
Definition rate_ok (r : nat) : Prop := r = 104 \/ r = 136.

Lemma maxRate_val : maxRate = 136. Proof. reflexivity. Qed.

Lemma rate_ok_bounds r : rate_ok r -> 0 < r /\ r <= maxRate.
Proof. rewrite maxRate_val. intros [->| ->]; lia. Qed.
Lemma bufNil_val : bufNilValue = (-1)%Z. Proof. reflexivity. Qed.

Lemma xorIn_unaligned_block a b :
  rate_ok (length b) -> xorIn_unaligned a b = Ok (xor_block a b).
Proof.
  intros [H|H]; unfold xorIn_unaligned, xor_block; rewrite H.
  - change (Nat.eqb 104 0) with false. change (Nat.ltb (maxRate / 8) (104 / 8)) with false.
    change (Nat.ltb (104 / 8) 13) with false. change (Nat.leb 136 104) with false.
    cbv iota. rewrite app_nil_r.
    assert (L : length (chunks8 b) = 13) by (rewrite chunks8_length, H; reflexivity).
    change (104 / 8) with 13.
    rewrite (@firstn_all2 _ _ (chunks8 b)) by lia.
    rewrite (@firstn_all2 _ _ (chunks8 b)) by lia. reflexivity.
  - change (Nat.eqb 136 0) with false. change (Nat.ltb (maxRate / 8) (136 / 8)) with false.
    change (Nat.ltb (136 / 8) 13) with false. change (Nat.leb 136 136) with true.
    cbv iota.
    assert (L : length (chunks8 b) = 17) by (rewrite chunks8_length, H; reflexivity).
    change (136 / 8) with 17.
    rewrite (@firstn_all2 _ _ (chunks8 b)) by lia.
    rewrite (firstn_all2 (n := 4)) by (rewrite skipn_length; lia).
    rewrite firstn_skipn. reflexivity.
Qed.

Lemma xorIn_generic_block a b :
  rate_ok (length b) -> xorIn_generic a b = xorIn_unaligned a b.
Proof.
  intro H. rewrite xorIn_unaligned_block by exact H.
  unfold xorIn_generic, xor_block. rewrite firstn_all2; [reflexivity|].
  rewrite chunks8_length. lia.
Qed.

(* ---------- copyOut = Trunc ---------- *)
Lemma copyOut_short n a : n <= maxRate -> copyOut n a = firstn n (state_bytes a).
Proof.
  intro H. unfold copyOut.
  assert (L : length (firstn maxRate (state_bytes a)) = maxRate).
  { rewrite firstn_length, state_bytes_length. vm_compute. reflexivity. }
  rewrite L. replace (n - maxRate) with 0 by lia. cbn [repeat]. rewrite app_nil_r.
  rewrite firstn_firstn. now rewrite Nat.min_l by lia.
Qed.

(* ---------- Go slice / copy helpers ---------- *)
Lemma go_slice_prefix l r :
  r <= length l -> go_slice l 0 (0 + Z.of_nat r) = Ok (firstn r l).
Proof.
  intro H. unfold go_slice, zlen. rewrite Z.add_0_l.
  replace ((0 <=? 0)%Z && (0 <=? Z.of_nat r)%Z && (Z.of_nat r <=? Z.of_nat (length l))%Z) with true.
  - rewrite Z.sub_0_r, Nat2Z.id. reflexivity.
  - symmetry. rewrite !andb_true_iff. repeat split; apply Z.leb_le; lia.
Qed.

Lemma splice_app (a t src : list N) off :
  length a = off -> length src <= length t ->
  splice (a ++ t) off src = a ++ src ++ skipn (length src) t.
Proof.
  intros Ha Hs. unfold splice. rewrite app_length.
  replace (length a + length t - off) with (length t) by lia.
  rewrite Nat.min_l by lia.
  rewrite firstn_app_exact by exact Ha.
  rewrite firstn_all.
  rewrite skipn_app. rewrite skipn_all2 by lia.
  replace (off + length src - length a) with (length src) by lia. reflexivity.
Qed.

Lemma split_at_prefix (st rest : list N) :
  firstn (length rest) st = rest -> st = rest ++ skipn (length rest) st.
Proof. intro H. rewrite <- H at 1. symmetry. apply firstn_skipn. Qed.

(* ---------- absorb over an arbitrary permutation ---------- *)
Section Absorb.
  Variable f : list N -> list N.
  Variable rate : nat.
  Hypothesis rate_pos : 0 < rate.

  Lemma absorb_f_enough n : forall m st P,
    length P <= n -> length P <= m -> absorb_f f rate n st P = absorb_f f rate m st P.
  Proof.
    induction n as [|n IH]; intros m st P Hn Hm.
    - destruct P; [|cbn [length] in Hn; lia]. destruct m; reflexivity.
    - destruct P as [|x P]; [destruct m; reflexivity|].
      destruct m as [|m]; [cbn [length] in Hm; lia|].
      cbn [absorb_f]. apply IH.
      + rewrite skipn_length. cbn [length] in *. lia.
      + rewrite skipn_length. cbn [length] in *. lia.
  Qed.

  Lemma absorb_nil st : absorb f rate st [] = st.
  Proof. reflexivity. Qed.

  Lemma absorb_block st b q :
    length b = rate -> absorb f rate st (b ++ q) = absorb f rate (f (xor_block st b)) q.
  Proof.
    intro Hb. unfold absorb.
    destruct b as [|x b]; [cbn [length] in Hb; lia|].
    cbn [app length absorb_f].
    change (x :: b ++ q) with ((x :: b) ++ q).
    rewrite firstn_app_exact by exact Hb. rewrite skipn_app_exact by exact Hb.
    apply absorb_f_enough; [rewrite app_length|]; lia.
  Qed.

  Lemma absorb_app_mult k : forall st pre q,
    length pre = k * rate -> absorb f rate st (pre ++ q) = absorb f rate (absorb f rate st pre) q.
  Proof.
    induction k as [|k IH]; intros st pre q H.
    - destruct pre; [reflexivity|cbn [length] in H; lia].
    - assert (Hb : length (firstn rate pre) = rate) by (rewrite firstn_length; lia).
      assert (Hp : length (skipn rate pre) = k * rate) by (rewrite skipn_length; lia).
      rewrite <- (firstn_skipn rate pre).
      generalize dependent (skipn rate pre). generalize dependent (firstn rate pre).
      intros b Hb p' Hp.
      rewrite <- app_assoc. rewrite (absorb_block st b (p' ++ q)) by exact Hb.
      rewrite (absorb_block st b p') by exact Hb.
      apply IH. exact Hp.
  Qed.

  Lemma absorb_last_block st pre b k :
    length pre = k * rate -> length b = rate ->
    absorb f rate st (pre ++ b) = f (xor_block (absorb f rate st pre) b).
  Proof.
    intros Hp Hb. rewrite (absorb_app_mult k) by exact Hp.
    rewrite <- (app_nil_r b) at 1. rewrite absorb_block by exact Hb. reflexivity.
  Qed.

  Lemma squeeze_short st n : n <= rate -> squeeze f rate st n = firstn n (state_bytes st).
  Proof.
    intro H. unfold squeeze. cbn [squeeze_f].
    replace (Nat.leb n rate) with true by (symmetry; apply Nat.leb_le; exact H).
    rewrite firstn_firstn. now rewrite Nat.min_l by lia.
  Qed.
End Absorb.

(* ---------- padding length ---------- *)
Lemma pad101_length r ds m : 0 < r -> length (pad101 r ds m) = r - Nat.modulo m r.
Proof.
  intro Hr. unfold pad101.
  assert (Nat.modulo m r < r) by (apply Nat.mod_upper_bound; lia).
  destruct (Nat.eqb_spec (r - Nat.modulo m r) 1) as [E|E].
  - rewrite E. reflexivity.
  - cbn [length]. rewrite app_length, repeat_length. cbn [length]. lia.
Qed.
