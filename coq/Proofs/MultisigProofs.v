(* C02: aggregate verification equals the pairing-product definition. *)
From Coq Require Import ZArith NArith List Bool String Ring Permutation Lia.
From V Require Import Lib.Hex Spec.Bilinear Generated.Guards Generated.Consts Model.BlsAbs Model.AggAbs Model.MultisigAbs
  Proofs.BlsProofs Proofs.AggProofs.
Import ListNotations.
Open Scope string_scope.
Open Scope list_scope.

Lemma multisig_c_skeletons :
  skel_bls_core_bls_verifyPerDistinctMessage =
    [Guard "E1_read_bytes("; Guard "E1_in_G1("; Call "BLS12_381_minus_g2"; Call "map_to_G1("; Call "E2_sum_vector(";
     Call "Fp12_multi_pairing("; Guard "Fp12_is_one("] /\
  skel_bls_core_bls_verifyPerDistinctKey =
    [Guard "E1_read_bytes("; Guard "E1_in_G1("; Call "BLS12_381_minus_g2"; Call "map_to_G1("; Call "E1_sum_vector(";
     Call "Fp12_multi_pairing("; Guard "Fp12_is_one("].
Proof. split; reflexivity. Qed.

Lemma return_counts_multisig :
  (nret_bls_core_bls_verifyPerDistinctMessage, nret_bls_core_bls_verifyPerDistinctKey) = (1, 1)%nat.
Proof. reflexivity. Qed.

Section Proofs.
Context {B : bilinear} {C : codecs}.
Add Ring FRing6 : Fring.
Variable Hc : list N -> E1.
Hypothesis Hc_G1 : forall h, inG1 (Hc h) = true.

Definition eta (h : list N) : F := fst (Hc h).
Lemma Hc_eta h : Hc h = (eta h, t1_0).
Proof. destruct (proj1 (inG1_iff (Hc h)) (Hc_G1 h)) as [a E]. unfold eta. rewrite E. reflexivity. Qed.

(* ---- sums of subgroup elements ---- *)
Definition allG2 (l : list E2) : Prop := Forall (fun P => snd P = t2_0) l.
Lemma sum2_G2 l : allG2 l -> sum2 l = (fsum (map fst l), t2_0).
Proof.
  induction 1 as [|P l HP _ IH]; [reflexivity|].
  rewrite sum2_cons, IH. cbn [map]. rewrite fsum_cons. destruct P as [a t]. cbn [snd] in HP. subst t.
  cbn [fst]. apply add2_G.
Qed.
Lemma sum1_Hc hs : sum1 (map Hc hs) = (fsum (map eta hs), t1_0).
Proof.
  induction hs as [|h l IH]; [reflexivity|]. cbn [map]. rewrite sum1_cons, IH, fsum_cons, Hc_eta. apply add1_G.
Qed.

(* ---- valuations of the two kinds of groups ---- *)
Definition vh (g : list N * list E2) : F := fmul (eta (fst g)) (fsum (map fst (snd g))).
Definition vk (g : pkrep * list (list N)) : F := fmul (fsum (map eta (snd g))) (fst (fst (fst g))).
Definition wf_h (m : list (list N * list E2)) : Prop := Forall (fun g => allG2 (snd g)) m.
Definition wf_k (m : list (pkrep * list (list N))) : Prop := Forall (fun g => snd (fst (fst g)) = t2_0) m.


Lemma insert_hash_val h P m :
  fsum (map vh (insert_hash h P m)) = fadd (fsum (map vh m)) (fmul (eta h) (fst P)).
Proof.
  induction m as [|[h' l] r IH]; cbn [insert_hash map].
  - rewrite !fsum_cons, !fsum_nil. unfold vh. cbn [fst snd map]. rewrite fsum_cons, fsum_nil. ring.
  - destruct (bytes_eqb h h') eqn:E; cbn [map]; rewrite !fsum_cons.
    + apply bytes_eqb_eq in E. subst h'. unfold vh at 1 3. cbn [fst snd]. rewrite map_app, fsum_app.
      cbn [map]. rewrite fsum_cons, fsum_nil. ring.
    + rewrite IH. ring.
Qed.
Lemma insert_hash_wf h P m : snd P = t2_0 -> wf_h m -> wf_h (insert_hash h P m).
Proof.
  intros HP. induction 1 as [|[h' l] r Hg Hr IH]; cbn [insert_hash].
  - repeat constructor. exact HP.
  - destruct (bytes_eqb h h').
    + constructor; [|exact Hr]. cbn [snd] in *. apply Forall_app. split; [exact Hg|]. repeat constructor. exact HP.
    + constructor; [exact Hg|exact IH].
Qed.

Lemma pkrep_eqb_fst k k' : pkrep_eqb k k' = true -> fst (fst k) = fst (fst k').
Proof.
  unfold pkrep_eqb, eq2. intro H. apply andb_prop in H as [H _]. apply andb_prop in H as [H _].
  now apply feqb_eq in H.
Qed.
Lemma insert_pk_val k h m :
  fsum (map vk (insert_pk k h m)) = fadd (fsum (map vk m)) (fmul (eta h) (fst (fst k))).
Proof.
  induction m as [|[k' l] r IH]; cbn [insert_pk map].
  - rewrite !fsum_cons, !fsum_nil. unfold vk. cbn [fst snd map]. rewrite fsum_cons, fsum_nil. ring.
  - destruct (pkrep_eqb k k') eqn:E; cbn [map]; rewrite !fsum_cons.
    + apply pkrep_eqb_fst in E. unfold vk at 1 3. cbn [fst snd]. rewrite map_app, fsum_app.
      cbn [map]. rewrite fsum_cons, fsum_nil. rewrite E. ring.
    + rewrite IH. ring.
Qed.
Lemma insert_pk_wf k h m : snd (fst k) = t2_0 -> wf_k m -> wf_k (insert_pk k h m).
Proof.
  intros HP. induction 1 as [|[k' l] r Hg Hr IH]; cbn [insert_pk].
  - repeat constructor. exact HP.
  - destruct (pkrep_eqb k k'); constructor; assumption.
Qed.

(* ---- the two C procedures on well-formed groups ---- *)
Lemma pair_terms_h groups : wf_h groups ->
  map pair_term (map (fun g => (Hc (fst g), sum2 (snd g))) groups) = map vh groups.
Proof.
  induction 1 as [|g r Hg _ IH]; [reflexivity|]. cbn [map]. rewrite IH. f_equal.
  rewrite (sum2_G2 _ Hg), Hc_eta. apply pair_term_G.
Qed.
Lemma pair_terms_k groups : wf_k groups ->
  map pair_term (map (fun g => (sum1 (map Hc (snd g)), fst (fst g))) groups) = map vk groups.
Proof.
  induction 1 as [|g r Hg _ IH]; [reflexivity|]. cbn [map]. rewrite IH. f_equal.
  rewrite sum1_Hc. destruct g as [[[x t] rep] l]. cbn [fst snd] in *. subst t. apply pair_term_G.
Qed.

Lemma read_sig_spec b s : c_read_sig b = Some s <-> exists sg, s = (sg, t1_0) /\ b = enc1 (sg, t1_0).
Proof.
  unfold c_read_sig. split.
  - destruct (dec1 b) as [P|] eqn:D; [|discriminate]. destruct (inG1 P) eqn:G; [|discriminate].
    intro E. injection E as <-. apply inG1_iff in G as [sg ->]. exists sg. split; [reflexivity|].
    symmetry. now apply dec1_canonical.
  - intros (sg & -> & ->). rewrite dec1_enc1.
    replace (inG1 (sg, t1_0)) with true by (symmetry; apply inG1_iff; eauto). reflexivity.
Qed.

Lemma mp_cons sg (pairs : list (E1 * E2)) :
  multi_pairing_is_one (((sg, t1_0), neg_g2) :: pairs) = feqb (fsum (map pair_term pairs)) sg.
Proof.
  unfold multi_pairing_is_one. cbn [map]. rewrite fsum_cons. unfold neg_g2.
  replace (pair_term ((sg, t1_0), (fopp f1, t2_0))) with (fmul sg (fopp f1)) by (symmetry; apply pair_term_G).
  set (S := fsum (map pair_term pairs)).
  destruct (feqb_spec S sg) as [E|E].
  - apply feqb_eq. rewrite E. ring.
  - destruct (feqb_spec (fadd (fmul sg (fopp f1)) S) f0) as [E2|E2]; [|reflexivity].
    exfalso. apply E. replace S with (fadd (fadd (fmul sg (fopp f1)) S) sg) by ring. rewrite E2. ring.
Qed.

Lemma per_message_spec b groups : wf_h groups ->
  per_distinct_message Hc b groups = true <-> b = enc1 (fsum (map vh groups), t1_0).
Proof.
  intro W. unfold per_distinct_message. split.
  - destruct (c_read_sig b) as [s|] eqn:R; [|discriminate].
    apply read_sig_spec in R as (sg & -> & ->). rewrite mp_cons, pair_terms_h by exact W.
    intro E. apply feqb_eq in E. now rewrite E.
  - intros ->. assert (R : c_read_sig (enc1 (fsum (map vh groups), t1_0)) = Some (fsum (map vh groups), t1_0))
      by (apply read_sig_spec; eauto).
    rewrite R, mp_cons, pair_terms_h by exact W. apply feqb_refl.
Qed.
Lemma per_key_spec b groups : wf_k groups ->
  per_distinct_key Hc b groups = true <-> b = enc1 (fsum (map vk groups), t1_0).
Proof.
  intro W. unfold per_distinct_key. split.
  - destruct (c_read_sig b) as [s|] eqn:R; [|discriminate].
    apply read_sig_spec in R as (sg & -> & ->). rewrite mp_cons, pair_terms_k by exact W.
    intro E. apply feqb_eq in E. now rewrite E.
  - intros ->. assert (R : c_read_sig (enc1 (fsum (map vk groups), t1_0)) = Some (fsum (map vk groups), t1_0))
      by (apply read_sig_spec; eauto).
    rewrite R, mp_cons, pair_terms_k by exact W. apply feqb_refl.
Qed.

(* ---- inputs: (private scalar, representation tag, hasher output) ---- *)
Definition input : Type := (F * N * list N)%type.
Definition mk_triple (x : input) : triple :=
  {| t_pk := Some (public_key (fst (fst x)), snd (fst x)); t_hasher := good_hasher; t_hash := snd x |}.
Definition logsum (xs : list input) : F := fsum (map (fun x => fmul (eta (snd x)) (fst (fst x))) xs).
Definition all_nonzero (xs : list input) : Prop := Forall (fun x => fst (fst x) <> f0) xs.

Lemma classic_nz xs : all_nonzero xs \/ ~ all_nonzero xs.
Proof.
  induction xs as [|x l [IH|IH]].
  - left. constructor.
  - destruct (feqb_spec (fst (fst x)) f0) as [E|E].
    + right. intro H. inversion H; subst. contradiction.
    + left. constructor; assumption.
  - right. intro H. inversion H; subst. contradiction.
Qed.

Lemma check_hashers_good xs : check_hashers (map mk_triple xs) = None.
Proof. induction xs as [|x l IH]; cbn [map check_hashers]; [reflexivity|]. cbn [mk_triple t_hasher]. now rewrite check_good. Qed.

Lemma build_maps_spec xs : forall mh mk, wf_h mh -> wf_k mk ->
  (all_nonzero xs ->
     exists mh' mk', build_maps (map mk_triple xs) mh mk = Some (Some (mh', mk')) /\ wf_h mh' /\ wf_k mk' /\
       fsum (map vh mh') = fadd (fsum (map vh mh)) (logsum xs) /\
       fsum (map vk mk') = fadd (fsum (map vk mk)) (logsum xs)) /\
  (~ all_nonzero xs -> build_maps (map mk_triple xs) mh mk = Some None).
Proof.
  induction xs as [|[[sk rep] h] l IH]; intros mh mk Wh Wk.
  - split.
    + intros _. exists mh, mk. unfold logsum. cbn [map build_maps]. rewrite fsum_nil. repeat split; auto; ring.
    + intro Hn. exfalso. apply Hn. constructor.
  - cbn [map build_maps mk_triple t_pk t_hash public_key pk_is_identity pk_point fst snd].
    destruct (feqb_spec sk f0) as [E0|E0].
    + split; [|reflexivity]. intro Ha. inversion Ha as [|? ? Hx _]; subst. cbn [fst] in Hx. contradiction.
    + assert (P : snd (pk_of sk) = t2_0) by (rewrite pk_of_G; reflexivity).
      destruct (IH (insert_hash h (pk_of sk) mh) (insert_pk (pk_of sk, rep) h mk)
                   (insert_hash_wf _ _ _ P Wh) (insert_pk_wf (pk_of sk, rep) h mk P Wk)) as [IH1 IH2].
      split.
      * intro Ha. inversion Ha as [|? ? _ Hl]; subst.
        destruct (IH1 Hl) as (mh' & mk' & E & W1 & W2 & S1 & S2).
        exists mh', mk'. repeat split; try assumption.
        -- rewrite S1, insert_hash_val. unfold logsum. cbn [map]. rewrite fsum_cons. cbn [fst snd].
           rewrite pk_of_G. cbn [fst]. ring.
        -- rewrite S2, insert_pk_val. unfold logsum. cbn [map]. rewrite fsum_cons. cbn [fst snd].
           rewrite pk_of_G. cbn [fst]. ring.
      * intro Hn. apply IH2. intro Hl. apply Hn. constructor; [exact E0|exact Hl].
Qed.

(* the signature the whole list should carry: sum of sk_i * H_i *)
Definition expected_sig (xs : list input) : E1 := sum1 (map (fun x => smul1 (fst (fst x)) (Hc (snd x))) xs).
Lemma expected_sig_log xs : expected_sig xs = (logsum xs, t1_0).
Proof.
  unfold expected_sig, logsum. induction xs as [|x l IH]; [reflexivity|].
  cbn [map]. rewrite sum1_cons, IH, fsum_cons, Hc_eta, smul1_G, add1_G. f_equal. ring.
Qed.

Definition run (xs : list input) (b : list N) sigma_h sigma_k : mres :=
  verify_many_messages Hc (List.length xs) (List.length xs) (List.length xs) (map mk_triple xs) b sigma_h sigma_k.

(* THE statement of C02 for VerifyBLSSignatureManyMessages: for any iteration orders of the two maps *)
Theorem many_messages_iff xs b sigma_h sigma_k :
  xs <> [] ->
  (forall m, Permutation (sigma_h m) m) -> (forall m, Permutation (sigma_k m) m) ->
  (run xs b sigma_h sigma_k = MBool true <-> (all_nonzero xs /\ b = enc1 (expected_sig xs))).
Proof.
  intros Hne Ph Pk. unfold run, verify_many_messages.
  assert (Ln : Nat.eqb (List.length xs) 0 = false) by (destruct xs; [congruence|reflexivity]).
  rewrite Ln, Nat.eqb_refl. cbn [negb orb]. rewrite check_hashers_good.
  destruct (build_maps_spec xs [] [] (Forall_nil _) (Forall_nil _)) as [B1 B2].
  rewrite expected_sig_log.
  split.
  - destruct (Nat.eqb (List.length b) _) eqn:Lb; cbn [negb]; [|discriminate].
    destruct (build_maps (map mk_triple xs) [] []) as [[[mh mk]|]|] eqn:Eb; try discriminate.
    assert (Ha : all_nonzero xs).
    { destruct (classic_nz xs) as [Ha|Hn]; [exact Ha|]. discriminate (B2 Hn). }
    destruct (B1 Ha) as (mh' & mk' & E & W1 & W2 & S1 & S2).
    inversion E; subst mh' mk'.
    cbn [map] in S1, S2. rewrite fsum_nil in S1, S2.
    destruct (Nat.ltb _ _); intro H; injection H as H; split; try exact Ha.
    + apply per_message_spec in H.
      * rewrite H. f_equal. f_equal. rewrite (fsum_perm _ _ (Permutation_map vh (Ph mh))). rewrite S1. ring.
      * eapply Permutation_Forall; [apply Permutation_sym, Ph|exact W1].
    + apply per_key_spec in H.
      * rewrite H. f_equal. f_equal. rewrite (fsum_perm _ _ (Permutation_map vk (Pk mk))). rewrite S2. ring.
      * eapply Permutation_Forall; [apply Permutation_sym, Pk|exact W2].
  - intros [Ha ->]. rewrite enc1_len, sig_len_eq, Nat.eqb_refl. cbn [negb].
    destruct (B1 Ha) as (mh' & mk' & E & W1 & W2 & S1 & S2). rewrite E.
    cbn [map] in S1, S2. rewrite fsum_nil in S1, S2.
    destruct (Nat.ltb _ _); f_equal.
    + apply per_message_spec.
      * eapply Permutation_Forall; [apply Permutation_sym, Ph|exact W1].
      * f_equal. f_equal. rewrite (fsum_perm _ _ (Permutation_map vh (Ph mh'))). rewrite S1. ring.
    + apply per_key_spec.
      * eapply Permutation_Forall; [apply Permutation_sym, Pk|exact W2].
      * f_equal. f_equal. rewrite (fsum_perm _ _ (Permutation_map vk (Pk mk'))). rewrite S2. ring.
Qed.

(* the verdict is always a boolean on such inputs *)
Lemma run_is_bool xs b sigma_h sigma_k : xs <> [] -> exists v, run xs b sigma_h sigma_k = MBool v.
Proof.
  intro Hne. unfold run, verify_many_messages.
  assert (Ln : Nat.eqb (List.length xs) 0 = false) by (destruct xs; [congruence|reflexivity]).
  destruct (negb _); [eauto|]. rewrite Ln, Nat.eqb_refl. cbn [negb orb]. rewrite check_hashers_good.
  destruct (build_maps_spec xs [] [] (Forall_nil _) (Forall_nil _)) as [B1 B2].
  destruct (classic_nz xs) as [Ha|Hn].
  - destruct (B1 Ha) as (mh' & mk' & E & _). rewrite E. destruct (Nat.ltb _ _); eauto.
  - rewrite (B2 Hn). eauto.
Qed.

(* order of the triples, repeated keys / messages / pairs, cancelling keys, and the choice of
   the internal grouping do not matter: any two runs on permuted inputs, with any map iteration
   orders, agree *)
Theorem many_messages_perm_invariant xs xs' b sh sk sh' sk' :
  xs <> [] -> Permutation xs xs' ->
  (forall m, Permutation (sh m) m) -> (forall m, Permutation (sk m) m) ->
  (forall m, Permutation (sh' m) m) -> (forall m, Permutation (sk' m) m) ->
  run xs b sh sk = run xs' b sh' sk'.
Proof.
  intros Hne Hp P1 P2 P3 P4.
  assert (Hne' : xs' <> []) by (intro; subst; apply Permutation_sym, Permutation_nil in Hp; congruence).
  destruct (run_is_bool xs b sh sk Hne) as [v Hv]. destruct (run_is_bool xs' b sh' sk' Hne') as [w Hw].
  rewrite Hv, Hw. f_equal.
  assert (I : (all_nonzero xs /\ b = enc1 (expected_sig xs)) <-> (all_nonzero xs' /\ b = enc1 (expected_sig xs'))).
  { assert (E : expected_sig xs = expected_sig xs').
    { unfold expected_sig. apply sum1_perm. now apply Permutation_map. }
    rewrite E. split; intros [A Q]; split; try exact Q.
    - unfold all_nonzero in *. eapply Permutation_Forall; eassumption.
    - unfold all_nonzero in *. eapply Permutation_Forall; [apply Permutation_sym|]; eassumption. }
  destruct v, w; try reflexivity.
  - apply (many_messages_iff xs b sh sk Hne P1 P2) in Hv. apply I in Hv.
    apply (many_messages_iff xs' b sh' sk' Hne' P3 P4) in Hv. congruence.
  - apply (many_messages_iff xs' b sh' sk' Hne' P3 P4) in Hw. apply I in Hw.
    apply (many_messages_iff xs b sh sk Hne P1 P2) in Hw. congruence.
Qed.

(* VerifyBLSSignatureOneMessage = Verify under the aggregated key *)
Theorem one_message_iff sks b hpt :
  sks <> [] -> inG1 hpt = true ->
  (verify_one_message (map (fun s => Some (public_key s)) sks) b good_hasher hpt = Some (VBool true)
   <-> (fsum sks <> f0 /\ b = enc1 (smul1 (fsum sks) hpt))).
Proof.
  intros Hne Hh. unfold verify_one_message.
  destruct (pk_of_agg_sk sks Hne) as (k & E1 & E2). rewrite E2.
  rewrite agg_sks_some in E1 by exact Hne. injection E1 as <-.
  split.
  - intro E. injection E as E. now apply verify_iff_canonical_sig in E.
  - intro E. f_equal. now apply verify_iff_canonical_sig.
Qed.

(* documented typed errors and early verdicts, in the order of the code *)
Theorem many_messages_errors n_pks n_msgs n_hashers ts b sh sk :
  (List.length b <> Z.to_nat crypto_SignatureLenBLSBLS12381 ->
     verify_many_messages Hc n_pks n_msgs n_hashers ts b sh sk = MBool false) /\
  (List.length b = Z.to_nat crypto_SignatureLenBLSBLS12381 -> n_pks = 0%nat ->
     verify_many_messages Hc n_pks n_msgs n_hashers ts b sh sk = MErrEmptyList) /\
  (List.length b = Z.to_nat crypto_SignatureLenBLSBLS12381 -> n_pks <> 0%nat -> (n_pks <> n_msgs \/ n_hashers <> n_msgs) ->
     verify_many_messages Hc n_pks n_msgs n_hashers ts b sh sk = MErrInvalidInputs).
Proof.
  unfold verify_many_messages. repeat split.
  - intro H. destruct (Nat.eqb_spec (List.length b) (Z.to_nat crypto_SignatureLenBLSBLS12381)); [contradiction|reflexivity].
  - intros H ->. rewrite H, Nat.eqb_refl. reflexivity.
  - intros H Hn Hd. rewrite H, Nat.eqb_refl. cbn [negb].
    destruct (Nat.eqb_spec n_pks 0); [contradiction|].
    destruct (Nat.eqb_spec n_pks n_msgs), (Nat.eqb_spec n_hashers n_msgs); cbn [negb orb]; try reflexivity.
    destruct Hd; contradiction.
Qed.
End Proofs.
