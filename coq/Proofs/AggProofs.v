(* C04: key and signature aggregation are mutually consistent homomorphisms. *)
From Coq Require Import ZArith NArith List Bool String Ring Permutation.
From V Require Import Spec.Bilinear Generated.Consts Model.BlsAbs Model.AggAbs Proofs.BlsProofs.
Import ListNotations.

Section Proofs.
Context {B : bilinear} {C : codecs}.
Add Ring FRing5 : Fring.

(* ---- sums ---- *)
Lemma fsum_nil : fsum [] = f0. Proof. reflexivity. Qed.
Lemma fsum_cons a l : fsum (a :: l) = fadd a (fsum l). Proof. reflexivity. Qed.
Lemma sum1_nil : sum1 [] = O1. Proof. reflexivity. Qed.
Lemma sum1_cons a l : sum1 (a :: l) = add1 a (sum1 l). Proof. reflexivity. Qed.
Lemma sum2_nil : sum2 [] = O2. Proof. reflexivity. Qed.
Lemma sum2_cons a l : sum2 (a :: l) = add2 a (sum2 l). Proof. reflexivity. Qed.
Lemma fsum_app l1 l2 : fsum (l1 ++ l2) = fadd (fsum l1) (fsum l2).
Proof. induction l1 as [|a l IH]; cbn [app]; rewrite ?fsum_cons, ?fsum_nil; [ring|]. rewrite IH. ring. Qed.
Lemma fsum_perm l l' : Permutation l l' -> fsum l = fsum l'.
Proof.
  induction 1; rewrite ?fsum_cons; try reflexivity.
  - now rewrite IHPermutation.
  - ring.
  - congruence.
Qed.
Lemma sum1_app l1 l2 : sum1 (l1 ++ l2) = add1 (sum1 l1) (sum1 l2).
Proof.
  induction l1 as [|a l IH]; cbn [app]; rewrite ?sum1_cons, ?sum1_nil; [now rewrite add1_O_l|].
  rewrite IH. apply add1_assoc.
Qed.
Lemma sum1_perm l l' : Permutation l l' -> sum1 l = sum1 l'.
Proof.
  induction 1; rewrite ?sum1_cons; try reflexivity.
  - now rewrite IHPermutation.
  - rewrite !add1_assoc. f_equal. apply add1_comm.
  - congruence.
Qed.
Lemma sum2_app l1 l2 : sum2 (l1 ++ l2) = add2 (sum2 l1) (sum2 l2).
Proof.
  induction l1 as [|a l IH]; cbn [app]; rewrite ?sum2_cons, ?sum2_nil; [now rewrite add2_O_l|].
  rewrite IH. apply add2_assoc.
Qed.
Lemma sum2_perm l l' : Permutation l l' -> sum2 l = sum2 l'.
Proof.
  induction 1; rewrite ?sum2_cons; try reflexivity.
  - now rewrite IHPermutation.
  - rewrite !add2_assoc. f_equal. apply add2_comm.
  - congruence.
Qed.

Lemma sum2_pks sks : sum2 (map pk_of sks) = pk_of (fsum sks).
Proof.
  induction sks as [|k l IH]; cbn [map]; rewrite ?sum2_cons, ?sum2_nil, ?fsum_cons, ?fsum_nil.
  - rewrite pk_of_G. reflexivity.
  - rewrite IH, !pk_of_G. apply add2_G.
Qed.
Lemma sum1_sigs h sks : inG1 h = true -> sum1 (map (fun k => smul1 k h) sks) = smul1 (fsum sks) h.
Proof.
  intro Hh. apply inG1_iff in Hh as [a ->].
  induction sks as [|k l IH]; cbn [map]; rewrite ?sum1_cons, ?sum1_nil, ?fsum_cons, ?fsum_nil.
  - rewrite smul1_G. unfold O1. f_equal. ring.
  - rewrite IH, !smul1_G, add1_G. f_equal. ring.
Qed.

Lemma all_bls_some {A} (l : list A) : all_bls (map Some l) = Some l.
Proof. induction l as [|a l IH]; cbn; [reflexivity|now rewrite IH]. Qed.

Lemma agg_sks_some l : l <> [] -> agg_sks (map Some l) = AOk (fsum l).
Proof.
  intro H. destruct l as [|a l0]; [congruence|]. unfold agg_sks. cbn [map all_bls].
  now rewrite all_bls_some.
Qed.
Lemma agg_pks_some ks : ks <> [] -> agg_pks (map Some ks) = AOk (mk_pubkey (sum2 (map pk_point ks))).
Proof.
  intro H. destruct ks as [|a l0]; [congruence|]. unfold agg_pks. cbn [map all_bls].
  now rewrite all_bls_some.
Qed.
Lemma map_nonempty {X Y} (f : X -> Y) l : l <> [] -> map f l <> [].
Proof. destruct l; [congruence|discriminate]. Qed.

(* ---- the homomorphisms ---- *)

(* public key of the aggregated private key = aggregate of the public keys, as key OBJECTS
   (point and cached identity flag) *)
Theorem pk_of_agg_sk sks : sks <> [] ->
  exists k, agg_sks (map Some sks) = AOk k /\
            agg_pks (map (fun s => Some (public_key s)) sks) = AOk (public_key k).
Proof.
  intro Hne. exists (fsum sks). split; [now apply agg_sks_some|].
  rewrite <- (map_map public_key Some). rewrite agg_pks_some by now apply map_nonempty.
  f_equal. rewrite map_map. cbn [pk_point public_key].
  change (map (fun x => pk_of x) sks) with (map pk_of sks).
  rewrite sum2_pks. symmetry. apply public_key_eq.
Qed.

Lemma decode_all_enc ps : decode_all (map enc1 ps) = Some ps.
Proof. induction ps as [|P l IH]; cbn [map decode_all]; [reflexivity|]. now rewrite dec1_enc1, IH. Qed.

Lemma all_len_enc ps :
  forallb (fun s => Nat.eqb (List.length s) (Z.to_nat crypto_SignatureLenBLSBLS12381)) (map enc1 ps) = true.
Proof.
  induction ps as [|P l IH]; cbn [map forallb]; [reflexivity|].
  rewrite IH, enc1_len, sig_len_eq, Nat.eqb_refl. reflexivity.
Qed.

(* aggregate of encodings = encoding of the sum (any E1 points, also outside G1) *)
Theorem agg_sigs_enc ps : ps <> [] -> agg_sigs (map enc1 ps) = AOk (enc1 (sum1 ps)).
Proof.
  intro Hne. unfold agg_sigs. destruct (map enc1 ps) eqn:Em.
  { destruct ps; [congruence|discriminate]. }
  rewrite <- Em. rewrite all_len_enc. cbn [negb]. now rewrite decode_all_enc.
Qed.

(* aggregate of the individual signatures = signature by the aggregated key *)
Theorem agg_sig_is_sig_of_agg_key sks h : sks <> [] -> inG1 h = true ->
  agg_sigs (map (fun k => snd (sign k good_hasher h)) sks) = AOk (snd (sign (fsum sks) good_hasher h)).
Proof.
  intros Hne Hh. unfold sign. rewrite check_good. cbn [snd].
  rewrite <- (map_map (fun k => smul1 k h) enc1).
  rewrite agg_sigs_enc by (destruct sks; [congruence|discriminate]).
  now rewrite sum1_sigs.
Qed.

(* order independence and nesting *)
Theorem agg_sks_perm l l' : Permutation l l' -> l <> [] ->
  agg_sks (map Some l) = agg_sks (map Some l').
Proof.
  intros Hp Hne. assert (Hne' : l' <> []) by (intro; subst; apply Permutation_sym, Permutation_nil in Hp; congruence).
  rewrite !agg_sks_some by assumption. f_equal. now apply fsum_perm.
Qed.

Theorem agg_sigs_perm ps ps' : Permutation ps ps' -> ps <> [] ->
  agg_sigs (map enc1 ps) = agg_sigs (map enc1 ps').
Proof.
  intros Hp Hne. assert (Hne' : ps' <> []) by (intro; subst; apply Permutation_sym, Permutation_nil in Hp; congruence).
  rewrite !agg_sigs_enc by assumption. f_equal. f_equal. now apply sum1_perm.
Qed.

Theorem agg_sigs_nesting ps1 ps2 : ps1 <> [] -> ps2 <> [] ->
  forall a1 a2, agg_sigs (map enc1 ps1) = AOk a1 -> agg_sigs (map enc1 ps2) = AOk a2 ->
  agg_sigs [a1; a2] = agg_sigs (map enc1 (ps1 ++ ps2)).
Proof.
  intros H1 H2 a1 a2 E1 E2. rewrite agg_sigs_enc in E1, E2 by assumption.
  injection E1 as <-. injection E2 as <-.
  change [enc1 (sum1 ps1); enc1 (sum1 ps2)] with (map enc1 [sum1 ps1; sum1 ps2]).
  rewrite !agg_sigs_enc; try discriminate.
  - f_equal. f_equal. rewrite sum1_app. cbn [sum1 fold_right]. f_equal.
    unfold add1, O1. destruct (sum1 ps2) as [a t]. cbn [fst snd]. f_equal; [ring|].
    rewrite t1_add_comm. apply t1_add_0_l.
  - destruct ps1; [congruence|discriminate].
Qed.

(* removing keys undoes aggregation (keys generated from scalars, hence in G2) *)
Theorem remove_undoes_agg A Bk : A <> [] -> Bk <> [] ->
  forall agg, agg_pks (map (fun s => Some (public_key s)) (A ++ Bk)) = AOk agg ->
  remove_pks (Some agg) (map (fun s => Some (public_key s)) Bk) =
  agg_pks (map (fun s => Some (public_key s)) A).
Proof.
  intros HA HB agg E.
  assert (R : forall l, map (fun s => Some (public_key s)) l = map Some (map public_key l)) by (intro; now rewrite map_map).
  assert (P : forall l, map pk_point (map public_key l) = map pk_of l) by (intro; rewrite map_map; reflexivity).
  rewrite R in E. rewrite agg_pks_some in E by (apply map_nonempty; destruct A; [congruence|discriminate]).
  injection E as <-. rewrite !R. rewrite agg_pks_some by now apply map_nonempty.
  unfold remove_pks. rewrite all_bls_some.
  destruct (map public_key Bk) eqn:Eb. { destruct Bk; [congruence|discriminate]. }
  rewrite <- Eb. f_equal. f_equal. unfold mk_pubkey at 1. cbn [pk_point].
  rewrite !P, !sum2_pks, fsum_app, !pk_of_G. unfold sub2. rewrite smul2_G, add2_G. f_equal. ring.
Qed.

Theorem remove_empty_is_same_object a : remove_pks (Some a) [] = AOk a.
Proof. reflexivity. Qed.

(* identity-cache invariant of every public-key constructor of this model *)
Theorem identity_cache_invariant :
  (forall sk, pk_is_identity (public_key sk) = is_O2 (pk_point (public_key sk))) /\
  (forall keys k, agg_pks keys = AOk k -> pk_is_identity k = is_O2 (pk_point k)) /\
  (forall a keys k, pk_is_identity a = is_O2 (pk_point a) -> remove_pks (Some a) keys = AOk k ->
                    pk_is_identity k = is_O2 (pk_point k)).
Proof.
  split; [|split].
  - intro sk. cbn [public_key pk_is_identity pk_point]. now rewrite is_O2_pk.
  - intros keys k. unfold agg_pks. destruct keys; [discriminate|]. destruct (all_bls _); [|discriminate].
    intro E. injection E as <-. reflexivity.
  - intros a keys k Ha. unfold remove_pks. destruct (all_bls keys) as [[|x l]|]; try discriminate.
    + intro E. injection E as <-. exact Ha.
    + intro E. injection E as <-. reflexivity.
Qed.

(* sums that hit the identity: identity key and identity signature encodings *)
Theorem cancelling_keys_give_identity sk :
  agg_pks [Some (public_key sk); Some (public_key (fopp sk))] = AOk identity_pk /\
  (forall h, inG1 h = true ->
   agg_sigs [enc1 (smul1 sk h); enc1 (smul1 (fopp sk) h)] = AOk identity_sig).
Proof.
  split.
  - change [Some (public_key sk); Some (public_key (fopp sk))] with (map Some [public_key sk; public_key (fopp sk)]).
    rewrite agg_pks_some by discriminate. f_equal. unfold identity_pk. f_equal.
    change (map pk_point [public_key sk; public_key (fopp sk)]) with (map pk_of [sk; fopp sk]).
    rewrite sum2_pks. rewrite pk_of_G. unfold O2. f_equal.
    rewrite !fsum_cons, fsum_nil. ring.
  - intros h Hh.
    change [enc1 (smul1 sk h); enc1 (smul1 (fopp sk) h)] with (map enc1 (map (fun k => smul1 k h) [sk; fopp sk])).
    rewrite agg_sigs_enc by discriminate. unfold identity_sig. f_equal. f_equal.
    rewrite sum1_sigs by exact Hh. apply inG1_iff in Hh as [a ->]. rewrite smul1_G. unfold O1. f_equal.
    rewrite !fsum_cons, fsum_nil. ring.
Qed.

(* documented errors *)
Theorem agg_errors :
  agg_sigs [] = AErr ErrEmptyList /\ agg_sks [] = AErr ErrEmptyList /\ agg_pks [] = AErr ErrEmptyList /\
  (forall l1 l2, agg_sks (l1 ++ None :: l2) = AErr ErrNotBLSKey \/ l1 ++ None :: l2 = []) /\
  (forall sigs b, List.length b <> Z.to_nat crypto_SignatureLenBLSBLS12381 -> In b sigs ->
                  agg_sigs sigs = AErr ErrInvalidSignature) /\
  (forall sigs b, dec1 b = None -> In b sigs -> agg_sigs sigs = AErr ErrInvalidSignature).
Proof.
  repeat split; try reflexivity.
  - intros l1 l2. left. unfold agg_sks.
    assert (E : all_bls (l1 ++ None :: l2) = (None : option (list F))).
    { induction l1 as [|[a|] l IH]; cbn [app all_bls]; try reflexivity. now rewrite IH. }
    rewrite E. destruct (l1 ++ None :: l2) eqn:Q; [|reflexivity]. destruct l1; discriminate.
  - intros sigs b Hl Hin. unfold agg_sigs. destruct sigs as [|s0 r]; [contradiction|].
    assert (F0 : forallb (fun s => Nat.eqb (List.length s) (Z.to_nat crypto_SignatureLenBLSBLS12381)) (s0 :: r) = false).
    { apply not_true_is_false. intro T. rewrite forallb_forall in T. specialize (T b Hin).
      apply Nat.eqb_eq in T. contradiction. }
    now rewrite F0.
  - intros sigs b Hd Hin. unfold agg_sigs. destruct sigs as [|s0 r]; [contradiction|].
    destruct (negb _); [reflexivity|].
    assert (E : decode_all (s0 :: r) = None).
    { revert Hin. generalize (s0 :: r). intro l. induction l as [|x l IH]; intro Hin; [contradiction|].
      cbn [decode_all]. destruct Hin as [->|Hin].
      - now rewrite Hd.
      - rewrite (IH Hin). destruct (dec1 x); reflexivity. }
    now rewrite E.
Qed.
End Proofs.
